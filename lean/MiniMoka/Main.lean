import MiniMoka.Driver
def main (args : List String) : IO UInt32 := MiniMoka.Driver.main args
