/-
  C08 / C10 / C11 / C04 (count) for `sync::Cache` under ALL interleavings of any number of
  threads, at the granularity of `MiniMoka/ConcS.lean`: per-key map step / atomic maintenance
  run / enqueue.  (What that granularity leaves out is listed at the head of that file: above
  all, map steps of other threads *inside* a maintenance run.)

  PROVED in full, for every configuration of the current code (`NoQuirks`, `SmallSketch`) and
  every state reachable by any finite sequence of steps of any number of threads (`Reach p c`):
   * `ConcS_inv` (C08 and the invariant behind everything else): no fault (no use-after-free,
     no counter underflow, no `expect` / `unreachable`), the node-ownership invariant
     `NodesInvTop`, the map invariant `MapOK`, no maintenance run in progress between steps, both
     queues within their channel capacity, and the counters invariant `CTop` for the logical
     queue `write queue ++ write operations held by threads` (in any order: `CInv` is
     membership-based).  The one-thread bound "queues at most at their flush points" (`QInv`,
     part of `TInv`) does NOT hold with several threads and is replaced by the channel
     capacities.
   * `ConcS_C10_quiescent`: when no thread holds an operation and the write queue is empty, the
     snapshot satisfies `snapCountersOk`; `ConcS_C10_after_maint`: in particular right after a
     `maint` or `sync` step taken while nobody holds a write operation.
   * `ConcS_C04_overshoot`: always
     `|map| ≤ entry_count + |write queue| + (number of threads holding a write operation)`.
   * `ConcS_C11_quiescent`: `liveOk` when nobody holds an operation (then, with both queues empty,
     live keys = live values = entries); `liveBounded` at every reachable state.
   * `ConcS_C04_weight_after_maint`: after a maintenance run taken when nobody holds a write
     operation, the weighted size is within the capacity or a full eviction batch was removed.
   * `ConcS_refines_Sync`: every API call of the one-thread model `Sync.step` is a path of this
     system run by one thread (`insMap ; [maint] ; enq`, …; `maint` exactly when `should_apply`
     says so), so the one-thread traces are among the interleavings; `ConcS_refines_Sync_history`
     lifts it to histories.
  Machine-checked interleavings at the end (`decide +kernel`): the inverted queue of defect D10
  produced by two threads (exact on the current code, inexact with `d10 := true`), and a
  maintenance run while three threads hold operations.
-/
import MiniMoka.Lemmas.ConcS
import MiniMoka.Props.C10Sync

namespace MiniMoka
namespace Props

open Sync Sync.Nodes Sync.Counters ConcS

/-- C08 for all interleavings, and the invariant of the reachable states. -/
theorem ConcS_inv (p : Params) (hq : Sync.NoQuirks p) (hsm : SmallSketch p) (c : CState)
    (hr : Reach p c) :
    c.s.fault = none ∧ NodesInvTop c.s ∧ MapOK c.s ∧ c.s.running = false ∧
    c.s.writeQ.length ≤ Gen.WRITE_LOG_SIZE ∧ c.s.readQ.length ≤ Gen.READ_LOG_SIZE ∧
    CTop p c.s (c.s.writeQ ++ pendWrites c.pending) ∧ CSInv p c := by
  have h := reach_csinv hq hsm hr
  exact ⟨h.top.nofault, h.top.nodes, h.top.map, h.running, h.wq, h.rq, h.cinv, h⟩

/-- No step of any interleaving raises a fault: whenever a step is enabled in a reachable
state, the state it leads to is not faulty. -/
theorem ConcS_no_fault_step (p : Params) (hq : Sync.NoQuirks p) (hsm : SmallSketch p)
    (c c' : CState) (hr : Reach p c) (e : Ev) (hs : ConcS.step p c e = some c') :
    c'.s.fault = none :=
  (reach_csinv hq hsm (Reach.step e hr hs)).top.nofault

/-- `snapCountersOk` does not read the read queue. -/
theorem snapCountersOk_readQ (p : Params) (s : SState) (w : Nat → Nat → Nat) :
    Spec.snapCountersOk w (Sync.snapshot p s)
      = Spec.snapCountersOk w (Sync.snapshot p { s with readQ := [] }) := rfl

/-- C10 for all interleavings: in a reachable state in which no thread holds an operation and
the write queue is empty, `entry_count = |entries|` and
`weighted_size = Σ policy weights = Σ weigher(key, value)`. -/
theorem ConcS_C10_quiescent (p : Params) (hq : Sync.NoQuirks p) (hsm : SmallSketch p)
    (c : CState) (hr : Reach p c) (hp : c.pending = []) (hw : c.s.writeQ = []) :
    Spec.snapCountersOk p.weigh (Sync.snapshot p c.s) = true := by
  rw [snapCountersOk_readQ]
  exact sync_snapshot_counters (csinv_quiescent_tinv (reach_csinv hq hsm hr) hp hw) hw

/-- Slightly more general: read operations may still be held. -/
theorem ConcS_C10_no_write_pending (p : Params) (hq : Sync.NoQuirks p) (hsm : SmallSketch p)
    (c : CState) (hr : Reach p c) (hp : pendWrites c.pending = []) (hw : c.s.writeQ = []) :
    Spec.snapCountersOk p.weigh (Sync.snapshot p c.s) = true := by
  have h := reach_csinv hq hsm hr
  have ht : TInv p { c.s with readQ := [] } [] := by
    refine ⟨h.top.of_eq rfl rfl rfl rfl rfl rfl rfl rfl rfl, ⟨h.running, ?_, Nat.zero_le _⟩, ?_⟩
    · show c.s.writeQ.length ≤ _
      rw [hw]; exact Nat.zero_le _
    · have h1 := h.cinv
      rw [hp] at h1
      exact h1.of_eq rfl rfl rfl rfl rfl rfl
  rw [snapCountersOk_readQ]
  exact sync_snapshot_counters ht hw

/-- … in particular right after a maintenance run (`maint` by any thread, or the explicit
`sync`) taken while no thread holds a write operation. -/
theorem ConcS_C10_after_maint (p : Params) (hq : Sync.NoQuirks p) (hsm : SmallSketch p)
    (c c' : CState) (hr : Reach p c) (hp : pendWrites c.pending = []) (t : Tid)
    (hs : ConcS.step p c (.maint t) = some c' ∨ ConcS.step p c (.sync t) = some c') :
    Spec.snapCountersOk p.weigh (Sync.snapshot p c'.s) = true := by
  have h := reach_csinv hq hsm hr
  rcases hs with hs | hs
  · have hr' := Reach.step _ hr hs
    simp only [ConcS.step, h.running, Bool.false_eq_true, if_false] at hs
    have e := Option.some.inj hs
    subst e
    exact ConcS_C10_no_write_pending p hq hsm _ hr' hp (trySync_spec p c.s h.running).writeQ
  · have hr' := Reach.step _ hr hs
    simp only [ConcS.step, h.running, Bool.false_eq_true, if_false] at hs
    have e := Option.some.inj hs
    subst e
    exact ConcS_C10_no_write_pending p hq hsm _ hr' hp (syncRun_writeQ p c.s)

/-- C04 (count) for all interleavings: the map never holds more entries than
`entry_count + |write queue| + one per thread that holds a write operation`. -/
theorem ConcS_C04_overshoot (p : Params) (hq : Sync.NoQuirks p) (hsm : SmallSketch p)
    (c : CState) (hr : Reach p c) :
    c.s.map.length ≤ c.s.ec + c.s.writeQ.length + (pendWrites c.pending).length :=
  csinv_map_length_le (reach_csinv hq hsm hr)

/-- The threads holding a write operation are at most the threads holding anything. -/
theorem pendWrites_length_le (l : List (Tid × Pend)) : (pendWrites l).length ≤ l.length := by
  induction l with
  | nil => exact Nat.le_refl _
  | cons x l ih =>
    obtain ⟨t, pd⟩ := x
    cases pd with
    | write op => simp only [pendWrites, List.length_cons]; omega
    | read op => simp only [pendWrites, List.length_cons]; omega

/-- C11 for all interleavings: when no thread holds an operation, `liveOk` (with both queues
empty there are as many live key objects and live value objects as entries). -/
theorem ConcS_C11_quiescent (p : Params) (hq : Sync.NoQuirks p) (hsm : SmallSketch p)
    (c : CState) (hr : Reach p c) (hp : c.pending = []) :
    Spec.liveOk (Sync.snapshot p c.s) = true := by
  have h := reach_csinv hq hsm hr
  by_cases hqz : ((Sync.snapshot p c.s).rq == 0 && (Sync.snapshot p c.s).wq == 0) = true
  · have hrq : c.s.readQ = [] := by
      have : c.s.readQ.length = 0 := by
        have := (Bool.and_eq_true _ _ ▸ hqz).1
        simpa [Sync.snapshot] using this
      exact List.eq_nil_of_length_eq_zero this
    have hwq : c.s.writeQ = [] := by
      have : c.s.writeQ.length = 0 := by
        have := (Bool.and_eq_true _ _ ▸ hqz).2
        simpa [Sync.snapshot] using this
      exact List.eq_nil_of_length_eq_zero this
    have ht : TInv p c.s [] := by
      refine ⟨h.top, ⟨h.running, ?_, ?_⟩, ?_⟩
      · rw [hwq]; exact Nat.zero_le _
      · rw [hrq]; exact Nat.zero_le _
      · have h1 := h.cinv
        rw [hp] at h1
        exact h1
    exact sync_snapshot_liveOk ht
  · unfold Spec.liveOk
    have : ((Sync.snapshot p c.s).rq == 0 && (Sync.snapshot p c.s).wq == 0) = false := by
      cases hx : ((Sync.snapshot p c.s).rq == 0 && (Sync.snapshot p c.s).wq == 0) with
      | false => rfl
      | true => exact absurd hx hqz
    rw [this]; rfl

/-- … and the bound on the live objects held by the map, the lists and the queues holds in
every state (objects held by threads between their steps are not part of the snapshot). -/
theorem ConcS_C11_bounded (p : Params) (c : CState) :
    Spec.liveBounded (Sync.snapshot p c.s) = true :=
  sync_snapshot_liveBounded p c.s

/-- C04 (weight) after a maintenance run taken while no thread holds a write operation:
within the capacity, or a full eviction batch was removed. -/
theorem ConcS_C04_weight_after_maint (p : Params) (hq : Sync.NoQuirks p) (hsm : SmallSketch p)
    (c : CState) (hr : Reach p c) (hp : pendWrites c.pending = []) (cap : Nat)
    (hcap : p.cap = some cap) :
    (Sync.syncRun p c.s).ws ≤ cap ∨
      (Sync.syncRun p c.s).map.length + Gen.SYNC_EVICTION_BATCH_SIZE ≤ c.s.map.length := by
  have h := reach_csinv hq hsm hr
  -- the LRU loop and the weight do not read the read queue's length bound: cut the queues to size
  have hc : CTop p c.s (c.s.writeQ ++ []) := by
    have h1 := h.cinv
    rw [hp] at h1
    exact h1
  exact syncRun_weight_gen hq hsm h.top hc hcap

/-! ### the one-thread model is a special case -/

/-- Every step of `Sync.step` (one thread performing map step, housekeeping and enqueue back
to back) is a path of the many-thread system. -/
theorem ConcS_refines_Sync (p : Params) (s : SState) (hq : QInv s) (op : Op) (t : Tid) :
    ∃ evs, runEvs p ⟨s, []⟩ evs = some ⟨(Sync.step p s op).1, []⟩ :=
  path_of_step p hq op t

/-- … and every one-thread history is a path from the empty cache; its final state is
reachable. -/
theorem ConcS_refines_Sync_history (p : Params) (h : List Op) (t : Tid) :
    ∃ evs, runEvs p {} evs = some ⟨Sync.stateAfter p {} h, []⟩ := by
  suffices hgen : ∀ (h : List Op) (s : SState), QInv s →
      ∃ evs, runEvs p ⟨s, []⟩ evs = some ⟨Sync.stateAfter p s h, []⟩ from hgen h {} qinv_init
  intro h
  induction h with
  | nil => intro s _; exact ⟨[], rfl⟩
  | cons op rest ih =>
    intro s hs
    obtain ⟨e1, h1⟩ := path_of_step p hs op t
    obtain ⟨e2, h2⟩ := ih _ (step_qinv p hs op).1
    refine ⟨e1 ++ e2, ?_⟩
    rw [runEvs_append, h1]
    exact h2

theorem reach_of_runEvs {p : Params} : ∀ (evs : List Ev) (c c' : CState), Reach p c →
    runEvs p c evs = some c' → Reach p c' := by
  intro evs
  induction evs with
  | nil => intro c c' hr h; simp only [runEvs] at h; rw [← Option.some.inj h]; exact hr
  | cons e rest ih =>
    intro c c' hr h
    simp only [runEvs] at h
    cases hs : ConcS.step p c e with
    | none => rw [hs] at h; cases h
    | some c1 => rw [hs] at h; exact ih c1 c' (Reach.step e hr hs) h

/-- The states one thread can reach are reachable in the many-thread system. -/
theorem ConcS_reach_of_Sync (p : Params) (h : List Op) : Reach p ⟨Sync.stateAfter p {} h, []⟩ := by
  obtain ⟨evs, he⟩ := ConcS_refines_Sync_history p h 0
  exact reach_of_runEvs evs {} _ Reach.init he

/-! ### machine-checked interleavings -/

/-- Weigher = value, no capacity limit. -/
def csParams (q : Quirks) : Params := { hasWeigher := true, w := fun _ v => v, q := q }

/-- Defect D10 as an interleaving of two threads: key 1 is resident with value 1; thread 1
updates it to 5, then thread 2 updates it to 2 (the map now holds 2); thread 2 enqueues first,
thread 1 last; then maintenance runs.  (The clock is past the periodic deadline.) -/
def d10Interleaving : List Ev :=
  [.tick Gen.PAST_SYNC_INTERVAL_NS, .insMap 1 1 1, .enq 1, .maint 0, .insMap 1 1 5, .insMap 2 1 2, .enq 2, .enq 1,
   .maint 0]

/-- What a path ends in: `([entry_count, weighted_size, |write queue|, threads holding
something], map, [snapCountersOk, liveOk, no fault])`. -/
def csSummary (p : Params) (evs : List Ev) :
    Option (List Nat × List (Nat × Nat) × List Bool) :=
  (runEvs p {} evs).map fun c =>
    ([c.s.ec, c.s.ws, c.s.writeQ.length, c.pending.length],
     c.s.map.map (fun (kv : Nat × VE) => (kv.1, kv.2.val)),
     [Spec.snapCountersOk p.weigh (Sync.snapshot p c.s), Spec.liveOk (Sync.snapshot p c.s),
      c.s.fault.isNone])

/-- Before the last maintenance run the queue holds the upsert of the newer value 2 first and
the upsert of the older value 5 last: the inverted order. -/
example : (runEvs (csParams {}) {} (d10Interleaving.take 8)).map (fun c =>
    c.s.writeQ.map (fun op => match op with
      | .upsert k _ ve _ w => (k, ve.val, w)
      | .remove k ve => (k, ve.val, 0))) = some [(1, 2, 2), (1, 5, 5)] := by
  decide +kernel

/-- On the current code the run ends exact: `weighted_size = 2` for the resident value 2. -/
example : csSummary (csParams {}) d10Interleaving
    = some ([1, 2, 0, 0], [(1, 2)], [true, true, true]) := by
  decide +kernel

/-- With the switch `d10` on, the same interleaving ends with `weighted_size = 5`: the
interleaving semantics does produce the defect. -/
theorem ConcS_counterexample_D10 : csSummary (csParams { d10 := true }) d10Interleaving
    = some ([1, 5, 0, 0], [(1, 2)], [false, true, true]) := by
  decide +kernel

/-- Capacity 6, weigher `value % 5`. -/
def csParams2 : Params := { cap := some 6, hasWeigher := true, w := fun _ v => v % 5 }

/-- Threads 1 and 2 insert keys 1 and 2 and thread 3 looks key 1 up; maintenance (thread 4) runs
while all three hold their operations; thread 2 enqueues and then invalidates key 1, whose
upsert thread 1 still holds; maintenance again (admits key 2) with three operations held;
everybody enqueues (upsert of key 1 *before* its remove, both stale); maintenance. -/
def heldInterleaving : List Ev :=
  [.insMap 1 1 1, .insMap 2 2 2, .getMap 3 1, .maint 4, .enq 2, .invMap 2 1, .maint 4, .enq 1,
   .enq 3, .enq 2, .maint 4]

/-- After the first maintenance run: two entries, `entry_count = 0`, nothing queued, three
threads hold operations (two of them writes): the overshoot bound is tight. -/
example : csSummary csParams2 (heldInterleaving.take 4)
    = some ([0, 0, 0, 3], [(1, 1), (2, 2)], [false, true, true]) := by
  decide +kernel

example : csSummary csParams2 (heldInterleaving.take 7)
    = some ([1, 2, 0, 3], [(2, 2)], [true, true, true]) := by
  decide +kernel

example : csSummary csParams2 heldInterleaving
    = some ([1, 2, 0, 0], [(2, 2)], [true, true, true]) := by
  decide +kernel

/-- The theorems apply to these paths: their end states are reachable. -/
example : ∀ c, runEvs csParams2 {} heldInterleaving = some c →
    Spec.snapCountersOk csParams2.weigh (Sync.snapshot csParams2 c.s) = true ∨ c.pending ≠ [] ∨
      c.s.writeQ ≠ [] := by
  intro c hc
  by_cases hp : c.pending = []
  · by_cases hw : c.s.writeQ = []
    · exact Or.inl (ConcS_C10_quiescent csParams2 rfl
        ⟨fun cap hcap => (by cases hcap; decide +kernel),
         fun _ _ _ => (by show Sketch.sketchCapacity 0 ≤ 2 ^ 27; decide +kernel)⟩ c
        (reach_of_runEvs _ _ _ Reach.init hc) hp hw)
    · exact Or.inr (Or.inr hw)
  · exact Or.inr (Or.inl hp)

/-- A step that is not enabled: a thread that already holds an operation cannot start another
call, and an idle thread has nothing to enqueue. -/
example : runEvs csParams2 {} [.insMap 1 1 1, .insMap 1 2 2] = none := by decide +kernel
example : runEvs csParams2 {} [.enq 1] = none := by decide +kernel

end Props
end MiniMoka

namespace MiniMoka.Props
#print axioms ConcS_inv
#print axioms ConcS_no_fault_step
#print axioms ConcS_C10_quiescent
#print axioms ConcS_C10_no_write_pending
#print axioms ConcS_C10_after_maint
#print axioms ConcS_C04_overshoot
#print axioms ConcS_C11_quiescent
#print axioms ConcS_C11_bounded
#print axioms ConcS_C04_weight_after_maint
#print axioms ConcS_refines_Sync
#print axioms ConcS_refines_Sync_history
#print axioms ConcS_reach_of_Sync
#print axioms ConcS_counterexample_D10
end MiniMoka.Props
