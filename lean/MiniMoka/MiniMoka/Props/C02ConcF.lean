/-
  C02 for every interleaving of the finest many-thread model: **every execution of `ConcF`
  (`MiniMoka/ConcF.lean`, current code `Variant.good`: other threads' per-key map steps and
  enqueues interleave between any two map accesses of a maintenance run, including between the
  admission scan and the removal of each victim) projects to an execution that model R
  (`MiniMoka/ConcR.lean`) accepts**, so the C02 theorems of `Props/C02.lean`, proved for all
  executions of R, hold for every interleaving of ConcF.
  Lemmas: `MiniMoka/Lemmas/ConcFRefinesR.lean` (and `ConcSRefinesR.lean`, `SyncRefinesR.lean`).

  The projection (`projEvsF p evs`; the id of an operation is the position of its map-step
  event in `evs`):
    .other e        ↦ as `ConcSR.projEv` for the ConcS step `e` of another thread:
                      insMap / invMap / getMap ↦ invoke, mapStep (+ respond for an `invMap`
                      that finds nothing); enq ↦ respond with the result decided at the map
                      step; tick / invAll ↦ nothing
    .mBegin, .mStep ↦ `daemon d` for exactly the keys `d` that the micro-step deletes
                      (`SyncR.delKeys` of the maps before / after): nothing for most
                      micro-steps, one key for a victim's / a rejected candidate's `remove_if`
                      and for an iteration of an expiry / LRU loop that evicts.
  The one new fact is that a maintenance micro-step only deletes
  (`ConcF.finv_mstep_mapsub` = `ConcF_maintenance_only_deletes`); it holds in the reachable
  states, which is why `SmallSketch p` (the documented sketch limit under which `ConcF_inv`
  is proved) is a hypothesis here, unlike in `ConcS_refines_R`.

  The three corollaries are first proved for any transition system with such a projection
  (`ProjR.Sys`), then read for ConcF.
-/
import MiniMoka.Lemmas.ConcFRefinesR
import MiniMoka.Props.C02

namespace MiniMoka
namespace ProjR

open ConcR (Tid Oid Key Val lookup)
open SyncR ConcSR

variable {σ ε : Type} (S : Sys σ ε)

theorem Sys.opOf_proj {c0 c : σ} {evs : List ε} (hrun : S.run c0 evs = some c) (o : Nat) :
    ConcR.opOf (S.projFrom c0 {} evs) o = (evs[o]?).bind S.mop := by
  have := S.opOf_projFrom evs c0 c {} o hrun
  simpa using this

/-- C02 (read-from) for the projection of any path. -/
theorem Sys.read_from {c0 c : σ} {evs : List ε} (hrun : S.run c0 evs = some c)
    {a' : ConcR.State} (hr : ConcR.run (S.projFrom c0 {} evs) = some a')
    {g : Nat} {t : Tid} {k : Key} {v : Val}
    (hret : (g, t, ConcR.Op.get k, some v) ∈ S.callsFrom c0 {} evs) :
    (evs[g]?).bind S.mop = some (t, .get k) ∧
    ∃ w tw, w < g ∧ (evs[w]?).bind S.mop = some (tw, .ins k v) ∧
      (∀ m, w < m → m < g → ∀ t' rop, (evs[m]?).bind S.mop = some (t', rop) →
        ¬ ((∃ v', rop = .ins k v') ∨ rop = .del k)) ∧
      ∃ i j, i < j ∧ (S.projFrom c0 {} evs)[i]? = some (.mapStep w) ∧
        (S.projFrom c0 {} evs)[j]? = some (.mapStep g) ∧
        ConcR.NoWriteIn (S.projFrom c0 {} evs) k (i + 1) j := by
  rw [← S.callsOf_proj] at hret
  obtain ⟨hresp, hop⟩ := mem_callsOf hret
  have hopC := S.opOf_proj hrun
  refine ⟨by rw [← hopC g]; exact hop, ?_⟩
  obtain ⟨a, ha⟩ := List.mem_iff_getElem?.1 hresp
  obtain ⟨j, _, hj⟩ := ConcR.respond_after_mapStep hr ha
  obtain ⟨i, w, tw, hij, hi, hw, hnw⟩ := ConcR.read_from hr hj hop hresp
  have hsorted := (S.stepOids_sorted evs c0 {}).2
  have hwg : w < g := pairwise_stepOids_pos hsorted hij hi hj
  refine ⟨w, tw, hwg, by rw [← hopC w]; exact hw, ?_, i, j, hij, hi, hj, hnw⟩
  intro m hwm hmg t' rop hme hrop
  have hopm : ConcR.opOf (S.projFrom c0 {} evs) m = some (t', rop) := by rw [hopC m]; exact hme
  have hmem : m ∈ ConcR.stepOids (S.projFrom c0 {} evs) := by
    refine (S.mem_stepOids_projFrom evs c0 c {} m hrun).2 ⟨Nat.zero_le _, ?_⟩
    show ((evs[m - 0]?).bind S.mop).isSome = true
    rw [Nat.sub_zero, hme]; rfl
  obtain ⟨q, hq'⟩ := List.mem_iff_getElem?.1 (ConcR.mem_stepOids.1 hmem)
  have hiq : i < q := by
    rcases Nat.lt_trichotomy i q with h | h | h
    · exact h
    · subst h; rw [hi] at hq'; cases hq'; omega
    · have hlt : m < w := pairwise_stepOids_pos hsorted h hq' hi
      omega
  have hqj : q < j := by
    rcases Nat.lt_trichotomy q j with h | h | h
    · exact h
    · subst h; rw [hj] at hq'; cases hq'; omega
    · have hlt : g < m := pairwise_stepOids_pos hsorted h hj hq'
      omega
  have hfalse := hnw q (by omega) hqj _ hq'
  rw [ConcR.writesKey_mapStep_of_op hopm hrop] at hfalse
  cases hfalse

/-- C02 (not superseded) for the projection of any path. -/
theorem Sys.not_superseded {c0 c : σ} {evs : List ε} (hrun : S.run c0 evs = some c)
    {a' : ConcR.State} (hr : ConcR.run (S.projFrom c0 {} evs) = some a')
    {g : Nat} {t : Tid} {k : Key} {v : Val}
    (hret : (g, t, ConcR.Op.get k, some v) ∈ S.callsFrom c0 {} evs)
    {u : Nat} {tu : Tid} {opu : ConcR.Op} {a b : Nat} {x : Option Val}
    (hu : (evs[u]?).bind S.mop = some (tu, opu)) (hk : (∃ v', opu = .ins k v') ∨ opu = .del k)
    (hures : (S.projFrom c0 {} evs)[a]? = some (.respond u x))
    (hginv : (S.projFrom c0 {} evs)[b]? = some (.invoke t g (.get k))) (hab : a < b) :
    ∃ w tw, w < g ∧ (evs[w]?).bind S.mop = some (tw, .ins k v) ∧ u ≤ w := by
  rw [← S.callsOf_proj] at hret
  obtain ⟨hresp, hop⟩ := mem_callsOf hret
  have hopC := S.opOf_proj hrun
  obtain ⟨ar, har⟩ := List.mem_iff_getElem?.1 hresp
  obtain ⟨j, _, hj⟩ := ConcR.respond_after_mapStep hr har
  obtain ⟨pu, _, hpu⟩ := ConcR.respond_after_mapStep hr hures
  have hsorted := (S.stepOids_sorted evs c0 {}).2
  have hopu : ConcR.opOf (S.projFrom c0 {} evs) u = some (tu, opu) := by rw [hopC u]; exact hu
  obtain ⟨i, w, tw, hij, hi, hw, _, hle⟩ :=
    ConcR.not_superseded hr hj hop hresp hopu hk hures hginv hab hpu
  have hwg : w < g := pairwise_stepOids_pos hsorted hij hi hj
  refine ⟨w, tw, hwg, by rw [← hopC w]; exact hw, ?_⟩
  rcases Nat.lt_or_eq_of_le hle with h | h
  · exact Nat.le_of_lt (pairwise_stepOids_pos hsorted h hpu hi)
  · subst h; rw [hi] at hpu; cases hpu; exact Nat.le_refl _

/-- C02 (final state) for the projection of any path. -/
theorem Sys.final {c0 c : σ} {evs : List ε} (hrun : S.run c0 evs = some c)
    {a' : ConcR.State} (hr : ConcR.run (S.projFrom c0 {} evs) = some a') (k : Key) :
    (∀ v, lookup a'.map k = some v →
      ∃ i w tw, (S.projFrom c0 {} evs)[i]? = some (.mapStep w) ∧
        (evs[w]?).bind S.mop = some (tw, .ins k v) ∧
        ConcR.NoWriteIn (S.projFrom c0 {} evs) k (i + 1) (S.projFrom c0 {} evs).length) ∧
    (∀ (m : Nat) (e : ConcR.Ev), (S.projFrom c0 {} evs)[m]? = some e →
      (e = .daemon k ∨ ∃ d td, e = .mapStep d ∧ (evs[d]?).bind S.mop = some (td, .del k)) →
      (∀ (m' : Nat) w tw v, m < m' → (S.projFrom c0 {} evs)[m']? = some (.mapStep w) →
        (evs[w]?).bind S.mop ≠ some (tw, .ins k v)) →
      lookup a'.map k = none) := by
  have hopC := S.opOf_proj hrun
  obtain ⟨h1, h2⟩ := ConcR.C02_final hr k
  constructor
  · intro v hv
    obtain ⟨i, w, tw, hi, hw, hnw⟩ := h1 v hv
    exact ⟨i, w, tw, hi, by rw [← hopC w]; exact hw, hnw⟩
  · intro m e hme hdel hlast
    refine h2 m e hme ?_ ?_
    · rcases hdel with h | ⟨d, td, h, hd⟩
      · exact Or.inl h
      · exact Or.inr ⟨d, td, h, by rw [hopC d]; exact hd⟩
    · intro m' w tw v hmm' hw hopw
      exact hlast m' w tw v hmm' hw (by rw [← hopC w]; exact hopw)

end ProjR

namespace Props

open ConcR (Tid Oid Key Val lookup)
open SyncR ConcSR ProjR ConcFR

/-- The R execution of an interleaving of ConcF (current code) from the empty cache. -/
def projEvsF (p : Params) (evs : List ConcM.Ev) : List ConcR.Ev := (sysF p).projFrom {} {} evs

/-- Its calls in response order, and what its map steps decided (`ConcSR.respCalls`,
`ConcSR.decidedEv` on the `.other` steps). -/
def callsF (p : Params) (evs : List ConcM.Ev) : List Call := (sysF p).callsFrom {} {} evs

def decidedF (p : Params) (evs : List ConcM.Ev) : List Call := (sysF p).decidedFrom {} 0 evs

/-- **ConcF refines R.**  For every path `evs` of ConcF (current code, documented sketch limit)
from the empty cache: the projected event list is accepted by R from `State.init` (it is
`ConcR.WF`), ends in a map with the lookups of `absMap` of the final state, and its calls
(`SyncR.callsOf`) are the calls of the path, each of which returns exactly what its map step
decided (`(ConcS.lookup p c.s k).2` in the state `c` of the `getMap`, wherever that falls
inside a maintenance run; `none` for `insMap` / `invMap`). -/
theorem ConcF_refines_R (p : Params) (hq : Sync.NoQuirks p) (hsm : SmallSketch p)
    {evs : List ConcM.Ev} {c : ConcF.FState}
    (hrun : ConcF.runEvs p .good {} evs = some c) :
    ∃ a', ConcR.run (projEvsF p evs) = some a' ∧
      KVEq a'.map (absMap c.s) ∧
      ConcR.WF (projEvsF p evs) ∧
      callsOf (projEvsF p evs) = callsF p evs ∧
      (∀ y ∈ callsF p evs, y ∈ decidedF p evs) := by
  obtain ⟨a', h1, h2⟩ := projFromF_refines hq hsm evs ConcR.State.init {} c {} rel_init
    (ConcF.finv_init p) hrun
  refine ⟨a', h1, h2.map, ConcR.WF_iff.2 ⟨a', h1⟩, (sysF p).callsOf_proj {} evs, ?_⟩
  intro y hy
  have := (sysF p).callsFrom_decided evs {} {} [] (fun _ hx => by cases hx) y hy
  rw [List.nil_append] at this
  exact this

theorem ConcF_projection_WF (p : Params) (hq : Sync.NoQuirks p) (hsm : SmallSketch p)
    {evs : List ConcM.Ev} {c : ConcF.FState}
    (hrun : ConcF.runEvs p .good {} evs = some c) : ConcR.WF (projEvsF p evs) := by
  obtain ⟨_, _, _, h, _⟩ := ConcF_refines_R p hq hsm hrun
  exact h

theorem bind_mopF_ins {evs : List ConcM.Ev} {m : Nat} {t k v : Nat}
    (h : (evs[m]?).bind mopF = some (t, .ins k v)) : evs[m]? = some (.other (.insMap t k v)) := by
  cases he : evs[m]? with
  | none => rw [he] at h; cases h
  | some e =>
    rw [he] at h
    cases e with
    | other e' => rw [mapEvOp_ins (e := e') h]
    | mBegin t' ex => cases h
    | mStep t' => cases h

theorem bind_mopF_get {evs : List ConcM.Ev} {m : Nat} {t k : Nat}
    (h : (evs[m]?).bind mopF = some (t, .get k)) : evs[m]? = some (.other (.getMap t k)) := by
  cases he : evs[m]? with
  | none => rw [he] at h; cases h
  | some e =>
    rw [he] at h
    cases e with
    | other e' => rw [mapEvOp_get (e := e') h]
    | mBegin t' ex => cases h
    | mStep t' => cases h

/-- Instance `o` of the projection is the per-key map step at position `o` of the path. -/
theorem ConcF_opOf (p : Params) {evs : List ConcM.Ev} {c : ConcF.FState}
    (hrun : ConcF.runEvs p .good {} evs = some c) (o : Nat) :
    ConcR.opOf (projEvsF p evs) o = (evs[o]?).bind mopF :=
  (sysF p).opOf_proj (by rw [run_eq]; exact hrun) o

/-- **C02 (read-from) for every interleaving of ConcF.**  If the `get k` whose map step is
event `g` (thread `t`) returned `some v`, then event `g` is `.other (getMap t k)` and there is
an earlier event `w < g`, `.other (insMap tw k v)`, such that no event strictly between `w` and
`g` is an `insMap _ k _` or an `invMap _ k`, and in the projected execution no write of `k` at
all — in particular no `daemon k`: no maintenance micro-step (victim removal, rejection,
expiry, LRU eviction) deleted `k` — lies strictly between the two map steps. -/
theorem C02_for_ConcF_read_from (p : Params) (hq : Sync.NoQuirks p) (hsm : SmallSketch p)
    {evs : List ConcM.Ev} {c : ConcF.FState} (hrun : ConcF.runEvs p .good {} evs = some c)
    {g : Nat} {t : Tid} {k : Key} {v : Val}
    (hret : (g, t, ConcR.Op.get k, some v) ∈ callsF p evs) :
    evs[g]? = some (.other (.getMap t k)) ∧
    ∃ w tw, w < g ∧ evs[w]? = some (.other (.insMap tw k v)) ∧
      (∀ m, w < m → m < g → ∀ t', (∀ v', evs[m]? ≠ some (.other (.insMap t' k v'))) ∧
        evs[m]? ≠ some (.other (.invMap t' k))) ∧
      ∃ i j, i < j ∧ (projEvsF p evs)[i]? = some (.mapStep w) ∧
        (projEvsF p evs)[j]? = some (.mapStep g) ∧
        ConcR.NoWriteIn (projEvsF p evs) k (i + 1) j := by
  obtain ⟨a', hr, _⟩ := ConcF_refines_R p hq hsm hrun
  have hrun' : (sysF p).run {} evs = some c := by rw [run_eq]; exact hrun
  obtain ⟨hg, w, tw, hwg, hw, hbetween, hpos⟩ := (sysF p).read_from hrun' hr hret
  refine ⟨bind_mopF_get hg, w, tw, hwg, bind_mopF_ins hw, ?_, hpos⟩
  intro m hwm hmg t'
  constructor
  · intro v' he
    exact hbetween m hwm hmg t' (.ins k v') (by rw [he]; rfl) (Or.inl ⟨v', rfl⟩)
  · intro he
    exact hbetween m hwm hmg t' (.del k) (by rw [he]; rfl) (Or.inr rfl)

/-- **C02 (not superseded) for every interleaving of ConcF.**  If moreover an
`insMap _ k _` / `invMap _ k` (event `u`) returned — its response is at position `a` of the
projected execution — before the `get` was invoked (position `b > a`), then `u` is not after
the write `w` the `get` read from: `u ≤ w`. -/
theorem C02_for_ConcF_not_superseded (p : Params) (hq : Sync.NoQuirks p) (hsm : SmallSketch p)
    {evs : List ConcM.Ev} {c : ConcF.FState} (hrun : ConcF.runEvs p .good {} evs = some c)
    {g : Nat} {t : Tid} {k : Key} {v : Val}
    (hret : (g, t, ConcR.Op.get k, some v) ∈ callsF p evs)
    {u : Nat} {tu : Tid} {a b : Nat} {x : Option Val}
    (hu : (∃ v', evs[u]? = some (.other (.insMap tu k v'))) ∨
      evs[u]? = some (.other (.invMap tu k)))
    (hures : (projEvsF p evs)[a]? = some (.respond u x))
    (hginv : (projEvsF p evs)[b]? = some (.invoke t g (.get k))) (hab : a < b) :
    ∃ w tw, w < g ∧ evs[w]? = some (.other (.insMap tw k v)) ∧ u ≤ w := by
  obtain ⟨a', hr, _⟩ := ConcF_refines_R p hq hsm hrun
  have hrun' : (sysF p).run {} evs = some c := by rw [run_eq]; exact hrun
  obtain ⟨opu, hopu, hk⟩ : ∃ opu, (evs[u]?).bind (sysF p).mop = some (tu, opu) ∧
      ((∃ v', opu = .ins k v') ∨ opu = .del k) := by
    rcases hu with ⟨v', he⟩ | he
    · exact ⟨.ins k v', by rw [he]; rfl, Or.inl ⟨v', rfl⟩⟩
    · exact ⟨.del k, by rw [he]; rfl, Or.inr rfl⟩
  obtain ⟨w, tw, hwg, hw, hle⟩ :=
    (sysF p).not_superseded hrun' hr hret hopu hk hures hginv hab
  exact ⟨w, tw, hwg, bind_mopF_ins hw, hle⟩

/-- **C02 (final state) for every interleaving of ConcF.**  At the end of a path — possibly in
the middle of a maintenance run, between two of its map accesses — for each key `k`: (1) if
the map holds `v` for `k`, then `v` was written by an `insMap _ k v` (event `w`) after whose
map step the projected execution has no write of `k`; (2) if a deletion of `k` (`daemon k`, or
the map step of an `invMap _ k`) is followed by no `ins k _` map step, the map does not hold
`k`. -/
theorem C02_for_ConcF_final (p : Params) (hq : Sync.NoQuirks p) (hsm : SmallSketch p)
    {evs : List ConcM.Ev} {c : ConcF.FState} (hrun : ConcF.runEvs p .good {} evs = some c)
    (k : Key) :
    (∀ v, lookup (absMap c.s) k = some v →
      ∃ i w tw, (projEvsF p evs)[i]? = some (.mapStep w) ∧
        evs[w]? = some (.other (.insMap tw k v)) ∧
        ConcR.NoWriteIn (projEvsF p evs) k (i + 1) (projEvsF p evs).length) ∧
    (∀ (m : Nat) (e : ConcR.Ev), (projEvsF p evs)[m]? = some e →
      (e = .daemon k ∨ ∃ d td, e = .mapStep d ∧ evs[d]? = some (.other (.invMap td k))) →
      (∀ (m' : Nat) w tw v, m < m' → (projEvsF p evs)[m']? = some (.mapStep w) →
        evs[w]? ≠ some (.other (.insMap tw k v))) →
      lookup (absMap c.s) k = none) := by
  obtain ⟨a', hr, hm, _⟩ := ConcF_refines_R p hq hsm hrun
  have hrun' : (sysF p).run {} evs = some c := by rw [run_eq]; exact hrun
  obtain ⟨h1, h2⟩ := (sysF p).final hrun' hr k
  constructor
  · intro v hv
    rw [← hm k] at hv
    obtain ⟨i, w, tw, hi, hw, hnw⟩ := h1 v hv
    exact ⟨i, w, tw, hi, bind_mopF_ins hw, hnw⟩
  · intro m e hme hdel hlast
    rw [← hm k]
    refine h2 m e hme ?_ ?_
    · rcases hdel with h | ⟨d, td, h, hd⟩
      · exact Or.inl h
      · exact Or.inr ⟨d, td, h, by rw [hd]; rfl⟩
    · intro m' w tw v hmm' hw hopw
      exact hlast m' w tw v hmm' hw (bind_mopF_ins hopw)

/-! ## Example: a get between the admission scan and the eviction of its key -/

/-- `n` micro-steps of thread 9. -/
def rSteps (n : Nat) : List ConcM.Ev := List.replicate n (.mStep 9)

/-- Capacity 2, weigher `value % 3`. -/
def rParams : Params := { cap := some 2, hasWeigher := true, w := fun _ v => v % 3 }

theorem rParams_small : SmallSketch rParams :=
  ⟨fun cap hcap => (by cases hcap; decide +kernel),
   fun _ _ _ => (by show Sketch.sketchCapacity 0 ≤ 2 ^ 27; decide +kernel)⟩

/-- Keys 1 and 2 (weight 1 each) fill the cache; key 3 is made popular and inserted with
weight 2.  The second run applies its `Upsert`: after 9 micro-steps the admission scan has
selected the nodes of keys 1 and 2 as victims and has not removed anything yet.  *There*
thread 4 does the map step of `get 1` (it reads 1).  The next two micro-steps remove the
victims (keys 1, then 2) from the map; thread 4's call returns `some 1`; its second `get 1`
reads nothing; the run finishes; that call returns `none`. -/
def evictRaceEvs : List ConcM.Ev :=
  [.other (.insMap 1 1 1), .other (.enq 1), .other (.insMap 1 2 1), .other (.enq 1),
   .mBegin 9 true] ++ rSteps 12 ++
  [.other (.getMap 3 3), .other (.enq 3), .other (.insMap 1 3 2), .other (.enq 1),
   .mBegin 9 true] ++ rSteps 9 ++
  [.other (.getMap 4 1)] ++ rSteps 2 ++
  [.other (.enq 4), .other (.getMap 4 1)] ++ rSteps 4 ++ [.other (.enq 4)]

/-- The map around the racing get: all three keys at its map step (event 31), keys 1 and 2
gone two micro-steps later. -/
example : (ConcF.runEvs rParams .good {} (evictRaceEvs.take 32)).map (fun c => absMap c.s) =
      some [(1, 1), (2, 1), (3, 2)] ∧
    (ConcF.runEvs rParams .good {} (evictRaceEvs.take 34)).map (fun c => absMap c.s) =
      some [(3, 2)] := by
  decide +kernel

/-- The path is enabled; its projection: the get's map step, then the two deletions as
`daemon`s, then its response with the value read; R accepts it and ends with the map of the
final ConcF state. -/
example : (ConcF.runEvs rParams .good {} evictRaceEvs).isSome = true ∧
    projEvsF rParams evictRaceEvs =
      [.invoke 1 0 (.ins 1 1), .mapStep 0, .respond 0 none,
       .invoke 1 2 (.ins 2 1), .mapStep 2, .respond 2 none,
       .invoke 3 17 (.get 3), .mapStep 17, .respond 17 none,
       .invoke 1 19 (.ins 3 2), .mapStep 19, .respond 19 none,
       .invoke 4 31 (.get 1), .mapStep 31, .daemon 1, .daemon 2, .respond 31 (some 1),
       .invoke 4 35 (.get 1), .mapStep 35, .respond 35 none] ∧
    ConcR.WF (projEvsF rParams evictRaceEvs) ∧
    (ConcR.run (projEvsF rParams evictRaceEvs)).map (·.map) =
      (ConcF.runEvs rParams .good {} evictRaceEvs).map (fun c => absMap c.s) ∧
    callsF rParams evictRaceEvs =
      [(0, 1, .ins 1 1, none), (2, 1, .ins 2 1, none), (17, 3, .get 3, none),
       (19, 1, .ins 3 2, none), (31, 4, .get 1, some 1), (35, 4, .get 1, none)] := by
  decide +kernel

/-- The theorems apply: the racing get read thread 1's `insert(1, 1)` (event 0), and nothing
wrote or deleted key 1 between the two map steps (the eviction came after). -/
example : ∃ w tw, w < 31 ∧ evictRaceEvs[w]? = some (.other (.insMap tw 1 1)) := by
  obtain ⟨c, hc⟩ := Option.isSome_iff_exists.1
    (show (ConcF.runEvs rParams .good {} evictRaceEvs).isSome = true by decide +kernel)
  obtain ⟨_, w, tw, h1, h2, _⟩ := C02_for_ConcF_read_from rParams rfl rParams_small hc
    (g := 31) (t := 4) (k := 1) (v := 1) (by decide +kernel)
  exact ⟨w, tw, h1, h2⟩

#print axioms ConcF_refines_R
#print axioms ConcF_projection_WF
#print axioms ConcF_opOf
#print axioms C02_for_ConcF_read_from
#print axioms C02_for_ConcF_not_superseded
#print axioms C02_for_ConcF_final

end Props
end MiniMoka
