/-
  C03 part A on the concurrent cache driven by one thread — no spurious loss: without
  `max_capacity` the cache is exactly a map with expiry, for every placement of `sync()` and of
  clock steps and whatever is still queued.  Also the `sync::Cache` half of C17 ("a cache built
  without max_capacity never evicts for size").
  Property theorems only; lemmas live in `Lemmas/SyncExact.lean`.
-/
import MiniMoka.Lemmas.SyncExact

namespace MiniMoka
namespace Props

open Sync

/-- C03 part A on the concurrent cache without `max_capacity`, driven by one thread: for every
ttl/tti, weigher and hash function and every history (any placement of `sync()` and of clock
steps, invalidations while inserts and reads of the same keys are still queued, re-insertion
while the `remove` is queued, housekeeping runs inside `insert`/`get`/`invalidate`), every
`get` / `contains_key` / `iter` returns everything the reference map-with-expiry says must be
live, `get` and `iter` with the latest value.  "Must be live" = inserted, not invalidated
since (`invalidate_all` targets what was written at a strictly earlier clock reading; entries
written at the very reading of the call may go either way), time-to-live not reached, and
time-to-idle not reached counting from the last `get` that a `sync()` has followed (or from
the insert). -/
theorem C03A_sync (p : Params) (hq : Sync.NoQuirks p) (_hsm : SmallSketch p) (hcap : p.cap = none)
    (h : List Op) :
    Spec.exactC03 .sync p.ttl p.tti {} (Sync.trace p h) = true :=
  exactC03_run_sync hq (fun _ _ => True) (fun _ _ _ _ => True.intro)
    (fun s op _ _ => maintOk_none hq hcap s op) h {} {} True.intro (coupledRS_init p)

/-- The bounded variant: with `max_capacity = c`, the same holds for every history whose
inserts weigh at most `c` in total: the run-local weighted size never exceeds what has been
inserted, so every candidate is admitted at once (`has_enough_capacity`), nothing is ever
rejected (the TinyLFU comparison and the "too big" test are never reached) and
`evict_lru_entries` has nothing to do. -/
theorem C03A_sync_large_capacity (p : Params) (hq : Sync.NoQuirks p) (hsm : SmallSketch p)
    {c : Nat} (hcap : p.cap = some c) (h : List Op)
    (hle : Spec.totalInserted p.weigh (Sync.trace p h) ≤ c) :
    Spec.exactC03 .sync p.ttl p.tti {} (Sync.trace p h) = true := by
  unfold Sync.trace at hle ⊢
  rw [totalInserted_run_sync] at hle
  exact exactC03_run_sync hq (RoomInv p c) (fun _ _ _ hi => roomInv_step hq hsm hcap hi)
    (fun _ _ _ hi => roomInv_ok hq hsm hcap hi) h {} {} (roomInv_init p c h hle)
    (coupledRS_init p)

/-- Both together: the part-A conjunct of the C03 oracle (`Spec.oracleC03 .sync`), for every
configuration and every history. -/
theorem C03A_sync_oracle (p : Params) (hq : Sync.NoQuirks p) (hsm : SmallSketch p) (h : List Op) :
    (match p.cap with
     | none => Spec.exactC03 .sync p.ttl p.tti {} (Sync.trace p h)
     | some c =>
       if Spec.totalInserted p.weigh (Sync.trace p h) ≤ c then
         Spec.exactC03 .sync p.ttl p.tti {} (Sync.trace p h)
       else true) = true := by
  cases hcap : p.cap with
  | none => exact C03A_sync p hq hsm hcap h
  | some c =>
    dsimp only
    split
    · rename_i hle; exact C03A_sync_large_capacity p hq hsm hcap h hle
    · rfl

/-- C17, concurrent cache: a cache built without `max_capacity` never evicts for size.  In
*any* state (whatever is queued), a maintenance run — the explicit `sync()` as well as the
housekeeping `try_sync` that `insert`, `get` and `invalidate` perform — first applies every
queued read to the idle timers and then removes a map entry only if that entry is expired or
invalidated (`is_expired_entry_wo/ao` with `valid_after`), judged with the timestamps it has
after the run.  Every other entry stays, with its value entry untouched. -/
theorem C17_no_capacity_never_evicts_sync (p : Params) (hq : Sync.NoQuirks p) (hcap : p.cap = none)
    (s : SState) (hn : (AL.keys s.map).Nodup) :
    (∀ k ve, AL.get? s.map k = some ve →
      AL.get? (syncRun p s).map k = some ve ∨
        isExpiredInfo p (syncRun p s) (getInfo (syncRun p s) ve.info) (syncRun p s).now = true) ∧
    (∀ hash ve ts, ROp.hit hash ve ts ∈ s.readQ → ts ≤ (getInfo (syncRun p s) ve.info).la) ∧
    (∀ k ve, AL.get? s.map k = some ve →
      AL.get? (trySync p s).map k = some ve ∨
        isExpiredInfo p (trySync p s) (getInfo (trySync p s) ve.info) (trySync p s).now = true) :=
  ⟨fun k ve hk => syncRun_kept_none hq hcap s hn k ve hk,
   fun hash ve ts hin => syncRun_applied hq s hash ve ts hin,
   fun k ve hk => by
     rcases (trySync_frameX (syncOk_none hq hcap s)).kept hn k ve hk with h | ⟨_, h⟩
     · exact Or.inl h
     · exact Or.inr h⟩

/-- The trace-level reading of the same clause: without `max_capacity` no lookup ever misses an
entry that is inserted, not invalidated and not expired (`C03A_sync`). -/
theorem C17_no_capacity_never_evicts_sync_trace (p : Params) (hq : Sync.NoQuirks p)
    (hsm : SmallSketch p) (hcap : p.cap = none) (h : List Op) :
    Spec.exactC03 .sync p.ttl p.tti {} (Sync.trace p h) = true := C03A_sync p hq hsm hcap h

/-! ### non-vacuity -/

/-- A history past the initial periodic-sync window (operations stay queued until `sync`), with
ttl and tti, hits that extend the idle timer across a `sync` (key 1 outlives key 2), expiry by
both deadlines, all invalidation kinds (also at the clock reading of an insert), re-insertion
while the `remove` is queued. -/
example : Spec.exactC03 .sync (some 7) (some 3) {} (Sync.trace
    { ttl := some 7, tti := some 3 }
    [.adv Gen.PAST_SYNC_INTERVAL_NS, .ins 1 10, .ins 2 20, .adv 2, .get 1, .has 2, .iter, .sync, .adv 2, .get 1,
     .has 2, .iter, .adv 2, .get 1, .sync, .adv 2, .get 1, .iter, .ins 3 30, .ins 4 40, .ins 3 31,
     .get 3, .inv 3, .get 3, .ins 3 32, .get 3, .iter, .invAll, .iter, .ins 6 60, .adv 1, .get 6,
     .invAll, .get 6, .sync, .iter, .ins 6 61, .get 6]) = true := by
  decide +kernel

/-- The same inside the periodic-sync window, where every call runs the housekeeper. -/
example : Spec.exactC03 .sync (some 7) (some 3) {} (Sync.trace
    { ttl := some 7, tti := some 3 }
    [.ins 1 10, .ins 2 20, .adv 2, .get 1, .has 2, .iter, .adv 2, .get 1, .has 2, .iter, .adv 2,
     .get 1, .sync, .adv 2, .get 1, .iter, .ins 3 30, .ins 3 31, .get 3, .inv 3, .get 3, .ins 3 32,
     .get 3, .invAll, .iter, .ins 6 60, .adv 1, .get 6]) = true := by
  decide +kernel

/-- With a capacity that the inserted weight never reaches (weights 0..3, total 9 ≤ 10), the
whole C03 oracle of the concurrent cache. -/
example : Spec.oracleC03 .sync (some 10) (some 7) none (fun _ v => v % 4) (Sync.trace
    { cap := some 10, ttl := some 7, hasWeigher := true, w := fun _ v => v % 4 }
    [.adv Gen.PAST_SYNC_INTERVAL_NS, .ins 1 1, .ins 2 2, .adv 3, .get 1, .ins 1 3, .iter, .sync, .adv 4, .has 2,
     .get 1, .inv 1, .ins 3 2, .ins 1 1, .iter, .get 3, .sync, .get 1]) = true := by
  decide +kernel

/-- What the lookups of such a history return: the hit at +2 is queued, so at +4 the idle timer
(3) has run out in the cache's eyes; `sync` applies the hit and the entry is back (the oracle
demands it from then on); key 2 is gone for good. -/
example : (Sync.trace { ttl := some 9, tti := some 3 }
    [.adv Gen.PAST_SYNC_INTERVAL_NS, .ins 1 10, .ins 2 20, .adv 2, .get 1, .adv 2, .get 1, .sync, .get 1, .has 2,
     .iter]).map
      (fun oo => match oo.2 with
        | .val v => v
        | .bool true => some 1
        | .iter l => some l.length
        | _ => none) =
    [none, none, none, none, some 10, none, none, none, some 10, none, some 1] := by
  decide +kernel

/-- The oracle is not vacuous: it rejects traces that lose a live entry, return a stale value,
omit a live entry from an iteration, or forget an idle-timer extension that a `sync` has
followed — while it accepts either answer before that `sync`, and for an entry written at the
clock reading of an `invalidate_all`. -/
example : Spec.exactC03 .sync (some 5) none {}
    [(.ins 1 10, .ok), (.adv 4, .ok), (.get 1, .val none)] = false := by decide

example : Spec.exactC03 .sync none none {}
    [(.ins 1 10, .ok), (.ins 1 11, .ok), (.get 1, .val (some 10))] = false := by decide

example : Spec.exactC03 .sync none (some 3) {}
    [(.ins 1 10, .ok), (.ins 2 20, .ok), (.adv 2, .ok), (.iter, .iter [(1, 10)])] = false := by
  decide

example : Spec.exactC03 .sync none (some 3) {}
    [(.ins 1 10, .ok), (.adv 2, .ok), (.get 1, .val (some 10)), (.sync, .ok), (.adv 2, .ok),
     (.get 1, .val none)] = false := by decide

example : Spec.exactC03 .sync none (some 3) {}
    [(.ins 1 10, .ok), (.adv 2, .ok), (.get 1, .val (some 10)), (.adv 2, .ok),
     (.get 1, .val none)] = true := by decide

example : Spec.exactC03 .sync none none {}
    [(.adv 3, .ok), (.ins 1 10, .ok), (.invAll, .ok), (.get 1, .val none)] = true := by decide

example : Spec.exactC03 .sync none none {}
    [(.adv 3, .ok), (.invAll, .ok), (.ins 1 10, .ok), (.get 1, .val none)] = false := by decide

end Props
end MiniMoka

#print axioms MiniMoka.Props.C03A_sync
#print axioms MiniMoka.Props.C03A_sync_large_capacity
#print axioms MiniMoka.Props.C03A_sync_oracle
#print axioms MiniMoka.Props.C17_no_capacity_never_evicts_sync
#print axioms MiniMoka.Props.C17_no_capacity_never_evicts_sync_trace
