/-
  C03 part A — no spurious loss: without `max_capacity` (or as long as it is never reached)
  the single-threaded cache is exactly a map with expiry.
  Property theorems only; lemmas live in `Lemmas/UnsyncExact.lean`.
-/
import MiniMoka.Lemmas.UnsyncExact

namespace MiniMoka
namespace Props

open Unsync

/-- C03 part A on the single-threaded cache without `max_capacity`: for every ttl/tti, weigher
and hash function and every history, every `get` / `contains_key` / `iter` returns everything
the reference map-with-expiry says must be live (inserted, not invalidated since, neither
deadline reached), `get` and `iter` with the latest value. -/
theorem C03A_unsync (p : Params) (hq : NoQuirks p) (hsm : SmallSketch p) (hcap : p.cap = none)
    (h : List Op) :
    Spec.exactC03 .unsync p.ttl p.tti {} (Unsync.trace p h) = true :=
  exactC03_run sketchLaws hq hsm h {} {} (init_inv sketchLaws p) (coupledR_init p)
    (fun c hc => by rw [hcap] at hc; cases hc)

/-- The bounded variant: with `max_capacity = c`, the same holds for every history whose
inserts weigh at most `c` in total (the capacity is never reached, so nothing is ever evicted
or rejected for size). -/
theorem C03A_unsync_large_capacity (p : Params) (hq : NoQuirks p) (hsm : SmallSketch p)
    {c : Nat} (hcap : p.cap = some c) (h : List Op)
    (hle : Spec.totalInserted p.weigh (Unsync.trace p h) ≤ c) :
    Spec.exactC03 .unsync p.ttl p.tti {} (Unsync.trace p h) = true := by
  refine exactC03_run sketchLaws hq hsm h {} {} (init_inv sketchLaws p) (coupledR_init p) ?_
  intro c' hc'
  rw [hcap] at hc'
  cases hc'
  unfold Unsync.trace at hle
  rw [totalInserted_run] at hle
  simpa using hle

/-- Both together: the part-A conjunct of the C03 oracle (`Spec.oracleC03`), for every
configuration and every history. -/
theorem C03A_unsync_oracle (p : Params) (hq : NoQuirks p) (hsm : SmallSketch p) (h : List Op) :
    (match p.cap with
     | none => Spec.exactC03 .unsync p.ttl p.tti {} (Unsync.trace p h)
     | some c =>
       if Spec.totalInserted p.weigh (Unsync.trace p h) ≤ c then
         Spec.exactC03 .unsync p.ttl p.tti {} (Unsync.trace p h)
       else true) = true := by
  cases hcap : p.cap with
  | none => exact C03A_unsync p hq hsm hcap h
  | some c =>
    dsimp only
    split
    · rename_i hle; exact C03A_unsync_large_capacity p hq hsm hcap h hle
    · rfl

/-! ### non-vacuity -/

/-- A history with ttl and tti, reads that extend the idle timer (key 1 outlives key 2),
expiry by both deadlines, invalidations of all three kinds and re-insertion. -/
example : Spec.exactC03 .unsync (some 7) (some 3) {} (Unsync.trace
    { ttl := some 7, tti := some 3 }
    [.ins 1 10, .ins 2 20, .adv 2, .get 1, .has 2, .iter, .adv 2, .get 1, .has 2, .iter, .adv 2,
     .get 1, .adv 2, .get 1, .iter, .ins 3 30, .ins 4 40, .ins 5 50, .ins 3 31, .get 3, .inv 3,
     .get 3, .invIf (.kmod 2 0), .iter, .has 5, .invAll, .iter, .ins 6 60, .adv 1, .get 6]) = true := by
  decide +kernel

/-- With a capacity that the inserted weight never reaches. -/
example : Spec.oracleC03 .unsync (some 10) (some 7) none (fun _ v => v % 4) (Unsync.trace
    { cap := some 10, ttl := some 7, hasWeigher := true, w := fun _ v => v % 4 }
    [.ins 1 1, .ins 2 2, .adv 3, .get 1, .ins 1 3, .iter, .adv 4, .has 2, .get 1, .inv 1,
     .ins 3 2, .iter, .get 3]) = true := by
  decide +kernel

/-- The lookups of such a history do return what was inserted (the check is not satisfied by
empty answers). -/
example : (Unsync.trace { ttl := some 7, tti := some 3 }
    [.ins 1 10, .ins 2 20, .adv 2, .get 1, .adv 2, .has 1, .has 2]).map
      (fun oo => match oo.2 with
        | .val v => v
        | .bool true => some 1
        | _ => none) =
    [none, none, none, some 10, none, some 1, none] := by
  decide +kernel

/-- The oracle is not vacuous: it rejects traces that lose a live entry, return a stale value,
or omit a live entry from an iteration. -/
example : Spec.exactC03 .unsync (some 5) none {}
    [(.ins 1 10, .ok), (.adv 4, .ok), (.get 1, .val none)] = false := by decide

example : Spec.exactC03 .unsync none none {}
    [(.ins 1 10, .ok), (.ins 1 11, .ok), (.get 1, .val (some 10))] = false := by decide

example : Spec.exactC03 .unsync none (some 3) {}
    [(.ins 1 10, .ok), (.ins 2 20, .ok), (.adv 2, .ok), (.get 1, .val (some 10)), (.adv 2, .ok),
     (.iter, .iter [])] = false := by decide

end Props
end MiniMoka

#print axioms MiniMoka.Props.C03A_unsync
#print axioms MiniMoka.Props.C03A_unsync_large_capacity
#print axioms MiniMoka.Props.C03A_unsync_oracle
