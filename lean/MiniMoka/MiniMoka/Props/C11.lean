/-
  C11 — live key / value objects equal the resident entries (single-threaded cache).
-/
import MiniMoka.Lemmas.UnsyncTrace
import MiniMoka.Lemmas.SketchLaws
import MiniMoka.Wire

namespace MiniMoka
namespace Props

open Unsync

/-- `countDistinct l` is the length of any duplicate-free list with the same elements. -/
theorem countDistinct_eq_length : ∀ (l a : List Nat), a.Nodup → (∀ x ∈ l, x ∈ a) →
    (∀ x ∈ a, x ∈ l) → countDistinct l = a.length := by
  intro l
  induction l with
  | nil =>
    intro a _ _ h2
    cases a with
    | nil => rfl
    | cons x a => exact absurd (h2 x (List.mem_cons_self)) (by simp)
  | cons x rest ih =>
    intro a hn h1 h2
    unfold countDistinct
    by_cases hx : rest.contains x = true
    · rw [if_pos hx]
      have hxm : x ∈ rest := by simpa using hx
      refine ih a hn (fun y hy => h1 y (List.mem_cons_of_mem _ hy)) ?_
      intro y hy
      rcases List.mem_cons.mp (h2 y hy) with rfl | h
      · exact hxm
      · exact h
    · rw [if_neg hx]
      have hxm : x ∉ rest := by simpa using hx
      have hxa : x ∈ a := h1 x List.mem_cons_self
      have := ih (a.erase x) (hn.erase x) ?_ ?_
      · rw [this, List.length_erase_of_mem hxa]
        have : 0 < a.length := List.length_pos_of_mem hxa
        omega
      · intro y hy
        have hne : y ≠ x := fun e => hxm (e ▸ hy)
        exact (List.mem_erase_of_ne hne).mpr (h1 y (List.mem_cons_of_mem _ hy))
      · intro y hy
        have hya : y ∈ a := List.mem_of_mem_erase hy
        have hne : y ≠ x := by
          rintro rfl
          exact (List.Nodup.not_mem_erase hn) hy
        rcases List.mem_cons.mp (h2 y hya) with h | h
        · exact absurd h hne
        · exact h

/-- In every state satisfying the structural invariant the live key objects are exactly the
keys of the map (each node of either list shares the key object of the entry that owns it),
and there is one value object per entry. -/
theorem snapshot_live {p : Params} {s : UState} (hs : Struct p s) :
    (snapshot p s).liveK = (snapshot p s).entries.length ∧
    (snapshot p s).liveV = (snapshot p s).entries.length := by
  have hlen : (snapshot p s).entries.length = s.map.length := by
    simp only [snapshot]; rw [length_sortBy, List.length_map]
  rw [hlen]
  refine ⟨?_, rfl⟩
  show countDistinct (AL.keys s.map ++ s.prob.map (·.key) ++ s.wo.map (·.key)) = s.map.length
  have hk : ∀ {β : Type} (m : List (Nat × β)), (AL.keys m).length = m.length := by
    intro β m
    induction m with
    | nil => rfl
    | cons a m ih => obtain ⟨k, e⟩ := a; simp [AL.keys, ih]
  have hk := hk s.map
  rw [← hk]
  refine countDistinct_eq_length _ _ hs.keysNodup ?_ ?_
  · intro x hx
    simp only [List.mem_append, List.mem_map] at hx
    rcases hx with (hx | ⟨n, hn, rfl⟩) | ⟨n, hn, rfl⟩
    · exact hx
    · obtain ⟨e, he, _⟩ := hs.aoBack n hn
      exact AL.mem_keys_of_get? he
    · obtain ⟨e, he, _⟩ := hs.woBack n hn
      exact AL.mem_keys_of_get? he
  · intro x hx
    simp only [List.mem_append]
    exact Or.inl (Or.inl hx)

theorem oracleC11_of_all : ∀ (t : Spec.Trace),
    (t.all fun oo => match oo.2 with
      | .snap sn => Spec.liveOk sn && Spec.liveBounded sn
      | _ => true) = true → Spec.oracleC11 t = true := by
  intro t
  induction t with
  | nil => intro _; rfl
  | cons a rest ih =>
    intro h
    simp only [List.all_cons, Bool.and_eq_true] at h
    obtain ⟨op, ob⟩ := a
    cases ob <;> simp only [Spec.oracleC11] <;> first | rfl | exact ih h.2 | skip
    simp only [Bool.and_eq_true]
    exact ⟨by simpa using h.1, ih h.2⟩

/-- C11 on the single-threaded cache: for every configuration, hash function, weigher and
history, every snapshot taken after any operation shows as many live key objects and as many
live value objects as the map has entries: objects of replaced, invalidated, evicted and
expired-and-purged entries have been released, none is released twice (an identity is
counted while any owner remains). What happens when the cache itself is dropped is Rust's
`Drop` of the map and of the two lists (trusted; checked on the implementation by the same
oracle through the `drop` observation). -/
theorem C11_unsync (p : Params) (hq : NoQuirks p) (hsm : SmallSketch p) (h : List Op) :
    Spec.oracleC11 (Unsync.trace p h) = true := by
  apply oracleC11_of_all
  unfold Unsync.trace
  apply run_all sketchLaws hq hsm _ _ h {} (init_inv sketchLaws p)
  intro s op hi
  rw [step_obs sketchLaws hq hsm hi op]
  cases op <;> simp only []
  obtain ⟨h1, h2⟩ := snapshot_live hi.inv.struct
  simp only [Spec.liveOk, Spec.liveBounded, h1, h2, Bool.and_eq_true,
    decide_eq_true_eq, beq_self_eq_true, Bool.and_self, Bool.or_true, true_and]
  constructor <;> omega

/-- Non-vacuity: eviction, rejection, update, invalidation of all kinds and expiry. -/
example : Spec.oracleC11 (Unsync.trace
    { cap := some 3, ttl := some 5, hasWeigher := true, w := fun _ v => v % 3 }
    [.ins 1 1, .snap, .ins 2 2, .snap, .get 1, .ins 3 5, .snap, .ins 1 2, .snap, .inv 2, .snap,
     .adv 5, .get 1, .snap, .ins 4 1, .invIf (.kmod 2 0), .snap, .invAll, .snap]) = true := by
  decide +kernel

/-- The oracle rejects a leaked key object (two live keys, one resident entry) and anything
left alive after the cache was dropped. -/
def leakedKey : Snap :=
  let e : EntryView := { key := 1, val := 1, weight := 1, la := none, lm := none, aoOk := true, woOk := true }
  { Wire.emptySnap with ec := 1, liveK := 2, liveV := 1, entries := [e] }

example : Spec.oracleC11 [(.snap, .snap leakedKey)] = false := by decide

example : Spec.oracleC11 [(.adv 0, .snap { Wire.emptySnap with liveK := 0, liveV := 1 })] = false := by
  decide

end Props
end MiniMoka
