/-
  The two flags `is_admitted` / `is_dirty` of an `EntryInfo` under ALL interleavings of any number
  of client threads and the maintenance role (`MiniMoka/ConcB.lean`): the assumption of the
  detailed models — a write of one flag is an atomic step that does not disturb the other —
  made explicit, proved for the code as it is, refuted for the seeded "one byte,
  load–modify–store" change.

  PROVED, for the code as it is (`separate`: two independent atomics) and for the equivalent
  packing (`packedAtomic`: one byte, `fetch_or` / `fetch_and`), every reachable state, any
  interleaving:
   * `ConcB_counted_once`: `count = if admitted then 1 else 0` — the entry is counted in
     `entry_count` exactly when its admitted flag is set, never twice;
   * `ConcB_flags_independent`: a client step changes neither `admitted` nor `count`; a
     maintenance step changes `dirty` only by clearing it;
   * `ConcB_packedAtomic_refines_separate`: the two variants have the same steps, hence the same
     reachable states (`ConcB_packedAtomic_same_obs`: the same tuples
     `(admitted, dirty, count, queued)`).
  MACHINE-CHECKED INTERLEAVING (`ConcB_counterexample_packed_racy`, by `decide`), variant
  `packedRacy` (one byte, `load` then later `store` of the modified copy): client 1 loads the
  byte; maintenance applies the insert op and admits the entry; client 1 stores its stale copy
  with the dirty bit set, wiping the admitted bit (a CLIENT step changes `admitted`); maintenance
  applies client 1's op, finds the entry un-admitted and admits it again: `count = 2`.  Hence
  (`ConcB_packed_racy_violates`) both theorems fail for `packedRacy`.
  THE LINK: the fault is only the window between load and store —
  `ConcB_racy_uninterrupted_overwrite`: `owLoad t ; owStore t` run back to back is exactly the
  atomic `overwrite t` of the code as it is; `ConcB_racy_uninterrupted_applyWrite`: likewise the
  maintenance role's load / store pairs and `applyWrite`.
  GRANULARITY (`ConcB_applyWrite_granularity`): `applyWrite` of the good variants is one step
  although `handle_upsert` makes three accesses; client steps that fall between `set_dirty(false)`
  and the test / write of `admitted` can be moved behind `applyWrite` without changing the result.
-/
import MiniMoka.ConcB
import MiniMoka.Lemmas.AL

namespace MiniMoka
namespace Props

open ConcB

/-! ### the byte encoding: a modified copy differs from the byte in the one flag only -/

theorem ConcB.unpack_pack (a d : Bool) : unpack (pack a d) = (a, d) := by
  cases a <;> cases d <;> decide

theorem ConcB.modify_admitted (a d x : Bool) : modify a d .admitted x = (x, d) := by
  cases a <;> cases d <;> cases x <;> decide

theorem ConcB.modify_dirty (a d x : Bool) : modify a d .dirty x = (a, x) := by
  cases a <;> cases d <;> cases x <;> decide

/-- An atomic read-modify-write of the byte is a write of the one flag. -/
theorem ConcB.writeFlag_eq (v : Variant) (a d : Bool) (f : Flag) (x : Bool) :
    writeFlag v a d f x = writeFlag .separate a d f x := by
  cases v <;> cases f <;> simp only [writeFlag, ConcB.modify_admitted, ConcB.modify_dirty]

theorem ConcB.stepAtomic_eq (v : Variant) (s : State) (e : Ev) :
    stepAtomic v s e = stepAtomic .separate s e := by
  cases e <;> simp only [stepAtomic, ConcB.writeFlag_eq v]

/-- In both good variants a step is a step of `stepAtomic .separate`. -/
theorem ConcB.step_good {v : Variant} (hv : v ≠ .packedRacy) (s : State) (e : Ev) :
    step v s e = stepAtomic .separate s e := by
  cases v with
  | separate => rfl
  | packedAtomic => exact ConcB.stepAtomic_eq .packedAtomic s e
  | packedRacy => exact absurd rfl hv

/-- A finite path from a reachable state ends in a reachable state. -/
theorem ConcB.reach_of_runEvs {v : Variant} (evs : List Ev) (s s' : State) (hr : Reach v s)
    (h : runEvs v s evs = some s') : Reach v s' := by
  induction evs generalizing s with
  | nil =>
    simp only [runEvs, Option.some.injEq] at h
    rw [← h]; exact hr
  | cons e rest ih =>
    simp only [runEvs] at h
    cases hs : step v s e with
    | none => rw [hs] at h; simp at h
    | some s1 =>
      rw [hs] at h
      exact ih s1 (Reach.step e hr hs) h

/-! ### 1. counted exactly when admitted -/

/-- The invariant of the good variants: counted exactly when admitted; no byte is ever held
(the load / store events do not exist). -/
structure BInv (s : State) : Prop where
  counted : s.count = if s.admitted then 1 else 0
  noHeld : s.held = []
  idle : s.mpc = .idle

theorem ConcB.stepAtomic_inv {s s' : State} {e : Ev} (hi : BInv s)
    (hs : stepAtomic .separate s e = some s') : BInv s' := by
  obtain ⟨hc, hh, hm⟩ := hi
  cases e with
  | overwrite t =>
    simp only [stepAtomic, writeFlag, Option.some.injEq] at hs
    subst hs
    exact ⟨hc, hh, hm⟩
  | applyWrite =>
    simp only [stepAtomic, writeFlag] at hs
    by_cases hq : s.queued = 0
    · rw [if_pos hq] at hs; simp at hs
    · rw [if_neg hq] at hs
      cases ha : s.admitted with
      | true =>
        rw [ha] at hs
        simp only [if_true, Option.some.injEq] at hs
        subst hs
        exact ⟨by simpa [ha] using hc, hh, hm⟩
      | false =>
        rw [ha] at hs
        simp only [Bool.false_eq_true, if_false, Option.some.injEq] at hs
        subst hs
        refine ⟨?_, hh, hm⟩
        rw [ha] at hc
        simp only [Bool.false_eq_true, if_false] at hc
        simp [hc]
  | remove =>
    simp only [stepAtomic, writeFlag] at hs
    cases ha : s.admitted with
    | true =>
      rw [ha] at hs
      simp only [if_true, Option.some.injEq] at hs
      subst hs
      refine ⟨?_, hh, hm⟩
      rw [ha] at hc
      simp only [if_true] at hc
      simp [hc]
    | false =>
      rw [ha] at hs
      simp only [Bool.false_eq_true, if_false, Option.some.injEq] at hs
      subst hs
      exact ⟨hc, hh, hm⟩
  | owLoad t => simp [stepAtomic] at hs
  | owStore t => simp [stepAtomic] at hs
  | mLoad => simp [stepAtomic] at hs
  | mStore => simp [stepAtomic] at hs

theorem ConcB.reach_inv {v : Variant} (hv : v ≠ .packedRacy) {s : State} (hr : Reach v s) :
    BInv s := by
  induction hr with
  | init => exact ⟨rfl, rfl, rfl⟩
  | step e _ hs ih =>
    rw [ConcB.step_good hv] at hs
    exact ConcB.stepAtomic_inv ih hs

/-- **Counted once.**  The code as it is (and the atomic packing), any number of client threads,
any interleaving: in every reachable state the entry is counted in `entry_count` exactly when
its admitted flag is set — never twice, never a counted entry that looks un-admitted. -/
theorem ConcB_counted_once (v : Variant) (hv : v ≠ .packedRacy) (s : State) (hr : Reach v s) :
    s.count = if s.admitted then 1 else 0 :=
  (ConcB.reach_inv hv hr).counted

/-- In the good variants no actor is ever between a load and a store of the flags. -/
theorem ConcB_no_window (v : Variant) (hv : v ≠ .packedRacy) (s : State) (hr : Reach v s) :
    s.held = [] ∧ s.mpc = .idle :=
  ⟨(ConcB.reach_inv hv hr).noHeld, (ConcB.reach_inv hv hr).idle⟩

/-! ### 2. the flags are independent -/

/-- **Flags independent.**  The code as it is (and the atomic packing), any state: a step of a
client thread changes neither `admitted` nor `count` (and leaves `dirty` set); a step of the
maintenance role changes `dirty` only by clearing it. -/
theorem ConcB_flags_independent (v : Variant) (hv : v ≠ .packedRacy) (s s' : State) (e : Ev)
    (hs : step v s e = some s') :
    (e.client = true → s'.admitted = s.admitted ∧ s'.count = s.count ∧ s'.dirty = true) ∧
    (e.client = false → s'.dirty = s.dirty ∨ s'.dirty = false) := by
  rw [ConcB.step_good hv] at hs
  cases e with
  | overwrite t =>
    simp only [stepAtomic, writeFlag, Option.some.injEq] at hs
    subst hs
    exact ⟨fun _ => ⟨rfl, rfl, rfl⟩, fun h => by simp [Ev.client] at h⟩
  | applyWrite =>
    refine ⟨fun h => by simp [Ev.client] at h, fun _ => Or.inr ?_⟩
    simp only [stepAtomic, writeFlag] at hs
    by_cases hq : s.queued = 0
    · rw [if_pos hq] at hs; simp at hs
    · rw [if_neg hq] at hs
      cases ha : s.admitted with
      | true =>
        rw [ha] at hs
        simp only [if_true, Option.some.injEq] at hs
        subst hs; rfl
      | false =>
        rw [ha] at hs
        simp only [Bool.false_eq_true, if_false, Option.some.injEq] at hs
        subst hs; rfl
  | remove =>
    refine ⟨fun h => by simp [Ev.client] at h, fun _ => Or.inl ?_⟩
    simp only [stepAtomic, writeFlag] at hs
    cases ha : s.admitted with
    | true =>
      rw [ha] at hs
      simp only [if_true, Option.some.injEq] at hs
      subst hs; rfl
    | false =>
      rw [ha] at hs
      simp only [Bool.false_eq_true, if_false, Option.some.injEq] at hs
      subst hs; rfl
  | owLoad t => simp [stepAtomic] at hs
  | owStore t => simp [stepAtomic] at hs
  | mLoad => simp [stepAtomic] at hs
  | mStore => simp [stepAtomic] at hs

/-! ### 3. the seeded change: one byte, load then store -/

/-- Client 1 loads the byte; maintenance applies the insert op (clears dirty, admits); client 1
stores its stale copy with dirty set; maintenance applies client 1's op. -/
def racyEvs : List Ev :=
  [.owLoad 1,                        -- client 1, `set_dirty(true)`: loads (¬admitted, dirty)
   .mLoad, .mStore,                  -- maintenance, `handle_upsert`: `set_dirty(false)`
   .mLoad, .mStore,                  --   not admitted: `set_admitted(true)`, count = 1
   .owStore 1,                       -- client 1 stores (¬admitted, dirty): admitted bit wiped
   .mLoad, .mStore,                  -- maintenance, client 1's op: `set_dirty(false)`
   .mLoad, .mStore]                  --   "not admitted": admitted a second time, count = 2

/-- The same calls on the code as it is. -/
def goodEvs : List Ev := [.applyWrite, .overwrite 1, .applyWrite]

/-- **The seeded change double-counts** (`packedRacy`, by `decide`): the interleaving `racyEvs`
is enabled and ends with the entry counted twice, nothing queued, nothing held, maintenance idle:
`entry_count` stays one too high for ever.  After the first five events the entry is admitted
and counted once; the sixth, a step of a CLIENT (`owStore 1`), changes `admitted` from `true`
to `false` while `count` stays `1`.  The same calls on the code as it is (`goodEvs`, both good
variants) end with `count = 1`. -/
theorem ConcB_counterexample_packed_racy :
    runEvs .packedRacy init racyEvs
        = some { admitted := true, dirty := false, count := 2, queued := 0, held := [],
                 mpc := .idle }
    ∧ (runEvs .packedRacy init (racyEvs.take 5)).map State.obs = some (true, false, 1, 0)
    ∧ (runEvs .packedRacy init (racyEvs.take 6)).map State.obs = some (false, true, 1, 1)
    ∧ (runEvs .separate init goodEvs).map State.obs = some (true, false, 1, 0)
    ∧ (runEvs .packedAtomic init goodEvs).map State.obs = some (true, false, 1, 0) := by
  refine ⟨by decide, by decide, by decide, by decide, by decide⟩

/-- Both theorems fail for `packedRacy`: a reachable state with `count = 2`, and a reachable state
in which a client step clears `admitted`. -/
theorem ConcB_packed_racy_violates :
    (∃ s, Reach .packedRacy s ∧ s.count ≠ if s.admitted then 1 else 0) ∧
    (∃ s s' t, Reach .packedRacy s ∧ step .packedRacy s (.owStore t) = some s' ∧
      s.admitted = true ∧ s'.admitted = false) := by
  constructor
  · have hs : (runEvs .packedRacy init racyEvs).isSome = true := by decide
    obtain ⟨s, he⟩ := Option.isSome_iff_exists.1 hs
    have hc : (runEvs .packedRacy init racyEvs).map (fun s => (s.admitted, s.count))
        = some (true, 2) := by decide
    rw [he] at hc
    simp only [Option.map_some, Option.some.injEq, Prod.mk.injEq] at hc
    refine ⟨s, ConcB.reach_of_runEvs _ _ _ Reach.init he, ?_⟩
    rw [hc.1, hc.2]; decide
  · have hs : (runEvs .packedRacy init (racyEvs.take 5)).isSome = true := by decide
    obtain ⟨s, he⟩ := Option.isSome_iff_exists.1 hs
    have hs' : (step .packedRacy s (.owStore 1)).isSome = true := by
      have : ((runEvs .packedRacy init (racyEvs.take 5)).bind
          (fun s => step .packedRacy s (.owStore 1))).isSome = true := by decide
      rw [he] at this
      exact this
    obtain ⟨s', he'⟩ := Option.isSome_iff_exists.1 hs'
    have ha : (runEvs .packedRacy init (racyEvs.take 5)).map (·.admitted) = some true := by
      decide
    have ha' : ((runEvs .packedRacy init (racyEvs.take 5)).bind
        (fun s => step .packedRacy s (.owStore 1))).map (·.admitted) = some false := by decide
    rw [he] at ha ha'
    simp only [Option.map_some, Option.some.injEq] at ha
    simp only [Option.bind_some] at ha'
    rw [he'] at ha'
    simp only [Option.map_some, Option.some.injEq] at ha'
    exact ⟨s, s', 1, ConcB.reach_of_runEvs _ _ _ Reach.init he, he', ha, ha'⟩

/-! ### 4. the atomic packing is the code as it is -/

/-- **`packedAtomic` refines `separate`, and conversely**: the two variants have the same step
function (an atomic read-modify-write of the byte IS a write of the one flag), hence the same
reachable states. -/
theorem ConcB_packedAtomic_refines_separate :
    (∀ s e, step .packedAtomic s e = step .separate s e) ∧
    (∀ s, Reach .packedAtomic s ↔ Reach .separate s) := by
  have hstep : ∀ s e, step .packedAtomic s e = step .separate s e :=
    fun s e => ConcB.stepAtomic_eq .packedAtomic s e
  refine ⟨hstep, fun s => ⟨fun hr => ?_, fun hr => ?_⟩⟩
  · induction hr with
    | init => exact Reach.init
    | step e _ hs ih => exact Reach.step e ih (by rw [← hstep]; exact hs)
  · induction hr with
    | init => exact Reach.init
    | step e _ hs ih => exact Reach.step e ih (by rw [hstep]; exact hs)

/-- The same reachable tuples `(admitted, dirty, count, queued)`. -/
theorem ConcB_packedAtomic_same_obs (o : Bool × Bool × Nat × Nat) :
    (∃ s, Reach .packedAtomic s ∧ s.obs = o) ↔ (∃ s, Reach .separate s ∧ s.obs = o) :=
  ⟨fun ⟨s, hr, ho⟩ => ⟨s, (ConcB_packedAtomic_refines_separate.2 s).1 hr, ho⟩,
   fun ⟨s, hr, ho⟩ => ⟨s, (ConcB_packedAtomic_refines_separate.2 s).2 hr, ho⟩⟩

/-! ### the link: the fault is only the window between load and store -/

/-- In `packedRacy`, a client's `owLoad t ; owStore t` run back to back (no step of another actor
in between) is exactly the atomic `overwrite t` of the code as it is. -/
theorem ConcB_racy_uninterrupted_overwrite (s : State) (t : Tid)
    (hfree : AL.get? s.held t = none) :
    runEvs .packedRacy s [.owLoad t, .owStore t] = step .separate s (.overwrite t) := by
  simp only [runEvs, step, stepRacy, hfree, AL.get?_put_self, ConcB.modify_dirty,
    AL.erase_put_of_none _ hfree, stepAtomic, writeFlag]

/-- Likewise the maintenance role: from an idle state with an op queued, its load / store pairs
run back to back (`mLoad ; mStore ; mLoad` and, if the entry was not admitted, `; mStore`) are
exactly the atomic `applyWrite` of the code as it is. -/
theorem ConcB_racy_uninterrupted_applyWrite (s : State) (hidle : s.mpc = .idle) :
    runEvs .packedRacy s
        (if s.admitted then [.mLoad, .mStore, .mLoad] else [.mLoad, .mStore, .mLoad, .mStore])
      = step .separate s .applyWrite := by
  obtain ⟨a, d, c, q, h, m⟩ := s
  simp only at hidle
  subst hidle
  by_cases hq : q = 0
  · subst hq
    cases a <;> simp [runEvs, step, stepRacy, stepAtomic]
  · cases a <;>
      simp [runEvs, step, stepRacy, stepAtomic, writeFlag, hq, ConcB.modify_dirty,
        ConcB.modify_admitted]

/-! ### the granularity of `applyWrite` in the good variants -/

/-- `handle_upsert`, first access: the op is taken, `set_dirty(false)`. -/
def clearPart (s : State) : State := { s with dirty := false, queued := s.queued - 1 }

/-- `handle_upsert`, the rest: `if is_admitted()` update in place, else `handle_admit`. -/
def admitPart (s : State) : State :=
  if s.admitted then s else { s with admitted := true, count := s.count + 1 }

/-- `applyWrite` is `clearPart` then `admitPart`, and client steps that fall between the two
parts can be moved behind `applyWrite`: `clearPart ; overwrite t₁ … overwrite tₙ ; admitPart`
ends in the same state as `applyWrite ; overwrite t₁ … overwrite tₙ`.  (A client writes `dirty`
and `queued` only, `admitPart` reads and writes `admitted` and `count` only.)  So taking
`applyWrite` as one step loses no behaviour of the code as it is. -/
theorem ConcB_applyWrite_granularity (s : State) (hq : s.queued ≠ 0) (ts : List Tid) :
    step .separate s .applyWrite = some (admitPart (clearPart s)) ∧
    (runEvs .separate (clearPart s) (ts.map .overwrite)).map admitPart
      = runEvs .separate s (.applyWrite :: ts.map .overwrite) := by
  have h1 : step .separate s .applyWrite = some (admitPart (clearPart s)) := by
    cases ha : s.admitted <;>
      simp [step, stepAtomic, writeFlag, hq, admitPart, clearPart, ha]
  refine ⟨h1, ?_⟩
  simp only [runEvs, h1]
  generalize clearPart s = u
  induction ts generalizing u with
  | nil => simp [runEvs]
  | cons t rest ih =>
    have hc : step .separate (admitPart u) (.overwrite t)
        = (step .separate u (.overwrite t)).map admitPart := by
      cases ha : u.admitted <;> simp [step, stepAtomic, writeFlag, admitPart, ha]
    simp only [List.map_cons, runEvs, hc]
    simp only [step, stepAtomic, writeFlag, Option.map_some]
    exact ih _

end Props
end MiniMoka

#print axioms MiniMoka.Props.ConcB_counted_once
#print axioms MiniMoka.Props.ConcB_no_window
#print axioms MiniMoka.Props.ConcB_flags_independent
#print axioms MiniMoka.Props.ConcB_counterexample_packed_racy
#print axioms MiniMoka.Props.ConcB_packed_racy_violates
#print axioms MiniMoka.Props.ConcB_packedAtomic_refines_separate
#print axioms MiniMoka.Props.ConcB_packedAtomic_same_obs
#print axioms MiniMoka.Props.ConcB_racy_uninterrupted_overwrite
#print axioms MiniMoka.Props.ConcB_racy_uninterrupted_applyWrite
#print axioms MiniMoka.Props.ConcB_applyWrite_granularity
