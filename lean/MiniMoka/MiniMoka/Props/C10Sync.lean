/-
  C10 / C11 / C04 on the concurrent cache driven by one thread (`MiniMoka/Sync.lean`):
  counters and live objects at quiescent points.  The invariant and its preservation by
  every function of the model are in `Lemmas/SyncCounters.lean`.

  PROVED in full (all configurations of the current code, `NoQuirks`, with the documented
  sketch-size limit `SmallSketch`; all histories):
   * `C10_sync`: at every snapshot taken right after `sync` with both queues empty,
     `entry_count = |entries|`, `weighted_size = Σ policy weights = Σ weigh key value`.
     (`C10_sync_every_quiescent_snapshot`: the same at *every* snapshot with an empty write
     queue, whatever precedes it.)
   * `C11_sync`: at every snapshot with both queues empty there are exactly as many live key
     objects and live value objects as entries; at every snapshot the live objects are bounded
     by what the map, the lists and the queues can hold.
   * `C04_sync_count` (the first half of `boundC04Sync`): at every snapshot
     `|entries| ≤ entry_count + |write queue| (+ 1)`.
   * `C04_sync`: the *corrected* capacity oracle `Spec.oracleC04` (defined at the end of
     `Lemmas/SyncCounters.lean`): the count bound at every snapshot, and at every quiescent
     snapshot right after `sync` the residents weigh at most `max_capacity` unless that run
     removed a full eviction batch (`SYNC_EVICTION_BATCH_SIZE` = 500 entries), measured against
     the snapshot right before the `sync` or, without one, against the number of inserts.
     `C04_sync_after_sync` is the same at the level of states.
  NOT provable was the first version of `oracleC04 .sync` (tolerance "more than 400 entries
  left"): it is `false` on a history of the current code, see `C04 old oracle` below. The
  oracle in `Spec/Oracles.lean` is the corrected one (`boundC04SyncGo`), proved here.
-/
import MiniMoka.Lemmas.SyncCounters
import MiniMoka.Props.C11
import MiniMoka.Spec.Oracles

namespace MiniMoka
namespace Props

open Sync Sync.Nodes Sync.Counters

/-! ### snapshots of a trace are snapshots of reachable states -/

theorem sync_run_snap_state {p : Params} (hq : Sync.NoQuirks p) (hsm : SmallSketch p)
    (h : List Op) : ∀ {s : SState}, TInv p s [] → ∀ op sn, (op, Obs.snap sn) ∈ Sync.run p s h →
      ∃ s', TInv p s' [] ∧ sn = Sync.snapshot p s' := by
  induction h with
  | nil => intro s _ op sn hoo; cases hoo
  | cons op0 rest ih =>
    intro s hs op sn hoo
    have hrun : Sync.run p s (op0 :: rest)
        = (op0, (Sync.step p s op0).2) :: Sync.run p (Sync.step p s op0).1 rest := rfl
    rw [hrun] at hoo
    rcases List.mem_cons.mp hoo with heq | hmem
    · have hsn : Obs.snap sn = (Sync.step p s op0).2 := (Prod.mk.inj heq).2
      exact ⟨s, hs, step_snap p s op0 sn hsn.symm⟩
    · exact ih (step_t hq hsm hs op0) op sn hmem

/-- A Boolean property of the snapshots of all reachable states holds at every snapshot of
every trace. -/
theorem sync_all_snaps {p : Params} (hq : Sync.NoQuirks p) (hsm : SmallSketch p)
    (P : Snap → Bool) (hP : ∀ s, TInv p s [] → P (Sync.snapshot p s) = true) (h : List Op) :
    ((Sync.trace p h).all fun oo => match oo.2 with
      | .snap sn => P sn
      | _ => true) = true := by
  rw [List.all_eq_true]
  intro oo hoo
  obtain ⟨op, ob⟩ := oo
  cases ob with
  | snap sn =>
    obtain ⟨s', hs', rfl⟩ := sync_run_snap_state hq hsm h (init_t p) op sn hoo
    exact hP s' hs'
  | _ => rfl

/-! ### the snapshot of a state -/

/-- C10 at a state: with an empty write queue the published counters are exact. -/
theorem sync_snapshot_counters {p : Params} {s : SState} (h : TInv p s [])
    (hw : s.writeQ = []) : Spec.snapCountersOk p.weigh (Sync.snapshot p s) = true := by
  obtain ⟨q1, q2, q3, _, _⟩ := quiescent h hw
  unfold Spec.snapCountersOk
  rw [snapshot_entries_length, snapshot_sum, snapshot_sum]
  have e1 : (Sync.snapshot p s).ec = s.ec := rfl
  have e2 : (Sync.snapshot p s).ws = s.ws := rfl
  have e3 : (s.map.map fun kv => (entryView s kv).weight)
      = s.map.map fun kv => (getInfo s kv.2.info).weight := rfl
  have e4 : (s.map.map fun kv => p.weigh (entryView s kv).key (entryView s kv).val)
      = s.map.map fun kv => (getInfo s kv.2.info).weight :=
    List.map_congr_left (fun kv hkv => (q3 kv hkv).symm)
  rw [e1, e2, e3, e4, q1, q2]
  simp

theorem countDistinct_le_length : ∀ (l : List Nat), countDistinct l ≤ l.length := by
  intro l
  induction l with
  | nil => exact Nat.le_refl _
  | cons a rest ih =>
    unfold countDistinct
    split
    · exact Nat.le_succ_of_le ih
    · exact Nat.succ_le_succ ih

theorem countDistinct_nodup (l : List Nat) (h : l.Nodup) : countDistinct l = l.length :=
  countDistinct_eq_length l l h (fun _ hx => hx) (fun _ hx => hx)

/-- C11 at a state, first half: with both queues empty, as many live key objects and live
value objects as entries. -/
theorem sync_snapshot_liveOk {p : Params} {s : SState} (h : TInv p s []) :
    Spec.liveOk (Sync.snapshot p s) = true := by
  unfold Spec.liveOk
  by_cases hqz : ((Sync.snapshot p s).rq == 0 && (Sync.snapshot p s).wq == 0) = true
  · have hr : s.readQ = [] := by
      have : s.readQ.length = 0 := by
        have := (Bool.and_eq_true _ _ ▸ hqz).1
        simpa [Sync.snapshot] using this
      exact List.eq_nil_of_length_eq_zero this
    have hw : s.writeQ = [] := by
      have : s.writeQ.length = 0 := by
        have := (Bool.and_eq_true _ _ ▸ hqz).2
        simpa [Sync.snapshot] using this
      exact List.eq_nil_of_length_eq_zero this
    obtain ⟨_, _, _, q4, q5⟩ := quiescent h hw
    obtain ⟨n1, n2⟩ := map_ids_nodup h
    have hK : (Sync.snapshot p s).liveK = s.map.length := by
      simp only [Sync.snapshot, hw, List.map_nil, List.append_nil]
      rw [countDistinct_eq_length _ (s.map.map (·.2.slot)) n2 ?_ ?_, List.length_map]
      · intro x hx
        simp only [List.mem_append] at hx
        rcases hx with (hx | hx) | hx
        · exact hx
        · obtain ⟨n, hn, rfl⟩ := List.mem_map.mp hx
          exact q4 n hn
        · obtain ⟨n, hn, rfl⟩ := List.mem_map.mp hx
          exact q5 n hn
      · intro x hx
        exact List.mem_append_left _ (List.mem_append_left _ hx)
    have hV : (Sync.snapshot p s).liveV = s.map.length := by
      simp only [Sync.snapshot, hw, hr, List.map_nil, List.filterMap_nil, List.append_nil]
      rw [countDistinct_nodup _ n1, List.length_map]
    rw [hK, hV, snapshot_entries_length]
    simp
  · have : ((Sync.snapshot p s).rq == 0 && (Sync.snapshot p s).wq == 0) = false := by
      cases hx : ((Sync.snapshot p s).rq == 0 && (Sync.snapshot p s).wq == 0) with
      | false => rfl
      | true => exact absurd hx hqz
    rw [this]; rfl

/-- C11 at a state, second half (any state at all): the live objects are bounded by what the
map, the lists and the queues hold. -/
theorem sync_snapshot_liveBounded (p : Params) (s : SState) :
    Spec.liveBounded (Sync.snapshot p s) = true := by
  unfold Spec.liveBounded
  rw [snapshot_entries_length, Bool.and_eq_true, decide_eq_true_eq, decide_eq_true_eq]
  constructor
  · refine Nat.le_trans (countDistinct_le_length _) ?_
    simp only [Sync.snapshot, List.length_append, List.length_map]
    exact Nat.le_refl _
  · refine Nat.le_trans (countDistinct_le_length _) ?_
    simp only [Sync.snapshot, List.length_append, List.length_map]
    exact Nat.add_le_add_left (List.length_filterMap_le _ _) _

/-! ### C10 -/

/-- The check `oracleC10 .sync` applies to a snapshot that follows `sync`. -/
def quietOk (w : Nat → Nat → Nat) (sn : Snap) : Bool :=
  if sn.rq == 0 && sn.wq == 0 then Spec.snapCountersOk w sn else true

theorem oracleC10_go_of_all (w : Nat → Nat → Nat) (t : Spec.Trace)
    (h : (t.all fun oo => match oo.2 with
      | .snap sn => quietOk w sn
      | _ => true) = true) : Spec.oracleC10.go w t = true := by
  fun_induction Spec.oracleC10.go w t with
  | case1 o sn rest ih =>
    simp only [List.all_cons, Bool.and_eq_true] at h
    rw [Bool.and_eq_true]
    exact ⟨h.2.1, ih h.2.2⟩
  | case2 x rest hne ih =>
    simp only [List.all_cons, Bool.and_eq_true] at h
    exact ih h.2
  | case3 => rfl

theorem sync_snapshot_quietOk {p : Params} {s : SState} (h : TInv p s []) :
    quietOk p.weigh (Sync.snapshot p s) = true := by
  unfold quietOk
  split
  · rename_i hqz
    have hw : s.writeQ = [] := by
      have : s.writeQ.length = 0 := by
        have := (Bool.and_eq_true _ _ ▸ hqz).2
        simpa [Sync.snapshot] using this
      exact List.eq_nil_of_length_eq_zero this
    exact sync_snapshot_counters h hw
  · rfl

/-- C10 on the concurrent cache driven by one thread: for every configuration of the current
code (any capacity, weigher, ttl / tti, hash function) and every history, every snapshot
taken right after `sync` with both queues empty shows `entry_count = number of entries`,
`weighted_size = Σ of the stored policy weights = Σ weigher(key, value)` over the entries
the map holds. -/
theorem C10_sync (p : Params) (hq : Sync.NoQuirks p) (hsm : SmallSketch p) (h : List Op) :
    Spec.oracleC10 .sync p.weigh (Sync.trace p h) = true := by
  unfold Spec.oracleC10
  exact oracleC10_go_of_all _ _
    (sync_all_snaps hq hsm (quietOk p.weigh) (fun _ hs => sync_snapshot_quietOk hs) h)

/-- Stronger than the oracle asks: the counters are exact at *every* snapshot with an empty
write queue (pending reads do not matter, and neither does what precedes the snapshot). -/
theorem C10_sync_every_quiescent_snapshot (p : Params) (hq : Sync.NoQuirks p)
    (hsm : SmallSketch p) (h : List Op) (op : Op) (sn : Snap)
    (hm : (op, Obs.snap sn) ∈ Sync.trace p h) (hwq : sn.wq = 0) :
    Spec.snapCountersOk p.weigh sn = true := by
  obtain ⟨s', hs', rfl⟩ := sync_run_snap_state hq hsm h (init_t p) op sn hm
  exact sync_snapshot_counters hs' (List.eq_nil_of_length_eq_zero hwq)

/-! ### C11 -/

/-- C11 on the concurrent cache driven by one thread: at every snapshot with both queues
empty the number of live key objects and the number of live value objects both equal the
number of entries (objects of replaced, invalidated, evicted, rejected and expired entries
have been released once their queued operations are applied); at every snapshot the live
objects are bounded by the entries, the list nodes and the queued operations. -/
theorem C11_sync (p : Params) (hq : Sync.NoQuirks p) (hsm : SmallSketch p) (h : List Op) :
    Spec.oracleC11 (Sync.trace p h) = true := by
  apply oracleC11_of_all
  exact sync_all_snaps hq hsm (fun sn => Spec.liveOk sn && Spec.liveBounded sn)
    (fun s hs => by
      show (Spec.liveOk _ && Spec.liveBounded _) = true
      rw [sync_snapshot_liveOk hs, sync_snapshot_liveBounded]; rfl) h

/-! ### C04 -/

/-- The first half of `boundC04Sync`, at every snapshot of every trace: the map holds at most
`entry_count + |write queue|` entries (the oracle allows one more: the entry of an `insert`
whose map step is done and whose `upsert` is not queued yet, a state one thread never
observes). -/
theorem C04_sync_count (p : Params) (hq : Sync.NoQuirks p) (hsm : SmallSketch p) (h : List Op)
    (op : Op) (sn : Snap) (hm : (op, Obs.snap sn) ∈ Sync.trace p h) :
    sn.entries.length ≤ sn.ec + sn.wq := by
  obtain ⟨s', hs', rfl⟩ := sync_run_snap_state hq hsm h (init_t p) op sn hm
  rw [snapshot_entries_length]
  exact map_length_le hs'

/-- The weight half at the level of states: after `sync` in any reachable state (all queued
operations applied, expired entries and LRU victims evicted, counters published) the
weighted size is within the capacity, unless the run has removed a full eviction batch. -/
theorem C04_sync_after_sync (p : Params) (hq : Sync.NoQuirks p) (hsm : SmallSketch p)
    (h : List Op) (c : Nat) (hcap : p.cap = some c) :
    (Sync.syncRun p (Sync.stateAfter p {} h)).ws ≤ c ∨
      (Sync.syncRun p (Sync.stateAfter p {} h)).map.length + Gen.SYNC_EVICTION_BATCH_SIZE ≤
        (Sync.stateAfter p {} h).map.length :=
  syncRun_weight hq hsm (stateAfter_t hq hsm h (init_t p)) hcap

/-- C04 on the concurrent cache driven by one thread, for the corrected oracle
`Spec.oracleC04`: for every configuration of the current code and every history,
every snapshot shows at most `entry_count + |write queue| + 1` entries, and every snapshot
taken right after `sync` with both queues empty shows residents weighing at most
`max_capacity`, unless that maintenance run removed a full batch of
`SYNC_EVICTION_BATCH_SIZE` entries (the excess left by updates that made entries heavier is
worked off one batch per run). -/
theorem C04_sync (p : Params) (hq : Sync.NoQuirks p) (hsm : SmallSketch p) (h : List Op) :
    Spec.oracleC04 .sync p.cap (Sync.trace p h) = true := by
  unfold Spec.oracleC04
  cases hcap : p.cap with
  | none => rfl
  | some c =>
    exact boundC04SyncGo_run hq hsm hcap 0 _ {} h (init_t p) (Nat.zero_le _) rfl

/-! ### non-vacuity -/

/-- Capacity 6, weigher `value % 5`, time-to-live 2 s. -/
def c10Params : Params :=
  { cap := some 6, ttl := some 2000000000, hasWeigher := true, w := fun _ v => v % 5 }

/-- Inserts, an update that changes the weight (1 → 3), an invalidation, two rejected
candidates (keys 3 and 5: the cache is full and they are not popular), an update of a not yet
admitted entry, expiry of key 1, `invalidate_all`; snapshots with pending operations and
quiescent snapshots right after `sync` (with 2, 2, 1, 2, 2 and 1 entries; six in all). -/
def c10History : List Op :=
  [.ins 1 1, .ins 2 2, .snap, .sync, .snap, .ins 1 3, .snap, .sync, .snap, .get 1, .ins 3 4,
   .inv 2, .snap, .sync, .snap, .get 4, .get 4, .get 4, .adv Gen.PAST_SYNC_INTERVAL_NS, .ins 4 2, .ins 4 7,
   .ins 5 9, .snap, .sync, .snap, .adv (2000000000 - Gen.PAST_SYNC_INTERVAL_NS), .ins 6 1, .sync, .snap, .invAll, .sync, .snap]

example : Spec.oracleC10 .sync c10Params.weigh (Sync.trace c10Params c10History) = true := by
  decide +kernel

example : Spec.oracleC11 (Sync.trace c10Params c10History) = true := by
  decide +kernel

example : Spec.oracleC04 .sync c10Params.cap (Sync.trace c10Params c10History) = true := by
  decide +kernel

/-- What the quiescent snapshots of that trace show: `(entries, entry_count, weighted_size,
live keys, live values)`. -/
example : (Sync.trace c10Params c10History).filterMap (fun oo => match oo.2 with
    | .snap sn => if sn.rq == 0 && sn.wq == 0 then
        some (sn.entries.map (fun e => (e.key, e.val, e.weight)), sn.ec, sn.ws, sn.liveK, sn.liveV)
      else none
    | _ => none) =
    [([(1, 1, 1), (2, 2, 2)], 2, 3, 2, 2), ([(1, 3, 3), (2, 2, 2)], 2, 5, 2, 2),
     ([(1, 3, 3)], 1, 3, 1, 1), ([(1, 3, 3), (4, 7, 2)], 2, 5, 2, 2),
     ([(4, 7, 2), (6, 1, 1)], 2, 3, 2, 2), ([(6, 1, 1)], 1, 1, 1, 1)] := by
  decide +kernel

/-- The theorems apply to this configuration. -/
example : Spec.oracleC10 .sync c10Params.weigh (Sync.trace c10Params c10History) = true :=
  C10_sync c10Params rfl
    ⟨fun c hc => by cases hc; decide +kernel,
     fun _ _ _ => by show Sketch.sketchCapacity 0 ≤ 2 ^ 27; decide +kernel⟩ _

/-- The oracles reject wrong counters and leaked objects. -/
example : Spec.oracleC10 .sync (fun _ _ => 1)
    [(.sync, .ok), (.snap, .snap { Wire.emptySnap with ec := 1, ws := 0 })] = false := by decide

example : Spec.oracleC11 [(.snap, .snap { Wire.emptySnap with liveK := 0, liveV := 1 })] = false := by
  decide

/-! ### C04: the corrected oracle and the old one -/

/-- One resident of weight 5. -/
def heavySnap : Snap :=
  let e : EntryView :=
    { key := 1, val := 5, weight := 5, la := none, lm := none, aoOk := true, woOk := true }
  { Wire.emptySnap with ec := 1, ws := 5, entries := [e] }

/-- The corrected oracle rejects a maintenance run that leaves excess behind without having
removed anything: capacity 3, one resident of weight 5 before and after `sync`; with and
without a snapshot before the `sync`. -/
example : Spec.oracleC04 .sync (some 3)
    [(.ins 1 5, .ok), (.snap, .snap heavySnap), (.sync, .ok), (.snap, .snap heavySnap)] = false := by
  decide

example : Spec.oracleC04 .sync (some 3)
    [(.ins 1 5, .ok), (.sync, .ok), (.snap, .snap heavySnap)] = false := by
  decide

/-- … and a map that holds more entries than `entry_count + |write queue| + 1`. -/
example : Spec.oracleC04 .sync (some 3)
    [(.snap, .snap { heavySnap with ec := 0, entries := heavySnap.entries ++ heavySnap.entries })]
      = false := by
  decide

/-- It accepts excess that remains after a full batch was removed (501 entries before,
one heavy entry after). -/
example : Spec.boundC04SyncGo 3 501 [(.sync, .ok), (.snap, .snap heavySnap)] = true := by
  decide

/-! `C04 old oracle`: the first version of `Spec.oracleC04 .sync` (at a quiescent snapshot after
`sync`: `entries.length > 400 || snapWeight ≤ cap`) was false on the current code. Capacity 10,
weigher = value, eviction batch 500 (the generated constant at the time). 501 keys of weight 0
are all admitted; key 0 is then updated to weight 1000000. The next maintenance run must evict
999990: the LRU loop evicts its batch of 500 weight-0 entries and stops; the heavy entry (most
recently used) stays. The quiescent snapshot after `sync` shows 1 entry, at most 400, weighing
1000000 > 10: the old tolerance did not apply, the corrected oracle accepts ("a full batch was
worked off").

    def p : Params := { cap := some 10, hasWeigher := true, w := fun _ v => v }
    def h (n : Nat) : List Op :=
      (List.range n).map (fun k => Op.ins k 0) ++ [.sync, .snap, .ins 0 1000000, .sync, .snap]
    -- old oracle on `Sync.trace p (h 501)`: false;  corrected oracle (`Spec.oracleC04`): true

The kernel accepted `decide +kernel` for the old oracle's `false` once (2026-09-24, about 7
minutes); no smaller witness exists (by `C04_sync_after_sync` a map of at most one batch never
keeps excess after `sync`), so it is not part of the build. -/

/-! ### the repaired defects, with their switches on -/

/-- D8 (weight drift: the policy weight was written at insert time). History of
`corpus/D8.ops`: key 2 is updated (weight 1 → 3) while the admission of key 4 is still
queued; the admission evicts key 2 and frees its *new* weight. -/
def d8History : List Op :=
  [.ins 1 5, .sync, .ins 2 1, .sync, .adv 1000000000, .get 1, .sync, .adv 1000000000, .get 4,
   .get 4, .ins 4 3, .ins 2 3, .sync, .snap]

def d8Params (q : Quirks) : Params := { cap := some 8, hasWeigher := true, w := fun _ v => v, q := q }

theorem C10_sync_counterexample_D8 :
    Spec.oracleC10 .sync (d8Params {}).weigh (Sync.trace (d8Params { d8 := true }) d8History)
      = false := by
  decide +kernel

example : Spec.oracleC10 .sync (d8Params {}).weigh (Sync.trace (d8Params {}) d8History) = true := by
  decide +kernel

/-- D7 (maintenance addressed map entries by key only). History of `corpus/D7.ops`: with the
switch on, a node of a replaced generation of key 3 survives its entry; the counters and the
live-object counts are wrong at the quiescent snapshots (and the run ends in a
use-after-free). -/
def d7History' : List Op :=
  [.ins 1 1, .ins 2 1, .sync, .ins 3 1, .ins 3 1, .adv Gen.PAST_SYNC_INTERVAL_NS, .get 3, .sync, .snap, .ins 3 1,
   .sync, .snap, .get 4, .get 4, .get 4, .ins 4 2, .sync, .snap]

def d7Params' (q : Quirks) : Params := { cap := some 2, hasWeigher := true, w := fun _ v => v, q := q }

theorem C10_sync_counterexample_D7 :
    Spec.oracleC10 .sync (d7Params' {}).weigh (Sync.trace (d7Params' { d7 := true }) d7History')
      = false := by
  decide +kernel

theorem C11_sync_counterexample_D7 :
    Spec.oracleC11 (Sync.trace (d7Params' { d7 := true }) d7History') = false := by
  decide +kernel

example : Spec.oracleC10 .sync (d7Params' {}).weigh (Sync.trace (d7Params' {}) d7History') = true ∧
    Spec.oracleC11 (Sync.trace (d7Params' {}) d7History') = true := by
  decide +kernel

end Props
end MiniMoka

namespace MiniMoka.Props
#print axioms C10_sync
#print axioms C10_sync_every_quiescent_snapshot
#print axioms C11_sync
#print axioms C04_sync_count
#print axioms C04_sync_after_sync
#print axioms C04_sync
#print axioms C10_sync_counterexample_D8
#print axioms C10_sync_counterexample_D7
#print axioms C11_sync_counterexample_D7
end MiniMoka.Props
