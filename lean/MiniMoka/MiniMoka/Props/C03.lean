/-
  C03 — no spurious loss: below capacity the cache is exactly a map with expiry.
-/
import MiniMoka.Lemmas.UnsyncNoLoss
import MiniMoka.Lemmas.SketchLaws

namespace MiniMoka
namespace Props

open Unsync

/-- Part B on the single-threaded cache, for every configuration and every reachable state
(`Inv`): inserting a new key whose weight fits in the remaining capacity (computed from the
residents actually held after the operation's own expiry purge) succeeds, and no entry that
the purge left is evicted — each keeps its value. With no `max_capacity` every insert fits. -/
theorem C03B_unsync {p : Params} (hq : NoQuirks p)
    {s : UState} (hi : Inv Sketch.Good p s) (k v : Nat)
    (hnew : AL.get? (maintain p s).map k = none)
    (hfit : hasEnoughCapacity p (p.weigh k v) (maintain p s).ws = true) :
    (∃ e, AL.get? (insert p s k v).map k = some e ∧ e.val = v) ∧
    (∀ k' e', AL.get? (maintain p s).map k' = some e' →
      ∃ e'', AL.get? (insert p s k v).map k' = some e'' ∧ e''.val = e'.val) :=
  Unsync.C03B_unsync_aux hq hi k v hnew hfit

/-- The purge at the start of an operation drops only entries whose ttl or tti deadline has
passed, as long as the cache is not over capacity (with no `max_capacity`: always). Together
with `C03B_unsync`: below capacity nothing is lost for any other reason. -/
theorem C03_unsync_purge_only_expired {p : Params} (hq : NoQuirks p)
    {s : UState} (hi : Inv Sketch.Good p s) (hfit : ∀ c, p.cap = some c → s.ws ≤ c) (k : Nat) (e : UEntry)
    (hwas : AL.get? s.map k = some e) (hgone : AL.get? (maintain p s).map k = none) :
    isExpiredEntry p s e s.now = true :=
  maintain_only_expired hq hi hfit k e ⟨hwas, hgone⟩

/-- Non-vacuity: the hypotheses are met by a concrete state with residents, and the oracle of
C03 (reference map with expiry run beside the trace) accepts a model history with expiry,
reads that extend the idle timer, and invalidations. -/
example : Spec.oracleC03 .unsync none (some 5) (some 3) (fun _ _ => 1) (Unsync.trace
    { ttl := some 5, tti := some 3 }
    [.ins 1 10, .ins 2 20, .adv 2, .get 1, .adv 2, .has 1, .has 2, .iter, .adv 1, .get 1, .ins 3 30,
     .inv 3, .get 3, .iter]) = true := by
  decide +kernel

/-- The oracle is not vacuous: it rejects a trace that loses a live entry. -/
example : Spec.oracleC03 .unsync none none none (fun _ _ => 1)
    [(.ins 1 10, .ok), (.ins 2 20, .ok), (.get 1, .val none)] = false := by
  decide

/-- On the unrepaired tree part B fails (defect D3): a cache emptied by
`invalidate_entries_if` refuses every new key. -/
theorem C03_unsync_counterexample_D3 :
    Spec.oracleC03 .unsync (some 2) none none (fun _ _ => 1)
      (Unsync.trace { cap := some 2, q := { d3 := true } }
        [.ins 1 1, .ins 2 2, .invIf .all, .snap, .ins 3 3, .snap]) = false := by
  decide +kernel

end Props
end MiniMoka
