/-
  C15: `contains_key` and iteration are pure observations.

  PROVED here (machine-checked; lemmas in `Lemmas/Purity.lean`):
   * concurrent cache, full strength, every configuration (quirks included), every state
     (faulted or not), every history: `C15_sync_step` (a `has` / `iter` / `snap` / `freq`
     call returns the very same state) and the metamorphic theorem `C15_sync`: deleting all
     such calls from a history deletes their observations from the trace and changes nothing
     else; `C15_sync_insert_anywhere` is the "adding one call anywhere" form;
   * single-threaded cache: the same for `iter` / `snap` / `freq` (`C15_unsync_iter`).
   * single-threaded `contains_key` is NOT pure (known finding D9: it runs the expiry purge
     and the size eviction before looking).  `C15_unsync_contains_key_partial`: it is pure
     exactly when that maintenance has nothing to do — in a well-structured state in which no
     resident entry is expired at the current clock reading and the cache is not over
     capacity the state is returned unchanged and the answer is membership in the map;
     `C15_unsync_contains_key_reachable` instantiates it to every reachable state;
   * `C15_unsync_counterexample` (D9, confirmed on the real code): two histories that differ
     by one `contains_key` call only, whose final `get` observations differ.
-/
import MiniMoka.Lemmas.Purity
import MiniMoka.Props.C08Unsync

namespace MiniMoka
namespace Props

/-! ### concurrent cache -/

/-- `contains_key`, `iter` (and the two read-only harness hooks) of the concurrent cache
return the state they were called in, whatever it is. -/
theorem C15_sync_step (p : Params) (s : Sync.SState) (op : Op) (h : isPure op = true) :
    (Sync.step p s op).1 = s :=
  Sync.step_pure p s op h

/-- Metamorphic form: for every configuration, start state and history, removing all
`contains_key` / `iter` / `snap` / `freq` calls removes exactly their own observations;
every other observation is unchanged. -/
theorem C15_sync (p : Params) (s : Sync.SState) (h : List Op) :
    (Sync.run p s h).filter (fun oo => !isPure oo.1) =
      Sync.run p s (h.filter (fun op => !isPure op)) :=
  Sync.run_filter_pure p h s

/-- The same on traces from the empty cache. -/
theorem C15_sync_trace (p : Params) (h : List Op) :
    (Sync.trace p h).filter (fun oo => !isPure oo.1) =
      Sync.trace p (h.filter (fun op => !isPure op)) :=
  Sync.run_filter_pure p h {}

/-- Two histories with the same non-pure calls have the same non-pure observations. -/
theorem C15_sync_congr (p : Params) (s : Sync.SState) (h1 h2 : List Op)
    (heq : h1.filter (fun op => !isPure op) = h2.filter (fun op => !isPure op)) :
    (Sync.run p s h1).filter (fun oo => !isPure oo.1) =
      (Sync.run p s h2).filter (fun oo => !isPure oo.1) := by
  rw [C15_sync, C15_sync, heq]

/-- Adding one pure call anywhere in a history changes no other observation. -/
theorem C15_sync_insert_anywhere (p : Params) (s : Sync.SState) (pre post : List Op) (op : Op)
    (hop : isPure op = true) :
    (Sync.run p s (pre ++ op :: post)).filter (fun oo => !isPure oo.1) =
      (Sync.run p s (pre ++ post)).filter (fun oo => !isPure oo.1) := by
  apply C15_sync_congr
  rw [List.filter_append, List.filter_append, List.filter_cons_of_neg (by simpa using hop)]

/-! ### single-threaded cache -/

theorem C15_unsync_iter_step (p : Params) (s : Unsync.UState) (op : Op)
    (h : isPureU op = true) : (Unsync.step p s op).1 = s :=
  Unsync.step_pureU p s op h

/-- `iter` (and the hooks `snap`, `freq`) of the single-threaded cache are pure: removing
them from a history removes exactly their observations. -/
theorem C15_unsync_iter (p : Params) (s : Unsync.UState) (h : List Op) :
    (Unsync.run p s h).filter (fun oo => !isPureU oo.1) =
      Unsync.run p s (h.filter (fun op => !isPureU op)) :=
  Unsync.run_filter_pureU p h s

/- Full-strength statement for `contains_key`, which is FALSE for the single-threaded cache
   (see `C15_unsync_counterexample`):
     ∀ p s h, (Unsync.run p s h).filter (fun oo => !isPure oo.1)
                = Unsync.run p s (h.filter (fun op => !isPure op))
   What holds is the following. -/

/-- `contains_key` of the single-threaded cache is pure when its start-of-operation
maintenance has nothing to do: in a well-structured state (`Struct`: the invariant of every
reachable state, `C08_unsync_structure`) where no resident is expired at the current clock
reading and nothing is to be evicted for size, the state is returned unchanged and the answer
is whether the key is in the map. -/
theorem C15_unsync_contains_key_partial {p : Params} {s : Unsync.UState}
    (hs : Unsync.Struct p s) (hne : Unsync.NoneExpired p s)
    (hfit : Unsync.weightsToEvict p s = 0) (k : Nat) :
    (Unsync.containsKey p s k).1 = s ∧
    (Unsync.containsKey p s k).2 = (AL.get? s.map k).isSome ∧
    (Unsync.step p s (.has k)).1 = s := by
  have hc := Unsync.containsKey_of_noop (Unsync.maintain_noop hs hne hfit) hne k
  refine ⟨by rw [hc], by rw [hc], ?_⟩
  unfold Unsync.step
  rw [if_neg (by rw [hs.noFault]; exact Bool.false_ne_true)]
  dsimp only
  rw [hc, hs.noFault]

/-- The two maintenance passes taken separately: the expiry purge is the identity when no
resident is expired, the size eviction is the identity when the cache is not over capacity. -/
theorem C15_unsync_maintenance_noop {p : Params} {s : Unsync.UState} :
    (Unsync.Struct p s → Unsync.NoneExpired p s → Unsync.evictExpired p s = s) ∧
    (Unsync.weightsToEvict p s = 0 → Unsync.evictLru p s = s) :=
  ⟨fun hs hne => Unsync.evictExpired_noop hs hne, fun h => Unsync.evictLru_noop h⟩

/-- In every reachable state of the (repaired) single-threaded cache: if no resident is
expired now and the cache is not over capacity, `contains_key` changes nothing. -/
theorem C15_unsync_contains_key_reachable (p : Params) (hq : Unsync.NoQuirks p)
    (hsm : SmallSketch p) (h : List Op) (k : Nat)
    (hne : Unsync.NoneExpired p (Unsync.runState p {} h))
    (hfit : Unsync.weightsToEvict p (Unsync.runState p {} h) = 0) :
    (Unsync.step p (Unsync.runState p {} h) (.has k)).1 = Unsync.runState p {} h :=
  (C15_unsync_contains_key_partial (C08_unsync_structure p hq hsm h) hne hfit k).2.2

/-! ### D9: the single-threaded `contains_key` evicts while over capacity -/

/-- Weigher by value, capacity 8. -/
def d9Params : Params := { cap := some 8, hasWeigher := true, w := fun _ v => v }

/-- Three entries of weight 2; key 3 is updated in place to weight 7 (weighted size 11 > 8);
the heavy entry is invalidated by predicate (which runs no maintenance); key 1, the LRU
entry, is still there. -/
def d9Without : List Op :=
  [.ins 1 2, .ins 2 2, .ins 3 2, .ins 3 7, .invIf (.kmod 3 0), .get 1]

/-- The same with one `contains_key` of an absent key before the invalidation: it finds the
cache over capacity and evicts keys 1 and 2. -/
def d9With : List Op :=
  [.ins 1 2, .ins 2 2, .ins 3 2, .ins 3 7, .has 99, .invIf (.kmod 3 0), .get 1]

/-- The value reported by a `get` observation. -/
def obsVal : Obs → Option (Option Nat)
  | .val v => some v
  | _ => none

/-- Known finding D9, on the repaired model (no quirk switch set): the two histories differ
by one `contains_key` call only, yet the final `get 1` returns the value in one and nothing
in the other; consequently the metamorphic equation of `C15_sync` fails for `Unsync`. -/
theorem C15_unsync_counterexample :
    d9Params.q = {} ∧
    d9With.filter (fun op => !isPure op) = d9Without ∧
    ((Unsync.trace d9Params d9Without).getLast?.map (fun oo => obsVal oo.2)
      = some (some (some 2))) ∧
    ((Unsync.trace d9Params d9With).getLast?.map (fun oo => obsVal oo.2)
      = some (some none)) ∧
    (Unsync.run d9Params {} d9With).filter (fun oo => !isPure oo.1) ≠
      Unsync.run d9Params {} (d9With.filter (fun op => !isPure op)) := by
  refine ⟨rfl, by decide, by decide +kernel, by decide +kernel, ?_⟩
  intro heq
  have h2 := congrArg (fun l => l.getLast?.map (fun oo => obsVal oo.2)) heq
  revert h2
  decide +kernel

/-! ### non-vacuity -/

/-- `C15_sync` on a history where the pure calls sit between inserts, reads, an
invalidation, a maintenance run and clock steps (ttl configured, so `has` / `iter` have
expired entries to filter): both sides are non-trivial and equal. -/
example :
    let p : Params := { cap := some 3, ttl := some 10 }
    let h : List Op := [.ins 1 10, .has 1, .ins 2 20, .iter, .get 1, .adv 6, .has 2, .ins 3 30,
      .ins 4 40, .iter, .sync, .has 4, .iter, .adv 6, .has 1, .iter, .get 1, .inv 3, .has 3, .get 3]
    ((Sync.trace p h).filter (fun oo => !isPure oo.1)).map (fun oo => obsVal oo.2) =
      (Sync.trace p (h.filter (fun op => !isPure op))).map (fun oo => obsVal oo.2) ∧
    ((Sync.trace p h).filter (fun oo => !isPure oo.1)).length = 11 ∧
    (Sync.trace p h).length = 20 := by
  decide +kernel

/-- The pure calls do observe something: `has` answers change along that history. -/
example :
    let p : Params := { cap := some 3, ttl := some 10 }
    let h : List Op := [.ins 1 10, .has 1, .adv 11, .has 1, .has 2]
    (Sync.trace p h).map (fun oo => match oo.2 with | .bool b => some b | _ => none) =
      [none, some true, none, some false, some false] := by
  decide +kernel

/-- `C15_unsync_iter` on a small history with expiry. -/
example :
    let p : Params := { cap := some 3, tti := some 10 }
    let h : List Op := [.ins 1 10, .iter, .ins 2 20, .snap, .get 1, .adv 6, .freq 1, .ins 3 30,
      .iter, .adv 6, .iter, .get 1, .get 2]
    ((Unsync.trace p h).filter (fun oo => !isPureU oo.1)).map (fun oo => obsVal oo.2) =
      (Unsync.trace p (h.filter (fun op => !isPureU op))).map (fun oo => obsVal oo.2) ∧
    ((Unsync.trace p h).filter (fun oo => !isPureU oo.1)).length = 8 := by
  decide +kernel

/-- The hypotheses of `C15_unsync_contains_key_partial` (nothing to evict, no resident
expired) are met by a reachable state with residents, and `contains_key` then answers
membership. -/
example :
    let p : Params := { cap := some 3, ttl := some 10 }
    let s := Unsync.runState p {} [.ins 1 10, .ins 2 20, .adv 5]
    Unsync.weightsToEvict p s = 0 ∧
    (s.map.all (fun kv => !Unsync.isExpiredEntry p s kv.2 s.now)) = true ∧
    s.map.length = 2 ∧
    (Unsync.containsKey p s 1).2 = true ∧ (Unsync.containsKey p s 7).2 = false := by
  decide +kernel

/-- … and when an entry is expired, `contains_key` does change the state (it purges). -/
example :
    let p : Params := { cap := some 3, ttl := some 10 }
    let s := Unsync.runState p {} [.ins 1 10, .ins 2 20, .adv 11]
    s.map.length = 2 ∧ (Unsync.containsKey p s 1).1.map.length = 0 := by
  decide +kernel

end Props
end MiniMoka

section
open MiniMoka.Props
#print axioms C15_sync_step
#print axioms C15_sync
#print axioms C15_sync_trace
#print axioms C15_sync_insert_anywhere
#print axioms C15_unsync_iter
#print axioms C15_unsync_contains_key_partial
#print axioms C15_unsync_maintenance_noop
#print axioms C15_unsync_contains_key_reachable
#print axioms C15_unsync_counterexample
end
