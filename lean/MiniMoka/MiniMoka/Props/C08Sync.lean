/-
  C08 (concurrent cache driven by one thread): memory safety of the deque nodes.  No history
  dereferences a freed list node (`useAfterFree`), underflows the overflow-checked entry
  counter of a maintenance run (`overflow`), or hits an `expect` / `unreachable!` / "not a
  member" panic.  The only fault the proof leaves open is `hang` (the retry loop of
  `schedule_write_op`), which is the subject of `Lemmas/SyncQueues.lean`.
-/
import MiniMoka.Lemmas.SyncNodes
import MiniMoka.Lemmas.SketchLaws

namespace MiniMoka
namespace Props

open Sync Sync.Nodes

/-- For every configuration of the current code (`NoQuirks`: all defect switches off) whose
sketch stays below the documented size limit, and every history of public API calls, no
observation of the sync model is a panic other than `hang`. -/
theorem C08_sync_no_uaf_no_overflow (p : Params) (hq : Sync.NoQuirks p) (hsm : SmallSketch p)
    (h : List Op) : noPanicButHang (Sync.trace p h) = true :=
  run_all sketchLaws hq hsm h {} (Or.inl (init_inv sketchLaws))

/-- The same, spelled out: a panic observed in a trace can only be `hang`; in particular
it is never `useAfterFree`, `overflow`, `expect`, `unreachable` or `notMember`. -/
theorem C08_sync_panic_is_hang (p : Params) (hq : Sync.NoQuirks p) (hsm : SmallSketch p)
    (h : List Op) (op : Op) (f : Fault) (hin : (op, Obs.panic f) ∈ Sync.trace p h) :
    f = .hang := by
  have := C08_sync_no_uaf_no_overflow p hq hsm h
  unfold noPanicButHang at this
  rw [List.all_eq_true] at this
  have h1 := this _ hin
  cases f <;> first | rfl | (simp [okObs] at h1)

/-- Combination with the (separately proved) absence of `hang`: if moreover no observation
is `panic hang`, the trace contains no panic at all. -/
theorem C08_sync_no_panic_of_no_hang (p : Params) (hq : Sync.NoQuirks p) (hsm : SmallSketch p)
    (h : List Op) (hh : ∀ op, (op, Obs.panic .hang) ∉ Sync.trace p h) (op : Op) (f : Fault) :
    (op, Obs.panic f) ∉ Sync.trace p h := by
  intro hin
  have := C08_sync_panic_is_hang p hq hsm h op f hin
  subst this
  exact hh op hin

/-- The structural invariant behind it, in every reachable state: node ids are pairwise
distinct (no node is in a list twice), every node of the access-order (write-order) list is
owned by exactly one entry info, which points back at it, every node pointer held by an
info points at a node that is in its list (no node is freed while referenced), an info is
admitted iff it owns an access-order node, and the published entry count is the length of
the access-order list. -/
theorem C08_sync_structure (p : Params) (hq : Sync.NoQuirks p) (hsm : SmallSketch p)
    (h : List Op) : NodesInvTop (finalState p {} h) ∧ MapOK (finalState p {} h) := by
  have := (finalState_core sketchLaws hq hsm h {} (init_inv sketchLaws).toTopCore (Or.inl rfl)).1
  exact ⟨this.nodes, this.map⟩

/-! ### the defect D7 (maintenance addressing map entries by key only) -/

/-- Weigher by value, capacity 2, identity hash; `d7` switched on. -/
def d7Params : Params :=
  { cap := some 2, hasWeigher := true, w := fun _ v => v, q := { d7 := true } }

/-- The same configuration on the current code. -/
def d7Repaired : Params := { cap := some 2, hasWeigher := true, w := fun _ v => v }

/-- Keys 1 and 2 fill the cache and key 3 is made popular.  Key 1 is updated while the
admission of key 3 is still queued: the maintenance run inside that `insert` evicts key 1,
then the update's own write op is queued and later re-admits the evicted info (a node for
key 1 that no map entry owns).  Key 1 is inserted again (second node for key 1).  After
keys 2 and 3 have been read (their nodes move to the back) the admission of the popular
key 4 selects both nodes of key 1 as victims; removing the first one by key frees the
second, which is dereferenced next. -/
def d7History : List Op :=
  [.ins 1 1, .ins 2 1, .get 3, .get 3, .get 3, .get 3, .ins 3 1, .ins 1 0, .sync, .ins 1 0, .sync,
   .get 2, .get 3, .get 4, .get 4, .get 4, .get 4, .sync, .ins 4 1, .sync]

def obsIsPanic (f : Fault) : Obs → Bool
  | .panic g => g == f
  | _ => false

/-- With `d7` the model reaches a use-after-free through the public API. -/
theorem C08_sync_uaf_counterexample :
    (Sync.trace d7Params d7History).getLast?.map (fun x => obsIsPanic .useAfterFree x.2)
      = some true := by
  decide +kernel

/-- The same history on the current code raises no panic at all. -/
example : (Sync.trace d7Repaired d7History).all (fun x => !(obsIsPanic .useAfterFree x.2) &&
    okObs x.2) = true := by
  decide +kernel

/-! ### non-vacuity -/

/-- Keys 1 and 2 fill the cache, key 3 is made popular and inserted; key 1 is invalidated
while the admission of key 3 is still queued. -/
def skipHistory : List Op :=
  [.ins 1 1, .ins 2 1, .get 3, .get 3, .get 3, .get 3, .ins 3 1, .inv 1]

/-- The maintenance run inside `invalidate 1` (after its map step, before its `Remove` is
queued) admits key 3: the node of key 1 is skipped (its entry has left the map), the node of
key 2 is the victim. -/
example :
    let s := finalState d7Repaired {} (skipHistory.take 7)
    let s' : SState := { s with map := AL.erase s.map 1, cec := s.ec, cws := s.ws }
    let a := admitLoop d7Repaired s' 1 (s'.sk.frequency (d7Repaired.hash 3)) s'.prob {}
    (s.prob.map (·.key), a.victims.map (·.key), a.skipped.map (·.key)) = ([1, 2], [2], [1]) := by
  decide +kernel

/-- Afterwards: no fault, the skipped node of key 1 has been moved behind the new node of
key 3 and is still owned by its (invalidated) info, whose `Remove` is still queued; the
theorems above apply to this state. -/
example :
    let s := finalState d7Repaired {} skipHistory
    (s.fault, s.prob.map (·.key), s.map.map (·.1), s.writeQ.length, s.ec) =
      (none, [3, 1], [3], 1, 2) := by
  decide +kernel

example : noPanicButHang (Sync.trace d7Repaired (skipHistory ++ [.sync, .snap])) = true :=
  C08_sync_no_uaf_no_overflow d7Repaired rfl
    ⟨fun c hc => by cases hc; decide +kernel, fun _ _ _ => by show Sketch.sketchCapacity 0 ≤ 2 ^ 27; decide +kernel⟩ _

/-- Fault tracking is live: on states that violate the invariant (an info pointing at a node
that is in no list; an admitted info while the local entry counter is 0) the model raises
the faults the theorems exclude. -/
example : (moveToBackAoE { infos := [(0, { ao := some 3 })] } 0).fault = some .useAfterFree := by
  decide

example : (unlinkWo { infos := [(0, { wo := some 3 })] } 0).fault = some .useAfterFree := by
  decide

example : (handleRemove { infos := [(0, { admitted := true })] } { id := 1, val := 0, info := 0 }).fault
    = some .overflow := by
  decide

end Props
end MiniMoka

namespace MiniMoka.Props
#print axioms C08_sync_no_uaf_no_overflow
#print axioms C08_sync_panic_is_hang
#print axioms C08_sync_no_panic_of_no_hang
#print axioms C08_sync_structure
#print axioms C08_sync_uaf_counterexample
end MiniMoka.Props
