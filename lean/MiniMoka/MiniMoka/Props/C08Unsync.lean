/-
  C08 (single-threaded cache part): no history causes an internal panic, overflow,
  failed `expect`/`unwrap`, `unreachable!` or a list operation on a node that is not in
  its list.
-/
import MiniMoka.Lemmas.UnsyncTrace
import MiniMoka.Lemmas.SketchLaws

namespace MiniMoka
namespace Props

open Unsync

/-- For every configuration (capacity, weigher, ttl, tti, hash function — colliding ones
included) and every history of public API calls, no observation of the unsync model is a
fault: every `expect`, `unwrap`, `unreachable!`, "not a member" panic, overflow-checked
counter operation and node dereference of `unsync::Cache` is shown unreachable.
`SmallSketch`: sketch table below 2^28 slots (documented limit). -/
theorem C08_unsync_no_fault (p : Params) (hq : NoQuirks p)
    (hsm : SmallSketch p) (h : List Op) :
    Spec.noPanic (Unsync.trace p h) = true := by
  unfold Spec.noPanic Unsync.trace
  apply run_all sketchLaws hq hsm _ _ h {} (init_inv sketchLaws p)
  intro s op hi
  rw [step_obs sketchLaws hq hsm hi op]
  cases op <;> rfl

/-- The structural invariant behind it, for every reachable state: every map entry owns
exactly one live node of the access-order list (and of the write-order list when ttl is
configured), every node is owned by the map entry of its key, node ids are pairwise
distinct (no node is in a list twice, none is freed while referenced). -/
theorem C08_unsync_structure (p : Params) (hq : NoQuirks p)
    (hsm : SmallSketch p) (h : List Op) :
    Struct p (runState p {} h) :=
  (reachable_inv sketchLaws hq hsm h).inv.struct

/-- Non-vacuity: fault tracking is live. On a state that violates the invariant (an entry
pointing at a node that is in no list) the model does raise the "not a member" panic, and
dereferencing the missing write-order pointer raises the `unwrap` failure. -/
example : (unlinkAo {} { val := 0, weight := 0, ao := some 3 }).fault = some .notMember := by
  decide

example : (moveToBackWoE {} { val := 0, weight := 0 }).fault = some .expect := by decide

end Props
end MiniMoka
