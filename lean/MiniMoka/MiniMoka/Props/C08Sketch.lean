/-
  C08 (absence of internal panics), sketch layer: the arithmetic of
  `common/frequency_sketch.rs` never overflows.

  Model: `MiniMoka/Sketch.lean` — every overflow-checked operation of the code is a
  `Fault.overflow` of the model: `size + 1` (u32), `count += count_ones` (u32, checked once at
  the end, the sum is monotone), `size - (count >> 2)` (and, for the unrepaired formula,
  `(size >> 1) - (count >> 2)`); table indexing is `getD`/`setIfInBounds` in the model and
  proved in bounds here (`WF`, `indexOf_lt`); "the nibble add never carries" is `WF`'s
  `word < 2^64` together with `nib_add_pow_ne`.  Lemmas and the definitions used in the
  statements: `MiniMoka/Lemmas/Sketch.lean` (reading guide: `Props/C14.lean`).

  * `WF s` — words `< 2^64`, `mask + 1 = table.size` (or empty table), `mask < 2^32`,
    `table.size ≤ 2^30`.
  * `CInv s` — `tableSum s.table ≤ 4 * s.size + 3 ∧ s.size < s.sampleSize ∧
    s.sampleSize ≤ 2147483647` (`tableSum` = sum of all 4-bit counters).
  * `oddTotal t` — the number of odd counters of `t`, the `count` of `reset`.

  The boundary.  `count : u32` is bounded by the number of counters, `16 * table.size`, and this
  is attained by tables (`C08_sketch_count_bound_tight`); so `count ≤ u32::MAX` is guaranteed
  exactly for `table.size < 2^28`, i.e. for `ensure_capacity(cap)` with `cap ≤ 2^27`
  (`cap = 2^27 + 1` allocates `2^28` words = 2 GiB; the maximal table, `2^30` words, is 8 GiB).
  The other bound, `count ≤ Σcounters ≤ 4 * sample_size + 3 < 2^33`, does not help for larger
  capacities (`sample_size = min(10 * cap, i32::MAX) > 2^30` there).  `C08_sketch_only_count_overflow` states that for *every*
  capacity this `u32` counter is the only operation that can overflow.
-/
import MiniMoka.Lemmas.Sketch

namespace MiniMoka
namespace Sketch

/-- Well-formedness: the default sketch, `ensure_capacity`, `increment`. -/
theorem C08_sketch_wf_default : WF ({} : Sketch) := wf_default

theorem C08_sketch_wf_ensureCapacity (s : Sketch) (cap : Nat) (h : WF s) :
    WF (s.ensureCapacity cap) := wf_ensureCapacity s cap h

theorem C08_sketch_wf_increment {s s' : Sketch} (hash : UInt64) (hwf : WF s)
    (h : increment false s hash = .ok s') : WF s' := wf_increment hash hwf h

/-- Table indices are in bounds in every well-formed state with a table. -/
theorem C08_sketch_index_in_bounds {s : Sketch} (h : WF s) (hne : s.table.size ≠ 0)
    (hash : UInt64) (i : Nat) (hi : i < 4) :
    s.indexOf hash i < s.table.size ∧ start hash + i < 16 := by
  have := start_le hash
  exact ⟨indexOf_lt h hne hash i, by omega⟩

/-- `ensure_capacity` from the default sketch: never an empty table, `10 ≤ sample_size ≤ i32::MAX`,
at most `2^30` words, and at most `2^k` words when `cap ≤ 2^k`. -/
theorem C08_sketch_init (cap : Nat) :
    (init cap).table.size ≠ 0 ∧ (init cap).table.size ≤ 2 ^ 30 ∧
    10 ≤ (init cap).sampleSize ∧ (init cap).sampleSize ≤ 2147483647 ∧
    (∀ k, cap ≤ 2 ^ k → (init cap).table.size ≤ 2 ^ k) :=
  ⟨init_table_ne cap, (wf_init cap).2.2.2, (init_sampleSize cap).1, (init_sampleSize cap).2,
    fun k hk => by rw [init_table_size]; exact tableSizeFor_le cap k hk⟩

/-- No overflow.  For every capacity `cap ≤ 2^27` (tables below `2^28` words) and every sequence
of recorded hashes the run completes without fault, and its final state (hence the state after
every prefix) is well-formed and satisfies `Σcounters ≤ 4·size + 3`,
`size < sample_size ≤ i32::MAX`. -/
theorem C08_sketch_no_overflow (cap : Nat) (hcap : cap ≤ 2 ^ 27) (hs : List UInt64) :
    ∃ s g, runG (init cap, ghost0) hs = .ok (s, g) ∧
      hs.foldlM (increment false) (init cap) = .ok s ∧
      WF s ∧ s.table.size < 2 ^ 28 ∧
      tableSum s.table ≤ 4 * s.size + 3 ∧ s.size < s.sampleSize ∧ s.sampleSize ≤ 2147483647 := by
  obtain ⟨⟨s, g⟩, hrun⟩ :=
    run_ok_of_rinv (st := (init cap, ghost0)) (rinv_init cap) (init_small hcap) hs
  have inv := rinv_of_run hrun
  refine ⟨s, g, hrun, ?_, inv.wf, by rw [inv.tsize]; exact init_small hcap, inv.cinv⟩
  rw [← run_eq_foldlM, run_of_runG (init cap) ghost0 hs, hrun]

/-- The individual checks of one increment in a reachable state (tables below `2^28` words),
spelled out: if a counter was incremented then `size + 1` fits `u32`, and the aging step — were it
to run now — has `count ≤ u32::MAX` and `count >> 2 ≤ size`. -/
theorem C08_sketch_checks (cap : Nat) (hcap : cap ≤ 2 ^ 27) (hs : List UInt64) {s : Sketch}
    {g : Ghost} (hrun : runG (init cap, ghost0) hs = .ok (s, g)) (hash : UInt64)
    (hadded : (bumpTable s hash).2 = true) :
    s.size + 1 ≤ U32_MAX ∧ oddTotal (bump s hash).table ≤ U32_MAX ∧
      oddTotal (bump s hash).table / 4 ≤ (bump s hash).size :=
  bump_safe (rinv_of_run hrun).wf (rinv_of_run hrun).ne (rinv_of_run hrun).cinv
    (by rw [(rinv_of_run hrun).tsize]; exact init_small hcap) hash hadded

/-- For every capacity whatsoever: in a reachable state an increment either succeeds or faults
because `count` (the number of odd counters, a `u32` in the code) exceeds `u32::MAX` — which needs
a table of at least `2^28` words.  The invariants hold in every reachable state. -/
theorem C08_sketch_only_count_overflow (cap : Nat) (hs : List UInt64) {s : Sketch} {g : Ghost}
    (hrun : runG (init cap, ghost0) hs = .ok (s, g)) (hash : UInt64) :
    (WF s ∧ tableSum s.table ≤ 4 * s.size + 3 ∧ s.size < s.sampleSize ∧
      s.sampleSize ≤ 2147483647) ∧
    ((∃ s' r, incrStep s hash = .ok (s', r)) ∨
     (incrStep s hash = .error .overflow ∧ U32_MAX < oddTotal (bump s hash).table ∧
       2 ^ 28 ≤ s.table.size)) := by
  have inv := rinv_of_run hrun
  refine ⟨⟨inv.wf, inv.cinv⟩, ?_⟩
  rcases step_total inv.wf inv.ne inv.cinv hash with h | ⟨h1, h2, _⟩
  · exact Or.inl h
  · refine Or.inr ⟨h1, h2, ?_⟩
    have k1 := oddTotal_le_size (bump s hash).table
    rw [bump_table_size] at k1
    generalize oddTotal (bump s hash).table = K at *
    unfold U32_MAX at h2
    omega

/-- `count ≤ 16 * table.size`, and the bound is attained by tables: `count ≤ u32::MAX` follows
from the table size exactly when `table.size < 2^28`. -/
theorem C08_sketch_count_bound_tight :
    (∀ t : Array Nat, oddTotal t ≤ 16 * t.size) ∧
    (∀ n, oddTotal (Array.replicate n 0x1111111111111111) = 16 * n) ∧
    (∀ n, 16 * n ≤ U32_MAX ↔ n < 2 ^ 28) :=
  ⟨oddTotal_le_size, oddTotal_all_ones, fun n => by unfold U32_MAX; omega⟩

/-- The defect that motivated the repair (D5): with the old formula `(size >> 1) - (count >> 2)`
a reachable state faults.  Capacity 3 (table of 4 words, `sample_size = 30`): after the 29
recordings `legacyHs` (sixteen hashes covering the 64 counters once each, then seven of them
twice more, minus one) every counter is 1 or 3; the thirtieth increment ages with `count = 64`:
`30/2 - 64/4` underflows, `(30 - 64/4) / 2 = 7` does not.  The state is reached by both
formulas (no aging step before). -/
theorem C08_sketch_legacy_counterexample :
    ∃ (hs : List UInt64) (s : Sketch) (h : UInt64),
      hs.foldlM (increment false) (init 3) = .ok s ∧
      hs.foldlM (increment true) (init 3) = .ok s ∧
      WF s ∧ CInv s ∧
      increment true s h = .error .overflow ∧
      ∃ s', increment false s h = .ok s' ∧ s'.size = 7 :=
  ⟨legacyHs, legacyState, 121,
    eq_ok_of_isOkEq (by decide +kernel), eq_ok_of_isOkEq (by decide +kernel),
    by decide +kernel, by decide +kernel,
    eq_overflow_of_isOverflow (by decide +kernel),
    { legacyState with
      table := #[286331153, 17830161, 286331153, 268505361], size := 7 },
    eq_ok_of_isOkEq (by decide +kernel), rfl⟩

/-! ## Non-vacuity -/

/-- The hypothesis of `C08_sketch_no_overflow` covers capacities that are not powers of two and
runs with aging steps (capacity 3: the thirtieth increment of `legacyHs ++ [121]` ages). -/
example : ∃ s g, runG (init 3, ghost0) (legacyHs ++ [121]) = .ok (s, g) ∧
    (s.size = 7 ∧ tableSum s.table = 28 ∧ s.sampleSize = 30) :=
  exists_of_checkRun (by decide +kernel)

/-- `Σcounters = 4·size` is reached (every increment of `legacyHs` adds 4): `Σ = 116 = 4·29`. -/
example : tableSum legacyState.table = 4 * legacyState.size := by decide +kernel

end Sketch
end MiniMoka
