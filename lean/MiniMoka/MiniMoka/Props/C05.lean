/-
  C05 — time-to-live: no entry is observable at or after insert time + ttl.
-/
import MiniMoka.Lemmas.UnsyncLookup
import MiniMoka.Lemmas.SketchLaws
import MiniMoka.Lemmas.SyncLookup

namespace MiniMoka
namespace Props

open Unsync Spec

/-- C05 on the single-threaded cache: with `time_to_live = d` (any d, including 0, alone or
combined with time_to_idle), for every configuration and history, a key yielded by get,
contains_key or iteration at clock reading `now` satisfies `now < t + d`, where `t` is the
reading of the most recent insert/update of that key — however often it was read and
wherever the clock steps land (exactly on `t + d` included). -/
theorem C05_unsync (p : Params) (hq : NoQuirks p)
    (hsm : SmallSketch p) (h : List Op) :
    oracleC05 .unsync p.ttl (Unsync.trace p h) = true := by
  unfold oracleC05 Unsync.trace
  refine lookupOracle_of_coupled sketchLaws hq hsm _ ?_ h {} {} (init_inv sketchLaws p) (init_coupled p)
  intro g kv hkv
  simp only [allChecks, Bool.and_eq_true] at hkv
  exact hkv.1.2

/-- Non-vacuity: boundary landing exactly on `t + d`, update restarting the interval, reads
not extending it. -/
example : oracleC05 .unsync (some 5) (Unsync.trace { ttl := some 5, tti := some 9 }
    [.ins 1 10, .adv 4, .get 1, .has 1, .adv 1, .get 1, .iter, .ins 1 11, .adv 4, .get 1, .adv 1,
     .has 1, .iter]) = true := by
  decide +kernel

example : oracleC05 .unsync (some 5) [(.ins 1 10, .ok), (.adv 5, .ok), (.get 1, .val (some 10))] = false := by
  decide

/-- C05 on the concurrent cache driven by one thread: for every configuration, every
history and every placement of `sync` (any queue state), a key yielded at reading `now`
satisfies `now < t + ttl` with `t` the reading of its most recent insert/update. -/
theorem C05_sync (p : Params) (hq : Sync.NoQuirks p) (h : List Op) :
    oracleC05 .sync p.ttl (Sync.trace p h) = true := by
  unfold oracleC05 Sync.trace
  refine Sync.lookupOracle_of_coupled hq _ ?_ h {} {} (Sync.init_coupled p)
  intro g kv hkv
  simp only [Sync.allChecks, Bool.and_eq_true] at hkv
  exact hkv.1.2

example : oracleC05 .sync (some 5) (Sync.trace { ttl := some 5 }
    [.ins 1 10, .adv 4, .get 1, .has 1, .adv 1, .get 1, .iter, .ins 1 11, .adv 4, .get 1, .sync,
     .adv 1, .has 1, .iter]) = true := by
  decide +kernel

end Props
end MiniMoka
