/-
  C13 — TinyLFU admission on the single-threaded cache: a new key that finds no room is
  admitted exactly when its popularity estimate exceeds the summed estimates of the shortest
  prefix of the recency order whose weight covers the candidate's; otherwise it is dropped
  and no resident is touched.
  Property theorems only; lemmas live in `Lemmas/UnsyncAdmit.lean`.
-/
import MiniMoka.Lemmas.UnsyncAdmit
import MiniMoka.Lemmas.SketchLaws

namespace MiniMoka
namespace Props

open Unsync Unsync.Admit

/-- The admission loop of `admit` in closed form (pure statement about the loop): with
`nodes` the probation list in recency order, weights `wOf s n.key` and popularity estimates
`fOf s n`, the final test `victims.weight >= candidate.weight && candidate.freq > victims.freq`
holds iff the shortest prefix whose weights reach `cw` exists and `cf` exceeds the summed
estimates of that prefix; the selected victims are then exactly that prefix.  The early exit
(`candidate.freq < victims.freq → break`) never changes the outcome, and for `cw = 0` the
prefix is empty: admitted iff `cf > 0`. -/
theorem C13_admit_closed_formula {p : Params} {s : UState} {cw cf : Nat}
    (hw : ∀ k e, AL.get? s.map k = some e → e.weight = p.weigh k e.val)
    (nodes : List AoNode) (hall : ∀ n ∈ nodes, ∃ e, AL.get? s.map n.key = some e) :
    ((admitLoop p s cw cf nodes {}).vw ≥ cw ∧ cf > (admitLoop p s cw cf nodes {}).vf ↔
      ∃ n, shortestPre cw (nodes.map (fun n => wOf s n.key)) = some n ∧
        cf > ((nodes.map (fOf s)).take n).sum) ∧
    (∀ n, shortestPre cw (nodes.map (fun n => wOf s n.key)) = some n →
        cf > ((nodes.map (fOf s)).take n).sum →
        (admitLoop p s cw cf nodes {}).victims = nodes.take n ∧
        (admitLoop p s cw cf nodes {}).vw = ((nodes.map (fun n => wOf s n.key)).take n).sum ∧
        (admitLoop p s cw cf nodes {}).vf = ((nodes.map (fOf s)).take n).sum) :=
  admitLoop_closed hw nodes hall

/-- `shortestPre cw ws = some n` means: `n` is the least prefix length whose weights sum to at
least `cw`; `none` means the whole list does not reach `cw`. -/
theorem C13_shortestPre_meaning (cw : Nat) (ws : List Nat) :
    (∀ n, shortestPre cw ws = some n ↔
      (n ≤ ws.length ∧ cw ≤ (ws.take n).sum ∧ ∀ m, m < n → (ws.take m).sum < cw)) ∧
    (shortestPre cw ws = none ↔ ws.sum < cw) :=
  ⟨fun n => shortestPre_eq_some_iff ws cw n, shortestPre_eq_none_iff ws cw⟩

/-- **C13, the admission decision.** For every configuration of the current code
(`NoQuirks`; any capacity, weigher, hasher, ttl/tti), every reachable state (`Inv`) and
every key `k` that is not resident after the operation's own maintenance
(`s1 := maintain p s`), of weight `w := p.weigh k v` and popularity estimate
`cf := s1.sk.frequency (p.hash k)`: when there is no room and the candidate is not oversized,

* if the shortest prefix of the recency order `s1.prob` whose weights reach `w` has length `n`
  and `cf` exceeds the summed estimates of these `n` residents, then after `insert p s k v`
  the key is resident with value `v`, the `n` residents of that prefix (all of them were
  resident) have left, and every other key holds exactly the entry it held before;
* otherwise (no prefix is heavy enough, or `cf` does not exceed the sum) the insert leaves
  the state that maintenance produced: `k` is not resident and no resident is touched. -/
theorem C13_unsync_admission {p : Params} (hq : NoQuirks p) {s : UState}
    (hi : Inv Sketch.Good p s) (k v : Nat)
    (hnew : AL.get? (maintain p s).map k = none)
    (hroom : hasEnoughCapacity p (p.weigh k v) (maintain p s).ws = false)
    (hbig : tooBig p (p.weigh k v) = false) :
    (∀ n, shortestPre (p.weigh k v) (probWeights (maintain p s)) = some n →
      (maintain p s).sk.frequency (p.hash k) > ((probFreqs (maintain p s)).take n).sum →
      (∃ e, AL.get? (insert p s k v).map k = some e ∧ e.val = v) ∧
      (∀ k' ∈ ((maintain p s).prob.take n).map (·.key),
        (∃ e', AL.get? (maintain p s).map k' = some e') ∧ AL.get? (insert p s k v).map k' = none) ∧
      (∀ k', k' ≠ k → k' ∉ ((maintain p s).prob.take n).map (·.key) →
        AL.get? (insert p s k v).map k' = AL.get? (maintain p s).map k')) ∧
    ((¬ ∃ n, shortestPre (p.weigh k v) (probWeights (maintain p s)) = some n ∧
        (maintain p s).sk.frequency (p.hash k) > ((probFreqs (maintain p s)).take n).sum) →
      insert p s k v = maintain p s ∧ AL.get? (insert p s k v).map k = none) := by
  obtain ⟨hadm, hrej⟩ := insert_noroom hq hi.inv k v hnew hroom hbig
  obtain ⟨h1, _, _⟩ := maintain_spec hq hi.inv
  refine ⟨?_, ?_⟩
  · intro n hn1 hn2
    obtain ⟨⟨e, he, hv, _⟩, hmap, _⟩ := hadm n hn1 hn2
    refine ⟨⟨e, he, hv⟩, ?_, ?_⟩
    · intro k' hk'
      have hres : ∃ e', AL.get? (maintain p s).map k' = some e' :=
        (mem_prob_keys_iff h1.struct k').mp
          (List.mem_map.mpr (by
            obtain ⟨nd, hnd, rfl⟩ := List.mem_map.mp hk'
            exact ⟨nd, List.mem_of_mem_take hnd, rfl⟩))
      have hne : k' ≠ k := by
        rintro rfl
        obtain ⟨e', he'⟩ := hres
        rw [hnew] at he'; cases he'
      refine ⟨hres, ?_⟩
      rw [hmap k' hne, if_pos hk']
    · intro k' hne hk'
      rw [hmap k' hne, if_neg hk']
  · intro hno
    have := hrej hno
    exact ⟨this, by rw [this]; exact hnew⟩

/-- A candidate heavier than the whole capacity that finds no room is dropped; the state is
the one maintenance produced. -/
theorem C13_unsync_oversized {p : Params} {s : UState} (k v : Nat)
    (hnew : AL.get? (maintain p s).map k = none)
    (hroom : hasEnoughCapacity p (p.weigh k v) (maintain p s).ws = false)
    (hbig : tooBig p (p.weigh k v) = true) :
    insert p s k v = maintain p s ∧ AL.get? (insert p s k v).map k = none := by
  have := insert_toobig hnew hroom hbig
  exact ⟨this, by rw [this]; exact hnew⟩

/-- A candidate that fits is admitted without consulting the popularity estimates, and no
resident leaves: every other key holds exactly the entry it held before. -/
theorem C13_unsync_has_room {p : Params} (hq : NoQuirks p) {s : UState}
    (hi : Inv Sketch.Good p s) (k v : Nat)
    (hnew : AL.get? (maintain p s).map k = none)
    (hfit : hasEnoughCapacity p (p.weigh k v) (maintain p s).ws = true) :
    (∃ e, AL.get? (insert p s k v).map k = some e ∧ e.val = v) ∧
    (∀ k', k' ≠ k → AL.get? (insert p s k v).map k' = AL.get? (maintain p s).map k') := by
  obtain ⟨⟨e, he, hv, _⟩, hmap, _⟩ := insert_hasroom hq hi.inv k v hnew hfit
  exact ⟨⟨e, he, hv⟩, hmap⟩

/-- **Scan resistance.** A new key whose popularity estimate is zero never displaces a
resident: if it finds no room it is dropped and the state is the one maintenance produced,
whatever the residents' estimates and weights — including a candidate of weight 0 and an
oversized one (the final test needs `cf > victims.freq ≥ 0`). -/
theorem C13_scan_resistance {p : Params} (hq : NoQuirks p) {s : UState}
    (hi : Inv Sketch.Good p s) (k v : Nat)
    (hnew : AL.get? (maintain p s).map k = none)
    (hroom : hasEnoughCapacity p (p.weigh k v) (maintain p s).ws = false)
    (hcold : (maintain p s).sk.frequency (p.hash k) = 0) :
    insert p s k v = maintain p s ∧ AL.get? (insert p s k v).map k = none := by
  cases hbig : tooBig p (p.weigh k v) with
  | true => exact C13_unsync_oversized k v hnew hroom hbig
  | false =>
    refine (C13_unsync_admission hq hi k v hnew hroom hbig).2 ?_
    rintro ⟨n, _, h2⟩
    rw [hcold] at h2
    exact absurd h2 (Nat.not_lt_zero _)

/-- **A hot key is admitted.** If the candidate's estimate exceeds the summed estimates of
the shortest prefix of the recency order that is heavy enough, it is admitted and exactly
that prefix leaves. -/
theorem C13_hot_key_admitted {p : Params} (hq : NoQuirks p) {s : UState}
    (hi : Inv Sketch.Good p s) (k v n : Nat)
    (hnew : AL.get? (maintain p s).map k = none)
    (hroom : hasEnoughCapacity p (p.weigh k v) (maintain p s).ws = false)
    (hbig : tooBig p (p.weigh k v) = false)
    (hpre : shortestPre (p.weigh k v) (probWeights (maintain p s)) = some n)
    (hhot : (maintain p s).sk.frequency (p.hash k) > ((probFreqs (maintain p s)).take n).sum) :
    (∃ e, AL.get? (insert p s k v).map k = some e ∧ e.val = v) ∧
    (∀ k', k' ≠ k → AL.get? (insert p s k v).map k' =
      if k' ∈ ((maintain p s).prob.take n).map (·.key) then none
      else AL.get? (maintain p s).map k') := by
  obtain ⟨⟨e, he, hv, _⟩, hmap, _⟩ := (insert_noroom hq hi.inv k v hnew hroom hbig).1 n hpre hhot
  exact ⟨⟨e, he, hv⟩, hmap⟩

/-- A zero-weight candidate that finds no room (the cache is still over capacity) is
admitted iff its estimate is positive, with no victim at all: this is how the code behaves
(`victims.weight >= 0` holds before any victim is aggregated). -/
theorem C13_zero_weight {p : Params} (hq : NoQuirks p) {s : UState}
    (hi : Inv Sketch.Good p s) (k v : Nat)
    (hnew : AL.get? (maintain p s).map k = none)
    (hroom : hasEnoughCapacity p (p.weigh k v) (maintain p s).ws = false)
    (hzero : p.weigh k v = 0)
    (hpos : (maintain p s).sk.frequency (p.hash k) > 0) :
    (∃ e, AL.get? (insert p s k v).map k = some e ∧ e.val = v) ∧
    (∀ k', k' ≠ k → AL.get? (insert p s k v).map k' = AL.get? (maintain p s).map k') := by
  have hbig : tooBig p (p.weigh k v) = false := by
    rw [hzero]; unfold tooBig; cases p.cap <;> simp
  obtain ⟨h1, h2⟩ := C13_hot_key_admitted hq hi k v 0 hnew hroom hbig
    (by rw [hzero]; exact shortestPre_zero _) (by simpa using hpos)
  exact ⟨h1, fun k' hne => by simpa using h2 k' hne⟩

/-- **C13 on traces.** For every configuration of the current code (any capacity incl. none,
any weigher, hasher, ttl/tti; `SmallSketch` is the documented sketch-size limit) and every
history, the C13 oracle accepts the model's trace: in every window `snap, freq k, ins k v, snap`
in which `k` is new, the cache is calm (nothing expired, not over capacity), the candidate is
not oversized and finds no room, the keys resident afterwards are those predicted from the
first snapshot by the closed formula (`predictAdmission`). -/
theorem C13_unsync_oracle (p : Params) (hq : NoQuirks p) (hsm : SmallSketch p) (h : List Op) :
    Spec.oracleC13 .unsync p.cap p.ttl p.tti p.weigh (Unsync.trace p h) = true :=
  oracleC13_trace sketchLaws hq hsm h

/-! ### non-vacuity -/

open Unsync.Admit.Ex

/-- The hypotheses of `C13_unsync_admission` are met by a reachable state of a concrete cache
(capacity 2, residents 1 and 2, key 3 looked up twice), and its admitted branch fires: the
shortest prefix is the LRU resident 1 (estimate 0 < 2), which leaves; 2 stays; 3 is resident. -/
example :
    AL.get? (maintain cfg2 full2).map 3 = none ∧
    hasEnoughCapacity cfg2 (cfg2.weigh 3 30) (maintain cfg2 full2).ws = false ∧
    tooBig cfg2 (cfg2.weigh 3 30) = false ∧
    (maintain cfg2 full2).prob.map (·.key) = [1, 2] ∧
    shortestPre (cfg2.weigh 3 30) (probWeights (maintain cfg2 full2)) = some 1 ∧
    (maintain cfg2 full2).sk.frequency (cfg2.hash 3) = 2 ∧
    ((probFreqs (maintain cfg2 full2)).take 1).sum = 0 ∧
    AL.keys (insert cfg2 full2 3 30).map = [2, 3] := by
  decide +kernel

/-- The theorem applied to that state (all hypotheses discharged, including reachability). -/
example : (∃ e, AL.get? (insert cfg2 full2 3 30).map 3 = some e ∧ e.val = 30) ∧
    (∀ k', k' ≠ 3 → AL.get? (insert cfg2 full2 3 30).map k' =
      if k' ∈ ((maintain cfg2 full2).prob.take 1).map (·.key) then none
      else AL.get? (maintain cfg2 full2).map k') :=
  C13_hot_key_admitted (p := cfg2) nq_cfg2 (reachable_inv sketchLaws nq_cfg2 small_cfg2 _) 3 30 1
    (by decide +kernel) (by decide +kernel) (by decide +kernel) (by decide +kernel)
    (by decide +kernel)

/-- A rejection on the same state: key 4 was never looked up (estimate 0), the cache is full:
the insert changes nothing (`C13_scan_resistance` applied, and evaluated). -/
example : insert cfg2 full2 4 40 = maintain cfg2 full2 ∧
    AL.get? (insert cfg2 full2 4 40).map 4 = none :=
  C13_scan_resistance (p := cfg2) nq_cfg2 (reachable_inv sketchLaws nq_cfg2 small_cfg2 _) 4 40
    (by decide +kernel) (by decide +kernel) (by decide +kernel)

example : AL.keys (insert cfg2 full2 4 40).map = [1, 2] := by decide +kernel

/-- Weighted cache (capacity 3, weight = value, residents 1 of weight 2 and 2 of weight 1,
key 5 looked up three times): a candidate of weight 3 needs both residents (prefix length 2),
one of weight 2 only the LRU resident, one of weight 4 is oversized and dropped. -/
example :
    shortestPre (cfgW.weigh 5 3) (probWeights (maintain cfgW fullW)) = some 2 ∧
    AL.keys (insert cfgW fullW 5 3).map = [5] ∧
    shortestPre (cfgW.weigh 5 2) (probWeights (maintain cfgW fullW)) = some 1 ∧
    AL.keys (insert cfgW fullW 5 2).map = [2, 5] ∧
    tooBig cfgW (cfgW.weigh 5 4) = true ∧
    AL.keys (insert cfgW fullW 5 4).map = [1, 2] := by
  decide +kernel

/-- The trace oracle of C13 accepts the model's trace of a history with an admission and a
rejection. -/
example : Spec.oracleC13 .unsync (some 2) none none (fun _ _ => 1) (Unsync.trace cfg2
    [.ins 1 10, .ins 2 20, .get 3, .get 3, .snap, .freq 3, .ins 3 30, .snap, .freq 4, .ins 4 40,
     .snap]) = true := by
  decide +kernel

/-- The oracle is not vacuous: it rejects a trace in which a cold key (estimate 0) displaces
the LRU resident of a full cache. -/
example : Spec.oracleC13 .unsync (some 2) none none (fun _ _ => 1)
    [(.snap, .snap (snapshot cfg2 full2)), (.freq 4, .freq 0), (.ins 4 40, .ok),
     (.snap, .snap (snapshot cfg2 (runState cfg2 {} [.ins 2 20, .ins 4 40])))] = false := by
  decide +kernel

end Props
end MiniMoka
