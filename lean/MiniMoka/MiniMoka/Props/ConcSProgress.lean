/-
  C09 (every call returns) at the granularity of `MiniMoka/ConcS.lean`: any number of threads,
  steps "map step / atomic maintenance run / enqueue".

  In this system the only way for a call not to return is a thread that holds its operation and
  can never send it: `enq t` is not enabled while the write channel is full (the retry loop of
  `schedule_write_op`).  PROVED in full, for every configuration of the current code and every
  reachable state:
   * `ConcS_maint_always_enabled`: a maintenance run (`maint t`, and the explicit `sync t`) is
     enabled for every thread, because no run is in progress between steps;
   * `ConcS_enq_after_maint`: a thread that holds an operation can enqueue it now, or right
     after one maintenance run (which any thread, itself included, can always perform and which
     empties both queues); `ConcS_enq_read_always_enabled`: a held read is always enqueueable
     (dropped when the read channel is full); `ConcS_enq_write_enabled_iff`: a held write is
     enqueueable exactly when the write channel has room;
   * `ConcS_no_stuck_state`: from every reachable state a path of at most two events per
     holding thread leads to a state in which no thread holds anything: every started call can
     complete, whatever the other threads did before;
   * `ConcS_steps_finite` (a remark with examples, see there): every step is a total function.
  NOT covered (it is not a property of this granularity): fairness.  A scheduler that never
  lets a `maint` step happen while the write channel is full starves the writers; in the code
  the blocked writer itself calls `try_sync` in its retry loop, which is the `maint` step of
  that very thread, so "some `maint` eventually happens" is guaranteed there.  Also not
  covered: a maintenance run that is in progress on another thread (`running = true`) is not a
  state of this system (runs are atomic); for the retry loop against a concurrently running
  maintenance see `Props/C09Conc.lean`.
-/
import MiniMoka.Lemmas.ConcS
import MiniMoka.Props.ConcS

namespace MiniMoka
namespace Props

open Sync Sync.Nodes Sync.Counters ConcS

/-- In every reachable state every thread can run maintenance, through the housekeeper
(`maint`) or explicitly (`sync`). -/
theorem ConcS_maint_always_enabled (p : Params) (hq : Sync.NoQuirks p) (hsm : SmallSketch p)
    (c : CState) (hr : Reach p c) (t : Tid) :
    ConcS.step p c (.maint t) = some { c with s := trySync p c.s } ∧
    ConcS.step p c (.sync t) = some { c with s := syncRun p c.s } := by
  have h := (reach_csinv hq hsm hr).running
  exact ⟨step_maint_eq p h t, step_sync_eq' p h t⟩

/-- A held read can always be enqueued (it is dropped when the read channel is full). -/
theorem ConcS_enq_read_always_enabled (p : Params) (c : CState) (t : Tid) (op : ROp)
    (hp : pendOf c.pending t = some (.read op)) :
    ∃ c', ConcS.step p c (.enq t) = some c' ∧ c'.pending = dropPend c.pending t :=
  step_enq_enabled p hp (fun _ e => by cases e)

/-- A held write can be enqueued exactly when the write channel has room. -/
theorem ConcS_enq_write_enabled_iff (p : Params) (c : CState) (t : Tid) (op : WOp)
    (hp : pendOf c.pending t = some (.write op)) :
    (∃ c', ConcS.step p c (.enq t) = some c') ↔ c.s.writeQ.length < Gen.WRITE_LOG_SIZE := by
  constructor
  · rintro ⟨c', hs⟩
    simp only [ConcS.step, hp] at hs
    by_cases hl : c.s.writeQ.length < Gen.WRITE_LOG_SIZE
    · exact hl
    · rw [if_neg hl] at hs; cases hs
  · intro hl
    obtain ⟨c', h1, _⟩ := step_enq_enabled p hp (fun _ _ => hl)
    exact ⟨c', h1⟩

/-- No thread is blocked forever on the full write channel as long as maintenance can run (and
it always can): a thread `t` that holds an operation can enqueue it in the current state, or
in the state right after one maintenance run by any thread `t'`.  (The second alternative
always holds; the first is the common case.) -/
theorem ConcS_enq_after_maint (p : Params) (hq : Sync.NoQuirks p) (hsm : SmallSketch p)
    (c : CState) (hr : Reach p c) (t : Tid) (pd : Pend) (hp : pendOf c.pending t = some pd)
    (t' : Tid) :
    (∃ c', ConcS.step p c (.enq t) = some c') ∨
    (∃ c1 c2, ConcS.step p c (.maint t') = some c1 ∧ ConcS.step p c1 (.enq t) = some c2 ∧
      c2.pending = dropPend c.pending t) :=
  Or.inr (maint_then_enq p (reach_csinv hq hsm hr).running hp t')

/-- The same, as a statement about both alternatives at once: the path `[maint t', enq t]` is
always enabled and leaves `t` idle. -/
theorem ConcS_maint_enq_path (p : Params) (hq : Sync.NoQuirks p) (hsm : SmallSketch p)
    (c : CState) (hr : Reach p c) (t : Tid) (pd : Pend) (hp : pendOf c.pending t = some pd)
    (t' : Tid) :
    ∃ c2, runEvs p c [.maint t', .enq t] = some c2 ∧ c2.pending = dropPend c.pending t ∧
      pendOf c2.pending t = none := by
  obtain ⟨c1, c2, h1, h2, h3⟩ := maint_then_enq p (reach_csinv hq hsm hr).running hp t'
  refine ⟨c2, by simp only [runEvs, h1, h2], h3, ?_⟩
  rw [h3]
  cases hx : pendOf (dropPend c.pending t) t with
  | none => rfl
  | some x =>
    exfalso
    have : ∀ (l : List (Tid × Pend)), pendOf (dropPend l t) t = none := by
      intro l
      induction l with
      | nil => rfl
      | cons y l ih =>
        simp only [dropPend]
        by_cases e : y.1 = t
        · rw [if_pos e]; exact ih
        · rw [if_neg e]; simp only [pendOf, if_neg e]; exact ih
    rw [this] at hx; cases hx

/-- No reachable state is stuck: a path of at most two events per thread that holds an
operation (none for idle threads) leads to a (reachable) state in which no thread holds
anything.  Every call that has started can complete. -/
theorem ConcS_no_stuck_state (p : Params) (hq : Sync.NoQuirks p) (hsm : SmallSketch p)
    (c : CState) (hr : Reach p c) :
    ∃ evs c', evs.length ≤ 2 * c.pending.length ∧ runEvs p c evs = some c' ∧ c'.pending = [] ∧
      Reach p c' :=
  drain hq hsm c.pending.length c hr (Nat.le_refl _)

/-! ### `ConcS_steps_finite`

Every step is a total function (`ConcS.step : Params → CState → Ev → Option CState` is a Lean
definition accepted without `partial`): a step always returns.  The loops inside a
maintenance run are bounded by construction: `syncLoop` runs at most `MAX_SYNC_REPEATS + 1`
passes, `applyReads n` / `applyWrites n` pop at most `n` = the queue length at the start of
the pass, the admission loop walks the access-order list once (`admitLoop`, structurally) with
at most `MAX_CONSECUTIVE_RETRIES` consecutive skips, the expiry and LRU eviction loops have
fuel `SYNC_EVICTION_BATCH_SIZE`; the retry loop of `schedule_write_op` is not a loop of this
system at all (it is the enabledness of `enq`).  Examples: a maintenance run on a state whose
write channel is completely full. -/

/-- One thread fills the write channel: `n` inserts of distinct keys, enqueued, no
maintenance. -/
def fillEvs (n : Nat) : List Ev :=
  ((List.range n).map (fun k => [Ev.insMap 0 k 1, Ev.enq 0])).flatten

/-- `[|write queue|, |map|, entry_count, weighted_size, threads holding something]`. -/
def progressSummary (evs : List Ev) : Option (List Nat) :=
  (runEvs {} {} evs).map fun c =>
    [c.s.writeQ.length, c.s.map.length, c.s.ec, c.s.ws, c.pending.length]

/- With the channel full (`WRITE_LOG_SIZE` = 384 operations) the next writer cannot enqueue;
any thread's maintenance run applies all 384 operations and the writer goes through:

    #eval progressSummary (fillEvs 384)                                        -- some [384, 384, 0, 0, 0]
    #eval progressSummary (fillEvs 384 ++ [.insMap 0 999 1, .enq 0])           -- none (not enabled)
    #eval progressSummary (fillEvs 384 ++ [.insMap 0 999 1, .maint 1])         -- some [0, 385, 384, 384, 1]
    #eval progressSummary (fillEvs 384 ++ [.insMap 0 999 1, .maint 1, .enq 0, .maint 1])
                                                                               -- some [0, 385, 385, 385, 0]
`example : progressSummary (fillEvs 384 ++ [.insMap 0 999 1, .maint 1]) = some [0, 385, 384, 384, 1]
:= by decide +kernel` is accepted by the kernel (checked once, 2026-09-24) but takes about
2.5 minutes, so the build contains the smaller instance below. -/

/-- The same shape on a smaller instance, checked by the kernel: 70 queued operations (more
than the flush point 64, which one thread alone never exceeds), a thread holding a 71st, one
maintenance run by another thread, the enqueue, a last run. -/
example : progressSummary (fillEvs 70 ++ [.insMap 0 999 1, .maint 1])
    = some [0, 71, 70, 70, 1] := by
  decide +kernel

example : progressSummary (fillEvs 70 ++ [.insMap 0 999 1, .maint 1, .enq 0, .maint 1])
    = some [0, 71, 71, 71, 0] := by
  decide +kernel

end Props
end MiniMoka

namespace MiniMoka.Props
#print axioms ConcS_maint_always_enabled
#print axioms ConcS_enq_read_always_enabled
#print axioms ConcS_enq_write_enabled_iff
#print axioms ConcS_enq_after_maint
#print axioms ConcS_maint_enq_path
#print axioms ConcS_no_stuck_state
end MiniMoka.Props
