/-
  C01 / C05 / C06 / C07 (lookup soundness) for `sync::Cache` under ALL interleavings of any
  number of threads at the two finer granularities:
   * `MiniMoka/ConcM.lean`: a maintenance run is a sequence of atomic micro-steps (one queued
     read, one queued write, one iteration of an eviction loop, …) and the other threads' map
     steps, enqueues, clock ticks and `invalidate_all` fall between any two of them;
   * `MiniMoka/ConcF.lean` (the finest model): additionally every access to the concurrent map
     during the application of one queued `Upsert` — the lookup of the current entry, every node
     of the admission scan, every victim removal, the removal of a rejected candidate — is its
     own step; current code (`Variant.good`).
  (What is still left out is listed at the head of those files.)

  The linearised trace (`ConcM.linM`, `ConcF.linF`) orders the operations by their MAP STEPS
  exactly as `ConcS.lin` does: `.other (insMap t k v) ↦ (.ins k v, .ok)`,
  `.other (invMap t k) ↦ (.inv k, .ok)`, `.other (getMap t k) ↦ (.get k, .val r)` with `r`
  decided by `ConcS.lookup` in the state at that step — in the middle of a run, if that is where
  the step falls —, `.other (tick d) ↦ (.adv d, .ok)`, `.other (invAll t) ↦ (.invAll, .ok)`;
  `.other (enq t)`, `mBegin` and every `mStep` contribute nothing.

  PROVED in full for every configuration of the current code (`NoQuirks`; no `SmallSketch`, no
  reachability invariant such as `FInv` is needed) and every event list (as in
  Props/ConcSLookup.lean the hypothesis "every step is enabled" is kept in the statements but
  not used: the linearised trace ends at the first step that is not enabled):
  `ConcF_C01`, `ConcF_C05`, `ConcF_C06`, `ConcF_C07`, `ConcF_lookup_all` and the same for
  `ConcM` (`ConcM_C01`, …).  Proof: `ConcS.CoupledC` is preserved by the threads' steps
  (`ConcS.step_coupledC`) and by every frame (`Sync.Frame`); every micro-step is a frame
  (`ConcF.micro_frame` for the steps of `ConcM`; `ConcF.wstep_good_frame0` for the sub-steps of an
  `Upsert`, which needs nothing but "the program counter is one of the current code's", an
  invariant of the run by `ConcF.wstep_good_next`).  No interleaving at this granularity makes
  a get return a stale, expired or invalidated value: no concurrency finding.  The seeded
  variant `.putBack` does (machine-checked below: `linF` and `oracleC01` expose it).
-/
import MiniMoka.Lemmas.ConcFLookup
import MiniMoka.Props.ConcF

namespace MiniMoka
namespace Props

open Sync ConcS ConcM ConcF Spec

/-! ### ConcF -/

/-- All interleavings of the finest model, all three checks at once, every event list. -/
theorem ConcF_lookup_all (p : Params) (hq : Sync.NoQuirks p) (evs : List ConcM.Ev) :
    lookupOracle .sync (Sync.allChecks p) {} (linF p .good {} evs) = true :=
  lookupOracle_linF hq _ (fun _ _ h => h) evs _ _ (coupledF_init p)

/-- C01 for all interleavings of `ConcF`: every get — wherever it falls inside a maintenance
run — returns nothing or the value of the most recent insert of its key, in map-step order,
that has not been invalidated since. -/
theorem ConcF_C01 (p : Params) (hq : Sync.NoQuirks p) (evs : List ConcM.Ev) (c : FState)
    (_hr : ConcF.runEvs p .good {} evs = some c) :
    Spec.oracleC01 .sync (linF p .good {} evs) = true := by
  unfold oracleC01
  refine lookupOracle_linF hq _ ?_ evs _ _ (coupledF_init p)
  intro g kv hkv
  simp only [Sync.allChecks, Bool.and_eq_true] at hkv
  exact hkv.1.1

/-- C05 for all interleavings of `ConcF`. -/
theorem ConcF_C05 (p : Params) (hq : Sync.NoQuirks p) (evs : List ConcM.Ev) (c : FState)
    (_hr : ConcF.runEvs p .good {} evs = some c) :
    Spec.oracleC05 .sync p.ttl (linF p .good {} evs) = true := by
  unfold oracleC05
  refine lookupOracle_linF hq _ ?_ evs _ _ (coupledF_init p)
  intro g kv hkv
  simp only [Sync.allChecks, Bool.and_eq_true] at hkv
  exact hkv.1.2

/-- C06 for all interleavings of `ConcF`: held reads reach the queue at any moment, also between
two micro-steps of the run that is applying reads; none extends an idle deadline beyond the
clock reading of its own get. -/
theorem ConcF_C06 (p : Params) (hq : Sync.NoQuirks p) (evs : List ConcM.Ev) (c : FState)
    (_hr : ConcF.runEvs p .good {} evs = some c) :
    Spec.oracleC06 .sync p.tti (linF p .good {} evs) = true := by
  unfold oracleC06
  refine lookupOracle_linF hq _ ?_ evs _ _ (coupledF_init p)
  intro g kv hkv
  simp only [Sync.allChecks, Bool.and_eq_true] at hkv
  exact hkv.2

/-- C07 (immediate and permanent) for all interleavings of `ConcF`: no micro-step of a run,
whatever it read before the invalidation, brings an invalidated entry back. -/
theorem ConcF_C07 (p : Params) (hq : Sync.NoQuirks p) (evs : List ConcM.Ev) (c : FState)
    (_hr : ConcF.runEvs p .good {} evs = some c) :
    lookupOracle .sync checkC07 {} (linF p .good {} evs) = true := by
  refine lookupOracle_linF hq _ ?_ evs _ _ (coupledF_init p)
  intro g kv hkv
  simp only [Sync.allChecks, Bool.and_eq_true, checkC01] at hkv
  simp only [checkC07]
  cases hg : AL.get? g.ents kv.1 with
  | none => simp [hg] at hkv
  | some ge => simp [hg] at hkv; exact hkv.1.1.1

/-! ### ConcM -/

theorem ConcM_lookup_all (p : Params) (hq : Sync.NoQuirks p) (evs : List ConcM.Ev) :
    lookupOracle .sync (Sync.allChecks p) {} (linM p {} evs) = true :=
  lookupOracle_linM hq _ (fun _ _ h => h) evs _ _ (coupledC_init p)

theorem ConcM_C01 (p : Params) (hq : Sync.NoQuirks p) (evs : List ConcM.Ev) (c : MState)
    (_hr : ConcM.runEvs p {} evs = some c) :
    Spec.oracleC01 .sync (linM p {} evs) = true := by
  unfold oracleC01
  refine lookupOracle_linM hq _ ?_ evs _ _ (coupledC_init p)
  intro g kv hkv
  simp only [Sync.allChecks, Bool.and_eq_true] at hkv
  exact hkv.1.1

theorem ConcM_C05 (p : Params) (hq : Sync.NoQuirks p) (evs : List ConcM.Ev) (c : MState)
    (_hr : ConcM.runEvs p {} evs = some c) :
    Spec.oracleC05 .sync p.ttl (linM p {} evs) = true := by
  unfold oracleC05
  refine lookupOracle_linM hq _ ?_ evs _ _ (coupledC_init p)
  intro g kv hkv
  simp only [Sync.allChecks, Bool.and_eq_true] at hkv
  exact hkv.1.2

theorem ConcM_C06 (p : Params) (hq : Sync.NoQuirks p) (evs : List ConcM.Ev) (c : MState)
    (_hr : ConcM.runEvs p {} evs = some c) :
    Spec.oracleC06 .sync p.tti (linM p {} evs) = true := by
  unfold oracleC06
  refine lookupOracle_linM hq _ ?_ evs _ _ (coupledC_init p)
  intro g kv hkv
  simp only [Sync.allChecks, Bool.and_eq_true] at hkv
  exact hkv.2

theorem ConcM_C07 (p : Params) (hq : Sync.NoQuirks p) (evs : List ConcM.Ev) (c : MState)
    (_hr : ConcM.runEvs p {} evs = some c) :
    lookupOracle .sync checkC07 {} (linM p {} evs) = true := by
  refine lookupOracle_linM hq _ ?_ evs _ _ (coupledC_init p)
  intro g kv hkv
  simp only [Sync.allChecks, Bool.and_eq_true, checkC01] at hkv
  simp only [checkC07]
  cases hg : AL.get? g.ents kv.1 with
  | none => simp [hg] at hkv
  | some ge => simp [hg] at hkv; exact hkv.1.1.1

/-! ### machine-checked interleavings -/

/-- The results of the gets of a trace, in order. -/
def getResultsF (t : Trace) : List (Nat × Option Nat) :=
  t.filterMap fun oo => match oo with
    | (.get k, .val r) => some (k, r)
    | _ => none

/-- time-to-idle 3, time-to-live 100. -/
def cflParams : Params := { tti := some 3, ttl := some 100 }

/-- A held read enqueued between two micro-steps of a run.  Key 1 (value 10) is inserted at
reading 0 and a first run links it.  Thread 1 hits it at reading 0 and HOLDS the hit; the clock
passes time-to-idle (reading 5); thread 2 updates key 1 to 11 and enqueues.  A housekeeping run
starts, reads `read_op_ch.len()` (0) and goes on to the writes; NOW thread 1 enqueues its stale
hit; the run pops the `Upsert`; the clock ticks (reading 6), thread 3 gets 11 between two
sub-steps of that `Upsert`; another thread's `try_sync` finds the flag taken; the run ends
without having seen the late read.  Thread 3 enqueues; the next run applies both reads, in
queue order (timestamps 0, then 6): gets at readings 7 and 8 find 11 (idle deadline 6 + 3), the
get at reading 9 nothing. -/
def lateReadMidRun : List ConcM.Ev :=
  [.other (.insMap 2 1 10), .other (.enq 2), .mBegin 9 true] ++ fSteps 10 ++
  [.other (.getMap 1 1), .other (.tick 5), .other (.insMap 2 1 11), .other (.enq 2),
   .mBegin 9 false, .mStep 9, .other (.enq 1), .mStep 9, .other (.tick 1), .other (.getMap 3 1),
   .mBegin 4 false] ++ fSteps 8 ++
  [.other (.enq 3), .mBegin 9 false] ++ fSteps 8 ++
  [.other (.tick 1), .other (.getMap 4 1), .other (.tick 1), .other (.getMap 5 1),
   .other (.tick 1), .other (.getMap 6 1)]

example : (ConcF.runEvs cflParams .good {} lateReadMidRun).isSome = true := by decide +kernel

/-- Right after `enq 1` the run is in the middle of its writes pass and the late read is
queued. -/
example : (ConcF.runEvs cflParams .good {} (lateReadMidRun.take 20)).map
    (fun c => (c.run.map (·.phase), c.s.readQ.length)) = some (some (.writes 4 1), 1) := by
  decide +kernel

example : getResultsF (linF cflParams .good {} lateReadMidRun)
    = [(1, some 10), (1, some 11), (1, some 11), (1, some 11), (1, none)] := by decide +kernel

example : oracleC06 .sync (some 3) (linF cflParams .good {} lateReadMidRun) = true := by
  decide +kernel

/-- The theorems apply to it. -/
example : ∀ c, ConcF.runEvs cflParams .good {} lateReadMidRun = some c →
    oracleC06 .sync (some 3) (linF cflParams .good {} lateReadMidRun) = true :=
  fun c hc => ConcF_C06 cflParams rfl lateReadMidRun c hc

/-- Capacity 2, weigher `value % 3`, time-to-idle 50. -/
def cflParams2 : Params :=
  { cap := some 2, hasWeigher := true, w := fun _ v => v % 3, tti := some 50 }

/-- Gets between the scan and the victim removals of an admission.  Keys 1 and 2 (weight 1 each)
fill the cache; key 3 is made popular and inserted with weight 2 (a get of key 3 already finds
it: it is in the map before it is admitted).  The run applying its `Upsert` scans and selects the
nodes of keys 1 and 2 as victims.  Between the scan and the removals: gets of keys 1 and 2 find
1 and 1.  The run removes key 1: a get of key 1 finds nothing, key 2 is still there.  Thread 2
inserts key 1 again (value 4), thread 3 invalidates key 2; the removal of victim 2 fails (the
node is skipped): gets find 4, nothing, 2.  The run admits key 3 and its LRU pass evicts it
again; the last run applies the racing operations.  At the end key 1 holds 4. -/
def getsDuringAdmission : List ConcM.Ev :=
  [.other (.insMap 1 1 1), .other (.enq 1), .other (.insMap 1 2 1), .other (.enq 1),
   .mBegin 9 true] ++ fSteps 13 ++
  [.other (.getMap 3 3), .other (.enq 3), .other (.insMap 1 3 2), .other (.enq 1),
   .mBegin 9 true] ++ fSteps 9 ++
  [.other (.getMap 5 1), .other (.getMap 6 2)] ++ fSteps 1 ++
  [.other (.getMap 7 1), .other (.getMap 8 2), .other (.insMap 2 1 4), .other (.invMap 3 2)] ++
  fSteps 1 ++
  [.other (.getMap 10 1), .other (.getMap 11 2), .other (.getMap 12 3)] ++ fSteps 7 ++
  [.other (.getMap 13 1), .other (.getMap 14 3), .other (.enq 2), .other (.enq 3), .other (.enq 5),
   .mBegin 9 true] ++ fSteps 11 ++
  [.other (.tick 1), .other (.getMap 15 1), .other (.getMap 16 3)]

example : (ConcF.runEvs cflParams2 .good {} getsDuringAdmission).isSome = true := by
  decide +kernel

/-- The first two gets after the second `mBegin` fall between the end of the scan and the first
victim removal: the run is at `victims` with both victims still to remove. -/
example : (ConcF.runEvs cflParams2 .good {} (getsDuringAdmission.take 32)).map
    (fun c => c.run.map (fun r => r.w.map (fun w => match w with
      | .victims _ _ vs sk => (vs.length, sk.length)
      | _ => (99, 99)))) = some (some (some (2, 0))) := by
  decide +kernel

example : getResultsF (linF cflParams2 .good {} getsDuringAdmission)
    = [(3, none), (1, some 1), (2, some 1), (1, none), (2, some 1), (1, some 4), (2, none),
       (3, some 2), (1, some 4), (3, none), (1, some 4), (3, none)] := by decide +kernel

example : lookupOracle .sync (Sync.allChecks cflParams2) {}
    (linF cflParams2 .good {} getsDuringAdmission) = true := by decide +kernel

/-- (`getsDuringAdmission` has no counterpart in `ConcM`: its gets fall inside what is ONE
micro-step there.)  A `ConcM` interleaving: a get, then an `invalidate` and a get, between the
micro-steps of the run that links the entry; it does not come back. -/
example : getResultsF (linM cflParams {}
    [.other (.insMap 2 1 10), .other (.enq 2), .mBegin 9 false, .mStep 9, .other (.getMap 1 1),
     .mStep 9, .other (.invMap 3 1), .other (.getMap 4 1), .mStep 9, .mStep 9, .mStep 9, .mStep 9,
     .mStep 9, .other (.getMap 5 1)])
    = [(1, some 10), (1, none), (1, none)] := by decide +kernel

/-- The seeded variant `.putBack` (victims evicted all-or-nothing with an unconditional put-back)
on `victimInterleaving` of Props/ConcF.lean, followed by a get of key 1: the get returns the
value 1 although `insert(1, 4)` was the most recent insert of that key — a stale value.  The
linearised trace is rejected by `oracleC01`; the current code on the same events returns 4. -/
theorem ConcF_putBack_stale_get :
    getResultsF (linF cfParams2 .putBack {} (victimInterleaving ++ [.other (.getMap 5 1)]))
      = [(3, none), (1, some 1)] ∧
    oracleC01 .sync (linF cfParams2 .putBack {} (victimInterleaving ++ [.other (.getMap 5 1)]))
      = false ∧
    getResultsF (linF cfParams2 .good {} (victimInterleaving ++ [.other (.getMap 5 1)]))
      = [(3, none), (1, some 4)] ∧
    oracleC01 .sync (linF cfParams2 .good {} (victimInterleaving ++ [.other (.getMap 5 1)]))
      = true := by
  decide +kernel

/-- A step that is not enabled ends the linearised trace (an explicit `sync` while a run is in
progress blocks). -/
example : getResultsF (linF cflParams .good {}
    [.other (.insMap 1 1 1), .mBegin 9 false, .other (.getMap 2 1), .mBegin 8 true,
     .other (.getMap 3 1)]) = [(1, some 1)] := by decide +kernel

end Props
end MiniMoka

namespace MiniMoka.Props
#print axioms ConcF_lookup_all
#print axioms ConcF_C01
#print axioms ConcF_C05
#print axioms ConcF_C06
#print axioms ConcF_C07
#print axioms ConcM_lookup_all
#print axioms ConcM_C01
#print axioms ConcM_C05
#print axioms ConcM_C06
#print axioms ConcM_C07
#print axioms ConcF_putBack_stale_get
end MiniMoka.Props
