/-
  C02, the link between the two models: **every operation of the detailed model S of
  `sync::Cache` (`MiniMoka/Sync.lean`) is an execution fragment of the abstract model R
  (`MiniMoka/ConcR.lean`) with exactly one map step, on its own key; whatever else the
  operation does to the map is a deletion (`daemon`).**  Hence every single-thread history of
  S is a well-formed execution of R, and the C02 theorems of `Props/C02.lean`, proved for all
  executions of R, apply to it.  Lemmas: `MiniMoka/Lemmas/SyncRefinesR.lean`.

  Vocabulary.
  * `absMap s : ConcR.KV`: key ↦ value of the entry that the map of `s` holds.
  * `KVEq m m'`: same lookups.  R's `store` / `remove` filter, S's `put` / `erase` update in
    place, so the lists differ in order; `ConcR.step` looks at the map through `lookup`
    only, which is why every statement below starts from *any* state `a` of R whose map has
    the lookups of `absMap s`; `runR_respects_KVEq` states the congruence itself.
  * `runR = ConcR.runFrom`: the fold of `ConcR.step` from a given state.
  * Order of events inside an operation.  In the model, as in the code, the map step is the
    first thing `insert` / `invalidate` / `get` do to the map; maintenance runs afterwards,
    inside `schedule_write_op` / `record_read_op`.  So the fragment is
    `invoke, mapStep, daemon d₁, …, daemon dₙ, respond`: the `ds1` (daemons before the map
    step) of the informal statement is empty, all daemons follow the map step.  The `dᵢ` are
    the keys bound right after the map step and absent at the end of the operation
    (`SyncR.delKeys`); each of them is indeed absent from the final map.
  * Hypotheses on the state: `Sync.KN s` (keys of the map pairwise distinct) and
    `s.fault = none`.  Both hold in every reachable state (`Sync_reachable`; the second is
    `C08_sync`).  A faulted state ignores every call, so `s.fault = none` is necessary.
  * Only the repaired code is covered (`Sync.NoQuirks p`), like the frame lemmas.
-/
import MiniMoka.Lemmas.SyncRefinesR
import MiniMoka.Props.C02
import MiniMoka.Props.C08SyncAll

namespace MiniMoka
namespace Props

open ConcR (Ev State Tid Oid Key Val lookup store remove threadIdle)
open Sync (SState)
open SyncR

/-- R does not distinguish maps with the same lookups: from states with `KVEq` maps and the
same records, an event list is rejected by both or accepted by both, with `KVEq` results. -/
theorem runR_respects_KVEq {a b : State} (hm : KVEq a.map b.map) (ho : a.ops = b.ops)
    (evs : List Ev) :
    (runR a evs = none ∧ runR b evs = none) ∨
    ∃ a' b', runR a evs = some a' ∧ runR b evs = some b' ∧ KVEq a'.map b'.map ∧ a'.ops = b'.ops :=
  runFrom_congr evs ⟨hm, ho⟩

/-- Every state reached by a history of public calls (current code, documented sketch limit)
satisfies the hypotheses of `Sync_step_refines_R`. -/
theorem Sync_reachable (p : Params) (hq : Sync.NoQuirks p) (hsm : SmallSketch p) (h : List Op) :
    Sync.KN (Sync.runState p {} h) ∧ (Sync.runState p {} h).fault = none :=
  ⟨Sync.kn_run hq h (s := {}) List.nodup_nil,
   runState_fault_none p h {} rfl (C08_sync p hq hsm h)⟩

/-- **`insert k v` of S is `invoke, mapStep, daemons, respond none` of R.**
From any state `a` of R that has the lookups of `absMap s`, in which the instance id `o` is
unused and thread `t` idle, R accepts the fragment and ends with the lookups of the map of
`insert`'s final state; `ds` are the keys deleted by the maintenance inside the call. -/
theorem Sync_ins_refines_R (p : Params) (hq : Sync.NoQuirks p) {s : SState} (hk : Sync.KN s)
    (hf : s.fault = none) (a : State) (hm : KVEq a.map (absMap s)) (t : Tid) (o : Oid)
    (hfresh : AL.get? a.ops o = none) (hidle : threadIdle a t = true) (k v : Nat) :
    ∃ (ds : List Key) (a' : State),
      runR a ([Ev.invoke t o (.ins k v), Ev.mapStep o] ++ ds.map Ev.daemon ++ [Ev.respond o none])
        = some a' ∧
      KVEq a'.map (absMap (Sync.step p s (.ins k v)).1) ∧
      (∀ d ∈ ds, lookup (absMap (Sync.step p s (.ins k v)).1) d = none) ∧
      a'.ops = AL.put a.ops o ⟨t, .ins k v, .done, none⟩ := by
  obtain ⟨a', h1, h2, h3⟩ := fragOf_refines hq hk hf a hm t o hfresh hidle (.ins k v)
  have hresp : respOf (Sync.step p s (.ins k v)).2 = none := by
    rcases step_resp p hf (.ins k v) with h | h <;> exact h
  have hfrag : fragOf p s t o (.ins k v) =
      [Ev.invoke t o (.ins k v), Ev.mapStep o] ++
        (delKeys (store (absMap s) k v) (absMap (Sync.step p s (.ins k v)).1)).map Ev.daemon ++
        [Ev.respond o none] := by
    show callFrag _ _ _ _ (respOf (Sync.step p s (.ins k v)).2) = _
    rw [hresp]; rfl
  rw [hfrag] at h1
  exact ⟨_, a', h1, h2, fun d hd => (mem_delKeys.1 hd).2, h3⟩

/-- **`invalidate k` of S is `invoke, mapStep, daemons, respond none` of R** (operation
`del k`). -/
theorem Sync_inv_refines_R (p : Params) (hq : Sync.NoQuirks p) {s : SState} (hk : Sync.KN s)
    (hf : s.fault = none) (a : State) (hm : KVEq a.map (absMap s)) (t : Tid) (o : Oid)
    (hfresh : AL.get? a.ops o = none) (hidle : threadIdle a t = true) (k : Nat) :
    ∃ (ds : List Key) (a' : State),
      runR a ([Ev.invoke t o (.del k), Ev.mapStep o] ++ ds.map Ev.daemon ++ [Ev.respond o none])
        = some a' ∧
      KVEq a'.map (absMap (Sync.step p s (.inv k)).1) ∧
      (∀ d ∈ ds, lookup (absMap (Sync.step p s (.inv k)).1) d = none) ∧
      a'.ops = AL.put a.ops o ⟨t, .del k, .done, none⟩ := by
  obtain ⟨a', h1, h2, h3⟩ := fragOf_refines hq hk hf a hm t o hfresh hidle (.inv k)
  have hresp : respOf (Sync.step p s (.inv k)).2 = none := by
    rcases step_resp p hf (.inv k) with h | h <;> exact h
  have hfrag : fragOf p s t o (.inv k) =
      [Ev.invoke t o (.del k), Ev.mapStep o] ++
        (delKeys (remove (absMap s) k) (absMap (Sync.step p s (.inv k)).1)).map Ev.daemon ++
        [Ev.respond o none] := by
    show callFrag _ _ _ _ (respOf (Sync.step p s (.inv k)).2) = _
    rw [hresp]; rfl
  rw [hfrag] at h1
  exact ⟨_, a', h1, h2, fun d hd => (mem_delKeys.1 hd).2, h3⟩

/-- **`get k` of S is `invoke, mapStep, daemons, respond r` of R**, where `r` is the observed
result: the observation is `Obs.val r` (or a panic, then `r = none`; there is none in
reachable states, `C08_sync`), and `r` is the value the map step read or `none` (the lookup
filtered an expired / invalidated entry without touching the map).  The record of the
instance keeps the value read (`lookup a.map k`). -/
theorem Sync_get_refines_R (p : Params) (hq : Sync.NoQuirks p) {s : SState} (hk : Sync.KN s)
    (hf : s.fault = none) (a : State) (hm : KVEq a.map (absMap s)) (t : Tid) (o : Oid)
    (hfresh : AL.get? a.ops o = none) (hidle : threadIdle a t = true) (k : Nat) :
    ∃ (ds : List Key) (a' : State) (r : Option Val),
      ((Sync.step p s (.get k)).2 = Obs.val r ∨
        (r = none ∧ ∃ f, (Sync.step p s (.get k)).2 = Obs.panic f)) ∧
      (r = lookup (absMap s) k ∨ r = none) ∧
      runR a ([Ev.invoke t o (.get k), Ev.mapStep o] ++ ds.map Ev.daemon ++ [Ev.respond o r])
        = some a' ∧
      KVEq a'.map (absMap (Sync.step p s (.get k)).1) ∧
      (∀ d ∈ ds, lookup (absMap (Sync.step p s (.get k)).1) d = none) ∧
      a'.ops = AL.put a.ops o ⟨t, .get k, .done, lookup a.map k⟩ := by
  obtain ⟨a', h1, h2, h3⟩ := fragOf_refines hq hk hf a hm t o hfresh hidle (.get k)
  refine ⟨_, a', respOf (Sync.step p s (.get k)).2, ?_, step_resp p hf (.get k), h1, h2,
    fun d hd => (mem_delKeys.1 hd).2, h3⟩
  rcases (step_nofault p hf (.get k)).2 with h | ⟨f, h⟩
  · left; rw [h]; rfl
  · right; rw [h]; exact ⟨rfl, f, rfl⟩

/-- **`sync()` of S is a sequence of daemons of R.** -/
theorem Sync_sync_refines_R (p : Params) (hq : Sync.NoQuirks p) {s : SState} (hk : Sync.KN s)
    (hf : s.fault = none) (a : State) (hm : KVEq a.map (absMap s)) :
    ∃ (ds : List Key) (a' : State),
      runR a (ds.map Ev.daemon) = some a' ∧
      KVEq a'.map (absMap (Sync.step p s .sync).1) ∧
      (∀ d ∈ ds, lookup (absMap (Sync.step p s .sync).1) d = none) ∧
      a'.ops = a.ops := by
  have hsub := step_sub hq hk hf .sync
  exact ⟨_, _, runFrom_daemons _ a, removeAll_delKeys hm hsub, fun d hd => (mem_delKeys.1 hd).2,
    rfl⟩

/-- **The other operations leave the map alone**: `contains_key`, `iter`, the snapshot and
frequency hooks, the clock step and `invalidate_all` (which only moves the watermark that
makes lookups ignore older entries) are not operations of R and stand for no event. -/
theorem Sync_other_absMap (p : Params) {s : SState} (hf : s.fault = none) (op : Op)
    (hop : (∃ k, op = .has k) ∨ op = .iter ∨ op = .snap ∨ (∃ k, op = .freq k) ∨
      (∃ d, op = .adv d) ∨ op = .invAll ∨ (∃ pr, op = .invIf pr)) :
    absMap (Sync.step p s op).1 = absMap s := by
  rw [(step_nofault p hf op).1]
  rcases hop with ⟨k, rfl⟩ | rfl | rfl | ⟨k, rfl⟩ | ⟨d, rfl⟩ | rfl | ⟨pr, rfl⟩ <;> rfl

/-- **C02 refinement, one step.**  All clauses at once: in a state `s` of S with distinct keys
and no fault, seen from any state `a` of R with the same lookups, with `o` unused and `t`
idle, (1) `ins k v`, (2) `inv k`, (3) `get k` are `invoke, mapStep, daemons, respond`
fragments of R with exactly one map step, on `k`; (4) `sync` is a sequence of daemons;
(5) every other operation leaves `absMap` unchanged.  See the individual theorems. -/
theorem Sync_step_refines_R (p : Params) (hq : Sync.NoQuirks p) {s : SState} (hk : Sync.KN s)
    (hf : s.fault = none) (a : State) (hm : KVEq a.map (absMap s)) (t : Tid) (o : Oid)
    (hfresh : AL.get? a.ops o = none) (hidle : threadIdle a t = true) :
    (∀ k v, ∃ (ds : List Key) (a' : State),
      runR a ([Ev.invoke t o (.ins k v), Ev.mapStep o] ++ ds.map Ev.daemon ++ [Ev.respond o none])
        = some a' ∧
      KVEq a'.map (absMap (Sync.step p s (.ins k v)).1) ∧
      (∀ d ∈ ds, lookup (absMap (Sync.step p s (.ins k v)).1) d = none) ∧
      a'.ops = AL.put a.ops o ⟨t, .ins k v, .done, none⟩) ∧
    (∀ k, ∃ (ds : List Key) (a' : State),
      runR a ([Ev.invoke t o (.del k), Ev.mapStep o] ++ ds.map Ev.daemon ++ [Ev.respond o none])
        = some a' ∧
      KVEq a'.map (absMap (Sync.step p s (.inv k)).1) ∧
      (∀ d ∈ ds, lookup (absMap (Sync.step p s (.inv k)).1) d = none) ∧
      a'.ops = AL.put a.ops o ⟨t, .del k, .done, none⟩) ∧
    (∀ k, ∃ (ds : List Key) (a' : State) (r : Option Val),
      ((Sync.step p s (.get k)).2 = Obs.val r ∨
        (r = none ∧ ∃ f, (Sync.step p s (.get k)).2 = Obs.panic f)) ∧
      (r = lookup (absMap s) k ∨ r = none) ∧
      runR a ([Ev.invoke t o (.get k), Ev.mapStep o] ++ ds.map Ev.daemon ++ [Ev.respond o r])
        = some a' ∧
      KVEq a'.map (absMap (Sync.step p s (.get k)).1) ∧
      (∀ d ∈ ds, lookup (absMap (Sync.step p s (.get k)).1) d = none) ∧
      a'.ops = AL.put a.ops o ⟨t, .get k, .done, lookup a.map k⟩) ∧
    (∃ (ds : List Key) (a' : State),
      runR a (ds.map Ev.daemon) = some a' ∧
      KVEq a'.map (absMap (Sync.step p s .sync).1) ∧
      (∀ d ∈ ds, lookup (absMap (Sync.step p s .sync).1) d = none) ∧
      a'.ops = a.ops) ∧
    (∀ op, ((∃ k, op = .has k) ∨ op = .iter ∨ op = .snap ∨ (∃ k, op = .freq k) ∨
        (∃ d, op = .adv d) ∨ op = .invAll ∨ (∃ pr, op = .invIf pr)) →
      absMap (Sync.step p s op).1 = absMap s) :=
  ⟨fun k v => Sync_ins_refines_R p hq hk hf a hm t o hfresh hidle k v,
   fun k => Sync_inv_refines_R p hq hk hf a hm t o hfresh hidle k,
   fun k => Sync_get_refines_R p hq hk hf a hm t o hfresh hidle k,
   Sync_sync_refines_R p hq hk hf a hm,
   fun op hop => Sync_other_absMap p hf op hop⟩

/-- The same in one formula, with the fragment as a function of the operation
(`SyncR.fragOf`: the fragments above, with `ds` the keys bound right after the map step and
absent from the final map). -/
theorem Sync_step_refines_R_frag (p : Params) (hq : Sync.NoQuirks p) {s : SState}
    (hk : Sync.KN s) (hf : s.fault = none) (a : State) (hm : KVEq a.map (absMap s)) (t : Tid)
    (o : Oid) (hfresh : AL.get? a.ops o = none) (hidle : threadIdle a t = true) (op : Op) :
    ∃ a', runR a (fragOf p s t o op) = some a' ∧
      KVEq a'.map (absMap (Sync.step p s op).1) ∧
      (∀ k, Ev.daemon k ∈ fragOf p s t o op → lookup (absMap (Sync.step p s op).1) k = none) := by
  obtain ⟨a', h1, h2, _⟩ := fragOf_refines hq hk hf a hm t o hfresh hidle op
  exact ⟨a', h1, h2, fun k hk' => fragOf_daemons hk'⟩

/-- **C02 refinement, histories.**  For every configuration of the current code (documented
sketch limit) and every history `h` of public calls made by one thread `t`, the event list
`SyncR.evsOf p t {} 0 h` (the fragments of the operations of `h`, one after the other, the
instance id of an operation being its position in `h`)
  * is a well-formed execution of R from `State.init`;
  * ends in a map with the lookups of `absMap` of the final state of S;
  * its calls (`SyncR.callsOf`: instance, thread, operation as given by `ConcR.opOf`, and
    returned value of every `respond` event, in order) are exactly the data operations of
    `h` with the observations of `Sync.trace p h`: what each `get` observed, `none` for
    `insert` / `invalidate` (`SyncR.callsOfTrace`).
Consequently every theorem of `Props/C02.lean` (`C02_read_from`, `C02_not_superseded`,
`C02_monotone`, `C02_final`, `C07_reader`), proved for all well-formed executions of R,
holds of this execution, i.e. of every single-thread history of S; the concurrent
interleavings are executions of R by the source audit described in `ConcR.lean`.
`C08_sync` (no panic) is what rules out faulted states. -/
theorem Sync_history_refines_R (p : Params) (hq : Sync.NoQuirks p) (hsm : SmallSketch p)
    (t : Tid) (h : List Op) :
    ∃ a', ConcR.run (evsOf p t {} 0 h) = some a' ∧
      KVEq a'.map (absMap (Sync.runState p {} h)) ∧
      callsOf (evsOf p t {} 0 h) = callsOfTrace t 0 (Sync.trace p h) := by
  obtain ⟨a', h1, h2, _⟩ := evsOf_refines hq t h {} State.init 0 List.nodup_nil rfl
    (C08_sync p hq hsm h) (KVEq.refl _) opsDone_init
  exact ⟨a', h1, h2, callsOf_evsOf p t h⟩

/-- The execution of a history is well formed: the hypothesis of the C02 theorems. -/
theorem Sync_history_WF (p : Params) (hq : Sync.NoQuirks p) (hsm : SmallSketch p) (t : Tid)
    (h : List Op) : ConcR.WF (evsOf p t {} 0 h) := by
  obtain ⟨a', h1, _⟩ := Sync_history_refines_R p hq hsm t h
  exact ConcR.WF_iff.2 ⟨a', h1⟩

/-! ## Examples (non-vacuity) -/

/-- Capacity 1 with a weigher: a full cache rejects and evicts. -/
def refP : Params := { cap := some 1, hasWeigher := true, w := fun _ v => v }

def refH : List Op :=
  [.ins 1 1, .ins 2 1, .ins 3 1, .get 1, .get 2, .get 3, .sync, .get 3, .inv 1, .get 1]

theorem refP_small : SmallSketch refP :=
  ⟨fun c hc => by cases hc; decide +kernel,
   fun _ _ _ => by show Sketch.sketchCapacity 0 ≤ 2 ^ 27; decide +kernel⟩

/-- The maintenance that `insert 3` runs (inside `schedule_write_op`, after its map step)
applies the queued write of key 2 and rejects it: the fragment of `ins 3 1` has the non-empty
`ds = [2]`; the `get 1` that follows runs the maintenance that rejects key 3. -/
example : evsOf refP 0 {} 0 refH =
    [.invoke 0 0 (.ins 1 1), .mapStep 0, .respond 0 none,
     .invoke 0 1 (.ins 2 1), .mapStep 1, .respond 1 none,
     .invoke 0 2 (.ins 3 1), .mapStep 2, .daemon 2, .respond 2 none,
     .invoke 0 3 (.get 1), .mapStep 3, .daemon 3, .respond 3 (some 1),
     .invoke 0 4 (.get 2), .mapStep 4, .respond 4 none,
     .invoke 0 5 (.get 3), .mapStep 5, .respond 5 none,
     .invoke 0 7 (.get 3), .mapStep 7, .respond 7 none,
     .invoke 0 8 (.del 1), .mapStep 8, .respond 8 none,
     .invoke 0 9 (.get 1), .mapStep 9, .respond 9 none] := by
  decide +kernel

example : fragOf refP (Sync.runState refP {} [.ins 1 1, .ins 2 1]) 0 2 (.ins 3 1) =
    [.invoke 0 2 (.ins 3 1), .mapStep 2, .daemon 2, .respond 2 none] := by
  decide +kernel

example : (List.range 5).map (fun i => absMap (Sync.runState refP {} (refH.take i))) =
    [[], [(1, 1)], [(1, 1), (2, 1)], [(1, 1), (3, 1)], [(1, 1)]] := by
  decide +kernel

/-- R accepts it and ends with the map of S (here literally, not only up to lookups). -/
example : (ConcR.run (evsOf refP 0 {} 0 refH)).map (·.map) =
    some (absMap (Sync.runState refP {} refH)) := by
  decide +kernel

example : callsOf (evsOf refP 0 {} 0 refH) = callsOfTrace 0 0 (Sync.trace refP refH) ∧
    callsOf (evsOf refP 0 {} 0 refH) =
      [(0, 0, .ins 1 1, none), (1, 0, .ins 2 1, none), (2, 0, .ins 3 1, none),
       (3, 0, .get 1, some 1), (4, 0, .get 2, none), (5, 0, .get 3, none),
       (7, 0, .get 3, none), (8, 0, .del 1, none), (9, 0, .get 1, none)] := by
  decide +kernel

/-- The theorems apply to this configuration, and so do those of `Props/C02.lean`: the
`get 1` (instance 3, map step at position 11) that returned `some 1` read from a map step of
an `ins 1 1` with no write of key 1 in between. -/
example : ∃ i w tw, i < 11 ∧ (evsOf refP 0 {} 0 refH)[i]? = some (.mapStep w) ∧
    ConcR.opOf (evsOf refP 0 {} 0 refH) w = some (tw, .ins 1 1) ∧
    ConcR.NoWriteIn (evsOf refP 0 {} 0 refH) 1 (i + 1) 11 :=
  ConcR.C02_read_from (Sync_history_WF refP rfl refP_small 0 refH) (g := 3) (t := 0)
    (by decide +kernel) (by decide +kernel) (by decide +kernel)

/-- `sync()` is daemons only: here it evicts / rejects keys 3 and 4. -/
example : fragOf refP (Sync.runState refP {}
      [.ins 1 1, .ins 2 1, .ins 3 1, .adv Gen.PAST_SYNC_INTERVAL_NS, .ins 4 1]) 0 5 .sync =
    [.daemon 3, .daemon 4] := by
  decide +kernel

/-- Time-to-live of 10 ns. -/
def refQ : Params := { ttl := some 10 }

def refG : List Op := [.ins 1 7, .adv Gen.PAST_SYNC_INTERVAL_NS, .get 1, .has 1, .get 2]

/-- A filtered lookup: the `get 1` (instance 2) is answered `none` although key 1 is in the
map before and after the call (the entry is expired and no maintenance is due: the map step
read `some 7`, kept in the record of the instance, and R lets the get respond `none`). -/
example : evsOf refQ 0 {} 0 refG =
      [.invoke 0 0 (.ins 1 7), .mapStep 0, .respond 0 none,
       .invoke 0 2 (.get 1), .mapStep 2, .respond 2 none,
       .invoke 0 4 (.get 2), .mapStep 4, .respond 4 none] ∧
    absMap (Sync.runState refQ {} (refG.take 2)) = [(1, 7)] ∧
    absMap (Sync.runState refQ {} (refG.take 3)) = [(1, 7)] ∧
    (Sync.trace refQ refG).map (fun oo => respOf oo.2) = [none, none, none, none, none] ∧
    (ConcR.run (evsOf refQ 0 {} 0 refG)).map
        (fun a => (a.map, a.ops.map (fun x => (x.1, x.2.ret)))) =
      some ([(1, 7)], [(0, none), (2, some 7), (4, none)]) := by
  decide +kernel

/-- With maintenance due, the same expired entry is deleted inside the `get`, after its map
step. -/
example : evsOf refQ 0 {} 0 [.ins 1 7, .adv 10, .get 1] =
    [.invoke 0 0 (.ins 1 7), .mapStep 0, .respond 0 none,
     .invoke 0 2 (.get 1), .mapStep 2, .daemon 1, .respond 2 none] := by
  decide +kernel

#print axioms runR_respects_KVEq
#print axioms Sync_reachable
#print axioms Sync_ins_refines_R
#print axioms Sync_inv_refines_R
#print axioms Sync_get_refines_R
#print axioms Sync_sync_refines_R
#print axioms Sync_other_absMap
#print axioms Sync_step_refines_R
#print axioms Sync_step_refines_R_frag
#print axioms Sync_history_refines_R
#print axioms Sync_history_WF

end Props
end MiniMoka
