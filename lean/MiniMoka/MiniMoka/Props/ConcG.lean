/-
  The granularity of a lookup (`MiniMoka/ConcG.lean`): ONE key, any number of threads, ALL
  interleavings.  The assumption of the detailed models — a lookup (fetch the value entry, test
  the key's shared timestamps, return the value) is one atomic step with respect to updates of
  the same key — made explicit, proved for the code as it is, refuted for the seeded
  "release the guard early" change.

  PROVED, every reachable state, any interleaving, for the atomic lookup (`split = false`) AND
  for the code at its real granularity (`split = true, guard = true`: fetch and test are two
  steps, ticks / `invalidate_all` / other lookups run in between, updates of the key do not):
   * `ConcG_get_fresh` / `ConcG_get_fresh_guarded` (both from `ConcG_get_fresh_cfg`): every value
     a lookup returned (`r ∈ s.returned`) was written (`(r.value, r.wr) ∈ s.written`) at a reading
     `r.wr` with `i ≤ r.wr` for EVERY `invalidate_all` reading `i` that had completed when the
     lookup began (`r.invs`, a suffix of `s.completedInv`) — no value discarded by an
     `invalidate_all` that completed before the lookup began is ever returned — and, with
     `ttl = some d`, `r.time < r.wr + d`: no value is returned at or after its write time plus
     time-to-live.
  MACHINE-CHECKED INTERLEAVINGS (`ConcG_counterexample_split`, by `decide`), `split = true,
  guard = false` (the seeded change):
   * watermark: value 1 written at 10; `invalidate_all` completes at 11; thread 3 begins a lookup
     at 11 and fetches value 1; at 12 thread 1 updates the key with value 2, refreshing the
     SHARED `last_modified` to 12; thread 3 tests: `12 < 11` is false — value 1 is returned;
   * time-to-live 5: value 1 written at 10; at 15 thread 3 fetches it; thread 1 updates the key
     (`last_modified := 15`); thread 3 tests `15 + 5 ≤ 15`, false — value 1 is returned at
     `15 = 10 + 5`.
   The same calls with the atomic lookup return nothing; with the guard the `insert` in the
   window is not enabled.  Hence (`ConcG_split_violates`) the guarantee fails for the seeded
   change.
  THE LINK (`ConcG_split_uninterrupted`): `getFetch t ; getTest t` run back to back is exactly
  the atomic `get t` — the fault is only the window.
-/
import MiniMoka.ConcG
import MiniMoka.Lemmas.AL

namespace MiniMoka
namespace Props

open ConcG

/-! ### association lists: membership after `put` / `erase` -/

theorem ConcG.mem_put {β : Type} {m : List (Nat × β)} {x : Nat} {b : β} {a : Nat × β}
    (h : a ∈ AL.put m x b) : a ∈ m ∨ a = (x, b) := by
  induction m with
  | nil => simp only [AL.put, List.mem_singleton] at h; exact Or.inr h
  | cons c m ih =>
    obtain ⟨k, w⟩ := c
    rw [AL.put_cons] at h
    by_cases hk : k = x
    · rw [if_pos hk] at h
      rcases List.mem_cons.mp h with h | h
      · exact Or.inr (by rw [h, hk])
      · exact Or.inl (List.mem_cons_of_mem _ h)
    · rw [if_neg hk] at h
      rcases List.mem_cons.mp h with h | h
      · exact Or.inl (by rw [h]; exact List.mem_cons_self)
      · rcases ih h with h | h
        · exact Or.inl (List.mem_cons_of_mem _ h)
        · exact Or.inr h

theorem ConcG.mem_erase {β : Type} {m : List (Nat × β)} {x : Nat} {a : Nat × β}
    (h : a ∈ AL.erase m x) : a ∈ m := by
  induction m with
  | nil => simp at h
  | cons c m ih =>
    obtain ⟨k, w⟩ := c
    rw [AL.erase_cons] at h
    by_cases hk : k = x
    · rw [if_pos hk] at h; exact List.mem_cons_of_mem _ h
    · rw [if_neg hk] at h
      rcases List.mem_cons.mp h with h | h
      · rw [h]; exact List.mem_cons_self
      · exact List.mem_cons_of_mem _ (ih h)

/-! ### the test -/

theorem ConcG.hidden_maxVa {va : Option Nat} {n ts : Nat} (h : hidden (maxVa va n) ts = false) :
    n ≤ ts ∧ hidden va ts = false := by
  cases va with
  | none =>
    simp only [maxVa, hidden, decide_eq_false_iff_not, Nat.not_lt] at h
    exact ⟨h, rfl⟩
  | some w =>
    simp only [maxVa, hidden, decide_eq_false_iff_not, Nat.not_lt] at h ⊢
    exact ⟨Nat.le_trans (Nat.le_max_right w n) h, Nat.le_trans (Nat.le_max_left w n) h⟩

theorem ConcG.live_iff {ttl : Option Nat} {s : State} (h : live ttl s = true) :
    hidden s.va s.lm = false ∧ ∀ d, ttl = some d → s.now < s.lm + d := by
  simp only [live, Bool.and_eq_true, Bool.not_eq_true'] at h
  refine ⟨h.1, fun d hd => ?_⟩
  have h2 := h.2
  rw [hd] at h2
  simp only [expired, decide_eq_false_iff_not, Nat.not_le] at h2
  exact h2

/-- What `judge` does: nothing, or (entry present, info live NOW) one record is logged. -/
theorem ConcG.judge_cases (ttl : Option Nat) (s : State) (t : Tid) (p : Pending) :
    judge ttl s t p = s ∨
    ∃ v wr, p.entry = some (v, wr) ∧ live ttl s = true ∧
      judge ttl s t p =
        { s with returned := { tid := t, value := v, wr := wr, began := p.began, time := s.now,
                               invs := p.invs } :: s.returned } := by
  unfold judge
  cases he : p.entry with
  | none => exact Or.inl rfl
  | some e =>
    obtain ⟨v, wr⟩ := e
    by_cases hl : live ttl s = true
    · exact Or.inr ⟨v, wr, rfl, hl, by simp only [hl, if_true]⟩
    · exact Or.inl (by simp only [hl]; rfl)

/-! ### 1. the lookup guarantee -/

/-- The guarantee for one returned value. -/
structure RetOk (ttl : Option Nat) (s : State) (r : Ret) : Prop where
  /-- the value was written, at reading `r.wr` -/
  written : (r.value, r.wr) ∈ s.written
  /-- not older than any `invalidate_all` completed when the lookup began -/
  fresh : ∀ i ∈ r.invs, i ≤ r.wr
  /-- returned before its write time plus time-to-live -/
  unexpired : ∀ d, ttl = some d → r.time < r.wr + d
  /-- the ghost `r.invs` is what it claims: an older part of the log of completed calls -/
  invs : r.invs <:+ s.completedInv
  began : r.began ≤ r.time
  time : r.time ≤ s.now

/-- The invariant of the configurations in which no update falls between fetch and test. -/
structure GInv (cfg : Cfg) (s : State) : Prop where
  /-- the info's `last_modified` is the write time of the CURRENT value entry -/
  cur : ∀ v wr, s.cur = some (v, wr) → wr = s.lm ∧ (v, wr) ∈ s.written
  /-- the watermark covers every completed `invalidate_all` -/
  va : ∀ i ∈ s.completedInv, ∀ ts, hidden s.va ts = false → i ≤ ts
  /-- what a thread holds between fetch and test is still the current value entry -/
  held : ∀ t p, (t, p) ∈ s.held →
    p.entry = s.cur ∧ p.invs <:+ s.completedInv ∧ p.began ≤ s.now
  /-- without the guard nobody is between fetch and test (the lookup is atomic) -/
  noHeld : cfg.guard = false → s.held = []
  ret : ∀ r ∈ s.returned, RetOk cfg.ttl s r

/-- `RetOk` only looks at the ghost logs and the clock, and those only grow. -/
theorem ConcG.retOk_mono {ttl : Option Nat} {s s' : State} {r : Ret} (h : RetOk ttl s r)
    (hw : ∀ x ∈ s.written, x ∈ s'.written)
    (hc : s.completedInv <:+ s'.completedInv) (hn : s.now ≤ s'.now) : RetOk ttl s' r :=
  ⟨hw _ h.written, h.fresh, h.unexpired, List.IsSuffix.trans h.invs hc, h.began,
   Nat.le_trans h.time hn⟩

/-- `judge` on a pending lookup that still holds the current value entry keeps `RetOk`. -/
theorem ConcG.judge_ret {cfg : Cfg} {s : State} {t : Tid} {p : Pending}
    (hcur : ∀ v wr, s.cur = some (v, wr) → wr = s.lm ∧ (v, wr) ∈ s.written)
    (hva : ∀ i ∈ s.completedInv, ∀ ts, hidden s.va ts = false → i ≤ ts)
    (hret : ∀ r ∈ s.returned, RetOk cfg.ttl s r)
    (hp : p.entry = s.cur ∧ p.invs <:+ s.completedInv ∧ p.began ≤ s.now) :
    ∀ r ∈ (judge cfg.ttl s t p).returned, RetOk cfg.ttl (judge cfg.ttl s t p) r := by
  rcases ConcG.judge_cases cfg.ttl s t p with h | ⟨v, wr, he, hl, h⟩
  · rw [h]; exact hret
  · rw [h]
    intro r hr
    rcases List.mem_cons.mp hr with hr | hr
    · subst hr
      obtain ⟨hh, hexp⟩ := ConcG.live_iff hl
      obtain ⟨hwr, hmem⟩ := hcur v wr (by rw [← hp.1, he])
      refine ⟨hmem, fun i hi => ?_, fun d hd => ?_, hp.2.1, hp.2.2, Nat.le_refl _⟩
      · have : i ∈ s.completedInv := List.IsSuffix.subset hp.2.1 hi
        show i ≤ wr
        rw [hwr]; exact hva i this _ hh
      · show s.now < wr + d
        rw [hwr]; exact hexp d hd
    · exact ConcG.retOk_mono (hret r hr) (fun _ hx => hx) (List.suffix_refl _) (Nat.le_refl _)

theorem ConcG.step_inv {cfg : Cfg} (hgood : cfg.split = false ∨ cfg.guard = true) {s s' : State}
    {e : Ev} (hi : GInv cfg s) (hs : step cfg s e = some s') : GInv cfg s' := by
  obtain ⟨hcur, hva, hheld, hno, hret⟩ := hi
  cases e with
  | tick d =>
    simp only [step, Option.some.injEq] at hs
    subst hs
    refine ⟨hcur, hva, fun t p hp => ?_, hno, fun r hr => ?_⟩
    · obtain ⟨h1, h2, h3⟩ := hheld t p hp
      exact ⟨h1, h2, Nat.le_trans h3 (Nat.le_add_right _ _)⟩
    · exact ConcG.retOk_mono (hret r hr) (fun _ hx => hx) (List.suffix_refl _)
        (Nat.le_add_right _ _)
  | insert t v =>
    simp only [step] at hs
    split at hs
    · simp at hs
    · rename_i hg
      simp only [Option.some.injEq] at hs
      -- nobody is between fetch and test
      have hempty : s.held = [] := by
        cases hgd : cfg.guard with
        | false => exact hno hgd
        | true =>
          rw [hgd] at hg
          simp only [Bool.true_and, Bool.not_eq_true'] at hg
          simpa [List.isEmpty_iff] using hg
      subst hs
      refine ⟨fun v' wr' h => ?_, hva, fun t p hp => ?_, fun h => hno h, fun r hr => ?_⟩
      · simp only [Option.some.injEq, Prod.mk.injEq] at h
        obtain ⟨hv, hw⟩ := h
        subst hv; subst hw
        exact ⟨rfl, List.mem_cons_self⟩
      · simp only [hempty] at hp
        simp at hp
      · exact ConcG.retOk_mono (hret r hr) (fun _ hx => List.mem_cons_of_mem _ hx)
          (List.suffix_refl _) (Nat.le_refl _)
  | invAll t =>
    simp only [step, Option.some.injEq] at hs
    subst hs
    refine ⟨hcur, fun i hi ts hh => ?_, fun t p hp => ?_, hno, fun r hr => ?_⟩
    · obtain ⟨h1, h2⟩ := ConcG.hidden_maxVa hh
      rcases List.mem_cons.mp hi with hi | hi
      · rw [hi]; exact h1
      · exact hva i hi ts h2
    · obtain ⟨h1, h2, h3⟩ := hheld t p hp
      exact ⟨h1, List.IsSuffix.trans h2 (List.suffix_cons _ _), h3⟩
    · exact ConcG.retOk_mono (hret r hr) (fun _ hx => hx) (List.suffix_cons _ _)
        (Nat.le_refl _)
  | get t =>
    simp only [step] at hs
    split at hs
    · simp at hs
    · simp only [Option.some.injEq] at hs
      have hj := ConcG.judge_ret (cfg := cfg) (t := t) (p := fetch s) hcur hva hret
        ⟨rfl, List.suffix_refl _, Nat.le_refl _⟩
      rcases ConcG.judge_cases cfg.ttl s t (fetch s) with h | ⟨v, wr, _, _, h⟩
      · rw [h] at hs; subst hs
        exact ⟨hcur, hva, hheld, hno, hret⟩
      · rw [h] at hj hs; subst hs
        exact ⟨hcur, hva, hheld, hno, hj⟩
  | getFetch t =>
    simp only [step] at hs
    split at hs
    · rename_i hsp
      have hgd : cfg.guard = true := by
        rcases hgood with h | h
        · rw [h] at hsp; simp at hsp
        · exact h
      split at hs
      · simp at hs
      · simp only [Option.some.injEq] at hs
        subst hs
        refine ⟨hcur, hva, fun t' p hp => ?_, fun h => by rw [hgd] at h; simp at h,
          fun r hr => ?_⟩
        · rcases ConcG.mem_put hp with hp | hp
          · exact hheld t' p hp
          · simp only [Prod.mk.injEq] at hp
            rw [hp.2]
            exact ⟨rfl, List.suffix_refl _, Nat.le_refl _⟩
        · exact ConcG.retOk_mono (hret r hr) (fun _ hx => hx) (List.suffix_refl _)
            (Nat.le_refl _)
    · simp at hs
  | getTest t =>
    simp only [step] at hs
    split at hs
    · rename_i hsp
      have hgd : cfg.guard = true := by
        rcases hgood with h | h
        · rw [h] at hsp; simp at hsp
        · exact h
      split at hs
      · simp at hs
      · rename_i p hget
        simp only [Option.some.injEq] at hs
        have hp := hheld t p (AL.mem_of_get? hget)
        have hheld' : ∀ t' p', (t', p') ∈ AL.erase s.held t →
            p'.entry = s.cur ∧ p'.invs <:+ s.completedInv ∧ p'.began ≤ s.now :=
          fun t' p' h => hheld t' p' (ConcG.mem_erase h)
        have hj := ConcG.judge_ret (cfg := cfg) (s := { s with held := AL.erase s.held t })
          (t := t) (p := p) hcur hva
          (fun r hr => ConcG.retOk_mono (hret r hr) (fun _ hx => hx) (List.suffix_refl _)
            (Nat.le_refl _)) hp
        rcases ConcG.judge_cases cfg.ttl { s with held := AL.erase s.held t } t p
          with h | ⟨v, wr, _, _, h⟩
        · rw [h] at hs hj; subst hs
          exact ⟨hcur, hva, hheld', fun h => by rw [hgd] at h; simp at h, hj⟩
        · rw [h] at hj hs; subst hs
          exact ⟨hcur, hva, hheld', fun h => by rw [hgd] at h; simp at h, hj⟩
    · simp at hs

theorem ConcG.reach_inv {cfg : Cfg} (hgood : cfg.split = false ∨ cfg.guard = true) {s : State}
    (hr : Reach cfg s) : GInv cfg s := by
  induction hr with
  | init =>
    refine ⟨fun v wr h => ?_, fun i hi => ?_, fun t p hp => ?_, fun _ => rfl, fun r hr => ?_⟩
    · simp [init] at h
    · simp [init] at hi
    · simp [init] at hp
    · simp [init] at hr
  | step e _ hs ih => exact ConcG.step_inv hgood ih hs

/-- **The lookup guarantee**, any configuration in which no update of the key falls between fetch
and test (`split = false`: the lookup is one step; or `guard = true`: the shard guard is held from
fetch to test), any number of threads, any interleaving, every reachable state `s`, every value
`r` returned by a lookup so far. -/
theorem ConcG_get_fresh_cfg (cfg : Cfg) (hgood : cfg.split = false ∨ cfg.guard = true)
    (s : State) (hr : Reach cfg s) (r : Ret) (hmem : r ∈ s.returned) :
    (r.value, r.wr) ∈ s.written ∧
    (∀ i ∈ r.invs, i ≤ r.wr) ∧
    (∀ d, cfg.ttl = some d → r.time < r.wr + d) ∧
    r.invs <:+ s.completedInv ∧ r.began ≤ r.time ∧ r.time ≤ s.now :=
  let h := (ConcG.reach_inv hgood hr).ret r hmem
  ⟨h.written, h.fresh, h.unexpired, h.invs, h.began, h.time⟩

/-- **Get is fresh** (the lookup as ONE step, as in the detailed models): every value `r.value`
returned by a lookup was written at a reading `r.wr` that is not before ANY `invalidate_all`
reading `i` completed when the lookup began (so `¬ (r.wr < va)` for the watermark the lookup
saw: no value discarded by a completed `invalidate_all` is ever returned), and, with time-to-live
`d`, the lookup returned before `r.wr + d`.  (`r.invs` is a suffix — an older part — of the log
`s.completedInv`; an atomic lookup begins and returns at the same reading.) -/
theorem ConcG_get_fresh (guard : Bool) (ttl : Option Nat) (s : State)
    (hr : Reach { split := false, guard := guard, ttl := ttl } s) (r : Ret)
    (hmem : r ∈ s.returned) :
    (r.value, r.wr) ∈ s.written ∧
    (∀ i ∈ r.invs, i ≤ r.wr) ∧
    (∀ d, ttl = some d → r.time < r.wr + d) ∧
    r.invs <:+ s.completedInv ∧ r.began ≤ r.time ∧ r.time ≤ s.now :=
  ConcG_get_fresh_cfg _ (Or.inl rfl) s hr r hmem

/-- The same guarantee for the code at its real granularity: fetch and test are two steps, clock
ticks, `invalidate_all` calls and other lookups fall in between, updates of the key do not (the
shard guard).  So taking the lookup as one step loses no violation of the guarantee. -/
theorem ConcG_get_fresh_guarded (ttl : Option Nat) (s : State)
    (hr : Reach { split := true, guard := true, ttl := ttl } s) (r : Ret)
    (hmem : r ∈ s.returned) :
    (r.value, r.wr) ∈ s.written ∧
    (∀ i ∈ r.invs, i ≤ r.wr) ∧
    (∀ d, ttl = some d → r.time < r.wr + d) ∧
    r.invs <:+ s.completedInv ∧ r.began ≤ r.time ∧ r.time ≤ s.now :=
  ConcG_get_fresh_cfg _ (Or.inr rfl) s hr r hmem

/-- With the atomic lookup nobody is ever between fetch and test; with the guard whoever is still
holds the CURRENT value entry, whose write time is the info's `last_modified`. -/
theorem ConcG_held_current (cfg : Cfg) (hgood : cfg.split = false ∨ cfg.guard = true)
    (s : State) (hr : Reach cfg s) :
    (cfg.split = false → s.held = []) ∧
    (∀ t p, (t, p) ∈ s.held → p.entry = s.cur) ∧
    (∀ v wr, s.cur = some (v, wr) → wr = s.lm) := by
  have hi := ConcG.reach_inv hgood hr
  refine ⟨fun hsp => ?_, fun t p hp => (hi.held t p hp).1, fun v wr h => (hi.cur v wr h).1⟩
  clear hi
  induction hr with
  | init => rfl
  | step e _ hs ih =>
    cases e <;> simp only [step, hsp] at hs
    · simp only [Option.some.injEq] at hs; subst hs; exact ih
    · split at hs
      · simp at hs
      · simp only [Option.some.injEq] at hs; subst hs; exact ih
    · simp only [Option.some.injEq] at hs; subst hs; exact ih
    · simp only [Bool.false_eq_true, if_false, Option.some.injEq] at hs
      rcases ConcG.judge_cases cfg.ttl _ _ (fetch _) with h | ⟨_, _, _, _, h⟩ <;>
        (rw [h] at hs; subst hs; exact ih)
    · simp at hs
    · simp at hs

/-! ### 2. the seeded change: the guard is released between fetch and test -/

/-- The seeded change, no time-to-live. -/
def splitCfg : Cfg := { split := true, guard := false, ttl := none }

/-- The seeded change, time-to-live 5. -/
def splitTtlCfg : Cfg := { split := true, guard := false, ttl := some 5 }

/-- Value 1 written at 10; `invalidate_all` at 11; thread 3 begins a lookup at 11 and fetches
value 1; at 12 thread 1 updates the key; thread 3 tests the (refreshed) shared timestamps. -/
def splitEvs : List Ev :=
  [.tick 10, .insert 1 1,            -- value 1, written at 10, `last_modified = 10`
   .tick 1, .invAll 2,               -- `valid_after = 11`: value 1 is hidden, the call returns
   .getFetch 3,                      -- thread 3 begins `get` at 11, clones the entry of value 1
   .tick 1, .insert 1 2,             -- thread 1 updates: value 2, SHARED `last_modified = 12`
   .getTest 3]                       -- thread 3 tests `12 < 11`: "live" — returns value 1

/-- The same calls with the atomic lookup. -/
def atomicEvs : List Ev :=
  [.tick 10, .insert 1 1, .tick 1, .invAll 2, .get 3, .tick 1, .insert 1 2]

/-- Value 1 written at 10, time-to-live 5; at 15 thread 3 fetches it, thread 1 updates the key,
thread 3 tests the (refreshed) shared timestamps. -/
def splitTtlEvs : List Ev :=
  [.tick 10, .insert 1 1,            -- value 1, written at 10: expires at 15
   .tick 5,
   .getFetch 3,                      -- thread 3 begins `get` at 15, clones the entry of value 1
   .insert 1 2,                      -- thread 1 updates: value 2, SHARED `last_modified = 15`
   .getTest 3]                       -- thread 3 tests `15 + 5 ≤ 15`: "live" — returns value 1

def atomicTtlEvs : List Ev := [.tick 10, .insert 1 1, .tick 5, .get 3, .insert 1 2]

/-- **The seeded change returns a discarded value** (`split = true, guard = false`, by `decide`).
`splitEvs` is enabled and ends with ONE returned record: thread 3 got value 1, written at 10
(its only write: `written = [(2, 12), (1, 10)]`), by a lookup that began at 11, after the
`invalidate_all` with reading 11 had completed, and returned at 12.  `splitTtlEvs` (time-to-live
5): thread 3 got value 1, written at 10, at reading 15 = 10 + 5.  The same calls with the atomic
lookup return nothing; at the real granularity of the code as it is (`guard = true`) the
interleavings do not exist: the `insert` in the window is not enabled. -/
theorem ConcG_counterexample_split :
    runEvs splitCfg init splitEvs
        = some { now := 12, va := some 11, cur := some (2, 12), lm := 12,
                 written := [(2, 12), (1, 10)], held := [], completedInv := [11],
                 returned := [{ tid := 3, value := 1, wr := 10, began := 11, time := 12,
                                invs := [11] }] }
    ∧ runEvs splitTtlCfg init splitTtlEvs
        = some { now := 15, va := none, cur := some (2, 15), lm := 15,
                 written := [(2, 15), (1, 10)], held := [], completedInv := [],
                 returned := [{ tid := 3, value := 1, wr := 10, began := 15, time := 15,
                                invs := [] }] }
    ∧ (runEvs { split := false } init atomicEvs).map (·.returned) = some []
    ∧ (runEvs { split := false, ttl := some 5 } init atomicTtlEvs).map (·.returned) = some []
    ∧ runEvs { split := true, guard := true } init splitEvs = none
    ∧ runEvs { split := true, guard := true, ttl := some 5 } init splitTtlEvs = none := by
  refine ⟨by decide, by decide, by decide, by decide, by decide, by decide⟩

/-- The guarantee is not vacuous: the atomic lookup and the guarded split lookup do return
values — the fresh ones.  After `atomicEvs` (value 1 hidden by the `invalidate_all` at 11, value 2
written at 12) a lookup returns value 2; a guarded split lookup with a clock tick in its window
returns the value it fetched. -/
theorem ConcG_get_returns :
    (runEvs { split := false } init (atomicEvs ++ [.get 3])).map (·.returned)
        = some [{ tid := 3, value := 2, wr := 12, began := 12, time := 12, invs := [11] }]
    ∧ (runEvs { split := true, guard := true } init
          [.tick 10, .insert 1 1, .getFetch 3, .tick 1, .getTest 3]).map (·.returned)
        = some [{ tid := 3, value := 1, wr := 10, began := 10, time := 11, invs := [] }] := by
  refine ⟨by decide, by decide⟩

/-- A finite path from a reachable state ends in a reachable state. -/
theorem ConcG.reach_of_runEvs {cfg : Cfg} (evs : List Ev) (s s' : State) (hr : Reach cfg s)
    (h : runEvs cfg s evs = some s') : Reach cfg s' := by
  induction evs generalizing s with
  | nil =>
    simp only [runEvs, Option.some.injEq] at h
    rw [← h]; exact hr
  | cons e rest ih =>
    simp only [runEvs] at h
    cases hs : step cfg s e with
    | none => rw [hs] at h; simp at h
    | some s1 =>
      rw [hs] at h
      exact ih s1 (Reach.step e hr hs) h

/-- The guarantee fails for the seeded change: a reachable state with a returned value ALL of
whose writes are strictly before an `invalidate_all` completed when the lookup began; and (with
time-to-live 5) a reachable state with a value returned at its write time plus time-to-live. -/
theorem ConcG_split_violates :
    (∃ s, Reach splitCfg s ∧ ∃ r ∈ s.returned, ∃ i ∈ r.invs,
        ∀ w, (r.value, w) ∈ s.written → w < i) ∧
    (∃ s, Reach splitTtlCfg s ∧ ∃ r ∈ s.returned,
        ∀ w, (r.value, w) ∈ s.written → w + 5 ≤ r.time) := by
  constructor
  · refine ⟨_, ConcG.reach_of_runEvs _ _ _ Reach.init ConcG_counterexample_split.1,
      _, List.mem_cons_self, 11, List.mem_cons_self, fun w hw => ?_⟩
    simp only [List.mem_cons, Prod.mk.injEq, List.not_mem_nil, or_false] at hw
    omega
  · refine ⟨_, ConcG.reach_of_runEvs _ _ _ Reach.init ConcG_counterexample_split.2.1,
      _, List.mem_cons_self, fun w hw => ?_⟩
    simp only [List.mem_cons, Prod.mk.injEq, List.not_mem_nil, or_false] at hw
    show w + 5 ≤ 15
    omega

/-! ### 3. the link: the fault is only the window between fetch and test -/

/-- **Split, uninterrupted, is atomic.**  In the split variants (with or without the guard),
`getFetch t ; getTest t` run back to back (no step of another thread in between) is exactly the
atomic `get t`. -/
theorem ConcG_split_uninterrupted (guard guard' : Bool) (ttl : Option Nat) (s : State) (t : Tid)
    (hfree : AL.get? s.held t = none) :
    runEvs { split := true, guard := guard, ttl := ttl } s [.getFetch t, .getTest t]
      = step { split := false, guard := guard', ttl := ttl } s (.get t) := by
  simp only [runEvs, step, hfree, if_true, AL.get?_put_self, AL.erase_put_of_none _ hfree,
    Bool.false_eq_true, if_false]

end Props
end MiniMoka

#print axioms MiniMoka.Props.ConcG_get_fresh_cfg
#print axioms MiniMoka.Props.ConcG_get_fresh
#print axioms MiniMoka.Props.ConcG_get_fresh_guarded
#print axioms MiniMoka.Props.ConcG_held_current
#print axioms MiniMoka.Props.ConcG_counterexample_split
#print axioms MiniMoka.Props.ConcG_get_returns
#print axioms MiniMoka.Props.ConcG_split_violates
#print axioms MiniMoka.Props.ConcG_split_uninterrupted
