/-
  C03 part B on traces of the single-threaded cache, and the whole C03 oracle.
  Property theorems only; lemmas live in `Lemmas/UnsyncCapacity.lean` (`insert_checkFits`,
  `fitsC03_run`) and `Lemmas/UnsyncNoLoss.lean`.
-/
import MiniMoka.Props.C03A
import MiniMoka.Props.C14Trace

namespace MiniMoka
namespace Props

open Unsync

/-- C03 part B, the trace oracle: for every configuration with `max_capacity = c` and every
history, on every `snapshot, [freq,] insert(k, v), snapshot` window of the trace: if `k` is not
resident and its weight fits beside the residents (`Σ weights + w(k, v) ≤ c`), then afterwards
`(k, v)` is resident and so is every former resident that is unexpired at that clock reading
(the purge at the start of `insert` removes only expired entries, and nothing is evicted for
size).  No guard for `ttl = 0` / `tti = 0` is needed: the call never looks at the expiry of the
entry it inserts, so it is in the map at the closing snapshot. -/
theorem C03B_unsync_trace (p : Params) (hq : NoQuirks p) (hsm : SmallSketch p) (c : Nat)
    (hcap : p.cap = some c) (h : List Op) :
    Spec.fitsC03 c p.ttl p.tti p.weigh (Unsync.trace p h) = true :=
  fitsC03_run sketchLaws hq hsm hcap h.length h (Nat.le_refl _) {} {}
    (init_inv sketchLaws p) (init_coupled p)

/-- C03 on the single-threaded cache, the whole oracle (part A: exactly a map with expiry
while the capacity is not reached; part B: an insert that fits loses nothing), for every
configuration and every history. -/
theorem C03_unsync_oracle (p : Params) (hq : NoQuirks p) (hsm : SmallSketch p) (h : List Op) :
    Spec.oracleC03 .unsync p.cap p.ttl p.tti p.weigh (Unsync.trace p h) = true := by
  unfold Spec.oracleC03
  rw [Bool.and_eq_true]
  refine ⟨C03A_unsync_oracle p hq hsm h, ?_⟩
  cases hcap : p.cap with
  | none => rfl
  | some c => exact C03B_unsync_trace p hq hsm c hcap h

/-- What the driver judges: the oracle on the trace without the hook reads `freq k`. -/
theorem C03_unsync_oracle_noFreq (p : Params) (hq : NoQuirks p) (hsm : SmallSketch p)
    (h : List Op) :
    Spec.oracleC03 .unsync p.cap p.ttl p.tti p.weigh (Spec.noFreq (Unsync.trace p h)) = true := by
  rw [noFreq_unsync_trace]; exact C03_unsync_oracle p hq hsm _

/-! ### non-vacuity -/

/-- A model history with both kinds of window (with and without the `freq` read), inserts that
fit, an insert that does not (key 4: admission, the clause does not apply), residents that expire
before an insert (exempted) and an update. -/
example : Spec.fitsC03 3 (some 5) none (fun _ _ => 1) (Unsync.trace
    { cap := some 3, ttl := some 5 }
    [.snap, .ins 1 10, .snap, .freq 2, .ins 2 20, .snap, .adv 2, .ins 3 30, .snap, .ins 4 40, .snap,
     .adv 3, .snap, .ins 5 50, .snap, .ins 5 51, .snap, .inv 5, .snap, .ins 6 60, .snap]) = true := by
  decide +kernel

/-- In that history the windows are not trivially satisfied: the second insert really finds one
resident, keeps it and adds its own entry. -/
example : (Unsync.trace { cap := some 3, ttl := some 5 }
    [.snap, .ins 1 10, .snap, .freq 2, .ins 2 20, .snap]).map
      (fun oo => match oo.2 with
        | .snap sn => Spec.residentKeys sn
        | _ => []) = [[], [], [(1, 10)], [], [], [(1, 10), (2, 20)]] := by
  decide +kernel

/-- The corner `ttl = 0`: the fresh entry is expired the moment it is inserted, but it is in the
map at the closing snapshot, as the oracle (which has no "lives" guard here) demands. -/
example : Spec.oracleC03 .unsync (some 3) (some 0) none (fun _ _ => 1) (Unsync.trace
    { cap := some 3, ttl := some 0 }
    [.snap, .ins 1 10, .snap, .ins 2 20, .snap, .get 1, .snap, .ins 3 30, .snap]) = true := by
  decide +kernel

/-- The whole oracle on a history with a weigher, tti and hits. -/
example : Spec.oracleC03 .unsync (some 6) none (some 4) (fun _ v => v % 4) (Unsync.trace
    { cap := some 6, tti := some 4, hasWeigher := true, w := fun _ v => v % 4 }
    [.snap, .ins 1 1, .snap, .ins 2 2, .snap, .adv 3, .get 1, .snap, .freq 3, .ins 3 3, .snap,
     .adv 2, .snap, .ins 4 1, .snap, .iter]) = true := by
  decide +kernel

/-- The oracle is not vacuous: it rejects a trace in which an insert that fits is not retained,
and one in which such an insert costs an unexpired resident. -/
example :
    let sn0 : Snap := { ec := 0, ws := 0, entries := [], prob := [], wo := [], skOn := false,
                        skSize := 0, skSample := 0, skLen := 0, skCrc := 0, freqs := [] }
    let ev (k v : Nat) : EntryView :=
      { key := k, val := v, weight := 1, la := none, lm := none, aoOk := true, woOk := true }
    let sn1 : Snap := { sn0 with ec := 1, ws := 1, entries := [ev 1 10] }
    let sn2 : Snap := { sn0 with ec := 1, ws := 1, entries := [ev 2 20] }
    Spec.fitsC03 3 none none (fun _ _ => 1)
      [(.snap, .snap sn0), (.ins 1 10, .ok), (.snap, .snap sn0)] = false ∧
    Spec.fitsC03 3 none none (fun _ _ => 1)
      [(.snap, .snap sn1), (.freq 2, .freq 0), (.ins 2 20, .ok), (.snap, .snap sn2)] = false ∧
    Spec.fitsC03 3 none none (fun _ _ => 1)
      [(.snap, .snap sn0), (.ins 1 10, .ok), (.snap, .snap sn1)] = true := by
  decide +kernel

end Props
end MiniMoka

#print axioms MiniMoka.Props.C03B_unsync_trace
#print axioms MiniMoka.Props.C03_unsync_oracle
#print axioms MiniMoka.Props.C03_unsync_oracle_noFreq
