/-
  C03 part B on the concurrent cache with the room computed from what the residents weigh
  (`Spec.fitsC03SyncW`, `Spec/OraclesC03W.lean`).

  `fitsC03SyncW` is `fitsC03Sync` with `snapWeightW w before` (the configured weigher applied to
  the residents) in the place of `snapWeight before` (the stored weights). Both use that number
  only when `before` has empty queues, and `before` always directly follows a `sync`; for exactly
  those snapshots `oracleC10 .sync` demands `ws = Σ stored weights = Σ w key val`. So on every
  trace that passes the C10 oracle the two forms agree (`fitsC03SyncW_of_C10`), and `C03B_sync`
  carries over to the model traces through `C10_sync` (`C03B_sync_W`).
-/
import MiniMoka.Spec.OraclesC03W
import MiniMoka.Props.C03BSync
import MiniMoka.Props.C10Sync
import MiniMoka.Props.NoFreq

namespace MiniMoka
namespace Props

open Spec

theorem oracleC10_go_snap_cons (w : Nat → Nat → Nat) (o : Obs) (rest : Trace) :
    oracleC10.go w ((Op.snap, o) :: rest) = oracleC10.go w rest := by
  rw [oracleC10.go]
  intro o' sn rest' h
  cases h

theorem oracleC10_go_tail (w : Nat → Nat → Nat) (x : Op × Obs) (rest : Trace)
    (h : oracleC10.go w (x :: rest) = true) : oracleC10.go w rest = true := by
  generalize hx : x :: rest = t at h
  revert h
  fun_cases oracleC10.go w t with
  | case1 o sn rest' =>
    cases hx
    intro h
    rw [oracleC10_go_snap_cons]
    rw [Bool.and_eq_true] at h
    exact h.2
  | case2 y rest' hne =>
    cases hx
    exact id
  | case3 => cases hx

theorem snapWeightW_eq (w : Nat → Nat → Nat) (sn : Snap) (h : snapCountersOk w sn = true) :
    snapWeightW w sn = snapWeight sn := by
  unfold snapCountersOk at h
  simp only [Bool.and_eq_true, beq_iff_eq] at h
  unfold snapWeightW snapWeight
  rw [← h.2, ← h.1.2]

theorem fitsC03SyncW_of_go (cap : Nat) (ttl tti : Option Nat) (w : Nat → Nat → Nat) (t : Trace)
    (h10 : oracleC10.go w t = true) (hB : fitsC03Sync cap ttl tti w t = true) :
    fitsC03SyncW cap ttl tti w t = true := by
  fun_induction fitsC03Sync cap ttl tti w t with
  | case1 => rfl
  | case2 before rest ih =>
    rw [fitsC03SyncW]
    rw [Bool.and_eq_true] at hB ⊢
    rw [oracleC10.go, Bool.and_eq_true] at h10
    refine ⟨?_, ih (by rw [oracleC10_go_snap_cons]; exact h10.2) hB.2⟩
    have hB1 := hB.1
    by_cases hq : (before.rq == 0 && before.wq == 0) = true
    · have := h10.1
      rw [if_pos hq] at this
      rw [snapWeightW_eq w before this]
      exact hB1
    · rw [Bool.not_eq_true] at hq
      split <;> simp [hq]
  | case3 x rest hne ih =>
    rw [fitsC03SyncW]
    · exact ih (oracleC10_go_tail w _ _ h10) hB
    · intro b r h; exact hne b r h

/-- On any trace on which the C10 oracle holds, the two forms of part B agree. -/
theorem fitsC03SyncW_of_C10 (cap : Nat) (ttl tti : Option Nat) (w : Nat → Nat → Nat) (t : Trace)
    (h10 : oracleC10 .sync w t = true) (hB : fitsC03Sync cap ttl tti w t = true) :
    fitsC03SyncW cap ttl tti w t = true :=
  fitsC03SyncW_of_go cap ttl tti w t h10 hB

/-- C03 part B on the concurrent cache driven by one thread, with the room the residents leave
computed by the configured weigher. -/
theorem C03B_sync_W (p : Params) (hq : Sync.NoQuirks p) (hsm : SmallSketch p) (c : Nat)
    (hcap : p.cap = some c) (h : List Op) :
    fitsC03SyncW c p.ttl p.tti p.weigh (Sync.trace p h) = true :=
  fitsC03SyncW_of_C10 _ _ _ _ _ (C10_sync p hq hsm h) (C03B_sync p hq hsm c hcap h)

/-- The variant is stronger where the stored weights are wrong: key 1 holds value 2 (weight 2 by
the weigher `fun _ v => v`) but is accounted with weight 7; capacity 8; the fresh key 5 with
value 2 fits beside the real resident (2 + 2 ≤ 8) and is missing after the next `sync`.
`fitsC03Sync` trusts the stored weight (7 + 2 > 8, "does not fit") and accepts; `fitsC03SyncW`
rejects; the C10 oracle rejects the trace as well (which is why the two may differ here). -/
example :
    let e : EntryView :=
      { key := 1, val := 2, weight := 7, la := none, lm := none, aoOk := true, woOk := true }
    let sn : Snap := { ec := 1, ws := 7, entries := [e], prob := [], wo := [], skOn := false,
                       skSize := 0, skSample := 0, skLen := 0, skCrc := 0, freqs := [] }
    let t : Trace := [(.sync, .ok), (.snap, .snap sn), (.ins 5 2, .ok), (.sync, .ok), (.snap, .snap sn)]
    fitsC03Sync 8 none none (fun _ v => v) t = true ∧
      fitsC03SyncW 8 none none (fun _ v => v) t = false ∧
      oracleC10 .sync (fun _ v => v) t = false := by
  decide

/-- The form the driver evaluates: on the trace without the hook reads `freq k`. -/
theorem C03B_sync_W_noFreq (p : Params) (hq : Sync.NoQuirks p) (hsm : SmallSketch p) (c : Nat)
    (hcap : p.cap = some c) (h : List Op) :
    Spec.fitsC03SyncW c p.ttl p.tti p.weigh (Spec.noFreq (Sync.trace p h)) = true := by
  rw [noFreq_sync_trace]; exact C03B_sync_W p hq hsm c hcap _

end Props
end MiniMoka

#print axioms MiniMoka.Props.fitsC03SyncW_of_C10
#print axioms MiniMoka.Props.C03B_sync_W
#print axioms MiniMoka.Props.C03B_sync_W_noFreq
