/-
  C14 (popularity estimator), bit level: the word-level model `MiniMoka/SketchBitsModel.lean`
  — machine words, every bit manipulation done by the functions generated from the Rust text
  (`Gen/Logic/SketchBits.lean`) — refines the arithmetic model `MiniMoka/Sketch.lean`, for
  every state, every hash, every 64-bit word; faults correspond.

  With this, "the code's bit tricks (`>> ((start+i) << 2) & 0xF`, `w & mask != mask`,
  `+= 1 << offset`, `(w & ONE_MASK).count_ones()`, `(w >> 1) & RESET_MASK`) mean what the
  arithmetic model says" is a theorem (`Lemmas/Agree/SketchBits.lean`), not an assumption, and
  every C14 / C08 statement about `Sketch` transfers to the word-level model through `abs`.
-/
import MiniMoka.SketchBitsModel
import MiniMoka.Lemmas.Sketch
import MiniMoka.Lemmas.Agree.SketchArith
import MiniMoka.Lemmas.Agree.SketchBits

namespace MiniMoka
namespace Props

open Gen.Logic SketchW

/-! ## The abstraction -/

theorem abs_sampleSize (s : SketchW) : (abs s).sampleSize = s.sampleSize := rfl
theorem abs_mask (s : SketchW) : (abs s).mask = s.mask := rfl
theorem abs_table (s : SketchW) : (abs s).table = s.table.map UInt64.toNat := rfl
theorem abs_size (s : SketchW) : (abs s).size = s.size := rfl

theorem abs_mk (a b : Nat) (c : Array UInt64) (d : Nat) :
    abs (SketchW.mk a b c d) = Sketch.mk a b (c.map UInt64.toNat) d := rfl

theorem abs_eta (s : SketchW) :
    abs s = Sketch.mk s.sampleSize s.mask (s.table.map UInt64.toNat) s.size := rfl

theorem abs_table_size (s : SketchW) : (abs s).table.size = s.table.size := by
  rw [abs_table, Array.size_map]

theorem getD_map_toNat (t : Array UInt64) (i : Nat) :
    (t.map UInt64.toNat).getD i 0 = (t.getD i 0).toNat := by
  simp only [Array.getD_eq_getD_getElem?, Array.getElem?_map]
  cases t[i]? <;> rfl

theorem indexOfW_eq (s : SketchW) (hash : UInt64) (i : Nat) :
    indexOfW s hash i = Sketch.indexOf (abs s) hash i := rfl

theorem startW_toNat (hash : UInt64) : (startW hash).toNat = Sketch.start hash := by
  unfold startW Sketch.start
  rw [UInt64.toNat_shiftLeft, UInt64.toNat_and]
  have h2 : (2 : UInt64).toNat % 64 = 2 := by decide
  have h3 : (3 : UInt64).toNat = 2 ^ 2 - 1 := by decide
  rw [h2, h3, Nat.and_two_pow_sub_one_eq_mod, Nat.shiftLeft_eq]
  omega

theorem toUInt64_toNat_of_lt4 (i : Nat) (hi : i < 4) : i.toUInt64.toNat = i := by
  have : i = 0 ∨ i = 1 ∨ i = 2 ∨ i = 3 := by omega
  rcases this with rfl | rfl | rfl | rfl <;> decide

theorem startW_add_toNat (hash : UInt64) (i : Nat) (hi : i < 4) :
    (startW hash + i.toUInt64).toNat = Sketch.start hash + i := by
  have := Sketch.start_le hash
  rw [UInt64.toNat_add, startW_toNat, toUInt64_toNat_of_lt4 i hi]
  omega

/-! ## `frequency` -/

theorem counter_refines (s : SketchW) (hash : UInt64) (i : Nat) (hi : i < 4) :
    (counter_of_word (s.table.getD (indexOfW s hash i) 0) (startW hash) i.toUInt64).toNat
      = Sketch.counterAt (abs s) hash i := by
  have hs := Sketch.start_le hash
  have e1 := startW_toNat hash
  have e2 := toUInt64_toNat_of_lt4 i hi
  rw [Agree.counter_of_word_agrees _ _ _ (by rw [e1, e2]; omega), e1, e2, indexOfW_eq]
  unfold Sketch.counterAt
  rw [abs_table, getD_map_toNat]

/-- The loop of `frequency`, unrolled (`u8::MAX = 255`); abstract counters, so that nothing is
unfolded while matching. -/
theorem foldl_min4 (c : Nat → Nat) :
    [0, 1, 2, 3].foldl (fun (fr : Nat) (i : Nat) => min fr (c i)) 255
      = min (min (min (min 255 (c 0)) (c 1)) (c 2)) (c 3) := rfl

theorem frequencyW_eq (s : SketchW) (h : UInt64) (hne : ¬ s.table.size = 0) :
    frequencyW s h =
      (fun (f : Nat → Nat) => min (min (min (min 255 (f 0)) (f 1)) (f 2)) (f 3))
        (fun i => (counter_of_word (s.table.getD (indexOfW s h i) 0) (startW h)
          i.toUInt64).toNat) := by
  unfold frequencyW
  rw [if_neg hne]
  exact foldl_min4 _

theorem min4_congr (f g : Nat → Nat) (hfg : ∀ i, i < 4 → f i = g i) :
    min (min (min (min 255 (f 0)) (f 1)) (f 2)) (f 3)
      = min (min (min (min 255 (g 0)) (g 1)) (g 2)) (g 3) := by
  rw [hfg 0 (by omega), hfg 1 (by omega), hfg 2 (by omega), hfg 3 (by omega)]

theorem min4_eq (g : Nat → Nat) (hg : ∀ i, g i ≤ 15) :
    min (min (min (min 255 (g 0)) (g 1)) (g 2)) (g 3)
      = min (min (g 0) (g 1)) (min (g 2) (g 3)) := by
  have h0 := hg 0; have h1 := hg 1; have h2 := hg 2; have h3 := hg 3
  omega

theorem SketchW_frequency_refines (s : SketchW) (h : UInt64) :
    frequencyW s h = Sketch.frequency (abs s) h := by
  by_cases hne : s.table.size = 0
  · unfold frequencyW Sketch.frequency
    rw [if_pos hne, if_pos (by rw [abs_table_size]; exact hne)]
  · rw [Sketch.frequency_eq _ _ (by rw [abs_table_size]; exact hne), frequencyW_eq s h hne]
    exact (min4_congr _ (fun i => Sketch.counterAt (abs s) h i)
      (fun i hi => counter_refines s h i hi)).trans
      (min4_eq _ (fun i => Sketch.counterAt_le (abs s) h i))

#print axioms SketchW_frequency_refines

/-! ## `increment_at` and the loop of `increment` -/

theorem incrementAtW_refines (t : Array UInt64) (idx : Nat) (c : UInt64) (j : Nat)
    (hc : c.toNat = j) (hj : j < 16) :
    Sketch.incrementAt (t.map UInt64.toNat) idx j
      = ((incrementAtW t idx c).1.map UInt64.toNat, (incrementAtW t idx c).2) := by
  subst hc
  have hroom := Agree.inc_room_agrees (t.getD idx 0) c hj
  by_cases h : Sketch.nib (t.getD idx 0).toNat c.toNat = 15
  · have e : incrementAtW t idx c = (t, false) := by
      unfold incrementAtW
      simp only []
      rw [hroom, if_neg (by rw [decide_eq_true_eq]; exact fun hh => hh h)]
    rw [e, Sketch.incrementAt_neg _ _ _ (by rw [getD_map_toNat]; exact h)]
  · have e : incrementAtW t idx c
        = (t.setIfInBounds idx (t.getD idx 0 + inc_delta (inc_offset c)), true) := by
      unfold incrementAtW
      simp only []
      rw [hroom, if_pos (by rw [decide_eq_true_eq]; exact h)]
    rw [e, Sketch.incrementAt_pos _ _ _ (by rw [getD_map_toNat]; exact h), getD_map_toNat,
      Array.map_setIfInBounds, Agree.inc_delta_agrees _ _ hj h]

/-- The loop of `increment` against the projection-style `bumpTableGen`, for abstract
`increment_at` functions (so that nothing is unfolded while matching). -/
theorem loop_refines_gen (incW : Array UInt64 → Nat → UInt64 → Array UInt64 × Bool)
    (inc : Array Nat → Nat → Nat → Array Nat × Bool) (idxW idx : Nat → Nat) (cs : Nat → UInt64)
    (st : Nat) (t : Array UInt64)
    (hidx : ∀ i, idxW i = idx i)
    (hinc : ∀ (t : Array UInt64) (i : Nat), i < 4 →
      inc (t.map UInt64.toNat) (idx i) (st + i)
        = ((incW t (idx i) (cs i)).1.map UInt64.toNat, (incW t (idx i) (cs i)).2)) :
    Sketch.bumpTableGen inc idx st (t.map UInt64.toNat)
      = (([0, 1, 2, 3].foldl (fun (acc : Array UInt64 × Bool) (i : Nat) =>
            let index := idxW i
            let r := incW acc.1 index (cs i)
            (r.1, acc.2 || r.2)) (t, false)).1.map UInt64.toNat,
         ([0, 1, 2, 3].foldl (fun (acc : Array UInt64 × Bool) (i : Nat) =>
            let index := idxW i
            let r := incW acc.1 index (cs i)
            (r.1, acc.2 || r.2)) (t, false)).2) := by
  unfold Sketch.bumpTableGen
  simp only [List.foldl, Bool.false_or, hidx]
  rw [hinc t 0 (by omega)]
  simp only []
  rw [hinc _ 1 (by omega)]
  simp only []
  rw [hinc _ 2 (by omega)]
  simp only []
  rw [hinc _ 3 (by omega)]

theorem incrementLoopW_refines (s : SketchW) (hash : UInt64) :
    Sketch.bumpTable (abs s) hash
      = ((incrementLoopW s hash).1.map UInt64.toNat, (incrementLoopW s hash).2) := by
  have hs := Sketch.start_le hash
  exact loop_refines_gen incrementAtW Sketch.incrementAt (indexOfW s hash)
    (Sketch.indexOf (abs s) hash) (fun i => startW hash + i.toUInt64) (Sketch.start hash) s.table
    (fun i => indexOfW_eq s hash i)
    (fun t i hi => incrementAtW_refines t _ _ _ (startW_add_toNat hash i hi) (by omega))

/-! ## `reset` -/

theorem resetLoop_fst (l : List UInt64) (c : Nat) (acc : Array UInt64) :
    (l.foldl (fun (acc : Nat × Array UInt64) (entry : UInt64) =>
        (acc.1 + odd_counters entry, acc.2.push (halved_word entry))) (c, acc)).1
      = l.foldl (fun c w => c + odd_counters w) c := by
  induction l generalizing c acc with
  | nil => rfl
  | cons x xs ih => simp only [List.foldl]; exact ih _ _

/-- The loop of `reset` counts the odd counters of the whole table … -/
theorem resetLoopW_count (t : Array UInt64) :
    (resetLoopW t).1 = (t.map UInt64.toNat).foldl (fun c w => c + Sketch.oddCount w) 0 := by
  unfold resetLoopW
  rw [← Array.foldl_toList, resetLoop_fst, ← Array.foldl_toList, Array.toList_map,
    List.foldl_map]
  simp only [Agree.odd_counters_agrees]

theorem map_toNat_map (f : UInt64 → UInt64) (g : Nat → Nat)
    (hfg : ∀ w, (f w).toNat = g w.toNat) (t : Array UInt64) :
    (t.map f).map UInt64.toNat = (t.map UInt64.toNat).map g := by
  rw [Array.map_map, Array.map_map]
  congr 1
  funext w
  exact hfg w

theorem resetLoop_snd_gen (f : UInt64 → UInt64) (k : UInt64 → Nat) (t : Array UInt64) :
    (t.foldl (fun (acc : Nat × Array UInt64) (entry : UInt64) =>
        (acc.1 + k entry, acc.2.push (f entry))) (0, #[])).2 = t.map f := by
  apply Array.toList_inj.1
  rw [← Array.foldl_toList]
  have : ∀ (l : List UInt64) (c : Nat) (acc : Array UInt64),
      (l.foldl (fun (acc : Nat × Array UInt64) (entry : UInt64) =>
        (acc.1 + k entry, acc.2.push (f entry))) (c, acc)).2.toList = acc.toList ++ l.map f := by
    intro l
    induction l with
    | nil => intro c acc; simp
    | cons x xs ih => intro c acc; simp only [List.foldl]; rw [ih]; simp
  rw [this]
  simp

/-- … and floor-halves every counter of every word. -/
theorem resetLoopW_table (t : Array UInt64) :
    (resetLoopW t).2.map UInt64.toNat = (t.map UInt64.toNat).map Sketch.halveWord := by
  unfold resetLoopW
  rw [resetLoop_snd_gen halved_word odd_counters t]
  exact map_toNat_map halved_word Sketch.halveWord Agree.halved_word_agrees t

theorem reset_false_mk (a b : Nat) (t : Array Nat) (d count : Nat) (tbl : Array Nat)
    (hc : t.foldl (fun c w => c + Sketch.oddCount w) 0 = count)
    (ht : t.map Sketch.halveWord = tbl) :
    Sketch.reset false (Sketch.mk a b t d) =
      if count > U32_MAX then .error .overflow
      else if d < count / 4 then .error .overflow
      else .ok (Sketch.mk a b tbl ((d - count / 4) / 2)) := by
  subst hc ht
  rfl

theorem resetW_refines (s : SketchW) : (resetW s).map abs = Sketch.reset false (abs s) := by
  rw [abs_eta s, reset_false_mk _ _ _ _ (resetLoopW s.table).1
    ((resetLoopW s.table).2.map UInt64.toNat) (resetLoopW_count s.table).symm
    (resetLoopW_table s.table).symm]
  unfold resetW
  generalize resetLoopW s.table = r
  by_cases h1 : r.1 > U32_MAX
  · rw [if_pos h1, if_pos h1]; rfl
  · rw [if_neg h1, if_neg h1]
    by_cases h2 : s.size < r.1 / 4
    · rw [if_pos h2, if_pos h2]; rfl
    · rw [if_neg h2, if_neg h2, ← Agree.reset_size_agrees]; rfl

/-! ## `increment` -/

/-- `bump` on an explicit record with abstract fields (nothing for the kernel to unfold). -/
theorem bump_mk (a b : Nat) (t : Array Nat) (d : Nat) (hash : UInt64) (x : Array Nat) (y : Bool)
    (hb : Sketch.bumpTable (Sketch.mk a b t d) hash = (x, y)) :
    Sketch.bump (Sketch.mk a b t d) hash = Sketch.mk a b x (if y = true then d + 1 else d) := by
  unfold Sketch.bump
  rw [hb]

theorem SketchW_increment_refines (s : SketchW) (h : UInt64) :
    (incrementW s h).map abs = Sketch.increment false (abs s) h := by
  rw [Sketch.increment_eq_bump]
  unfold incrementW
  simp only []
  have hb := incrementLoopW_refines s h
  generalize incrementLoopW s h = r at hb ⊢
  have hb2 : (Sketch.bumpTable (abs s) h).2 = r.2 := by rw [hb]
  by_cases hne : s.table.size = 0
  · have hne' : (abs s).table.size = 0 := by rw [abs_table_size]; exact hne
    rw [if_pos hne, if_pos hne']
    rfl
  · have hne' : ¬ (abs s).table.size = 0 := by rw [abs_table_size]; exact hne
    rw [if_neg hne, if_neg hne', hb2]
    by_cases ha : r.2 = true
    · have hbump : Sketch.bump (abs s) h
          = abs (SketchW.mk s.sampleSize s.mask r.1 (s.size + 1)) := by
        rw [abs_eta s] at hb
        rw [abs_eta s, abs_mk, bump_mk _ _ _ _ h _ _ hb, if_pos ha]
      rw [if_pos ha, if_pos ha, abs_size, abs_sampleSize, hbump]
      by_cases hov : s.size + 1 > U32_MAX
      · rw [if_pos hov, if_pos hov]; rfl
      · rw [if_neg hov, if_neg hov]
        by_cases hage : s.size + 1 ≥ s.sampleSize
        · have hage' : age_now (s.size + 1) s.sampleSize = true := by
            unfold age_now; exact decide_eq_true hage
          rw [if_pos hage, if_pos hage']
          exact resetW_refines _
        · have hage' : ¬ age_now (s.size + 1) s.sampleSize = true := by
            unfold age_now; rw [decide_eq_true_eq]; exact hage
          rw [if_neg hage, if_neg hage']
          rfl
    · have hbump : Sketch.bump (abs s) h
          = abs (SketchW.mk s.sampleSize s.mask r.1 s.size) := by
        rw [abs_eta s] at hb
        rw [abs_eta s, abs_mk, bump_mk _ _ _ _ h _ _ hb, if_neg ha]
      rw [if_neg ha, if_neg ha, hbump]
      rfl

#print axioms SketchW_increment_refines

/-! ## `ensure_capacity` -/

theorem SketchW_ensureCapacity_refines (s : SketchW) (cap : Nat) :
    abs (ensureCapacityW s cap) = Sketch.ensureCapacity (abs s) cap := by
  have hsample : sample_size cap (min cap (2 ^ Gen.SKETCH_MAX_TABLE_POW))
      = if cap = 0 then Gen.SKETCH_ZERO_CAP_SAMPLE
        else min (min (min cap (2 ^ Gen.SKETCH_MAX_TABLE_POW) * Gen.SKETCH_SAMPLE_FACTOR)
          U32_MAX) 2147483647 := by
    unfold sample_size
    by_cases hc : cap = 0 <;>
      simp [hc, Gen.SKETCH_ZERO_CAP_SAMPLE, Gen.SKETCH_SAMPLE_FACTOR, U32_MAX]
  have htable : table_size (min cap (2 ^ Gen.SKETCH_MAX_TABLE_POW)) = Sketch.tableSizeFor cap := by
    unfold table_size Sketch.tableSizeFor
    simp only [decide_eq_true_eq]
  rw [Sketch.ensureCapacity_eq]
  unfold ensureCapacityW
  simp only [htable, hsample, abs_table_size]
  split
  · rfl
  · rw [abs_mk, Array.map_replicate]
    rfl

#print axioms SketchW_ensureCapacity_refines

/-! ## Runs -/

/-- From related states, recording any sequence of hashes keeps the two models related; they
fault together (`Except.map` keeps the fault). -/
theorem SketchW_runFrom_refines (s : SketchW) (hs : List UInt64) :
    (runW s hs).map abs = hs.foldlM (Sketch.increment false) (abs s) := by
  unfold runW
  induction hs generalizing s with
  | nil => rfl
  | cons h hs ih =>
    rw [List.foldlM_cons, List.foldlM_cons, ← SketchW_increment_refines]
    cases incrementW s h with
    | error e => rfl
    | ok s' => exact ih s'

theorem abs_default : abs ({} : SketchW) = ({} : Sketch) := by
  show Sketch.mk 0 0 (Array.map UInt64.toNat #[]) 0 = Sketch.mk 0 0 #[] 0
  rw [Array.map_empty]

theorem abs_initW (cap : Nat) : abs (ensureCapacityW {} cap) = Sketch.init cap := by
  rw [SketchW_ensureCapacity_refines, abs_default]; rfl

/-- Runs from the initial state: folding `incrementW` from `ensureCapacityW {} cap` and folding
`Sketch.increment false` from `Sketch.ensureCapacity {} cap` stay related by `abs`, and fault
together. -/
theorem SketchW_run_refines (cap : Nat) (hs : List UInt64) :
    (hs.foldlM incrementW (ensureCapacityW {} cap)).map abs
      = hs.foldlM (Sketch.increment false) (Sketch.ensureCapacity {} cap) := by
  have := SketchW_runFrom_refines (ensureCapacityW {} cap) hs
  rw [abs_initW] at this
  exact this

#print axioms SketchW_run_refines

/-- The same with `Sketch.run` / `Sketch.init`, the vocabulary of `Props/C14.lean`. -/
theorem SketchW_run_refines' (cap : Nat) (hs : List UInt64) :
    (runW (ensureCapacityW {} cap) hs).map abs = Sketch.run (Sketch.init cap) hs := by
  rw [Sketch.run_eq_foldlM]
  exact SketchW_run_refines cap hs

/-- A successful word-level run is a successful arithmetic run to the abstracted state, and every
frequency the word-level model reports is the arithmetic model's. -/
theorem SketchW_run_frequency (cap : Nat) (hs : List UInt64) {sW : SketchW}
    (hrun : runW (ensureCapacityW {} cap) hs = .ok sW) :
    Sketch.run (Sketch.init cap) hs = .ok (abs sW) ∧
    ∀ h, frequencyW sW h = Sketch.frequency (abs sW) h := by
  refine ⟨?_, fun h => SketchW_frequency_refines sW h⟩
  rw [← SketchW_run_refines', hrun]
  rfl

/-- Conversely, the arithmetic run determines the word-level run: a fault is the same fault, and
a final state is the abstraction of the word-level final state. -/
theorem SketchW_run_complete (cap : Nat) (hs : List UInt64) :
    (∀ e, Sketch.run (Sketch.init cap) hs = .error e →
      runW (ensureCapacityW {} cap) hs = .error e) ∧
    (∀ s, Sketch.run (Sketch.init cap) hs = .ok s →
      ∃ sW, runW (ensureCapacityW {} cap) hs = .ok sW ∧ abs sW = s ∧
        ∀ h, frequencyW sW h = Sketch.frequency s h) := by
  rw [← SketchW_run_refines']
  cases runW (ensureCapacityW {} cap) hs with
  | error e' =>
    refine ⟨fun e he => ?_, fun s hs' => ?_⟩
    · cases he; rfl
    · cases hs'
  | ok sW =>
    refine ⟨fun e he => ?_, fun s hs' => ?_⟩
    · cases he
    · cases hs'
      exact ⟨sW, rfl, rfl, fun h => SketchW_frequency_refines sW h⟩

#print axioms SketchW_run_frequency
#print axioms SketchW_run_complete

/-! ## Non-vacuity: the generated bit tricks on concrete words -/

example : halved_word 0xFEDCBA9876543210 = 0x7766554433221100 := by decide +kernel
example : Sketch.halveWord 0xFEDCBA9876543210 = 0x7766554433221100 := by decide +kernel
example : halved_word 0xFFFFFFFFFFFFFFFF = 0x7777777777777777 := by decide +kernel
example : odd_counters 0xFEDCBA9876543210 = 8 := by decide +kernel
example : odd_counters 0xFFFFFFFFFFFFFFFF = 16 := by decide +kernel
/-- Counter 15 of `0xFEDC…` is saturated, counter 14 is not. -/
example : inc_room 0xFEDCBA9876543210 (inc_mask (inc_offset 15)) = false := by decide +kernel
example : inc_room 0xFEDCBA9876543210 (inc_mask (inc_offset 14)) = true := by decide +kernel
example : 0xFEDCBA9876543210 + inc_delta (inc_offset 14) = 0xFFDCBA9876543210 := by decide +kernel
example : counter_of_word 0xFEDCBA9876543210 8 3 = 11 := by decide +kernel

end Props
end MiniMoka
