/-
  C03, the clause about threads: "for the concurrent cache, after every explored multi-threaded
  phase has quiesced, a sequential refill of max_capacity fresh unit-weight keys must be fully
  retained" — for ALL interleavings of any number of threads, at the granularity of
  `MiniMoka/ConcS.lean` (per-key map step / atomic maintenance run / enqueue).
  Property theorems only; lemmas live in `Lemmas/ConcSRefill.lean`.
-/
import MiniMoka.Lemmas.ConcSRefill
import MiniMoka.Props.ConcS
import MiniMoka.Props.C03BSync

namespace MiniMoka
namespace Props

open Sync Sync.Nodes Sync.Counters ConcS

/-- C03 part B after ANY many-thread phase: from every state reachable by any interleaving of
any number of threads in which no thread holds an operation (both queues may still be non-empty,
and as long as the channels allow), every continuation by a single thread satisfies the C03
part-B oracle. -/
theorem ConcS_C03B_after_any_phase (p : Params) (hq : Sync.NoQuirks p) (hsm : SmallSketch p)
    (c : Nat) (hcap : p.cap = some c) (cs : ConcS.CState) (hr : ConcS.Reach p cs)
    (hp : cs.pending = []) (h : List Op) :
    Spec.fitsC03Sync c p.ttl p.tti p.weigh (Sync.run p cs.s h) = true := by
  have hr' : Reach p ⟨cs.s, []⟩ := by
    rw [← hp]; exact hr
  exact fitsC03Sync_run_reach hq hsm hcap h cs.s hr'

/-- The bridge used above, stated on its own: the watermark of `invalidate_all` never lies in the
future in any reachable state of the many-thread system. -/
theorem ConcS_valid_after_le_now (p : Params) (hq : Sync.NoQuirks p) (cs : ConcS.CState)
    (hr : ConcS.Reach p cs) : ∀ v, cs.s.va = some v → v ≤ cs.s.now :=
  reach_vaLe hq hr

/-- … and every one-thread continuation of a reachable state with nothing held stays among the
reachable states (without the one-thread queue bound `QInv`). -/
theorem ConcS_reach_continuation (p : Params) (hq : Sync.NoQuirks p) (hsm : SmallSketch p)
    (cs : ConcS.CState) (hr : ConcS.Reach p cs) (hp : cs.pending = []) (h : List Op) :
    ConcS.Reach p ⟨Sync.stateAfter p cs.s h, []⟩ := by
  have hr' : Reach p ⟨cs.s, []⟩ := by
    rw [← hp]; exact hr
  exact reach_stateAfter hq hsm h hr'

/-! ### the refill -/

/-- The operations of the refill: (a) invalidate every key the map holds and `sync`, then
(b) `insert(k, 1); sync()` for every fresh key. -/
def refillOps (s : SState) (fresh : List Nat) : List Op :=
  (s.map.map (fun kv => Op.inv kv.1)) ++ [Op.sync] ++
    fresh.flatMap (fun k => [Op.ins k 1, Op.sync])

/-- C03, the clause about threads, for ALL interleavings.  Bounded cache (`max_capacity = c`)
without a weigher, no zero deadline.  Take any state reachable by any interleaving of any number
of threads in which no thread holds an operation (the queues need not be empty), and any list
`fresh` of at most `c` distinct keys.  Let a single thread invalidate every key the map holds and
call `sync`, then `insert(k, 1); sync()` for each `k ∈ fresh`.  In the final state every key of
`fresh` is in the map with value 1, `contains_key` answers `true` and `get` returns 1: no capacity
leaked during the racy phase.  (The keys of `fresh` need not even be absent from the map
beforehand: phase (a) removes them.) -/
theorem ConcS_C03_refill_retained (p : Params) (hq : Sync.NoQuirks p) (hsm : SmallSketch p)
    (c : Nat) (hcap : p.cap = some c) (hnw : p.hasWeigher = false) (httl : p.ttl ≠ some 0)
    (htti : p.tti ≠ some 0) (cs : ConcS.CState) (hr : ConcS.Reach p cs) (hp : cs.pending = [])
    (fresh : List Nat) (hnd : fresh.Nodup) (hlen : fresh.length ≤ c) :
    let s' := Sync.stateAfter p cs.s (refillOps cs.s fresh)
    ∀ k ∈ fresh, (AL.get? s'.map k).map (·.val) = some 1 ∧
      (Sync.step p s' (.has k)).2 = .bool true ∧ (Sync.step p s' (.get k)).2 = .val (some 1) := by
  intro s' k hk
  have hr' : Reach p ⟨cs.s, []⟩ := by
    rw [← hp]; exact hr
  have h1 := (refill_drain hq hsm hr').1
  have h2 := refill_fill hq hsm hcap hnw ⟨httl, htti⟩ fresh _ [] h1
    (by rw [List.nil_append]; exact hnd) (by rw [List.nil_append]; exact hlen)
  rw [← stateAfter_append, List.nil_append] at h2
  have h3 : Filled p s' fresh := h2
  obtain ⟨a, b⟩ := h3.resident hq hsm ⟨httl, htti⟩ hk
  exact ⟨a, b, h3.get_sees hq hsm ⟨httl, htti⟩ hk⟩

/-- The two halves of the refill, with the counters.  After phase (a) the cache is empty and
quiescent and `entry_count = weighted_size = 0` (no drifted counter, no phantom entry survives
the racy phase); after phase (b) the map holds exactly `|fresh|` entries, both queues are empty
and `entry_count = weighted_size = |fresh|`. -/
theorem ConcS_C03_refill_counters (p : Params) (hq : Sync.NoQuirks p) (hsm : SmallSketch p)
    (c : Nat) (hcap : p.cap = some c) (hnw : p.hasWeigher = false) (httl : p.ttl ≠ some 0)
    (htti : p.tti ≠ some 0) (cs : ConcS.CState) (hr : ConcS.Reach p cs) (hp : cs.pending = [])
    (fresh : List Nat) (hnd : fresh.Nodup) (hlen : fresh.length ≤ c) :
    let sa := Sync.stateAfter p cs.s (cs.s.map.map (fun kv => Op.inv kv.1) ++ [Op.sync])
    let s' := Sync.stateAfter p cs.s (refillOps cs.s fresh)
    (sa.map = [] ∧ sa.writeQ = [] ∧ sa.readQ = [] ∧ sa.ec = 0 ∧ sa.ws = 0) ∧
    (s'.map.length = fresh.length ∧ s'.writeQ = [] ∧ s'.readQ = [] ∧ s'.ec = fresh.length ∧
      s'.ws = fresh.length ∧ s'.fault = none) := by
  intro sa s'
  have hr' : Reach p ⟨cs.s, []⟩ := by
    rw [← hp]; exact hr
  obtain ⟨h1, hm⟩ := refill_drain hq hsm hr'
  have h2 := refill_fill hq hsm hcap hnw ⟨httl, htti⟩ fresh _ [] h1
    (by rw [List.nil_append]; exact hnd) (by rw [List.nil_append]; exact hlen)
  rw [← stateAfter_append, List.nil_append] at h2
  have h3 : Filled p s' fresh := h2
  have h1' : Filled p sa [] := h1
  obtain ⟨_, c1, c2⟩ := h1'.counters hq hsm hnw List.nodup_nil
  obtain ⟨d0, d1, d2⟩ := h3.counters hq hsm hnw hnd
  exact ⟨⟨hm, h1'.wq, h1'.rq, c1, c2⟩, d0, h3.wq, h3.rq, d1, d2,
    (reach_csinv hq hsm h3.r).top.nofault⟩

/-! ### non-vacuity: a machine-checked racy phase followed by the refill -/

/-- Capacity 3, no weigher, no expiry. -/
def rfParams : Params := { cap := some 3 }

/-- Threads 1, 2, 3 fill the cache with keys 7, 8, 9 (maintenance admits them).  Then thread 1
updates key 7 (holding the upsert) and thread 2 invalidates it (holding the remove); thread 2
enqueues FIRST, maintenance runs (thread 0) while thread 1 still holds its stale upsert, thread 3
looks key 8 up, and at the end everybody enqueues: nobody holds anything, but the write queue
holds the stale upsert and the read queue the hit. -/
def rfPhase : List Ev :=
  [.insMap 1 7 1, .enq 1, .insMap 2 8 1, .enq 2, .insMap 3 9 1, .enq 3, .maint 0,
   .insMap 1 7 5, .invMap 2 7, .enq 2, .maint 0, .getMap 3 8, .enq 1, .enq 3]

/-- What the refill of `fresh` ends in after the path `evs`: `([threads holding something,
|write queue|, |read queue|] before the refill ++ [entry_count, weighted_size, |map|] after it,
the map after it, [contains_key k, get k = Some(1)] for each fresh key)`. -/
def rfSummary (p : Params) (evs : List Ev) (fresh : List Nat) :
    Option (List Nat × List (Nat × Nat) × List Bool) :=
  (runEvs p {} evs).map fun cs =>
    let s' := Sync.stateAfter p cs.s (refillOps cs.s fresh)
    ([cs.pending.length, cs.s.writeQ.length, cs.s.readQ.length, s'.ec, s'.ws, s'.map.length],
     s'.map.map (fun (kv : Nat × VE) => (kv.1, kv.2.val)),
     fresh.flatMap fun k => [Sync.containsKey p s' k, (Sync.get p s' k).2 == some 1])

/-- The phase ends with nobody holding an operation, one stale upsert and one read queued, and
two residents (keys 8 and 9; `entry_count = weighted_size = 2`). -/
example : (runEvs rfParams {} rfPhase).map (fun cs =>
    ([cs.pending.length, cs.s.writeQ.length, cs.s.readQ.length, cs.s.ec, cs.s.ws],
      cs.s.map.map (fun (kv : Nat × VE) => (kv.1, kv.2.val))))
    = some ([0, 1, 1, 2, 2], [(8, 1), (9, 1)]) := by
  decide +kernel

/-- The refill of three fresh keys after that phase retains all three. -/
theorem ConcS_refill_example : rfSummary rfParams rfPhase [10, 11, 12]
    = some ([0, 1, 1, 3, 3, 3], [(10, 1), (11, 1), (12, 1)],
        [true, true, true, true, true, true]) := by
  decide +kernel

/-- The same past the periodic-sync deadline (the inserts of the refill do not run maintenance of
their own), refilling the key the threads raced on, a key that was resident, and a new one. -/
example : rfSummary rfParams (rfPhase ++ [.tick Gen.PAST_SYNC_INTERVAL_NS]) [7, 8, 30]
    = some ([0, 1, 1, 3, 3, 3], [(7, 1), (8, 1), (30, 1)],
        [true, true, true, true, true, true]) := by
  decide +kernel

/-- The bound `|fresh| ≤ capacity` is needed: four keys are not retained together. -/
example : (rfSummary rfParams rfPhase [10, 11, 12, 13]).map (fun r => r.1) =
    some [0, 1, 1, 3, 3, 3] := by
  decide +kernel

/-- `ConcS_C03B_after_any_phase` on this path: the continuation `sync, snap, insert(10, 1), sync,
snap` from the end of the phase (stale upsert and read still queued) is a window of the part-B
oracle whose premises hold (key 10 is fresh, the queues are empty at both snapshots, the two
residents leave room for one more): the oracle accepts it, and the closing snapshot holds
`(10, 1)` next to the two residents. -/
example : (runEvs rfParams {} rfPhase).map (fun cs =>
    let t := Sync.run rfParams cs.s [.sync, .snap, .ins 10 1, .sync, .snap]
    (Spec.fitsC03Sync 3 none none rfParams.weigh t,
     (t.map (fun oo => match oo.2 with
        | .snap sn => sn.entries.map (fun e => (e.key, e.val))
        | _ => [])).getLast?))
    = some (true, some [(8, 1), (9, 1), (10, 1)]) := by
  decide +kernel

theorem rfParams_small : SmallSketch rfParams :=
  ⟨fun cap hcap => (by cases hcap; decide +kernel),
   fun _ _ _ => (by show Sketch.sketchCapacity 0 ≤ 2 ^ 27; decide +kernel)⟩

/-- The theorems apply to this path: its end state is reachable and nobody holds an operation,
so `ConcS_C03_refill_retained` yields the residency of the three fresh keys. -/
example : ∀ cs, runEvs rfParams {} rfPhase = some cs →
    let s' := Sync.stateAfter rfParams cs.s (refillOps cs.s [10, 11, 12])
    ∀ k ∈ [10, 11, 12], (AL.get? s'.map k).map (·.val) = some 1 ∧
      (Sync.step rfParams s' (.has k)).2 = .bool true ∧
      (Sync.step rfParams s' (.get k)).2 = .val (some 1) := by
  intro cs hc
  have hp : cs.pending = [] := by
    have h : (runEvs rfParams {} rfPhase).map (fun cs => cs.pending.length) = some 0 := by
      decide +kernel
    rw [hc] at h
    exact List.eq_nil_of_length_eq_zero (Option.some.inj h)
  exact ConcS_C03_refill_retained rfParams rfl rfParams_small 3 rfl rfl (by decide) (by decide) cs
    (reach_of_runEvs _ _ _ Reach.init hc) hp [10, 11, 12] (by decide) (by decide)

end Props
end MiniMoka

namespace MiniMoka.Props
#print axioms ConcS_C03B_after_any_phase
#print axioms ConcS_valid_after_le_now
#print axioms ConcS_reach_continuation
#print axioms ConcS_C03_refill_retained
#print axioms ConcS_C03_refill_counters
#print axioms ConcS_refill_example
#print axioms rfParams_small
end MiniMoka.Props
