/-
  The driver judges the window oracles of C03, C04 and C14 on traces from which the hook
  reads `freq k` have been dropped (`Spec.noFreq`). For model traces that is the trace of
  the history without those reads (`noFreq_unsync_trace`, `noFreq_sync_trace`), so the oracle
  theorems carry over.
-/
import MiniMoka.Props.C14Trace
import MiniMoka.Props.C04
import MiniMoka.Props.C10Sync
import MiniMoka.Props.C03A
import MiniMoka.Props.C03
import MiniMoka.Props.C03BSync

namespace MiniMoka
namespace Props

theorem C04_unsync_noFreq (p : Params) (hq : Unsync.NoQuirks p) (hsm : SmallSketch p) (h : List Op) :
    Spec.oracleC04 .unsync p.cap (Spec.noFreq (Unsync.trace p h)) = true := by
  rw [noFreq_unsync_trace]; exact C04_unsync p hq hsm _

theorem C04_sync_noFreq (p : Params) (hq : Sync.NoQuirks p) (hsm : SmallSketch p) (h : List Op) :
    Spec.oracleC04 .sync p.cap (Spec.noFreq (Sync.trace p h)) = true := by
  rw [noFreq_sync_trace]; exact C04_sync p hq hsm _

theorem C03_sync_oracle_noFreq (p : Params) (hq : Sync.NoQuirks p) (hsm : SmallSketch p) (h : List Op) :
    Spec.oracleC03 .sync p.cap p.ttl p.tti p.weigh (Spec.noFreq (Sync.trace p h)) = true := by
  rw [noFreq_sync_trace]; exact C03_sync_oracle p hq hsm _

end Props
end MiniMoka
