/-
  C04 — the capacity bound on the single-threaded cache.
  Property theorems only; lemmas live in `Lemmas/UnsyncCapacity.lean`.
-/
import MiniMoka.Lemmas.UnsyncCapacity

namespace MiniMoka
namespace Props

open Unsync

/-- C04 (a), one operation, every configuration with `max_capacity = c` and every state
satisfying the invariant (in particular every reachable one): an operation that is not a
*growing update* — `insert(k, v)` of a key that is resident after the operation's own
maintenance, with a new weight above the old one (`Unsync.GrowingUpdate`) — never takes
`weighted_size` (= the total weight of the residents, by `Inv`) from within the capacity to
above it. -/
theorem C04_unsync_bound_preserved {p : Params} (hq : NoQuirks p) (hsm : SmallSketch p)
    {s : UState} (hi : Inv Sketch.Good p s) {c : Nat} (hcap : p.cap = some c) (op : Op)
    (hng : ¬ GrowingUpdate p s op) (hle : s.ws ≤ c) : (Unsync.step p s op).1.ws ≤ c :=
  step_ws_le sketchLaws hq hsm hi hcap op hng hle

/-- The same in terms of the residents: their total weight stays within the capacity. -/
theorem C04_unsync_bound_preserved_residents {p : Params} (hq : NoQuirks p) (hsm : SmallSketch p)
    {s : UState} (hi : Inv Sketch.Good p s) {c : Nat} (hcap : p.cap = some c) (op : Op)
    (hng : ¬ GrowingUpdate p s op) (hle : totalW s.map ≤ c) :
    totalW (Unsync.step p s op).1.map ≤ c := by
  rw [← (step_inv sketchLaws hq hsm hi op).inv.counted.ws]
  exact step_ws_le sketchLaws hq hsm hi hcap op hng (by rw [hi.inv.counted.ws]; exact hle)

/-- C04 (b): a key that is not resident (after the maintenance that starts the call) and whose
weight exceeds the whole capacity is never retained: the call amounts to the maintenance alone.
Holds in every state, even one that violates the invariant. -/
theorem C04_unsync_oversized_never_retained {p : Params} {s : UState} {c : Nat}
    (hcap : p.cap = some c) (k v : Nat) (hfresh : AL.get? (maintain p s).map k = none)
    (hbig : c < p.weigh k v) :
    Unsync.insert p s k v = maintain p s ∧ AL.get? (Unsync.insert p s k v).map k = none := by
  have h := insert_oversized hcap k v hfresh hbig
  exact ⟨h, by rw [h]; exact hfresh⟩

/-- C04 (c): when the cache is over capacity (after a growing update), the maintenance that
starts every `get`, `contains_key`, `insert` and `invalidate` brings it back within the
capacity or removes a full batch (`EVICTION_BATCH_SIZE`) of entries.  An emptied map weighs
0, so that case falls under the first alternative. -/
theorem C04_unsync_excess_worked_off {p : Params} (hq : NoQuirks p) {s : UState}
    (hi : Inv Sketch.Good p s) {c : Nat} (hcap : p.cap = some c) :
    (maintain p s).ws ≤ c ∨
      (maintain p s).map.length + EVICTION_BATCH_SIZE ≤ s.map.length :=
  maintain_works_off hq hi.inv hcap

/-- … hence any excess spread over `n` residents is gone after `⌈n / batch⌉` lookups
(`get` / `contains_key`), and stays gone. -/
theorem C04_unsync_excess_gone_after {p : Params} (hq : NoQuirks p) (hsm : SmallSketch p)
    {c : Nat} (hcap : p.cap = some c) (ops : List Op) (s : UState) (hi : Inv Sketch.Good p s)
    (hall : ∀ op ∈ ops, isLookup op = true)
    (hn : s.map.length ≤ ops.length * EVICTION_BATCH_SIZE) : (runState p s ops).ws ≤ c :=
  lookups_work_off' sketchLaws hq hsm hcap ops s hi hall hn

/-- C04 (c) on traces: on every `snapshot, get/contains_key, snapshot` triple of every history,
if the residents weighed more than `max_capacity` before the lookup, then afterwards they are
within the capacity or a full eviction batch of entries has left. -/
theorem C04_unsync_worked_off (p : Params) (hq : NoQuirks p) (hsm : SmallSketch p) (c : Nat)
    (hcap : p.cap = some c) (h : List Op) :
    Spec.workedOffC04 c Gen.UNSYNC_EVICTION_BATCH_SIZE (Unsync.trace p h) = true :=
  workedOffC04_run sketchLaws hq hsm hcap h.length h (Nat.le_refl _) {} (init_inv sketchLaws p)

/-- C04 (a), (b) on traces: on every `snapshot, op, snapshot` triple the residents weigh at most
`max_capacity` after the operation if they did before, unless the operation is an in-place
update that made its entry heavier; and a fresh key heavier than `max_capacity` is never
resident afterwards. -/
theorem C04_unsync_bound (p : Params) (hq : NoQuirks p) (hsm : SmallSketch p) (c : Nat)
    (hcap : p.cap = some c) (h : List Op) :
    Spec.boundC04 c (Unsync.trace p h) = true :=
  boundC04_run sketchLaws hq hsm hcap h.length h (Nat.le_refl _) {} {}
    (init_inv sketchLaws p) (init_coupled p)

/-- C04, the trace oracle (both conjuncts: the bound and the working-off of an excess), for
every configuration and every history. -/
theorem C04_unsync (p : Params) (hq : NoQuirks p) (hsm : SmallSketch p) (h : List Op) :
    Spec.oracleC04 .unsync p.cap (Unsync.trace p h) = true := by
  unfold Spec.oracleC04
  cases hcap : p.cap with
  | none => rfl
  | some c =>
    dsimp only
    rw [C04_unsync_bound p hq hsm c hcap h, C04_unsync_worked_off p hq hsm c hcap h]
    rfl

/-! ### non-vacuity -/

/-- A history with eviction at admission, a rejected oversized key, a growing update that takes
the cache over capacity (weight 1 → 5 with capacity 3) and the lookups that work the excess
off, with snapshots around every call. -/
example : Spec.oracleC04 .unsync (some 3) (Unsync.trace
    { cap := some 3, ttl := some 10, hasWeigher := true, w := fun _ v => v % 10 }
    [.snap, .ins 1 1, .snap, .ins 2 1, .snap, .ins 3 1, .snap, .get 1, .snap, .ins 4 2, .snap,
     .ins 5 7, .snap, .ins 1 5, .snap, .has 9, .snap, .get 2, .snap, .ins 6 1, .snap,
     .adv 10, .snap, .ins 7 3, .snap, .invAll, .snap]) = true := by
  decide +kernel

/-- The growing update of that history really exceeds the capacity, and one lookup later the
excess is gone. -/
example :
    let p : Params := { cap := some 3, hasWeigher := true, w := fun _ v => v % 10 }
    (runState p {} [.ins 1 1, .ins 2 1, .ins 1 5]).ws = 6 ∧
    (runState p {} [.ins 1 1, .ins 2 1, .ins 1 5, .has 9]).ws ≤ 3 := by
  decide +kernel

/-- The working-off clause bites: over capacity before a `get`, still over capacity after it,
and no entry gone — rejected (by `workedOffC04`; `boundC04` alone accepts this trace). -/
example :
    let sn : Snap :=
      { ec := 2, ws := 6,
        entries := [{ key := 1, val := 5, weight := 5, la := none, lm := none, aoOk := true, woOk := true },
                    { key := 2, val := 1, weight := 1, la := none, lm := none, aoOk := true, woOk := true }],
        prob := [], wo := [], skOn := false, skSize := 0, skSample := 0, skLen := 0, skCrc := 0,
        freqs := [] }
    let t : Spec.Trace := [(.snap, .snap sn), (.get 2, .val (some 1)), (.snap, .snap sn)]
    Spec.boundC04 3 t = true ∧ Spec.workedOffC04 3 Gen.UNSYNC_EVICTION_BATCH_SIZE t = false ∧
      Spec.oracleC04 .unsync (some 3) t = false := by
  decide +kernel

/-- A model trace with a growing update (weight 1 → 5, capacity 3) followed by lookups: the
excess is there at the snapshot before the lookup (weight 6) and gone after it (the LRU
resident of weight 1 does not cover the excess of 3, so the heavy one leaves too); accepted. -/
example : Spec.workedOffC04 3 Gen.UNSYNC_EVICTION_BATCH_SIZE (Unsync.trace
    { cap := some 3, hasWeigher := true, w := fun _ v => v % 10 }
    [.ins 1 1, .ins 2 1, .ins 1 5, .snap, .get 2, .snap, .has 1, .snap]) = true ∧
    (Unsync.trace { cap := some 3, hasWeigher := true, w := fun _ v => v % 10 }
      [.ins 1 1, .ins 2 1, .ins 1 5, .snap, .get 2, .snap]).map
      (fun oo => match oo.2 with
        | .snap sn => Spec.snapWeight sn
        | _ => 0) = [0, 0, 0, 6, 0, 0] := by
  decide +kernel

/-- The oracle is not vacuous: it rejects a trace in which a fresh insert takes the residents
above the capacity. -/
example : Spec.oracleC04 .unsync (some 3)
    [(.snap, .snap { ec := 0, ws := 0, entries := [], prob := [], wo := [], skOn := false,
                     skSize := 0, skSample := 0, skLen := 0, skCrc := 0, freqs := [] }),
     (.ins 1 5, .ok),
     (.snap, .snap { ec := 1, ws := 5,
                     entries := [{ key := 1, val := 5, weight := 5, la := none, lm := none,
                                   aoOk := true, woOk := true }],
                     prob := [], wo := [], skOn := false,
                     skSize := 0, skSample := 0, skLen := 0, skCrc := 0, freqs := [] })] = false := by
  decide

end Props
end MiniMoka

#print axioms MiniMoka.Props.C04_unsync_bound_preserved
#print axioms MiniMoka.Props.C04_unsync_bound_preserved_residents
#print axioms MiniMoka.Props.C04_unsync_oversized_never_retained
#print axioms MiniMoka.Props.C04_unsync_excess_worked_off
#print axioms MiniMoka.Props.C04_unsync_excess_gone_after
#print axioms MiniMoka.Props.C04_unsync_worked_off
#print axioms MiniMoka.Props.C04_unsync_bound
#print axioms MiniMoka.Props.C04_unsync
