/-
  C01 / C05 / C06 / C07 (lookup soundness) for `sync::Cache` under ALL interleavings of any
  number of threads, at the granularity of `MiniMoka/ConcS.lean`: per-key map step / atomic
  maintenance run / enqueue.  (What that granularity leaves out is listed at the head of that
  file: above all, map steps of other threads *inside* a maintenance run.)

  The operations of an execution are ordered by their MAP STEPS (`ConcS.lin`, the linearised
  trace): `insMap t k v ↦ (.ins k v, .ok)`, `invMap t k ↦ (.inv k, .ok)`,
  `getMap t k ↦ (.get k, .val r)` with `r` the result `ConcS.lookup` decides in the state at
  that step, `tick d ↦ (.adv d, .ok)`, `invAll t ↦ (.invAll, .ok)`, `sync t ↦ (.sync, .ok)`
  (neutral for the lookup oracles); `maint t` and `enq t` — the maintenance runs inside calls
  and the queued halves of the calls — contribute nothing, whenever they happen.

  PROVED in full, for every configuration of the current code (`NoQuirks`), every finite event
  list of any number of threads (the hypothesis `runEvs … = some c`, "every step is enabled",
  is kept in the statements as the reading "for every execution"; the proofs do not need it:
  `lin` ends at the first step that is not enabled, so the statements hold for every event
  list, see `ConcS_lookup_all`):
   * `ConcS_C01`: a get returns nothing or the value of the most recent insert (in map-step
     order) of its key that has not been invalidated since;
   * `ConcS_C05`, `ConcS_C06`: a yielded key was inserted less than ttl ago / inserted, updated
     or successfully read less than tti ago, *read* meaning the clock reading of the get's own
     map step.  A read operation is held by its thread for any length of time (clock ticks,
     updates, `invalidate`, `invalidate_all` of its key in between) and the held reads reach the
     queue in any order; `maint` applies them in queue order.  None of that extends an idle
     deadline beyond the get's own clock reading;
   * `ConcS_C07`: invalidation (`invalidate`, `invalidate_all`) is immediate and permanent in
     map-step order.
  The invariant is `ConcS.CoupledC` (Lemmas/ConcSLookup.lean): the one-thread coupling
  `Sync.CoupledS` with its two clauses about queued hits extended to the hits threads hold.  No
  clause of `CoupledS` / `Frame` bounds a queued timestamp by "now at enqueue time" or relates a
  queued hit to the *current* map entry of its key; they only say that the reference entry of
  the key of the hit's info has `ts ≤ tAcc`, which every reference step preserves.  So a late
  enqueue is harmless and NO interleaving produces a stale, expired or invalidated result: no
  concurrency finding at this granularity.  (With the switch `d6` on — defect D6, repaired — the
  interleaving below does make `apply_reads` move `last_accessed` backwards; that shortens a
  lifetime and is C03's business, the lookup oracles still accept.)
-/
import MiniMoka.Lemmas.ConcSLookup

namespace MiniMoka
namespace Props

open Sync ConcS Spec

/-- All interleavings, all three checks at once; holds for every event list (the linearised
trace ends at the first step that is not enabled). -/
theorem ConcS_lookup_all (p : Params) (hq : Sync.NoQuirks p) (evs : List Ev) :
    lookupOracle .sync (Sync.allChecks p) {} (lin p ⟨{}, []⟩ evs) = true :=
  lookupOracle_lin hq _ (fun _ _ h => h) evs _ _ (coupledC_init p)

/-- C01 for all interleavings: every get returns nothing or the value of the most recent insert
of its key, in the order of the map steps, that has not been invalidated since. -/
theorem ConcS_C01 (p : Params) (hq : Sync.NoQuirks p) (evs : List Ev) (c : CState)
    (_hr : ConcS.runEvs p ⟨{}, []⟩ evs = some c) :
    Spec.oracleC01 .sync (lin p ⟨{}, []⟩ evs) = true := by
  unfold oracleC01
  refine lookupOracle_lin hq _ ?_ evs _ _ (coupledC_init p)
  intro g kv hkv
  simp only [Sync.allChecks, Bool.and_eq_true] at hkv
  exact hkv.1.1

/-- C05 for all interleavings: a yielded key was inserted or updated (map step) less than
`time_to_live` ago. -/
theorem ConcS_C05 (p : Params) (hq : Sync.NoQuirks p) (evs : List Ev) (c : CState)
    (_hr : ConcS.runEvs p ⟨{}, []⟩ evs = some c) :
    Spec.oracleC05 .sync p.ttl (lin p ⟨{}, []⟩ evs) = true := by
  unfold oracleC05
  refine lookupOracle_lin hq _ ?_ evs _ _ (coupledC_init p)
  intro g kv hkv
  simp only [Sync.allChecks, Bool.and_eq_true] at hkv
  exact hkv.1.2

/-- C06 for all interleavings: a yielded key was inserted, updated or successfully read (map
steps; for a read, the clock reading of the get itself) less than `time_to_idle` ago — however
late and in whatever order the threads enqueue the read operations they hold. -/
theorem ConcS_C06 (p : Params) (hq : Sync.NoQuirks p) (evs : List Ev) (c : CState)
    (_hr : ConcS.runEvs p ⟨{}, []⟩ evs = some c) :
    Spec.oracleC06 .sync p.tti (lin p ⟨{}, []⟩ evs) = true := by
  unfold oracleC06
  refine lookupOracle_lin hq _ ?_ evs _ _ (coupledC_init p)
  intro g kv hkv
  simp only [Sync.allChecks, Bool.and_eq_true] at hkv
  exact hkv.2

/-- C07 (immediate and permanent) for all interleavings: once the map step of `invalidate(k)`
or `invalidate_all()` has happened, no get yields a targeted entry until its key is inserted
again. -/
theorem ConcS_C07 (p : Params) (hq : Sync.NoQuirks p) (evs : List Ev) (c : CState)
    (_hr : ConcS.runEvs p ⟨{}, []⟩ evs = some c) :
    lookupOracle .sync checkC07 {} (lin p ⟨{}, []⟩ evs) = true := by
  refine lookupOracle_lin hq _ ?_ evs _ _ (coupledC_init p)
  intro g kv hkv
  simp only [Sync.allChecks, Bool.and_eq_true, checkC01] at hkv
  simp only [checkC07]
  cases hg : AL.get? g.ents kv.1 with
  | none => simp [hg] at hkv
  | some ge => simp [hg] at hkv; exact hkv.1.1.1

/-- The same from any reachable coupled state (the form the induction uses). -/
theorem ConcS_lookup_from (p : Params) (hq : Sync.NoQuirks p) (c : CState) (g : Ghost)
    (hc : CoupledC p c g) (evs : List Ev) :
    lookupOracle .sync (Sync.allChecks p) g (lin p c evs) = true :=
  lookupOracle_lin hq _ (fun _ _ h => h) evs c g hc

/-! ### machine-checked interleavings -/

/-- time-to-idle 3, time-to-live 100. -/
def clParams (q : Quirks) : Params := { tti := some 3, ttl := some 100, q := q }

/-- The results of the gets of a trace, in order. -/
def getResults (t : Trace) : List (Nat × Option Nat) :=
  t.filterMap fun oo => match oo with
    | (.get k, .val r) => some (k, r)
    | _ => none

/-- Thread 2 inserts key 1 (value 10) at reading 0 and maintenance links it; thread 1 looks it up at
reading 0 and HOLDS the hit; the clock passes time-to-idle (reading 5); thread 2 updates key 1
to 11; thread 1 enqueues its stale hit (before thread 2's upsert, even); maintenance applies
both; at reading 7 thread 3 gets 11 (its hit is applied by the next run); at reading 8 thread 1
gets 11 (idle deadline 7 + 3); at reading 10 nothing (thread 1 still holds its hit of reading 8:
a held read does not prolong the lifetime before it is applied, which the properties, being
upper bounds, permit). -/
def lateReadInterleaving : List Ev :=
  [.insMap 2 1 10, .enq 2, .maint 0, .getMap 1 1, .tick 5, .insMap 2 1 11, .enq 1, .enq 2, .maint 0,
   .tick 2, .getMap 3 1, .enq 3, .maint 0, .tick 1, .getMap 1 1, .tick 2, .getMap 4 1]

example : (runEvs (clParams {}) ⟨{}, []⟩ lateReadInterleaving).isSome = true := by decide +kernel

example : getResults (lin (clParams {}) ⟨{}, []⟩ lateReadInterleaving)
    = [(1, some 10), (1, some 11), (1, some 11), (1, none)] := by decide +kernel

example : oracleC06 .sync (some 3) (lin (clParams {}) ⟨{}, []⟩ lateReadInterleaving) = true := by
  decide +kernel

/-- The theorems apply to it (`NoQuirks` holds by `rfl`, the path is enabled). -/
example : ∀ c, runEvs (clParams {}) ⟨{}, []⟩ lateReadInterleaving = some c →
    oracleC06 .sync (some 3) (lin (clParams {}) ⟨{}, []⟩ lateReadInterleaving) = true :=
  fun c hc => ConcS_C06 (clParams {}) rfl lateReadInterleaving c hc

/-- With defect D6 switched back on, the late-applied stale hit (timestamp 0) moves
`last_accessed` of the updated entry from 5 back to 0, and the gets at readings 7 and 8 find
nothing: the interleaving semantics does produce that defect (a shortened lifetime, judged by
C03; it is not a lookup-soundness violation, so the oracle still accepts). -/
example : getResults (lin (clParams { d6 := true }) ⟨{}, []⟩ lateReadInterleaving)
    = [(1, some 10), (1, none), (1, none), (1, none)] := by decide +kernel

example : oracleC06 .sync (some 3) (lin (clParams { d6 := true }) ⟨{}, []⟩ lateReadInterleaving)
    = true := by decide +kernel

/-- A read held across `invalidate_all` and a re-insert: thread 1 hits key 1 at reading 1 and
holds the hit; `invalidate_all` at reading 2; gets find nothing; thread 1 enqueues, maintenance
applies the hit to the invalidated entry's info (and evicts the entry); key 1 is inserted again
(12) and found. -/
def heldAcrossInvalidateAll : List Ev :=
  [.insMap 2 1 10, .enq 2, .tick 1, .getMap 1 1, .tick 1, .invAll 2, .getMap 3 1, .enq 3, .enq 1,
   .maint 0, .getMap 3 1, .insMap 2 1 12, .getMap 4 1, .enq 2, .maint 0, .enq 3, .enq 4, .sync 0,
   .getMap 3 1]

example : (runEvs (clParams {}) ⟨{}, []⟩ heldAcrossInvalidateAll).isSome = true := by decide +kernel

example : getResults (lin (clParams {}) ⟨{}, []⟩ heldAcrossInvalidateAll)
    = [(1, some 10), (1, none), (1, none), (1, some 12), (1, some 12)] := by decide +kernel

example : lookupOracle .sync checkC07 {} (lin (clParams {}) ⟨{}, []⟩ heldAcrossInvalidateAll)
    = true := by decide +kernel

/-- A read held across `invalidate` and a re-insert of its key (a new `EntryInfo` under the same
key): thread 1 hits key 1 (value 10) at reading 0 and holds the hit; thread 2 invalidates key 1
at reading 2 and inserts it again (20); at reading 4 thread 1 enqueues the hit, which refers to
the OLD entry's info; maintenance; the new entry still expires on its own access time. -/
def heldAcrossInvalidate : List Ev :=
  [.insMap 2 1 10, .enq 2, .maint 0, .getMap 1 1, .tick 2, .invMap 2 1, .getMap 3 1, .enq 2,
   .insMap 2 1 20, .tick 2, .enq 1, .maint 0, .enq 2, .maint 0, .getMap 4 1, .tick 1, .getMap 5 1]

example : (runEvs (clParams {}) ⟨{}, []⟩ heldAcrossInvalidate).isSome = true := by decide +kernel

example : getResults (lin (clParams {}) ⟨{}, []⟩ heldAcrossInvalidate)
    = [(1, some 10), (1, none), (1, some 20), (1, none)] := by decide +kernel

example : oracleC01 .sync (lin (clParams {}) ⟨{}, []⟩ heldAcrossInvalidate) = true ∧
    oracleC06 .sync (some 3) (lin (clParams {}) ⟨{}, []⟩ heldAcrossInvalidate) = true ∧
    lookupOracle .sync checkC07 {} (lin (clParams {}) ⟨{}, []⟩ heldAcrossInvalidate) = true := by
  decide +kernel

/-- A step that is not enabled ends the linearised trace. -/
example : getResults (lin (clParams {}) ⟨{}, []⟩ [.insMap 1 1 1, .getMap 2 1, .getMap 1 1, .getMap 3 1])
    = [(1, some 1)] := by decide +kernel

/-! The oracles reject hand-made linearised traces of the behaviours the theorems exclude. -/

/-- A stale value: the get after the update still returns the old value. -/
example : oracleC01 .sync
    [(.ins 1 10, .ok), (.get 1, .val (some 10)), (.adv 5, .ok), (.ins 1 11, .ok),
     (.get 1, .val (some 10))] = false := by decide

/-- A read after `invalidate`. -/
example : lookupOracle .sync checkC07 {}
    [(.ins 1 10, .ok), (.inv 1, .ok), (.get 1, .val (some 10))] = false := by decide

/-- A read after `invalidate_all` of an entry inserted at an earlier clock reading. -/
example : lookupOracle .sync checkC07 {}
    [(.ins 1 10, .ok), (.adv 1, .ok), (.invAll, .ok), (.get 1, .val (some 10))] = false := by decide

/-- A late-applied read credited with the time of its enqueue instead of its own clock reading:
hit at 0, (enqueued and applied at 2,) still yielded at 4 with time-to-idle 3. -/
example : oracleC06 .sync (some 3)
    [(.ins 1 10, .ok), (.get 1, .val (some 10)), (.adv 2, .ok), (.sync, .ok), (.adv 2, .ok),
     (.get 1, .val (some 10))] = false := by decide

/-- Yielded after time-to-live. -/
example : oracleC05 .sync (some 100)
    [(.ins 1 10, .ok), (.adv 60, .ok), (.get 1, .val (some 10)), (.adv 40, .ok),
     (.get 1, .val (some 10))] = false := by decide

end Props
end MiniMoka

namespace MiniMoka.Props
#print axioms ConcS_lookup_all
#print axioms ConcS_C01
#print axioms ConcS_C05
#print axioms ConcS_C06
#print axioms ConcS_C07
#print axioms ConcS_lookup_from
end MiniMoka.Props
