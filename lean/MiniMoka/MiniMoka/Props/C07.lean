/-
  C07 — invalidation is immediate, permanent and precise.
-/
import MiniMoka.Lemmas.UnsyncPrecise
import MiniMoka.Lemmas.SyncKeys
import MiniMoka.Lemmas.SketchLaws

namespace MiniMoka
namespace Props

open Spec

/-- Immediate and permanent, single-threaded cache: for every configuration and history, once
`invalidate(k)`, `invalidate_all()` or `invalidate_entries_if(p)` has returned, no lookup
yields a targeted entry until its key is inserted again (the reference marks the entry dead at
the call; a yielded key must be alive in the reference). -/
theorem C07_unsync (p : Params) (hq : Unsync.NoQuirks p) (hsm : SmallSketch p) (h : List Op) :
    lookupOracle .unsync checkC07 {} (Unsync.trace p h) = true := by
  unfold Unsync.trace
  refine Unsync.lookupOracle_of_coupled sketchLaws hq hsm _ ?_ h {} {} (Unsync.init_inv sketchLaws p)
    (Unsync.init_coupled p)
  intro g kv hkv
  simp only [Unsync.allChecks, Bool.and_eq_true, checkC01] at hkv
  simp only [checkC07]
  cases hg : AL.get? g.ents kv.1 with
  | none => simp [hg] at hkv
  | some ge => simp [hg] at hkv; exact hkv.1.1.1

/-- Immediate and permanent, concurrent cache driven by one thread (any `sync` placement, any
queue state, invalidations issued while inserts and reads of the same keys are still queued):
`invalidate_all` targets what was inserted at a strictly earlier clock reading. -/
theorem C07_sync (p : Params) (hq : Sync.NoQuirks p) (h : List Op) :
    lookupOracle .sync checkC07 {} (Sync.trace p h) = true := by
  unfold Sync.trace
  refine Sync.lookupOracle_of_coupled hq _ ?_ h {} {} (Sync.init_coupled p)
  intro g kv hkv
  simp only [Sync.allChecks, Bool.and_eq_true, checkC01] at hkv
  simp only [checkC07]
  cases hg : AL.get? g.ents kv.1 with
  | none => simp [hg] at hkv
  | some ge => simp [hg] at hkv; exact hkv.1.1.1

/-- Precise (single-threaded cache): `invalidate_entries_if(pred)` removes exactly the entries
satisfying the predicate — every other entry stays, with its value. -/
theorem C07_precise_invalidate_entries_if {p : Params} (hq : Unsync.NoQuirks p) {s : Unsync.UState}
    (hi : Unsync.Inv Sketch.Good p s) (pr : Pred) (k : Nat) (e : Unsync.UEntry) :
    AL.get? (Unsync.invalidateEntriesIf p s pr).map k = some e ↔
      (AL.get? s.map k = some e ∧ pr.eval k e.val = false) :=
  Unsync.invalidateEntriesIf_exact hq hi pr k e

/-- Precise: `invalidate(k)` removes `k` from what the purge at its start leaves, nothing else. -/
theorem C07_precise_invalidate {p : Params} (hq : Unsync.NoQuirks p) {s : Unsync.UState}
    (hi : Unsync.Inv Sketch.Good p s) (k k' : Nat) :
    AL.get? (Unsync.invalidate p s k).map k' =
      if k = k' then none else AL.get? (Unsync.maintain p s).map k' :=
  Unsync.invalidate_exact hq hi k k'

/-- Precise: `invalidate_all()` of the single-threaded cache empties it. -/
theorem C07_precise_invalidate_all (p : Params) (s : Unsync.UState) :
    (Unsync.invalidateAll p s).map = [] := rfl

/-- Precise (concurrent cache): `invalidate_all()` touches nothing but the watermark, and an
entry inserted or updated at the call's clock reading or later that was observable stays
observable. -/
theorem C07_precise_sync_invalidate_all (p : Params) (s : Sync.SState) (k : Nat) (ve : Sync.VE)
    (hk : AL.get? s.map k = some ve) (hlm : s.now ≤ (Sync.getInfo s ve.info).lm)
    (hla : s.now ≤ (Sync.getInfo s ve.info).la) (hobs : Sync.containsKey p s k = true) :
    (Sync.invalidateAll s).map = s.map ∧ (Sync.invalidateAll s).infos = s.infos ∧
    Sync.containsKey p (Sync.invalidateAll s) k = true := by
  refine ⟨rfl, rfl, ?_⟩
  have hinfo : Sync.getInfo (Sync.invalidateAll s) ve.info = Sync.getInfo s ve.info := rfl
  simp only [Sync.containsKey, hk, Bool.not_eq_true', Sync.isExpiredInfo, Bool.or_eq_false_iff,
    Sync.expiredTs] at hobs
  obtain ⟨⟨_, t1⟩, ⟨_, t2⟩⟩ := hobs
  have hk' : AL.get? (Sync.invalidateAll s).map k = some ve := hk
  simp only [Sync.containsKey, hk', hinfo, Bool.not_eq_true', Sync.isExpiredInfo,
    Bool.or_eq_false_iff, Sync.expiredTs]
  have h1 : ¬ (Sync.getInfo s ve.info).lm < s.now := by omega
  have h2 : ¬ (Sync.getInfo s ve.info).la < s.now := by omega
  refine ⟨⟨?_, t1⟩, ⟨?_, t2⟩⟩ <;> simp [Sync.invalidateAll, h1, h2]

-- Readers against an invalidating thread, all interleavings: `ConcR.C07_reader` (Props/C02.lean).

example : lookupOracle .unsync checkC07 {} (Unsync.trace { cap := some 3, ttl := some 9 }
    [.ins 1 1, .ins 2 2, .inv 1, .get 1, .has 1, .iter, .ins 1 3, .get 1, .invIf (.vlt 3), .get 2,
     .get 1, .invAll, .iter, .ins 2 5, .get 2]) = true := by decide +kernel

example : lookupOracle .sync checkC07 {} (Sync.trace { cap := some 3 }
    [.ins 1 1, .inv 1, .get 1, .ins 1 2, .get 1, .adv 5, .invAll, .get 1, .ins 1 3, .sync, .get 1,
     .iter]) = true := by decide +kernel

/-- The oracle rejects a trace in which an invalidated entry reappears. -/
example : lookupOracle .unsync checkC07 {}
    [(.ins 1 1, .ok), (.inv 1, .ok), (.adv 3, .ok), (.get 1, .val (some 1))] = false := by decide

end Props
end MiniMoka
