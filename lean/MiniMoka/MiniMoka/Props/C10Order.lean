/-
  C10 on the concurrent cache: the counters do not depend on the ORDER in which write
  operations sit in the queue (the repair of defect D10, /repo commit 12c8cbc).

  Two threads that update one key can enqueue their `Upsert` operations in the opposite order
  of their map updates.  Before the repair `handle_upsert` accounted the weight the operation
  carried, so the accounted weight followed whichever operation was applied last, possibly
  the one with the older value.  The repair (`Sync.currentWeight`) accounts the weight of the
  value the map holds *now*, whatever the operation carries.

  One thread always enqueues in map order, so the theorems of `Props/C10Sync.lean` alone do not
  speak about that.  But the invariant `CInv p s Q` behind them mentions the logical queue `Q`
  through *membership only* (`CInv.of_mem`): it never says that the last upsert of an info
  carries the current value.  Therefore:

  PROVED in full (all configurations of the current code; no restriction on the permutation):
   * `C10_sync_queue_order_independent`: take any state satisfying the invariant of the
     reachable states (`TInv p s []`, e.g. any state reachable by one thread) and replace its
     write queue by ANY permutation of it (this covers swapping the two upserts of one key
     that carry the older and the newer value, moving a `remove` before or after upserts of
     the same key, and any interleaving of operations of different keys).  After `sync` the
     snapshot satisfies `snapCountersOk`: `entry_count = |entries|`, `weighted_size = Σ policy
     weights = Σ weigh key (current map value)`.
   * `C10_sync_queue_order_independent_explicit`: the same spelled out on the state.
   * `C10_sync_queue_order_independent_reachable`: the instance for reachable states.
   * `C10_sync_after_reorder`, `C11_sync_after_reorder`, `C04_sync_weight_after_reorder`: the
     permuted state satisfies `TInv` again (`TInv.perm_writeQ`), so every later snapshot of
     every continuation is judged `true` by the C10 and C11 checks, and the capacity bound
     after `sync` holds as well.
   * `C10_sync_counterexample_D10`: with the switch `d10` on, the state with the two updates
     of one key queued in inverted order ends with `weighted_size = 5` for a resident of
     weight 2; on the current code the same state ends exact, in either order.
  What this does NOT cover: states that no permutation of a one-thread queue describes (e.g.
  maintenance running while another thread is between its map step and its enqueue with
  several such threads at once; `TInv p s ex` handles one such operation, see `trySync_t`).
-/
import MiniMoka.Props.C10Sync

namespace MiniMoka
namespace Props

open Sync Sync.Nodes Sync.Counters

/-- Order independence of the counters: in any state that satisfies the invariant of the
reachable states, replace the write queue by any permutation `Q'` of it; after the
maintenance run (`sync`) the published counters are exact:
`entry_count = |entries|`, `weighted_size = Σ policy weights = Σ weigher(key, value)` for the
values the map holds. -/
theorem C10_sync_queue_order_independent (p : Params) (hq : Sync.NoQuirks p)
    (hsm : SmallSketch p) (s : SState) (hs : TInv p s []) (Q' : List WOp)
    (hperm : Q'.Perm s.writeQ) :
    Spec.snapCountersOk p.weigh
      (Sync.snapshot p (Sync.syncRun p { s with writeQ := Q' })) = true :=
  sync_snapshot_counters (sync_t hq hsm (hs.perm_writeQ hperm)) (syncRun_writeQ _ _)

/-- The same, spelled out on the state after the maintenance run. -/
theorem C10_sync_queue_order_independent_explicit (p : Params) (hq : Sync.NoQuirks p)
    (hsm : SmallSketch p) (s : SState) (hs : TInv p s []) (Q' : List WOp)
    (hperm : Q'.Perm s.writeQ) :
    let s' := Sync.syncRun p { s with writeQ := Q' }
    s'.ec = s'.map.length ∧
    s'.ws = (s'.map.map fun kv => p.weigh kv.1 kv.2.val).sum ∧
    ∀ kv, kv ∈ s'.map → (getInfo s' kv.2.info).weight = p.weigh kv.1 kv.2.val := by
  intro s'
  obtain ⟨q1, q2, q3, _, _⟩ :=
    quiescent (sync_t hq hsm (hs.perm_writeQ hperm)) (syncRun_writeQ _ _)
  refine ⟨q1, ?_, q3⟩
  rw [q2]
  congr 1
  exact List.map_congr_left q3

/-- The instance for the states one thread can reach: after any history, permute the queue
(as other threads' interleavings could have), then run maintenance. -/
theorem C10_sync_queue_order_independent_reachable (p : Params) (hq : Sync.NoQuirks p)
    (hsm : SmallSketch p) (h : List Op) (Q' : List WOp)
    (hperm : Q'.Perm (Sync.stateAfter p {} h).writeQ) :
    Spec.snapCountersOk p.weigh
      (Sync.snapshot p (Sync.syncRun p { Sync.stateAfter p {} h with writeQ := Q' })) = true :=
  C10_sync_queue_order_independent p hq hsm _ (stateAfter_t hq hsm h (init_t p)) Q' hperm

/-! ### everything else holds after the reordering too -/

theorem sync_all_snaps_from {p : Params} (hq : Sync.NoQuirks p) (hsm : SmallSketch p)
    (P : Snap → Bool) (hP : ∀ s, TInv p s [] → P (Sync.snapshot p s) = true) {s : SState}
    (hs : TInv p s []) (h : List Op) :
    ((Sync.run p s h).all fun oo => match oo.2 with
      | .snap sn => P sn
      | _ => true) = true := by
  rw [List.all_eq_true]
  intro oo hoo
  obtain ⟨op, ob⟩ := oo
  cases ob with
  | snap sn =>
    obtain ⟨s', hs', rfl⟩ := sync_run_snap_state hq hsm h hs op sn hoo
    exact hP s' hs'
  | _ => rfl

/-- Whatever the API calls that follow the reordering, the C10 check accepts the trace. -/
theorem C10_sync_after_reorder (p : Params) (hq : Sync.NoQuirks p) (hsm : SmallSketch p)
    (s : SState) (hs : TInv p s []) (Q' : List WOp) (hperm : Q'.Perm s.writeQ) (h : List Op) :
    Spec.oracleC10.go p.weigh (Sync.run p { s with writeQ := Q' } h) = true :=
  oracleC10_go_of_all _ _
    (sync_all_snaps_from hq hsm (quietOk p.weigh) (fun _ hs => sync_snapshot_quietOk hs)
      (hs.perm_writeQ hperm) h)

/-- … and so does the C11 check (live key / value objects). -/
theorem C11_sync_after_reorder (p : Params) (hq : Sync.NoQuirks p) (hsm : SmallSketch p)
    (s : SState) (hs : TInv p s []) (Q' : List WOp) (hperm : Q'.Perm s.writeQ) (h : List Op) :
    Spec.oracleC11 (Sync.run p { s with writeQ := Q' } h) = true := by
  apply oracleC11_of_all
  exact sync_all_snaps_from hq hsm (fun sn => Spec.liveOk sn && Spec.liveBounded sn)
    (fun s hs => by
      show (Spec.liveOk _ && Spec.liveBounded _) = true
      rw [sync_snapshot_liveOk hs, sync_snapshot_liveBounded]; rfl) (hs.perm_writeQ hperm) h

/-- … and the capacity bound after the maintenance run. -/
theorem C04_sync_weight_after_reorder (p : Params) (hq : Sync.NoQuirks p) (hsm : SmallSketch p)
    (s : SState) (hs : TInv p s []) (Q' : List WOp) (hperm : Q'.Perm s.writeQ) (c : Nat)
    (hcap : p.cap = some c) :
    (Sync.syncRun p { s with writeQ := Q' }).ws ≤ c ∨
      (Sync.syncRun p { s with writeQ := Q' }).map.length + Gen.SYNC_EVICTION_BATCH_SIZE ≤
        s.map.length :=
  syncRun_weight hq hsm (hs.perm_writeQ hperm) hcap

/-! ### the defect D10, with its switch on -/

/-- Weigher = value, no capacity limit. -/
def d10Params (q : Quirks) : Params := { hasWeigher := true, w := fun _ v => v, q := q }

/-- Key 1 is inserted with value 1 and admitted; then (the clock is past the periodic-sync
deadline, so nothing is applied meanwhile) it is updated to 5 and to 2.  The map holds 2 and
the queue holds the upsert of 5, then the upsert of 2. -/
def d10History : List Op := [.adv Gen.PAST_SYNC_INTERVAL_NS, .ins 1 1, .sync, .ins 1 5, .ins 1 2]

/-- The state after that history, with the write queue in the order given by `inverted`:
`true` is the order two racing threads can produce (upsert of the newer value 2 first, of the
older value 5 last); one thread alone cannot reach it. -/
def d10State (q : Quirks) (inverted : Bool) : SState :=
  let s := Sync.stateAfter (d10Params q) {} d10History
  if inverted then { s with writeQ := s.writeQ.reverse } else s

/-- What the queue of that state holds: `(key, value-entry id, value, weight carried)`. -/
example : (d10State {} false).writeQ.map (fun op => match op with
    | .upsert k _ ve _ w => (k, ve.id, ve.val, w)
    | .remove k ve => (k, ve.id, ve.val, 0)) = [(1, 3, 5, 5), (1, 4, 2, 2)] := by
  decide +kernel

/-- D10: with the switch on and the queue inverted, the maintenance run ends with
`weighted_size = 5` while the map holds key 1 with value 2 (weight 2): the counters are wrong
(`Σ weigher(key, value) ≠ weighted_size`); in queue order they are right. -/
theorem C10_sync_counterexample_D10 :
    let p := d10Params { d10 := true }
    Spec.snapCountersOk p.weigh (Sync.snapshot p (Sync.syncRun p (d10State { d10 := true } true)))
      = false ∧
    (Sync.syncRun p (d10State { d10 := true } true)).ws = 5 ∧
    (Sync.syncRun p (d10State { d10 := true } true)).map.map (fun kv => (kv.1, kv.2.val))
      = [(1, 2)] ∧
    Spec.snapCountersOk p.weigh (Sync.snapshot p (Sync.syncRun p (d10State { d10 := true } false)))
      = true := by
  decide +kernel

/-- The current code ends exact in either order (`weighted_size = 2`). -/
example :
    let p := d10Params {}
    Spec.snapCountersOk p.weigh (Sync.snapshot p (Sync.syncRun p (d10State {} true))) = true ∧
    (Sync.syncRun p (d10State {} true)).ws = 2 ∧
    Spec.snapCountersOk p.weigh (Sync.snapshot p (Sync.syncRun p (d10State {} false))) = true ∧
    (Sync.syncRun p (d10State {} false)).ws = 2 := by
  decide +kernel

/-- … as the theorem says: the inverted state is a permutation of a reachable one. -/
example : Spec.snapCountersOk (d10Params {}).weigh
    (Sync.snapshot (d10Params {}) (Sync.syncRun (d10Params {})
      { Sync.stateAfter (d10Params {}) {} d10History with
        writeQ := (Sync.stateAfter (d10Params {}) {} d10History).writeQ.reverse })) = true :=
  C10_sync_queue_order_independent_reachable (d10Params {}) rfl
    ⟨fun c hc => (by cases hc),
     fun _ _ _ => (by show Sketch.sketchCapacity 0 ≤ 2 ^ 27; decide +kernel)⟩
    d10History _ (List.reverse_perm _)

end Props
end MiniMoka

namespace MiniMoka.Props
#print axioms C10_sync_queue_order_independent
#print axioms C10_sync_queue_order_independent_explicit
#print axioms C10_sync_queue_order_independent_reachable
#print axioms C10_sync_after_reorder
#print axioms C11_sync_after_reorder
#print axioms C04_sync_weight_after_reorder
#print axioms C10_sync_counterexample_D10
end MiniMoka.Props
