/-
  C08 for the concurrent cache driven by one thread: no panic of any kind.
  Combines the node/counter invariant (`C08_sync_no_uaf_no_overflow`) with the queue
  invariant (`C09_sync_no_hang`).
-/
import MiniMoka.Props.C08Sync
import MiniMoka.Props.C09Seq
import MiniMoka.Spec.Oracles

namespace MiniMoka
namespace Props

open Sync.Nodes in
/-- For every configuration of the current code, every hash function, weigher and history
of public API calls (any placement of `sync()`, any clock steps), no operation of the sync
model panics: no use of a freed deque node, no counter or sketch overflow, no failed
`expect`, no `unreachable!`, no spin on a full channel. -/
theorem C08_sync (p : Params) (hq : Sync.NoQuirks p) (hsm : SmallSketch p) (h : List Op) :
    Spec.noPanic (Sync.trace p h) = true := by
  unfold Spec.noPanic
  rw [List.all_eq_true]
  intro oo hoo
  rcases oo with ⟨op, ob⟩
  cases ob with
  | panic f =>
    have hf := C08_sync_panic_is_hang p hq hsm h op f hoo
    subst hf
    exact absurd rfl (Sync.C09_sync_no_hang p h _ hoo)
  | _ => rfl

end Props
end MiniMoka
