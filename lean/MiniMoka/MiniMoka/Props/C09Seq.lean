/-
  C09 (sequential part): every operation of `sync::Cache` driven by one thread returns.

  In the model (`MiniMoka/Sync.lean`) the only way not to return is the sticky fault
  `Fault.hang`, raised by `scheduleWriteOp` (the retry loop of `schedule_write_op`) when the
  write queue is still full after a maintenance attempt.  Proofs in `Lemmas/SyncQueues.lean`.

  PROVED here (machine-checked, for all parameters including all quirk switches, all
  histories of any length):
   * `C09_sync_no_hang`: no observation of any trace is `panic hang`;
   * `C09_sync_queues_bounded`: after any history no maintenance run is in progress, the
     write queue holds at most `WRITE_LOG_FLUSH_POINT` and the read queue at most
     `READ_LOG_FLUSH_POINT` operations; `C09_sync_snap_queues_bounded` is the same statement
     on the `snap` observations of a trace;
   * `C09_sync_insert_first_try` / `C09_sync_read_never_dropped`: in every reachable state
     `schedule_write_op` sends in its first iteration (after the maintenance it performs
     itself if due: both regimes of `should_apply`, "queue at the flush point" and "within
     the periodic-sync interval") and `record_read_op` never drops its operation;
   * `C09_sync_maintenance_empties`: a maintenance run leaves both queues empty.
  The only facts about the regenerated constants that the proofs use are
  `0 < WRITE_LOG_FLUSH_POINT < WRITE_LOG_SIZE` and `0 < READ_LOG_FLUSH_POINT < READ_LOG_SIZE`
  (by `decide`), and `syncLoop` being called with fuel `MAX_SYNC_REPEATS + 1 ≥ 1`.
  NOT covered here: several threads (another thread may hold `is_sync_running` while the
  queue is full; then `schedule_write_op` spins until that run ends: `Props/C09Conc.lean`).
-/
import MiniMoka.Lemmas.SyncQueues

namespace MiniMoka
namespace Sync

/-- No operation of a single-threaded history hangs: whatever the configuration (quirks
included) and the history, `Fault.hang` is never observed. -/
theorem C09_sync_no_hang (p : Params) (h : List Op) :
    ∀ oo ∈ Sync.trace p h, oo.2 ≠ Obs.panic Fault.hang :=
  run_no_hang p h qinv_init (by intro x; cases x)

/-- In every reachable state (faulted or not) no maintenance run is in progress and the
queues are at most at their flush points. -/
theorem C09_sync_queues_bounded (p : Params) (h : List Op) :
    (stateAfter p {} h).running = false ∧
    (stateAfter p {} h).writeQ.length ≤ Gen.WRITE_LOG_FLUSH_POINT ∧
    (stateAfter p {} h).readQ.length ≤ Gen.READ_LOG_FLUSH_POINT :=
  have hi := stateAfter_qinv p h qinv_init
  ⟨hi.running, hi.writeQ, hi.readQ⟩

theorem run_snap_bounded (p : Params) (h : List Op) : ∀ {s : SState}, QInv s →
    ∀ op sn, (op, Obs.snap sn) ∈ run p s h →
      sn.hkRunning = false ∧ sn.wq ≤ Gen.WRITE_LOG_FLUSH_POINT ∧
      sn.rq ≤ Gen.READ_LOG_FLUSH_POINT := by
  induction h with
  | nil => intro s _ op sn hoo; cases hoo
  | cons op0 rest ih =>
    intro s hs op sn hoo
    have hrun : run p s (op0 :: rest) = (op0, (step p s op0).2) :: run p (step p s op0).1 rest :=
      rfl
    rw [hrun] at hoo
    rcases List.mem_cons.mp hoo with heq | hmem
    · have hsn : Obs.snap sn = (step p s op0).2 := (Prod.mk.inj heq).2
      rw [step_snap p s op0 sn hsn.symm]
      exact ⟨hs.running, hs.writeQ, hs.readQ⟩
    · exact ih (step_qinv p hs op0).1 op sn hmem

/-- The same bound on the white-box snapshots of a trace. -/
theorem C09_sync_snap_queues_bounded (p : Params) (h : List Op) (op : Op) (sn : Snap)
    (hm : (op, Obs.snap sn) ∈ Sync.trace p h) :
    sn.hkRunning = false ∧ sn.wq ≤ Gen.WRITE_LOG_FLUSH_POINT ∧
    sn.rq ≤ Gen.READ_LOG_FLUSH_POINT :=
  run_snap_bounded p h qinv_init op sn hm

/-- In every reachable state, `schedule_write_op` (fuel 3 as in `insert` / `invalidate`; any
positive fuel) performs the pending maintenance if it is due and then sends at once. -/
theorem C09_sync_insert_first_try (p : Params) (h : List Op) (fuel : Nat) (op : WOp) :
    scheduleWriteOp p (fuel + 1) (stateAfter p {} h) op =
      { housekeepW p (stateAfter p {} h) with
        writeQ := (housekeepW p (stateAfter p {} h)).writeQ ++ [op] } :=
  scheduleWriteOp_enqueues p fuel (stateAfter_qinv p h qinv_init) op

/-- In every reachable state, `record_read_op` queues its operation (it is never dropped). -/
theorem C09_sync_read_never_dropped (p : Params) (h : List Op) (op : ROp) :
    recordReadOp p (stateAfter p {} h) op =
      { housekeepR p (stateAfter p {} h) with
        readQ := (housekeepR p (stateAfter p {} h)).readQ ++ [op] } :=
  recordReadOp_enqueues p (stateAfter_qinv p h qinv_init) op

/-- `Inner::sync` empties both queues and leaves the housekeeper's flag alone, in any state;
`Housekeeper::try_sync` entered with the flag clear returns with the flag clear. -/
theorem C09_sync_maintenance_empties (p : Params) (s : SState) :
    (syncRun p s).writeQ = [] ∧ (syncRun p s).readQ = [] ∧ (syncRun p s).running = s.running ∧
    (s.running = false →
      (trySync p s).writeQ = [] ∧ (trySync p s).readQ = [] ∧ (trySync p s).running = false) :=
  ⟨syncRun_writeQ p s, syncRun_readQ p s, syncRun_running p s,
   fun hr => ⟨(trySync_spec p s hr).writeQ, (trySync_spec p s hr).readQ,
     (trySync_spec p s hr).running⟩⟩

/-- `applyWrites p n` pops exactly `min n len` operations and leaves the flag alone. -/
theorem C09_sync_applyWrites_pops (p : Params) (n : Nat) (s : SState) :
    (applyWrites p n s).writeQ = s.writeQ.drop n ∧ (applyWrites p n s).running = s.running :=
  ⟨applyWrites_writeQ p n s, applyWrites_running p n s⟩

/-! ### non-vacuity -/

def isOk : Obs → Bool
  | .ok => true
  | _ => false

def isHang : Obs → Bool
  | .panic .hang => true
  | _ => false

/-- `n` inserts (new keys and updates: sixteen keys in turn, which keeps the kernel
evaluation of the examples short). -/
def burst (n : Nat) : List Op := (List.range n).map (fun i => Op.ins (i % 16) i)

/-- Outside the periodic-sync interval (`sync_after < now`): a burst that fills the write
queue to the flush point, one insert that runs the maintenance itself, a stretch inside the
interval where every insert runs it; then the same again.  No `sync` call anywhere. -/
def burstHistory : List Op :=
  [.adv Gen.PAST_SYNC_INTERVAL_NS] ++ burst 100 ++ [.adv Gen.PAST_SYNC_INTERVAL_NS] ++ burst 100

/-- Every one of the 200 inserts returns `ok`. -/
example : ((Sync.trace {} burstHistory).filter
    (fun oo => match oo.1 with | .ins _ _ => isOk oo.2 | _ => false)).length = 200 := by
  decide +kernel

/-- The bound of `C09_sync_queues_bounded` is attained: after the first `WRITE_LOG_FLUSH_POINT`
inserts outside the interval the write queue is exactly at the flush point, and after the next
one (which performs the maintenance) it holds that insert only. (Stated with the generated
constants, so that a retuning of the flush points re-evaluates the example instead of
breaking it.) -/
example : (stateAfter {} {} ([.adv Gen.PAST_SYNC_INTERVAL_NS] ++ burst Gen.WRITE_LOG_FLUSH_POINT)).writeQ.length
      = Gen.WRITE_LOG_FLUSH_POINT ∧
    (stateAfter {} {} ([.adv Gen.PAST_SYNC_INTERVAL_NS] ++ burst (Gen.WRITE_LOG_FLUSH_POINT + 1))).writeQ.length = 1 ∧
    (stateAfter {} {} burstHistory).writeQ.length ≤ Gen.WRITE_LOG_FLUSH_POINT ∧
    (stateAfter {} {} burstHistory).map.length = 16 := by
  decide +kernel

/-- Reads: 200 `get`s outside the interval never overflow the read queue either. -/
example : (stateAfter {} {} ([.adv Gen.PAST_SYNC_INTERVAL_NS] ++ (List.range 200).map Op.get)).readQ.length
      ≤ Gen.READ_LOG_FLUSH_POINT ∧
    (stateAfter {} {} ([.adv Gen.PAST_SYNC_INTERVAL_NS] ++ (List.range Gen.READ_LOG_FLUSH_POINT).map Op.get)).readQ.length
      = Gen.READ_LOG_FLUSH_POINT := by
  decide +kernel

/-- The fault is live: with a maintenance run in progress elsewhere (`running`) and a full
write queue, which single-threaded use never reaches, an insert does not return. -/
example : isHang (Sync.step {}
    { running := true, writeQ := List.replicate Gen.WRITE_LOG_SIZE (.remove 0 default) }
    (.ins 1 1)).2 = true := by
  decide +kernel

/-- Without the `running` flag the same full queue is drained by the insert itself. -/
example : isOk (Sync.step {}
    { writeQ := List.replicate Gen.WRITE_LOG_SIZE (.remove 0 default) } (.ins 1 1)).2 = true ∧
    (Sync.step {}
    { writeQ := List.replicate Gen.WRITE_LOG_SIZE (.remove 0 default) } (.ins 1 1)).1.writeQ.length
      = 1 := by
  decide +kernel

end Sync
end MiniMoka

section
open MiniMoka.Sync
#print axioms C09_sync_no_hang
#print axioms C09_sync_queues_bounded
#print axioms C09_sync_snap_queues_bounded
#print axioms C09_sync_insert_first_try
#print axioms C09_sync_read_never_dropped
#print axioms C09_sync_maintenance_empties
#print axioms C09_sync_applyWrites_pops
end
