/-
  C08 / C10 / C11 / C04 (count) for `sync::Cache` under all interleavings of any number of
  threads at the granularity of `MiniMoka/ConcM.lean`: maintenance runs are NOT atomic; the map
  steps and sends of other threads interleave between the application of two queued operations
  and between two iterations of the expiry / LRU eviction loops.  (What is still atomic: the
  map accesses of ONE queued operation inside `handle_upsert`, one iteration of an eviction
  loop; see the head of `ConcM.lean`.)

  PROVED in full, for every configuration of the current code (`NoQuirks`, `SmallSketch`) and
  every state reachable by any finite sequence of steps (`ConcM.Reach p c`):
   * `ConcM_run_is_syncRun` / `ConcM_run_is_trySync`: the micro-steps of a run executed back to
     back are `Sync.syncRun` / `Sync.trySync`; `ConcM_refines_ConcS`: every step of `ConcS` is a
     path of `ConcM`, every state reachable in `ConcS` is reachable in `ConcM`.
   * `ConcM_no_fault`: no reachable state is faulty: no dereference of a freed list node, no
     underflow of the run-local entry counter, no failed `expect`, whatever other threads do
     between the micro-steps of a run.
   * `ConcM_inv`: while a run is in progress the run-local invariant (`Safe`: node ownership with
     `cec = |access-order list|`, `MapOK`, and `CInv` for the logical queue
     `write queue ++ operations held by threads`), otherwise the invariant of `ConcS`
     (`NodesInvTop`, `CTop`, no run flag).
   * `ConcM_C10_quiescent`, `ConcM_C11_quiescent`: with no run in progress, no thread holding an
     operation and an empty write queue (resp. both queues empty): `snapCountersOk`, `liveOk`.
   * `ConcM_C04_overshoot`: always `|map| ≤ n + |write queue| + (threads holding a write)`, where
     `n` is the published `entry_count` when no run is in progress and the run-local one
     otherwise (in both cases the length of the access-order list).
  No interleaving at this granularity breaks an invariant on the current code.  With the switch
  `d7` on, `ConcM_counterexample_D7` is an interleaving (an `invalidate` by another thread
  between the start of a run and the application of the key's queued `Upsert`) that ends in a
  use-after-free.
-/
import MiniMoka.Lemmas.ConcM
import MiniMoka.Props.ConcS

namespace MiniMoka
namespace Props

open Sync Sync.Nodes Sync.Counters ConcS ConcM

/-! ### a run is `Inner::sync`; `ConcS` is contained in `ConcM` -/

/-- The micro-steps of an explicit run, executed back to back, are `Sync.syncRun`. -/
theorem ConcM_run_is_syncRun (p : Params) (s : SState) (t : Tid) (pd : List (Tid × Pend)) :
    ∃ evs, ConcM.runEvs p ⟨s, pd, none⟩ (.mBegin t true :: evs) = some ⟨syncRun p s, pd, none⟩ := by
  obtain ⟨evs, he⟩ := runEvs_of_mpath (run_is_syncRun p s) t pd
  exact ⟨evs, by simp only [ConcM.runEvs, ConcM.step]; exact he⟩

/-- The micro-steps of a housekeeping run, executed back to back, are `Sync.trySync`. -/
theorem ConcM_run_is_trySync (p : Params) (s : SState) (hr : s.running = false) (t : Tid)
    (pd : List (Tid × Pend)) :
    ∃ evs, ConcM.runEvs p ⟨s, pd, none⟩ (.mBegin t false :: evs) = some ⟨trySync p s, pd, none⟩ := by
  obtain ⟨evs, he⟩ := runEvs_of_mpath (run_is_trySync p s hr) t pd
  exact ⟨evs, by simp only [ConcM.runEvs, ConcM.step]; exact he⟩

/-- Every step of `ConcS` is a path of `ConcM` (atomic maintenance = a run with nothing in
between), hence every execution of `ConcS` is an execution of `ConcM`. -/
theorem ConcM_refines_ConcS (p : Params) :
    (∀ (c c' : CState) (e : ConcS.Ev), ConcS.step p c e = some c' →
      ∃ evs, ConcM.runEvs p (embed c) evs = some (embed c')) ∧
    (∀ c : CState, ConcS.Reach p c → ConcM.Reach p (embed c)) :=
  ⟨fun _ _ e hs => path_of_concS_step p e hs, fun _ h => reach_embed h⟩

/-! ### the invariant -/

/-- C08 for all interleavings with non-atomic maintenance: no reachable state is faulty. -/
theorem ConcM_no_fault (p : Params) (hq : Sync.NoQuirks p) (hsm : SmallSketch p) (c : MState)
    (hr : ConcM.Reach p c) : c.s.fault = none := by
  have h := minv_csinv (reach_minv hq hsm hr)
  have hf : (viewOf c).fault = c.s.fault := by
    unfold viewOf; cases c.run <;> rfl
  rw [← hf]; exact h.top.nofault

/-- … in particular no step out of a reachable state raises a fault. -/
theorem ConcM_no_fault_step (p : Params) (hq : Sync.NoQuirks p) (hsm : SmallSketch p)
    (c c' : MState) (hr : ConcM.Reach p c) (e : ConcM.Ev) (hs : ConcM.step p c e = some c') :
    c'.s.fault = none :=
  ConcM_no_fault p hq hsm c' (ConcM.Reach.step e hr hs)

/-- The invariant of the reachable states: between the micro-steps of a run the run-local
form, otherwise the invariant of `ConcS`. -/
theorem ConcM_inv (p : Params) (hq : Sync.NoQuirks p) (hsm : SmallSketch p) (c : MState)
    (hr : ConcM.Reach p c) :
    (∀ r, c.run = some r →
      Safe c.s ∧ NodesInv c.s ∧ MapOK c.s ∧
      CInv p c.s (c.s.writeQ ++ pendWrites c.pending) ∧
      (r.explicit = true → c.s.running = false)) ∧
    (c.run = none →
      NodesInvTop c.s ∧ MapOK c.s ∧ c.s.running = false ∧
      CTop p c.s (c.s.writeQ ++ pendWrites c.pending) ∧ CSInv p ⟨c.s, c.pending⟩) ∧
    c.s.writeQ.length ≤ Gen.WRITE_LOG_SIZE ∧ c.s.readQ.length ≤ Gen.READ_LOG_SIZE := by
  have h := reach_minv hq hsm hr
  unfold MInv at h
  cases hrun : c.run with
  | none =>
    rw [hrun] at h
    exact ⟨fun r hx => (by cases hx),
      fun _ => ⟨h.top.nodes, h.top.map, h.running, h.cinv, h⟩, h.wq, h.rq⟩
  | some r =>
    rw [hrun] at h
    have hri := rinv_of_view h.1
    refine ⟨fun r' hx => ?_, fun hx => (by cases hx), hri.wq, hri.rq⟩
    have e := Option.some.inj hx
    subst e
    exact ⟨hri.run.safe, hri.run.safe.toNodesInv, hri.run.map, hri.cinv, h.2⟩

/-! ### quiescent states -/

/-- C10 with non-atomic maintenance: no run in progress, no thread holding an operation, empty
write queue: the published counters are exact. -/
theorem ConcM_C10_quiescent (p : Params) (hq : Sync.NoQuirks p) (hsm : SmallSketch p)
    (c : MState) (hr : ConcM.Reach p c) (hrun : c.run = none) (hp : c.pending = [])
    (hw : c.s.writeQ = []) : Spec.snapCountersOk p.weigh (Sync.snapshot p c.s) = true := by
  have h := reach_minv hq hsm hr
  unfold MInv at h
  rw [hrun] at h
  rw [snapCountersOk_readQ]
  exact sync_snapshot_counters (csinv_quiescent_tinv (c := ⟨c.s, c.pending⟩) h hp hw) hw

/-- C11 with non-atomic maintenance: no run in progress and no thread holding an operation:
`liveOk` (with both queues empty, live keys = live values = entries). -/
theorem ConcM_C11_quiescent (p : Params) (hq : Sync.NoQuirks p) (hsm : SmallSketch p)
    (c : MState) (hr : ConcM.Reach p c) (hrun : c.run = none) (hp : c.pending = []) :
    Spec.liveOk (Sync.snapshot p c.s) = true := by
  have h := reach_minv hq hsm hr
  unfold MInv at h
  rw [hrun] at h
  by_cases hqz : ((Sync.snapshot p c.s).rq == 0 && (Sync.snapshot p c.s).wq == 0) = true
  · have hrq : c.s.readQ = [] := by
      have : c.s.readQ.length = 0 := by
        have := (Bool.and_eq_true _ _ ▸ hqz).1
        simpa [Sync.snapshot] using this
      exact List.eq_nil_of_length_eq_zero this
    have hwq : c.s.writeQ = [] := by
      have : c.s.writeQ.length = 0 := by
        have := (Bool.and_eq_true _ _ ▸ hqz).2
        simpa [Sync.snapshot] using this
      exact List.eq_nil_of_length_eq_zero this
    have ht : TInv p c.s [] := by
      refine ⟨h.top, ⟨h.running, ?_, ?_⟩, ?_⟩
      · rw [hwq]; exact Nat.zero_le _
      · rw [hrq]; exact Nat.zero_le _
      · have h1 := h.cinv
        simp only [hp] at h1
        exact h1
    exact sync_snapshot_liveOk ht
  · unfold Spec.liveOk
    have : ((Sync.snapshot p c.s).rq == 0 && (Sync.snapshot p c.s).wq == 0) = false := by
      cases hx : ((Sync.snapshot p c.s).rq == 0 && (Sync.snapshot p c.s).wq == 0) with
      | false => rfl
      | true => exact absurd hx hqz
    rw [this]; rfl

/-- C04 (count) with non-atomic maintenance: the map never holds more entries than the entry
counter (the run-local one while a run is in progress) plus the queued writes plus one per
thread holding a write operation. -/
theorem ConcM_C04_overshoot (p : Params) (hq : Sync.NoQuirks p) (hsm : SmallSketch p)
    (c : MState) (hr : ConcM.Reach p c) :
    c.s.map.length ≤ (match c.run with | none => c.s.ec | some _ => c.s.cec)
      + c.s.writeQ.length + (pendWrites c.pending).length ∧
    c.s.map.length ≤ c.s.prob.length + c.s.writeQ.length + (pendWrites c.pending).length := by
  have h := minv_csinv (reach_minv hq hsm hr)
  have h1 := csinv_map_length_le h
  have h2 := h.top.nodes.count
  unfold viewOf at h1 h2
  cases hrun : c.run with
  | none =>
    rw [hrun] at h1 h2
    dsimp only at h1 h2 ⊢
    exact ⟨h1, by rw [← h2]; exact h1⟩
  | some r =>
    rw [hrun] at h1 h2
    dsimp only at h1 h2 ⊢
    have e1 : (view c.s).ec = c.s.cec := rfl
    have e2 : (view c.s).map = c.s.map := rfl
    have e3 : (view c.s).writeQ = c.s.writeQ := rfl
    have e4 : (view c.s).prob = c.s.prob := rfl
    rw [e1, e2, e3] at h1
    rw [e1, e4] at h2
    exact ⟨h1, by rw [← h2]; exact h1⟩

/-! ### machine-checked interleavings -/

/-- `n` micro-steps of thread 9. -/
def mSteps (n : Nat) : List ConcM.Ev := List.replicate n (.mStep 9)

/-- `(run phase, map as (key, value), [keys of the access-order list,
[entry_count, weighted_size, run-local count, run-local size], [|write queue|, faults]])`. -/
def cmSummary (p : Params) (evs : List ConcM.Ev) :
    Option (Option Phase × List (Nat × Nat) × List (List Nat)) :=
  (ConcM.runEvs p {} evs).map fun c =>
    (c.run.map (·.phase), c.s.map.map (fun (kv : Nat × VE) => (kv.1, kv.2.val)),
     [c.s.prob.map (·.key), [c.s.ec, c.s.ws, c.s.cec, c.s.cws],
      [c.s.writeQ.length, if c.s.fault.isNone then 0 else 1]])

/-- Weigher = value, no capacity limit. -/
def cmParams : Params := { hasWeigher := true, w := fun _ v => v }

/-- Key 1 is resident.  The queue holds an update of key 1 and the insert of key 2; a run starts
and applies the update; *before it applies the next operation* thread 2 invalidates key 1 and
sends the `Remove`, and thread 3 re-inserts key 1 (a new generation: fresh info) and sends its
`Upsert`.  The run applies the insert of key 2 and ends; the next run (an explicit `sync`)
applies the `Remove` (detaching the old generation's node) and admits the new generation. -/
def reinsertInterleaving : List ConcM.Ev :=
  [.other (.insMap 1 1 1), .other (.enq 1), .mBegin 9 false] ++ mSteps 5 ++
  [.other (.insMap 1 1 2), .other (.enq 1), .other (.insMap 1 2 3), .other (.enq 1),
   .mBegin 9 false, .mStep 9, .mStep 9,
   .other (.invMap 2 1), .other (.enq 2), .other (.insMap 3 1 5), .other (.enq 3)] ++ mSteps 4 ++
  [.mBegin 9 true] ++ mSteps 6

/-- Between the two `mWrite` steps: the update has been applied to the old generation
(run-local size 2), the map already holds the new generation `(1, 5)`, the access-order list
still holds the old generation's node. -/
example : cmSummary cmParams (reinsertInterleaving.take 19)
    = some (some (.writes Gen.MAX_SYNC_REPEATS 1), [(2, 3), (1, 5)], [[1], [1, 1, 1, 2], [3, 0]]) := by
  decide +kernel

/-- At the end: both keys resident and admitted, counters exact. -/
example : cmSummary cmParams reinsertInterleaving
    = some (none, [(2, 3), (1, 5)], [[2, 1], [2, 8, 2, 8], [0, 0]]) ∧
    (ConcM.runEvs cmParams {} reinsertInterleaving).map (fun c =>
      Spec.snapCountersOk cmParams.weigh (Sync.snapshot cmParams c.s)) = some true := by
  decide +kernel

/-- Capacity 3, weigher = value. -/
def cmParams3 : Params := { cap := some 3, hasWeigher := true, w := fun _ v => v }

/-- Keys 1, 2, 3 (weight 1 each) fill the cache; key 3 is updated to weight 4, so the next run
has to evict 3.  After the first iteration of the LRU loop (key 1 evicted) thread 2 updates
key 2 (its info becomes dirty); the second iteration skips key 2 (moved to the back), the third
evicts key 3.  The update of key 2 is applied by the following run. -/
def lruInterleaving : List ConcM.Ev :=
  [.other (.insMap 1 1 1), .other (.enq 1), .other (.insMap 1 2 1), .other (.enq 1),
   .other (.insMap 1 3 1), .other (.enq 1), .mBegin 9 false] ++ mSteps 7 ++
  [.other (.insMap 1 3 4), .other (.enq 1), .mBegin 9 false] ++ mSteps 5 ++
  [.other (.insMap 2 2 2)] ++ mSteps 4 ++ [.other (.enq 2), .mBegin 9 false] ++ mSteps 5

/-- In the middle of the LRU loop, right after thread 2's update: one iteration done (evicted
weight 1 of 3), key 2 holds its new value. -/
example : cmSummary cmParams3 (lruInterleaving.take 23)
    = some (some (.lru (Gen.SYNC_EVICTION_BATCH_SIZE - 1) 3 1), [(2, 2), (3, 4)],
        [[2, 3], [3, 3, 2, 5], [0, 0]]) := by
  decide +kernel

example : cmSummary cmParams3 lruInterleaving
    = some (none, [(2, 2)], [[2], [1, 2, 1, 2], [0, 0]]) ∧
    (ConcM.runEvs cmParams3 {} lruInterleaving).map (fun c =>
      Spec.snapCountersOk cmParams3.weigh (Sync.snapshot cmParams3 c.s)) = some true := by
  decide +kernel

/-! ### the defect D7 under interleaving -/

/-- Capacity 2, weigher = value. -/
def cmParams7 (q : Quirks) : Params :=
  { cap := some 2, hasWeigher := true, w := fun _ v => v, q := q }

/-- The `Upsert` of key 1 is queued and a run has started (it has read the queue length) when
thread 2 invalidates key 1 (and keeps holding the `Remove`).  With `d7` the run admits the
entry although it has left the map: a node for key 1 that no map entry owns.  Key 1 is inserted
again and admitted (second node for key 1), key 3 is made popular (one queued miss) and
inserted with weight 2: the admission scan selects both nodes of key 1 as victims; removing the
first *by key* frees the node of the second, which is dereferenced next. -/
def d7Interleaving : List ConcM.Ev :=
  [.other (.insMap 1 1 1), .other (.enq 1), .mBegin 9 false, .mStep 9, .other (.invMap 2 1)] ++
  mSteps 4 ++
  [.other (.insMap 1 1 1), .other (.enq 1), .other (.getMap 3 3), .other (.enq 3),
   .mBegin 9 false] ++ mSteps 6 ++
  [.other (.insMap 1 3 2), .other (.enq 1), .mBegin 9 false] ++ mSteps 2

/-- With the switch `d7` on, the interleaving ends in a use-after-free. -/
theorem ConcM_counterexample_D7 :
    (ConcM.runEvs (cmParams7 { d7 := true }) {} d7Interleaving).map (fun c => c.s.fault)
      = some (some .useAfterFree) ∧
    -- just before the faulting step: two nodes for key 1
    (ConcM.runEvs (cmParams7 { d7 := true }) {} (d7Interleaving.take 24)).map
      (fun c => (c.s.prob.map (·.key), c.s.fault)) = some ([1, 1], none) := by
  decide +kernel

/-- On the current code the same interleaving raises no fault: the run does not admit the
entry that has left the map (`isCurrentEntry`). -/
example : (ConcM.runEvs (cmParams7 {}) {} d7Interleaving).map
    (fun c => (c.s.prob.map (·.key), c.s.fault)) = some ([1], none) := by
  decide +kernel

/-- The theorems apply to these paths. -/
example : ∀ c, ConcM.runEvs cmParams3 {} lruInterleaving = some c → c.s.fault = none := by
  intro c hc
  exact ConcM_no_fault cmParams3 rfl
    ⟨fun cap hcap => (by cases hcap; decide +kernel),
     fun _ _ _ => (by show Sketch.sketchCapacity 0 ≤ 2 ^ 27; decide +kernel)⟩ c
    (ConcM.reach_of_runEvs _ _ _ ConcM.Reach.init hc)

end Props
end MiniMoka

namespace MiniMoka.Props
#print axioms ConcM_run_is_syncRun
#print axioms ConcM_run_is_trySync
#print axioms ConcM_refines_ConcS
#print axioms ConcM_no_fault
#print axioms ConcM_no_fault_step
#print axioms ConcM_inv
#print axioms ConcM_C10_quiescent
#print axioms ConcM_C11_quiescent
#print axioms ConcM_C04_overshoot
#print axioms ConcM_counterexample_D7
end MiniMoka.Props
