/-
  C02 for every interleaving of the detailed many-thread model: **every execution of `ConcS`
  (`MiniMoka/ConcS.lean`: per-key map steps, atomic maintenance runs, enqueues, any number of
  threads) projects to an execution that model R (`MiniMoka/ConcR.lean`) accepts**, so the
  C02 theorems of `Props/C02.lean`, proved for all executions of R, hold for every
  interleaving of ConcS at this granularity.  Lemmas: `MiniMoka/Lemmas/ConcSRefinesR.lean`.

  The projection (`ConcSR.projEvs p evs`, a fold over the path; the id of an operation is the
  position of its map-step event in `evs`):
    insMap t k v ↦ invoke t o (ins k v), mapStep o
    invMap t k   ↦ invoke t o (del k), mapStep o      (+ respond o none if nothing was found:
                   the thread then holds no operation and the call returns at once)
    getMap t k   ↦ invoke t o (get k), mapStep o      (the result is decided here)
    maint / sync ↦ daemon d for exactly the keys d that the run deletes (`SyncR.delKeys`)
    enq t        ↦ respond o r for the operation t holds: r = what its `getMap` decided
                   (`ConcS.lookup`), `none` for ins / del
    tick, invAll ↦ nothing
  `CState` does not record ids and decided results; the fold carries them in a ghost component
  (`ConcSR.Ghost`).  A thread that never enqueues leaves an operation with invoke and mapStep
  but no response; R allows that (`ConcR.WF` only asks that the fold accepts).

  Hypotheses: `Sync.NoQuirks p` only (the frame lemmas of maintenance need it).  Neither
  `SmallSketch` nor the ConcS invariant is used: ConcS steps do not consult the fault flag, and
  the one fact about states that the proof needs, distinct keys in the map, is preserved by
  every step (`ConcSR.step_kn`).

  What this does and does not cover: as in `ConcS.lean`, a maintenance run is atomic with
  respect to the map steps of other threads; the theorems speak about that granularity.
-/
import MiniMoka.Lemmas.ConcSRefinesR
import MiniMoka.Props.C02

namespace MiniMoka
namespace Props

open ConcR (Tid Oid Key Val lookup)
open SyncR ConcSR

/-- **ConcS refines R.**  For every path `evs` of ConcS from the empty cache (current code):
the projected event list is accepted by R from `State.init` (it is `ConcR.WF`), ends in a
map with the lookups of `absMap` of the final ConcS state, and its calls (`SyncR.callsOf`:
instance, thread, operation as `ConcR.opOf` gives it, returned value of every `respond`, in
order) are the calls of the path (`ConcSR.callsC`: what each `enq` — or `invMap` that finds
nothing — returns), each of which returns exactly what its map step decided
(`ConcSR.decidedC`: per map-step event, position, thread, operation and the result,
`(ConcS.lookup p c.s k).2` in the state `c` of the `getMap`, `none` for `insMap`/`invMap`). -/
theorem ConcS_refines_R (p : Params) (hq : Sync.NoQuirks p) {evs : List ConcS.Ev}
    {c : ConcS.CState} (hrun : ConcS.runEvs p {} evs = some c) :
    ∃ a', ConcR.run (projEvs p evs) = some a' ∧
      KVEq a'.map (absMap c.s) ∧
      ConcR.WF (projEvs p evs) ∧
      callsOf (projEvs p evs) = callsC p evs ∧
      (∀ y ∈ callsC p evs, y ∈ decidedC p evs) := by
  obtain ⟨a', h1, h2, _⟩ := projFrom_refines hq evs ConcR.State.init {} c {} rel_init
    List.nodup_nil hrun
  refine ⟨a', h1, h2.map, ConcR.WF_iff.2 ⟨a', h1⟩, ?_, ?_⟩
  · have := callsOf_projFrom p evs {} {} [] preOk_init
    rw [List.nil_append] at this
    exact this
  · intro y hy
    have := callsFrom_decided p evs {} {} [] (fun _ hx => by cases hx) y hy
    rw [List.nil_append] at this
    exact this

theorem ConcS_projection_WF (p : Params) (hq : Sync.NoQuirks p) {evs : List ConcS.Ev}
    {c : ConcS.CState} (hrun : ConcS.runEvs p {} evs = some c) : ConcR.WF (projEvs p evs) := by
  obtain ⟨_, _, _, h, _⟩ := ConcS_refines_R p hq hrun
  exact h

/-- Instance `o` of the projection is the per-key map step at position `o` of the path. -/
theorem ConcS_opOf (p : Params) {evs : List ConcS.Ev} {c : ConcS.CState}
    (hrun : ConcS.runEvs p {} evs = some c) (o : Nat) :
    ConcR.opOf (projEvs p evs) o = (evs[o]?).bind mapEvOp := by
  have := opOf_projFrom p evs {} c {} o hrun
  simpa [projEvs] using this

/-- **C02 (read-from) for every interleaving of ConcS.**  If in a path `evs` the `get k` whose
map step is event `g` (thread `t`) returned `some v` — `(g, t, get k, some v)` is one of the
calls of the path — then event `g` is `getMap t k`, and there is an earlier event `w < g`,
`insMap tw k v`, such that
  * no event strictly between positions `w` and `g` is an `insMap _ k _` or an `invMap _ k`;
  * in the projected execution `E`, no write of `k` at all — no map step of an `ins k _` /
    `del k` and no `daemon k`, i.e. no deletion of `k` by a maintenance run — lies strictly
    between the map steps of `w` and `g` (`ConcR.NoWriteIn`, see `ConcR.writesKey_spec`).
(A `get` that returns `none` is always allowed: the key may have been deleted, or the lookup
filtered an expired entry.) -/
theorem C02_for_ConcS_read_from (p : Params) (hq : Sync.NoQuirks p) {evs : List ConcS.Ev}
    {c : ConcS.CState} (hrun : ConcS.runEvs p {} evs = some c)
    {g : Nat} {t : Tid} {k : Key} {v : Val}
    (hret : (g, t, ConcR.Op.get k, some v) ∈ callsC p evs) :
    evs[g]? = some (.getMap t k) ∧
    ∃ w tw, w < g ∧ evs[w]? = some (.insMap tw k v) ∧
      (∀ m, w < m → m < g → ∀ t', (∀ v', evs[m]? ≠ some (.insMap t' k v')) ∧
        evs[m]? ≠ some (.invMap t' k)) ∧
      ∃ i j, i < j ∧ (projEvs p evs)[i]? = some (.mapStep w) ∧
        (projEvs p evs)[j]? = some (.mapStep g) ∧
        ConcR.NoWriteIn (projEvs p evs) k (i + 1) j := by
  obtain ⟨a', hr, _, hwf, hcalls, _⟩ := ConcS_refines_R p hq hrun
  rw [← hcalls] at hret
  obtain ⟨hresp, hop⟩ := mem_callsOf hret
  have hopC := ConcS_opOf p hrun
  -- the event `g`
  have hg : evs[g]? = some (.getMap t k) := by
    have h := hop
    rw [hopC g] at h
    cases he : evs[g]? with
    | none => rw [he] at h; cases h
    | some e => rw [he] at h; rw [mapEvOp_get h]
  refine ⟨hg, ?_⟩
  -- positions in the projected execution
  obtain ⟨a, ha⟩ := List.mem_iff_getElem?.1 hresp
  obtain ⟨j, _, hj⟩ := ConcR.respond_after_mapStep hr ha
  obtain ⟨i, w, tw, hij, hi, hw, hnw⟩ := ConcR.C02_read_from hwf hj hop hresp
  have hsorted := (stepOids_projFrom_sorted p evs {} {}).2
  have hwg : w < g := pairwise_stepOids_pos hsorted hij hi hj
  have hwe : evs[w]? = some (.insMap tw k v) := by
    have h := hw
    rw [hopC w] at h
    cases he : evs[w]? with
    | none => rw [he] at h; cases h
    | some e => rw [he] at h; rw [mapEvOp_ins h]
  refine ⟨w, tw, hwg, hwe, ?_, i, j, hij, hi, hj, hnw⟩
  -- no insMap / invMap on `k` in between
  intro m hwm hmg t'
  have key : ∀ (e : ConcS.Ev) (rop : ConcR.Op), evs[m]? = some e → mapEvOp e = some (t', rop) →
      ((∃ v', rop = .ins k v') ∨ rop = .del k) → False := by
    intro e rop he hme hrop
    have hopm : ConcR.opOf (projEvs p evs) m = some (t', rop) := by rw [hopC m, he]; exact hme
    have hmem : m ∈ ConcR.stepOids (projEvs p evs) := by
      refine (mem_stepOids_projFrom p evs {} c {} m hrun).2 ⟨Nat.zero_le _, ?_⟩
      show ((evs[m - 0]?).bind mapEvOp).isSome = true
      rw [Nat.sub_zero, he]; show (mapEvOp e).isSome = true; rw [hme]; rfl
    obtain ⟨q, hq'⟩ := List.mem_iff_getElem?.1 (ConcR.mem_stepOids.1 hmem)
    have hiq : i < q := by
      rcases Nat.lt_trichotomy i q with h | h | h
      · exact h
      · subst h; rw [hi] at hq'; cases hq'; omega
      · have hlt : m < w := pairwise_stepOids_pos hsorted h hq' hi
        omega
    have hqj : q < j := by
      rcases Nat.lt_trichotomy q j with h | h | h
      · exact h
      · subst h; rw [hj] at hq'; cases hq'; omega
      · have hlt : g < m := pairwise_stepOids_pos hsorted h hj hq'
        omega
    have hfalse := hnw q (by omega) hqj _ hq'
    have htrue : ConcR.writesKey (projEvs p evs) (.mapStep m) k = true := by
      rw [ConcR.writesKey_spec]
      refine Or.inr ⟨m, t', rfl, ?_⟩
      rcases hrop with ⟨v', rfl⟩ | rfl
      · exact Or.inl ⟨v', hopm⟩
      · exact Or.inr hopm
    rw [htrue] at hfalse
    cases hfalse
  exact ⟨fun v' he => key _ _ he rfl (Or.inl ⟨v', rfl⟩), fun he => key _ _ he rfl (Or.inr rfl)⟩

/-- **C02 (not superseded) for every interleaving of ConcS.**  If moreover an `insMap _ k _` /
`invMap _ k` (event `u`) returned — its response is at position `a` of the projected
execution — before the `get` was invoked (position `b > a`), then `u` is not after the write
`w` that the `get` read from: `u ≤ w`.  A get never returns a value superseded by an operation
on the same key that completed before the get began. -/
theorem C02_for_ConcS_not_superseded (p : Params) (hq : Sync.NoQuirks p) {evs : List ConcS.Ev}
    {c : ConcS.CState} (hrun : ConcS.runEvs p {} evs = some c)
    {g : Nat} {t : Tid} {k : Key} {v : Val}
    (hret : (g, t, ConcR.Op.get k, some v) ∈ callsC p evs)
    {u : Nat} {tu : Tid} {a b : Nat} {x : Option Val}
    (hu : (∃ v', evs[u]? = some (.insMap tu k v')) ∨ evs[u]? = some (.invMap tu k))
    (hures : (projEvs p evs)[a]? = some (.respond u x))
    (hginv : (projEvs p evs)[b]? = some (.invoke t g (.get k))) (hab : a < b) :
    ∃ w tw, w < g ∧ evs[w]? = some (.insMap tw k v) ∧ u ≤ w := by
  obtain ⟨a', hr, _, hwf, hcalls, _⟩ := ConcS_refines_R p hq hrun
  rw [← hcalls] at hret
  obtain ⟨hresp, hop⟩ := mem_callsOf hret
  have hopC := ConcS_opOf p hrun
  obtain ⟨ar, har⟩ := List.mem_iff_getElem?.1 hresp
  obtain ⟨j, _, hj⟩ := ConcR.respond_after_mapStep hr har
  obtain ⟨pu, _, hpu⟩ := ConcR.respond_after_mapStep hr hures
  have hsorted := (stepOids_projFrom_sorted p evs {} {}).2
  -- the R operation of `u`
  obtain ⟨opu, hopu, hk⟩ : ∃ opu, ConcR.opOf (projEvs p evs) u = some (tu, opu) ∧
      ((∃ v', opu = .ins k v') ∨ opu = .del k) := by
    rcases hu with ⟨v', he⟩ | he
    · exact ⟨.ins k v', by rw [hopC u, he]; rfl, Or.inl ⟨v', rfl⟩⟩
    · exact ⟨.del k, by rw [hopC u, he]; rfl, Or.inr rfl⟩
  obtain ⟨i, w, tw, hij, hi, hw, _, hle⟩ :=
    ConcR.C02_not_superseded hwf hj hop hresp hopu hk hures hginv hab hpu
  have hwg : w < g := pairwise_stepOids_pos hsorted hij hi hj
  have hwe : evs[w]? = some (.insMap tw k v) := by
    have h := hw
    rw [hopC w] at h
    cases he : evs[w]? with
    | none => rw [he] at h; cases h
    | some e => rw [he] at h; rw [mapEvOp_ins h]
  refine ⟨w, tw, hwg, hwe, ?_⟩
  rcases Nat.lt_or_eq_of_le hle with h | h
  · exact Nat.le_of_lt (pairwise_stepOids_pos hsorted h hpu hi)
  · subst h; rw [hi] at hpu; cases hpu; exact Nat.le_refl _

/-- **C02 (final state) for every interleaving of ConcS.**  At the end of a path, for each key
`k`: (1) if the map of the final state holds `v` for `k`, then `v` was written by an
`insMap _ k v` (event `w`) after whose map step the projected execution has no write of `k`
(no later `ins k _` / `del k` map step, no deletion of `k` by maintenance); (2) if a deletion
of `k` (a `daemon k` or the map step of a `del k`) is followed by no `ins k _` map step, the
final map does not hold `k`. -/
theorem C02_for_ConcS_final (p : Params) (hq : Sync.NoQuirks p) {evs : List ConcS.Ev}
    {c : ConcS.CState} (hrun : ConcS.runEvs p {} evs = some c) (k : Key) :
    (∀ v, lookup (absMap c.s) k = some v →
      ∃ i w tw, (projEvs p evs)[i]? = some (.mapStep w) ∧ evs[w]? = some (.insMap tw k v) ∧
        ConcR.NoWriteIn (projEvs p evs) k (i + 1) (projEvs p evs).length) ∧
    (∀ (m : Nat) (e : ConcR.Ev), (projEvs p evs)[m]? = some e →
      (e = .daemon k ∨ ∃ d td, e = .mapStep d ∧ evs[d]? = some (.invMap td k)) →
      (∀ (m' : Nat) w tw v, m < m' → (projEvs p evs)[m']? = some (.mapStep w) →
        evs[w]? ≠ some (.insMap tw k v)) →
      lookup (absMap c.s) k = none) := by
  obtain ⟨a', hr, hm, _, _, _⟩ := ConcS_refines_R p hq hrun
  have hopC := ConcS_opOf p hrun
  obtain ⟨h1, h2⟩ := ConcR.C02_final hr k
  constructor
  · intro v hv
    rw [← hm k] at hv
    obtain ⟨i, w, tw, hi, hw, hnw⟩ := h1 v hv
    refine ⟨i, w, tw, hi, ?_, hnw⟩
    rw [hopC w] at hw
    cases he : evs[w]? with
    | none => rw [he] at hw; cases hw
    | some e => rw [he] at hw; rw [mapEvOp_ins hw]
  · intro m e hme hdel hlast
    rw [← hm k]
    refine h2 m e hme ?_ ?_
    · rcases hdel with h | ⟨d, td, h, hd⟩
      · exact Or.inl h
      · exact Or.inr ⟨d, td, h, by rw [hopC d, hd]; rfl⟩
    · intro m' w tw v hmm' hw hopw
      refine hlast m' w tw v hmm' hw ?_
      rw [hopC w] at hopw
      cases he : evs[w]? with
      | none => rw [he] at hopw; cases hopw
      | some e' => rw [he] at hopw; rw [mapEvOp_ins hopw]

/-! ## Examples -/

/-- Two threads race on key 7: both map steps precede both enqueues, thread 2's value wins
the map, its operation is queued first; maintenance; a third thread reads. -/
def raceEvs : List ConcS.Ev :=
  [.insMap 1 7 1, .insMap 2 7 2, .enq 2, .enq 1, .maint 3, .getMap 3 7, .enq 3]

example : projEvs {} raceEvs =
    [.invoke 1 0 (.ins 7 1), .mapStep 0, .invoke 2 1 (.ins 7 2), .mapStep 1,
     .respond 1 none, .respond 0 none,
     .invoke 3 5 (.get 7), .mapStep 5, .respond 5 (some 2)] := by
  decide +kernel

/-- The path is enabled, the get returns 2, R accepts the projection and ends with the map of
the final ConcS state. -/
example : (ConcS.runEvs {} {} raceEvs).isSome = true ∧
    callsC {} raceEvs =
      [(1, 2, .ins 7 2, none), (0, 1, .ins 7 1, none), (5, 3, .get 7, some 2)] ∧
    ConcR.WF (projEvs {} raceEvs) ∧
    (ConcR.run (projEvs {} raceEvs)).map (·.map) =
      (ConcS.runEvs {} {} raceEvs).map (fun c => absMap c.s) ∧
    (ConcS.runEvs {} {} raceEvs).map (fun c => absMap c.s) = some [(7, 2)] := by
  decide +kernel

/-- The theorems apply: the get read thread 2's insert (event 1). -/
example : ∃ w tw, w < 5 ∧ raceEvs[w]? = some (.insMap tw 7 2) := by
  obtain ⟨c, hc⟩ := Option.isSome_iff_exists.1
    (show (ConcS.runEvs {} {} raceEvs).isSome = true by decide +kernel)
  obtain ⟨_, w, tw, h1, h2, _⟩ := C02_for_ConcS_read_from {} rfl hc (g := 5) (t := 3) (k := 7)
    (v := 2) (by decide +kernel)
  exact ⟨w, tw, h1, h2⟩

/-- Capacity 1 with a weigher. -/
def raceP : Params := { cap := some 1, hasWeigher := true, w := fun _ v => v }

/-- A get that overlaps a maintenance run: thread 3 reads key 2 (`getMap`, result `some 1`),
then a maintenance run rejects key 2 (`daemon 2`), then thread 3's call returns `some 1`: the
response carries what the map step read.  At the end thread 3 holds a second get and thread 1
an insert (invoke and map step, no response yet); the `invMap 1 5` finds nothing and returns
at once. -/
def overlapEvs : List ConcS.Ev :=
  [.insMap 1 1 1, .enq 1, .maint 1, .insMap 2 2 1, .getMap 3 2, .enq 2, .maint 2, .enq 3,
   .getMap 3 2, .invMap 1 5, .insMap 1 1 4]

example : projEvs raceP overlapEvs =
      [.invoke 1 0 (.ins 1 1), .mapStep 0, .respond 0 none,
       .invoke 2 3 (.ins 2 1), .mapStep 3, .invoke 3 4 (.get 2), .mapStep 4, .respond 3 none,
       .daemon 2, .respond 4 (some 1),
       .invoke 3 8 (.get 2), .mapStep 8,
       .invoke 1 9 (.del 5), .mapStep 9, .respond 9 none,
       .invoke 1 10 (.ins 1 4), .mapStep 10] ∧
    ConcR.WF (projEvs raceP overlapEvs) ∧
    callsC raceP overlapEvs =
      [(0, 1, .ins 1 1, none), (3, 2, .ins 2 1, none), (4, 3, .get 2, some 1),
       (9, 1, .del 5, none)] ∧
    decidedC raceP overlapEvs =
      [(0, 1, .ins 1 1, none), (3, 2, .ins 2 1, none), (4, 3, .get 2, some 1),
       (8, 3, .get 2, none), (9, 1, .del 5, none), (10, 1, .ins 1 4, none)] ∧
    (ConcR.run (projEvs raceP overlapEvs)).map (·.map) = some [(1, 4)] ∧
    (ConcS.runEvs raceP {} overlapEvs).map (fun c => (absMap c.s, c.pending.map (·.1))) =
      some ([(1, 4)], [3, 1]) := by
  decide +kernel

/-- R is not vacuous here: it rejects the same trace with the stale get answering a value
that the map never held for key 2. -/
example : ¬ ConcR.WF
    [.invoke 1 0 (.ins 1 1), .mapStep 0, .respond 0 none,
     .invoke 2 3 (.ins 2 1), .mapStep 3, .invoke 3 4 (.get 2), .mapStep 4, .respond 3 none,
     .daemon 2, .respond 4 (some 9)] := by
  decide +kernel

#print axioms ConcS_refines_R
#print axioms ConcS_projection_WF
#print axioms ConcS_opOf
#print axioms C02_for_ConcS_read_from
#print axioms C02_for_ConcS_not_superseded
#print axioms C02_for_ConcS_final

end Props
end MiniMoka
