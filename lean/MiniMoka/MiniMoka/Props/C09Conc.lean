/-
  C09 (concurrent part): no deadlock / livelock from locks in `sync::Cache`.
  Final theorems only; model in `MiniMoka/ConcL.lean`, proofs in `Lemmas/ConcL.lean`.

  PROVED here (machine-checked):
   * generic, for any lock type with ranks, any number `n` of threads, all interleavings:
     `C09_no_deadlock_generic`, `C09_runs_bounded_generic`, `C09_all_return_generic`;
   * the checker accepts the table (`C09_table_ok`, by kernel `decide`) and is sound
     (`Lemmas/ConcL.check_sound`), hence the instances `C09_no_deadlock`,
     `C09_runs_bounded`, `C09_all_return` for systems of threads running any sequences of
     the table's operations with any lock instances;
   * `C09_flag_released`.
  TRUSTED (transcribed by reading the Rust source, to be audited against the lock sites
  listed row by row in `ConcL.lean`): the table `ConcL.table` itself, and the
  simplifications stated at the top of `ConcL.lean` (RwLock as exclusive lock; channel
  operations and atomics never block; user callbacks — `Clone`/`Hash`/`Eq`/`Drop` of
  keys and values, the weigher — do not call back into the cache; no thread holds an
  `Iter` while calling other cache operations).
  NOT covered: termination of the `schedule_write_op` retry loop as a matter of channel
  capacity (that is `C09_sync_terminates` on the sequential model); here that loop is a
  finite but arbitrary number of rounds, each of which holds no lock at its end.
-/
import MiniMoka.Lemmas.ConcL

namespace MiniMoka.ConcL

/-- Generic no-deadlock theorem. `n` threads (any `n`) run code trees that respect the
discipline `CodeWf` for an arbitrary rank function on locks: (i) a blocking acquire is of
a lock of rank strictly greater than every lock held, (ii) try-acquires never block,
(iii) releases are of held locks and a finished thread holds nothing. Then in every
reachable state (all interleavings) in which some thread has not finished, some thread
can take a step. -/
theorem C09_no_deadlock_generic {L : Type} [DecidableEq L] (rank : L → Nat) (n : Nat)
    (s0 s : State L)
    (hinit : ∀ i, (s0 i).held = [] ∧ CodeWf rank [] (s0 i).code)
    (hidle : ∀ i, n ≤ i → (s0 i).code = .done)
    (hr : Reach s0 s) (hun : ∃ i, (s i).code ≠ .done) :
    ∃ s', Step s s' :=
  no_deadlock_of_inv (inv_reach (inv_init hinit hidle) hr) hun

/-- No livelock from lock events: every run from the initial state has at most
`measure n s0` (= total size of the threads' code trees) steps. -/
theorem C09_runs_bounded_generic {L : Type} [DecidableEq L] (rank : L → Nat) (n : Nat)
    (s0 s : State L)
    (hinit : ∀ i, (s0 i).held = [] ∧ CodeWf rank [] (s0 i).code)
    (hidle : ∀ i, n ≤ i → (s0 i).code = .done)
    (m : Nat) (hr : ReachN m s0 s) : m ≤ measure n s0 := by
  have := run_length_le (inv_init hinit hidle) hr
  omega

/-- Every reachable state can be completed: all threads finish, and then no lock is held.
(Together with the bound above: every maximal run is finite and ends with all calls
returned.) -/
theorem C09_all_return_generic {L : Type} [DecidableEq L] (rank : L → Nat) (n : Nat)
    (s0 s : State L)
    (hinit : ∀ i, (s0 i).held = [] ∧ CodeWf rank [] (s0 i).code)
    (hidle : ∀ i, n ≤ i → (s0 i).code = .done)
    (hr : Reach s0 s) :
    ∃ s', Reach s s' ∧ (∀ i, (s' i).code = .done) ∧ ∀ l, ¬ Holds s' l := by
  have hI := inv_reach (inv_init hinit hidle) hr
  obtain ⟨s', hr', hd⟩ := all_return_of_inv (measure n s) s hI (Nat.le_refl _)
  refine ⟨s', hr', hd, ?_⟩
  rintro l ⟨i, hi⟩
  have := held_nil_of_done (inv_reach hI hr') (hd i)
  rw [this] at hi
  exact absurd hi (by simp)

/-- The decidable check of the transcribed table: from an empty set of held locks, on
every path of every public operation (insert, get, invalidate, invalidate_all, sync,
contains_key) blocking acquisitions respect  F < D < S < M < {N,T,C} < K, everything
acquired is released (LIFO), and `sleep` happens with no lock held. -/
theorem C09_table_ok : tableOk = true := tableOk_true

/-- Instance for `sync::Cache`: any number of threads, each running any sequence of the
table's operations, any lock instances, all interleavings: never a deadlock. -/
theorem C09_no_deadlock (n : Nat) (s0 s : State Lock)
    (hth : ∀ i, i < n → IsCacheThread (s0 i))
    (hidle : ∀ i, n ≤ i → s0 i = ⟨[], .done⟩)
    (hr : Reach s0 s) (hun : ∃ i, (s i).code ≠ .done) :
    ∃ s', Step s s' :=
  no_deadlock_of_inv (inv_reach (cache_inv hth hidle) hr) hun

theorem C09_runs_bounded (n : Nat) (s0 s : State Lock)
    (hth : ∀ i, i < n → IsCacheThread (s0 i))
    (hidle : ∀ i, n ≤ i → s0 i = ⟨[], .done⟩)
    (m : Nat) (hr : ReachN m s0 s) : m ≤ measure n s0 := by
  have := run_length_le (cache_inv hth hidle) hr
  omega

/-- Every call returns (at the level of lock events): from every reachable state the
system can run to a state where all threads have finished and no lock — in particular
not the maintenance flag `F` — is held. -/
theorem C09_all_return (n : Nat) (s0 s : State Lock)
    (hth : ∀ i, i < n → IsCacheThread (s0 i))
    (hidle : ∀ i, n ≤ i → s0 i = ⟨[], .done⟩)
    (hr : Reach s0 s) :
    ∃ s', Reach s s' ∧ (∀ i, (s' i).code = .done) ∧ ∀ l, ¬ Holds s' l := by
  have hI := inv_reach (cache_inv hth hidle) hr
  obtain ⟨s', hr', hd⟩ := all_return_of_inv (measure n s) s hI (Nat.le_refl _)
  refine ⟨s', hr', hd, ?_⟩
  rintro l ⟨i, hi⟩
  have := held_nil_of_done (inv_reach hI hr') (hd i)
  rw [this] at hi
  exact absurd hi (by simp)

/-- The maintenance flag is released on every path of `Housekeeper::try_sync` (at the
level of the event table): the checker accepts `trySync` from the empty stack with the
empty stack as result — on the success arm the last event is `rel F`, the failure arm
never set it — and therefore in every unfolding of `trySync` (all branches, loop counts,
instances) the continuation starts with no lock held: the calling thread does not hold
`F` when `try_sync` returns. Combined with `C09_all_return`: the flag can never stay set,
so maintenance keeps being possible for the lifetime of the cache. -/
theorem C09_flag_released :
    check Cls.rank trySync [] = some [] ∧
    ∀ (h' : List Lock) (k c : Code Lock), Unfolds Lock.cls [] trySync h' k c → h' = [] := by
  refine ⟨check_trySync, ?_⟩
  intro h' k c hu
  have := (check_sound Cls.rank Lock.cls hu [] (by simpa using check_trySync)).1
  simpa using this

/-! ## Non-vacuity -/

open Prog Cls

/-- The checker is not trivially accepting. Holding a shard guard across `record_read_op`
(what the explicit `drop(entry)` in `get_with_hash` avoids) is rejected: `try_sync` would
block on `D` while holding `M`. -/
example : check Cls.rank (withL M recordReadOp) [] = none := by decide
/-- Acquiring against the order is rejected. -/
example : check Cls.rank (seqs [.acq M, .acq D, .rel D, .rel M]) [] = none := by decide
/-- Two leaves held together are rejected. -/
example : check Cls.rank (seqs [.acq T, .acq N, .rel N, .rel T]) [] = none := by decide
/-- A `try_sync` that forgets to clear the flag on the success path is rejected. -/
example : check Cls.rank (.tryL F (seqs [clockNow, tAcc, innerSync]) .skip) [] = none := by
  decide
/-- Sleeping while holding a lock is rejected. -/
example : check Cls.rank (withL M .sleep) [] = none := by decide
/-- Requesting the sketch lock while it is held (e.g. enabling the sketch from inside
`apply_writes`) is rejected. -/
example : check Cls.rank (withL S enableSketch) [] = none := by decide

set_option maxRecDepth 8192 in
/-- `IsCacheThread` is inhabited by a thread that performs `get; insert; invalidate;
sync`, with code that is not `done` (the default unfolding `Lemmas/ConcL.unf`: every
optional part taken, including `try_sync` with a full `Inner::sync`, loops left after
zero rounds; it has 100+ lock events). -/
example : ∃ t : Thread Lock, IsCacheThread t ∧ t.code ≠ .done := by
  obtain ⟨h', c, hu, hne⟩ :=
    unfolds_of_unfSize (p := opsProg [.get, .insert, .invalidate, .sync]) (by decide)
  exact ⟨⟨[], c⟩, ⟨rfl, _, h', hu⟩, hne⟩

set_option maxRecDepth 8192 in
example : unfSize (opsProg [.get, .insert, .invalidate, .sync]) > 100 := by decide

/-- The semantics can deadlock when the discipline is violated (so the theorems are not
true for trivial reasons): the classic two-lock inversion. -/
example : ∃ s : State Nat, (∃ i, (s i).code ≠ .done) ∧ ¬ ∃ s', Step s s' := by
  refine ⟨fun i => match i with
      | 0 => ⟨[0], .acq 1 (.rel 1 (.rel 0 .done))⟩
      | 1 => ⟨[1], .acq 0 (.rel 0 (.rel 1 .done))⟩
      | _ => ⟨[], .done⟩, ⟨0, by simp⟩, ?_⟩
  rintro ⟨s', hs⟩
  cases hs with
  | @mk i t' ht =>
    match i, ht with
    | 0, ht => cases ht with | acq hfree => exact hfree ⟨1, by simp⟩
    | 1, ht => cases ht with | acq hfree => exact hfree ⟨0, by simp⟩
    | (j + 2), ht => cases ht

end MiniMoka.ConcL

section Axioms
open MiniMoka.ConcL
#print axioms C09_no_deadlock_generic
#print axioms C09_runs_bounded_generic
#print axioms C09_all_return_generic
#print axioms C09_table_ok
#print axioms C09_no_deadlock
#print axioms C09_runs_bounded
#print axioms C09_all_return
#print axioms C09_flag_released
end Axioms
