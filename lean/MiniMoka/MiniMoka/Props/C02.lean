/-
  C02 — per-key coherence of the concurrent cache under every interleaving — and the
  concurrent clause of C07 (an invalidation is immediately visible to later readers),
  as theorems about model R (`MiniMoka/ConcR.lean`), for every well-formed execution, any
  number of threads and operations.  Proofs: `MiniMoka/Lemmas/ConcR.lean`.

  Reading guide.  An execution `evs : List Ev` is well formed (`WF evs`) iff the fold `run`
  accepts it.  Positions are indices into `evs`.  `opOf evs o = some (t, op)`: instance `o`
  was invoked by thread `t` as `op`.  `NoWriteIn evs k lo hi`: no position in `[lo, hi)`
  writes key `k`, where (`writesKey_spec`) an event writes `k` iff it is `daemon k` or the
  map step of an `ins k _` / `del k`.

  Trusted, not proved here: that the DashMap operations `entry/get/remove/remove_if` are
  atomic per key (that is the definition of a step of R) and that the Rust code performs
  exactly one such step per public call and otherwise only removes keys (source audit +
  `Sync_refines_R` + the `conc` test component, which feeds recorded histories to
  `acceptR`).  `invalidate_all` is outside R (watermark only).
-/
import MiniMoka.Lemmas.ConcR

namespace MiniMoka
namespace ConcR

/-- Meaning of "event `e` writes key `k`". -/
theorem writesKey_spec {evs : List Ev} {e : Ev} {k : Key} :
    writesKey evs e k = true ↔
      e = .daemon k ∨
      ∃ o t, e = .mapStep o ∧
        ((∃ v, opOf evs o = some (t, .ins k v)) ∨ opOf evs o = some (t, .del k)) :=
  writesKey_iff

/-- **C02 (read-from).** If `get k` (instance `g`, map step at position `j`) returns
`some v`, then some `ins k v` (instance `w`) has its map step at a position `i < j`, and no
`ins k _` / `del k` map step and no `daemon k` lies strictly between `i` and `j`.
(A `get` returning `none` is always allowed: maintenance may have removed the key, or the
lookup filtered an expired entry; R lets every get respond `none`.) -/
theorem C02_read_from {evs : List Ev} (hwf : WF evs)
    {j : Nat} {g : Oid} {t : Tid} {k : Key} {v : Val}
    (hstep : evs[j]? = some (.mapStep g)) (hop : opOf evs g = some (t, .get k))
    (hret : Ev.respond g (some v) ∈ evs) :
    ∃ i w tw, i < j ∧ evs[i]? = some (.mapStep w) ∧ opOf evs w = some (tw, .ins k v) ∧
      NoWriteIn evs k (i + 1) j := by
  obtain ⟨s, h⟩ := WF_iff.1 hwf
  exact read_from h hstep hop hret

/-- **C02 (not superseded).** If moreover an `ins k _` / `del k` instance `u` responded
(position `a`) before `g` was invoked (position `b`), then `u`'s map step (position `pu`) is
not after the map step `i` of the write `g` read from: `pu ≤ i`.  So `g` never returns a
value superseded by an operation that completed before `g` began. -/
theorem C02_not_superseded {evs : List Ev} (hwf : WF evs)
    {j : Nat} {g : Oid} {t : Tid} {k : Key} {v : Val}
    (hstep : evs[j]? = some (.mapStep g)) (hop : opOf evs g = some (t, .get k))
    (hret : Ev.respond g (some v) ∈ evs)
    {u : Oid} {tu : Tid} {opu : Op} {a b pu : Nat} {x : Option Val} {tg : Tid} {opg : Op}
    (hu : opOf evs u = some (tu, opu)) (hk : (∃ v', opu = .ins k v') ∨ opu = .del k)
    (hures : evs[a]? = some (.respond u x)) (hginv : evs[b]? = some (.invoke tg g opg))
    (hab : a < b) (hustep : evs[pu]? = some (.mapStep u)) :
    ∃ i w tw, i < j ∧ evs[i]? = some (.mapStep w) ∧ opOf evs w = some (tw, .ins k v) ∧
      NoWriteIn evs k (i + 1) j ∧ pu ≤ i := by
  obtain ⟨s, h⟩ := WF_iff.1 hwf
  exact not_superseded h hstep hop hret hu hk hures hginv hab hustep

/-- **C02 (monotone).** Suppose all `ins k _` are issued by one thread `writer` and carry
pairwise distinct values.  If gets `g1`, `g2` on `k` return `some v1`, `some v2` and `g1`'s
map step precedes `g2`'s (in particular if `g1` responded before `g2` was invoked, see
`C02_monotone_realtime`), then the write of `v1` is not after the write of `v2` in the
writer's program order: `w1` is invoked no later than `w2`. -/
theorem C02_monotone {evs : List Ev} (hwf : WF evs) {k : Key} {writer : Tid}
    (hsingle : ∀ o t v, opOf evs o = some (t, .ins k v) → t = writer)
    (hdistinct : ∀ o o' t t' v, opOf evs o = some (t, .ins k v) →
      opOf evs o' = some (t', .ins k v) → o = o')
    {g1 g2 : Oid} {t1 t2 : Tid} {j1 j2 : Nat} {v1 v2 : Val}
    (hstep1 : evs[j1]? = some (.mapStep g1)) (hop1 : opOf evs g1 = some (t1, .get k))
    (hret1 : Ev.respond g1 (some v1) ∈ evs)
    (hstep2 : evs[j2]? = some (.mapStep g2)) (hop2 : opOf evs g2 = some (t2, .get k))
    (hret2 : Ev.respond g2 (some v2) ∈ evs)
    (hlt : j1 < j2)
    {w1 w2 : Oid} {tw1 tw2 : Tid} {q1 q2 : Nat}
    (hw1 : evs[q1]? = some (.invoke tw1 w1 (.ins k v1)))
    (hw2 : evs[q2]? = some (.invoke tw2 w2 (.ins k v2))) :
    q1 ≤ q2 := by
  obtain ⟨s, h⟩ := WF_iff.1 hwf
  exact monotone h hsingle hdistinct hstep1 hop1 hret1 hstep2 hop2 hret2 hlt hw1 hw2

/-- Real-time form of the premise of `C02_monotone`: if `g1` responded before `g2` was
invoked (e.g. both issued by one reader thread, `g1` first), `g1`'s map step precedes `g2`'s. -/
theorem C02_monotone_realtime {evs : List Ev} (hwf : WF evs)
    {g1 g2 : Oid} {a b j1 j2 : Nat} {x : Option Val} {t2 : Tid} {op2 : Op}
    (hres1 : evs[a]? = some (.respond g1 x)) (hinv2 : evs[b]? = some (.invoke t2 g2 op2))
    (hab : a < b)
    (hstep1 : evs[j1]? = some (.mapStep g1)) (hstep2 : evs[j2]? = some (.mapStep g2)) :
    j1 < j2 := by
  obtain ⟨s, h⟩ := WF_iff.1 hwf
  exact mapStep_lt_of_resp_before_inv h hres1 hinv2 hab hstep1 hstep2

/-- **C02 (final state).** At the end of an execution (in particular of a complete one,
`complete evs = true`: every invoked operation has responded), for each key `k`:
(1) if the map holds `some v`, then `v` is the value of the last `ins k _` map step and no
`del k` / `daemon k` step follows it; (2) if a `del k` / `daemon k` step is followed by no
`ins k _` map step, the map holds `none`.  Hence the map holds `none` or the value of the
last insert, and `none` if a deletion came after that last insert. -/
theorem C02_final {evs : List Ev} {s : State} (h : run evs = some s) (k : Key) :
    (∀ v, lookup s.map k = some v →
      ∃ i w tw, evs[i]? = some (.mapStep w) ∧ opOf evs w = some (tw, .ins k v) ∧
        NoWriteIn evs k (i + 1) evs.length) ∧
    (∀ (m : Nat) (e : Ev), evs[m]? = some e →
      (e = .daemon k ∨ ∃ d td, e = .mapStep d ∧ opOf evs d = some (td, .del k)) →
      (∀ (m' : Nat) w tw v, m < m' → evs[m']? = some (Ev.mapStep w) →
        opOf evs w ≠ some (tw, .ins k v)) →
      lookup s.map k = none) :=
  ⟨fun _ hv => final_state_some h hv,
   fun _ _ hm he hlast => final_state_none h hm (effect_of_delete he) hlast⟩

/-- **C07 (reader side).** If `del k` (instance `d`) responded before `get k` (instance `g`)
was invoked, and no `ins k _` has its map step after `d`'s and before `g`'s, then `g`
returns `none`: an invalidation is immediately visible to later readers. -/
theorem C07_reader {evs : List Ev} (hwf : WF evs)
    {d g : Oid} {td tg : Tid} {k : Key} {a b pd j : Nat} {x y : Option Val}
    (hd : opOf evs d = some (td, .del k))
    (hdres : evs[a]? = some (.respond d y))
    (hginv : evs[b]? = some (.invoke tg g (.get k))) (hab : a < b)
    (hdstep : evs[pd]? = some (.mapStep d)) (hgstep : evs[j]? = some (.mapStep g))
    (hno : ∀ m w tw v, pd < m → m < j → evs[m]? = some (.mapStep w) →
      opOf evs w ≠ some (tw, .ins k v))
    (hret : Ev.respond g x ∈ evs) : x = none := by
  obtain ⟨s, h⟩ := WF_iff.1 hwf
  exact reader_after_del h hd hdres hginv hab hdstep hgstep hno hret

/-- **Acceptor soundness.** If `acceptR h = true` then every `get k` in `h` that returned
`some v` has an `ins k v` in `h` invoked before the get responded, and no `ins`/`del` on `k`
lies strictly between them in real time: acceptance implies the observable coherence
property of C02 on the recorded history. -/
theorem acceptR_sound {h : List HOp} (hacc : acceptR h = true)
    {g : HOp} {k : Key} {v : Val} (hg : g ∈ h) (hop : g.op = .get k)
    (hres : g.result = some v) :
    ∃ w ∈ h, w.op = .ins k v ∧ w.invStamp < g.resStamp ∧
      ∀ u ∈ h, u.op.key = k → u.op.isWrite = true →
        ¬ (w.resStamp < u.invStamp ∧ u.resStamp < g.invStamp) :=
  acceptR_sound_aux hacc hg hop hres

/-- **Search completeness.** The per-key search never misses a certificate: a key's
operations are accepted iff *some* linear order of them passes the independent checker
`checkLin` (a permutation of the operations that respects real time and replays). -/
theorem acceptKey_complete (ops : List HOp) :
    acceptKey ops = true ↔ ∃ L, checkLin ops L = true :=
  acceptKey_iff ops

/-- **Acceptor completeness w.r.t. model R.** The history recorded from any complete
(`complete evs`: every invoked operation responded) well-formed execution of R — stamps =
positions of the invoke / respond events — is accepted.  So a rejected recorded history is
not producible by R: the implementation left the model. -/
theorem acceptR_complete {evs : List Ev} (hwf : WF evs) (hc : complete evs = true) :
    acceptR (historyOf evs) = true :=
  acceptR_complete_aux hwf hc

/-! ## Non-vacuity: a concrete interleaved execution (3 threads, key 7)

Thread 1 writes 100 then 101, thread 2 reads concurrently (its gets overlap the inserts),
maintenance removes an unrelated key, thread 3 invalidates, thread 2 reads again. -/

def exR : List Ev :=
  [ .invoke 1 10 (.ins 7 100),   --  0
    .invoke 2 20 (.get 7),       --  1
    .mapStep 10,                 --  2
    .mapStep 20,                 --  3
    .respond 20 (some 100),      --  4
    .respond 10 none,            --  5
    .invoke 1 11 (.ins 7 101),   --  6
    .invoke 2 21 (.get 7),       --  7
    .mapStep 11,                 --  8
    .daemon 9,                   --  9
    .mapStep 21,                 -- 10
    .respond 11 none,            -- 11
    .respond 21 (some 101),      -- 12
    .invoke 3 30 (.del 7),       -- 13
    .invoke 1 12 (.ins 8 5),     -- 14
    .mapStep 30,                 -- 15
    .respond 30 none,            -- 16
    .invoke 2 22 (.get 7),       -- 17
    .mapStep 12,                 -- 18
    .mapStep 22,                 -- 19
    .respond 22 none,            -- 20
    .respond 12 none ]           -- 21

example : WF exR ∧ complete exR = true := by decide

/-- `C02_read_from` applies to get 21 (returned 101) … -/
example : ∃ i w tw, i < 10 ∧ exR[i]? = some (.mapStep w) ∧
    opOf exR w = some (tw, .ins 7 101) ∧ NoWriteIn exR 7 (i + 1) 10 :=
  C02_read_from (evs := exR) (j := 10) (g := 21) (t := 2) (by decide) (by decide) (by decide)
    (by decide)

/-- … and `none` after a maintenance removal is a legal outcome: -/
example : WF [.invoke 1 1 (.ins 7 5), .mapStep 1, .invoke 2 2 (.get 7), .daemon 7, .mapStep 2,
    .respond 2 none, .respond 1 none] := by decide

/-- … so is `none` from a filtered lookup while the map holds the value: -/
example : WF [.invoke 1 1 (.ins 7 5), .mapStep 1, .invoke 2 2 (.get 7), .mapStep 2,
    .respond 2 none, .respond 1 none, .invoke 2 3 (.get 7), .mapStep 3,
    .respond 3 (some 5)] := by decide

/-- … while returning the removed value is not: -/
example : ¬ WF [.invoke 1 1 (.ins 7 5), .mapStep 1, .invoke 2 2 (.get 7), .daemon 7, .mapStep 2,
    .respond 2 (some 5), .respond 1 none] := by decide

/-- `C02_not_superseded`: insert 10 (value 100) responded at 5, before get 21 was invoked
at 7; the write get 21 read from is not before insert 10's map step (position 2). -/
example : ∃ i w tw, i < 10 ∧ exR[i]? = some (.mapStep w) ∧
    opOf exR w = some (tw, .ins 7 101) ∧ NoWriteIn exR 7 (i + 1) 10 ∧ 2 ≤ i :=
  C02_not_superseded (evs := exR) (j := 10) (g := 21) (t := 2) (u := 10) (a := 5) (b := 7)
    (by decide) (by decide) (by decide) (by decide)
    rfl (Or.inl ⟨100, rfl⟩) rfl rfl (by decide) (by decide)

/-- `C02_monotone`: thread 1 is the only writer of key 7, values distinct; reader gets 20
then 21 see 100 then 101, written in that program order (invocations at 0 ≤ 6). -/
example : (0 : Nat) ≤ 6 :=
  C02_monotone (evs := exR) (k := 7) (writer := 1) (by decide)
    (singleWriterB_spec (by decide)) (distinctValsB_spec (by decide))
    (g1 := 20) (g2 := 21) (j1 := 3) (j2 := 10) (v1 := 100) (v2 := 101)
    (by decide) rfl (by decide) (by decide) rfl (by decide) (by decide)
    (w1 := 10) (w2 := 11) rfl rfl

/-- `C02_monotone_realtime`: get 20 responded (4) before get 21 was invoked (7), so the
premise `j1 < j2` of `C02_monotone` follows. -/
example : (3 : Nat) < 10 :=
  C02_monotone_realtime (evs := exR) (g1 := 20) (g2 := 21) (a := 4) (b := 7) (by decide)
    rfl rfl (by decide) (by decide) (by decide)

/-- `C02_final`: the execution is complete; key 7 was deleted after its last insert, key 8
holds its last inserted value. -/
example : (run exR).map (fun s => (lookup s.map 7, lookup s.map 8)) = some (none, some 5) := by
  decide

/-- `C07_reader`: del 30 responded (16) before get 22 was invoked (17), no insert of key 7
took effect in between (an insert of key 8 did): get 22 returns `none`. -/
example : (none : Option Val) = none :=
  C07_reader (evs := exR) (d := 30) (g := 22) (k := 7) (a := 16) (b := 17) (pd := 15) (j := 19)
    (by decide) rfl rfl rfl (by decide) (by decide) (by decide)
    (by
      intro m w tw v h1 h2
      have : m = 16 ∨ m = 17 ∨ m = 18 := by omega
      rcases this with rfl | rfl | rfl <;> simp [exR, opOf] <;> grind)
    (by decide)

/-! ## Non-vacuity of the acceptor -/

/-- The recorded history of `exR` (stamps = positions of the invoke / respond events). -/
def hR : List HOp := historyOf exR

example : hR =
  [ ⟨2, 1, 4, .get 7, some 100⟩, ⟨1, 0, 5, .ins 7 100, none⟩,
    ⟨1, 6, 11, .ins 7 101, none⟩, ⟨2, 7, 12, .get 7, some 101⟩,
    ⟨3, 13, 16, .del 7, none⟩, ⟨2, 17, 20, .get 7, none⟩, ⟨1, 14, 21, .ins 8 5, none⟩ ] := by
  decide

example : acceptR hR = true := by decide

/-- … as `acceptR_complete` predicts. -/
example : acceptR hR = true := acceptR_complete (by decide) (by decide)

/-- Stale read: insert 100 then insert 101 both completed before the get began. -/
example : acceptR [⟨1, 0, 1, .ins 7 100, none⟩, ⟨1, 2, 3, .ins 7 101, none⟩,
    ⟨2, 4, 5, .get 7, some 100⟩] = false := by decide

/-- `none` never constrains (filtered lookup), even between two hits. -/
example : acceptR [⟨1, 0, 1, .ins 7 100, none⟩, ⟨2, 2, 3, .get 7, none⟩,
    ⟨3, 4, 5, .get 7, some 100⟩] = true := by decide

/-- A value nobody inserted. -/
example : acceptR [⟨1, 0, 5, .ins 7 100, none⟩, ⟨2, 1, 2, .get 7, some 101⟩] = false := by
  decide

/-- A read that completed before the insert began. -/
example : acceptR [⟨2, 0, 1, .get 7, some 100⟩, ⟨1, 2, 3, .ins 7 100, none⟩] = false := by
  decide

/-- Overlapping threads are rejected as a malformed record. -/
example : acceptR [⟨1, 0, 3, .ins 7 100, none⟩, ⟨1, 2, 5, .get 7, some 100⟩] = false := by
  decide

/-- Read after a completed invalidation. -/
example : acceptR [⟨1, 0, 1, .ins 7 100, none⟩, ⟨2, 2, 3, .del 7, none⟩,
    ⟨3, 4, 5, .get 7, some 100⟩] = false := by decide

/-- `acceptR_sound` on `hR`, for the get that returned 101. -/
example : ∃ w ∈ hR, w.op = .ins 7 101 ∧ w.invStamp < 12 ∧
    ∀ u ∈ hR, u.op.key = 7 → u.op.isWrite = true → ¬ (w.resStamp < u.invStamp ∧ u.resStamp < 7) :=
  acceptR_sound (h := hR) (g := ⟨2, 7, 12, .get 7, some 101⟩) (by decide) (by decide) rfl rfl

/-! ## Axiom audit -/

#print axioms C02_read_from
#print axioms C02_not_superseded
#print axioms C02_monotone
#print axioms C02_monotone_realtime
#print axioms C02_final
#print axioms C07_reader
#print axioms acceptR_sound
#print axioms acceptKey_complete
#print axioms acceptR_complete

end ConcR
end MiniMoka
