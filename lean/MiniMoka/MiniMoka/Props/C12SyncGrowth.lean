/-
  C12 on the concurrent cache driven by one thread (`sync::Cache`, model `Sync`): growth
  eviction.  In a quiescent calm cache, an insert that makes a RESIDENT entry heavier is applied
  by the next maintenance run as an update (the entry becomes the most recently used one, the
  weighted size changes by `- old + new`), and `evict_lru_entries` then removes exactly the
  shortest prefix of the recency order whose weights cover the excess over the capacity —
  nothing if there is none — and nothing else.
  Property theorems only; lemmas live in `Lemmas/SyncGrowth.lean`.
-/
import MiniMoka.Lemmas.SyncGrowth
import MiniMoka.Props.C13Sync

namespace MiniMoka
namespace Props

open Sync Sync.Admit Sync.Nodes Sync.Growth

/-- **C12 on the concurrent cache, growth eviction, state level.**  For every configuration of
the current code (`NoQuirks`; any weigher, hasher, non-zero ttl/tti) with capacity `cap`, every
reachable (`RInv`, see `C12_sync_reachable`) quiescent calm state `s` (`CalmS`) with at most one
eviction batch of nodes, and every key `k` that is resident (map entry `old`, access-order node
`n`): let `s' := syncRun p (insert p s k v)` be the state after `insert(k, v)` and the next
maintenance run (the insert may itself run housekeeping before it queues its write — both
regimes of `shouldApply` are covered).  The access order of `s'` is that of `s` with `n` moved
to the most recently used end, minus its first `growCount` nodes; exactly the keys of these
nodes have left the map, `k` holds the new value entry (unless it is among them) and every
other key holds the entry it held.  `growCount` is the length of the shortest prefix of that
order whose weights — `k` counted with its NEW weight `p.weigh k v` — reach the excess
`s.ws - old weight + new weight - cap` (`0` if there is no excess; the whole list if even that
does not suffice). -/
theorem C12_sync_growth_state {p : Params} (hq : Sync.NoQuirks p) (hsm : SmallSketch p) {cap : Nat}
    (hcap : p.cap = some cap) {s : SState} (hr : RInv p s) (hc : CalmS p cap s) (k v : Nat)
    {old : VE} {n : AoNode} (hold : AL.get? s.map k = some old) (hn : n ∈ s.prob)
    (hni : n.info = old.info) (httl : p.ttl ≠ some 0) (htti : p.tti ≠ some 0)
    (hlen : s.prob.length ≤ Gen.SYNC_EVICTION_BATCH_SIZE) :
    (syncRun p (Sync.insert p s k v)).map =
      eraseKeys (AL.put s.map k (updVE s old v))
        (((eraseAo s.prob n.id ++ [n]).take (growCount p cap s k v old n)).map (·.key)) ∧
    (syncRun p (Sync.insert p s k v)).prob =
      (eraseAo s.prob n.id ++ [n]).drop (growCount p cap s k v old n) :=
  insert_sync_grow hq hsm hcap hr hc k v hold hn hni httl htti hlen

/-- **C12 on traces, concurrent cache, growth eviction.**  For every configuration of the
current code with a capacity `c` (any weigher, hasher, ttl/tti; `SmallSketch` is the documented
sketch-size limit) and every history of one thread, the growth oracle accepts the model's trace:
in every window `sync, snap(before), [freq _,] ins k v, [snap,] sync, snap(after)` whose outer
snapshots show empty queues, in which `k` is resident in a calm `before` with at most one
eviction batch of entries and the new weight does not exceed the capacity, the keys resident in
`after` are exactly those of `before` minus the shortest prefix of the recency order (old order
without `k`, then `k`) whose weights — `k` counted with its new weight — cover the excess
`ws - old + new - cap` (nothing leaves if there is no excess). -/
theorem C12_sync_growth (p : Params) (hq : Sync.NoQuirks p) (hsm : SmallSketch p) (c : Nat)
    (hcap : p.cap = some c) (h : List Op) :
    Spec.growthC12Sync c p.ttl p.tti p.weigh Gen.SYNC_EVICTION_BATCH_SIZE (Sync.trace p h) = true :=
  growthC12Sync_trace hq hsm hcap h

/-! ### non-vacuity -/

namespace C12SyncGrowthEx

/-- Capacity 10, the weight of an entry is its value. -/
def cfg : Params := { cap := some 10, hasWeigher := true, w := fun _ v => v }

theorem nq_cfg : Sync.NoQuirks cfg := by unfold Sync.NoQuirks; rfl

theorem small_cfg : SmallSketch cfg :=
  ⟨fun c h => by cases h; decide, fun _ _ _ => by show Sketch.sketchCapacity 0 ≤ 2 ^ 27; decide⟩

/-- Residents 1 (weight 4), 2 (weight 3), 3 (weight 3) fill the cache; key 1 is looked up, so the
recency order is `[2, 3, 1]`. -/
def fill : List Op :=
  [.ins 1 4, .sync, .ins 2 3, .sync, .ins 3 3, .sync, .get 1, .sync]

/-- Then key 3 grows from weight 3 to weight 5: the order becomes `[2, 1, 3]`, the weighted size
`10 - 3 + 5 = 12`, the excess 2; the LRU entry 2 (weight 3) covers it and leaves. -/
def hist : List Op := fill ++ [.snap, .ins 3 5, .sync, .snap]

/-- The state after `fill`. -/
def full : SState := Sync.stateAfter cfg {} fill

theorem getD_mem {α : Type} (l : List α) (i : Nat) (d : α) (h : i < l.length) :
    l.getD i d ∈ l := by
  rw [List.getD_eq_getElem?_getD, List.getElem?_eq_getElem h]
  exact List.getElem_mem h

end C12SyncGrowthEx

open C12SyncGrowthEx

/-- The state after `fill` is quiescent and calm, full, with recency order `[2, 3, 1]`. -/
example :
    full.readQ.length = 0 ∧ full.writeQ.length = 0 ∧ full.ws = 10 ∧
    full.prob.map (·.key) = [2, 3, 1] ∧ probWeights full = [3, 3, 4] ∧
    Spec.calm 10 cfg.ttl cfg.tti (Sync.snapshot cfg full) = true := by
  decide +kernel

/-- The oracle accepts the model's trace of `hist`, whose last window applies with a real excess
and a victim: the keys in the two snapshots are `[1, 2, 3]` and `[1, 3]`, the recency order
after is `[1, 3]`, the weighted size 9. -/
example :
    Spec.growthC12Sync 10 none none cfg.weigh Gen.SYNC_EVICTION_BATCH_SIZE (Sync.trace cfg hist)
      = true ∧
    (Sync.trace cfg hist).filterMap (fun x => match x.2 with
      | .snap sn => some (Spec.keysOf sn, Spec.lruOrder sn, sn.ws, sn.wq)
      | _ => none) = [([1, 2, 3], [2, 3, 1], 10, 0), ([1, 3], [1, 3], 9, 0)] := by
  decide +kernel

/-- The same through the theorem (all hypotheses discharged). -/
example :
    Spec.growthC12Sync 10 cfg.ttl cfg.tti cfg.weigh Gen.SYNC_EVICTION_BATCH_SIZE
      (Sync.trace cfg hist) = true :=
  C12_sync_growth cfg nq_cfg small_cfg 10 rfl hist

/-- The window check itself applies there (it is not skipped by a guard): with the snapshot
after replaced by the unchanged snapshot before, it fails. -/
example :
    Spec.growthSyncOk 10 none none cfg.weigh Gen.SYNC_EVICTION_BATCH_SIZE
      (Sync.snapshot cfg full) 3 5 (Sync.snapshot cfg full) = false := by
  decide +kernel

/-- The oracle is not vacuous: it rejects a hand-made window in which the most recently used
resident (the updated key 3) was evicted instead of the least recently used one (key 2) … -/
example : Spec.growthC12Sync 10 none none cfg.weigh Gen.SYNC_EVICTION_BATCH_SIZE
    [(.sync, .ok), (.snap, .snap (Sync.snapshot cfg full)), (.ins 3 5, .ok), (.sync, .ok),
     (.snap, .snap (Sync.snapshot cfg (Sync.stateAfter cfg {} [.ins 1 4, .sync, .ins 2 3, .sync])))]
    = false := by
  decide +kernel

/-- … and one in which more than the shortest sufficient prefix left (2 and 1 instead of 2). -/
example : Spec.growthC12Sync 10 none none cfg.weigh Gen.SYNC_EVICTION_BATCH_SIZE
    [(.sync, .ok), (.snap, .snap (Sync.snapshot cfg full)), (.freq 3, .freq 0), (.ins 3 5, .ok),
     (.sync, .ok),
     (.snap, .snap (Sync.snapshot cfg (Sync.stateAfter cfg {} [.ins 3 5, .sync])))]
    = false := by
  decide +kernel

/-- `C12_sync_growth_state` applied to the reachable state `full` (hypotheses discharged) and
evaluated: one resident leaves (`growCount = 1`), the map holds 1 and 3, the order is `[1, 3]`. -/
example :
    growCount cfg 10 full 3 5 ((AL.get? full.map 3).getD default) (full.prob.getD 1 default) = 1 ∧
    AL.keys (syncRun cfg (Sync.insert cfg full 3 5)).map = [1, 3] ∧
    (syncRun cfg (Sync.insert cfg full 3 5)).prob.map (·.key) = [1, 3] ∧
    (syncRun cfg (Sync.insert cfg full 3 5)).ws = 9 := by
  decide +kernel

example :
    (syncRun cfg (Sync.insert cfg full 3 5)).prob =
      (eraseAo full.prob (full.prob.getD 1 default).id ++ [full.prob.getD 1 default]).drop
        (growCount cfg 10 full 3 5 ((AL.get? full.map 3).getD default) (full.prob.getD 1 default)) :=
  (C12_sync_growth_state nq_cfg small_cfg (cap := 10) rfl
    (C12_sync_reachable cfg nq_cfg small_cfg fill)
    (calmS_of_snapshot (by decide +kernel) (by decide +kernel) (by decide +kernel)) 3 5
    (old := (AL.get? full.map 3).getD default) (n := full.prob.getD 1 default)
    (by decide +kernel)
    (getD_mem _ _ _ (by decide +kernel))
    (by decide +kernel) (by decide) (by decide) (by decide +kernel)).2

end Props
end MiniMoka

namespace MiniMoka.Props
#print axioms C12_sync_growth_state
#print axioms C12_sync_growth
end MiniMoka.Props
