/-
  C13 on the concurrent cache driven by one thread (`sync::Cache`, model `Sync`): an admission
  whose victim scan meets a dangling node.  In a quiescent calm full cache, `insert(k, v)` of a
  new key followed by `invalidate(a)` of a resident and a maintenance run: the queued `Upsert k`
  is applied after `a` has left the map and before the queued `Remove a`, so `a`'s access-order
  node is still linked and `a`'s weight is still accounted (there is no room), but the scan skips
  the node: `k` is compared with the shortest LRU prefix of the residents OTHER than `a` whose
  weights reach its own, and `a`'s popularity does not count.
  Property theorem only; lemmas live in `Lemmas/SyncDangling.lean`.
-/
import MiniMoka.Lemmas.SyncDangling

namespace MiniMoka
namespace Props

open Sync Sync.Admit Sync.Dangling

/-- **C13, dangling node, on traces.**  For every configuration of the current code with a
capacity and every history of one thread, the oracle accepts the model's trace: in every window
`sync, snap, freq k, ins k v, [snap,] inv a, [snap,] sync, snap` whose outer snapshots show empty
queues, in which `k` is new, `a` is resident, the first snapshot is calm and the candidate is not
oversized and finds no room, the keys resident afterwards are those of the first snapshot
without `a`, changed as the closed formula (`predictAdmission`) predicts from the residents
other than `a`. -/
theorem C13_sync_dangling (p : Params) (hq : Sync.NoQuirks p) (hsm : SmallSketch p) (c : Nat)
    (hcap : p.cap = some c) (h : List Op) :
    Spec.admitDanglingC13 c p.ttl p.tti p.weigh (Sync.trace p h) = true :=
  admitDanglingC13_trace hq hsm (danglingOk_model hq hsm hcap) h

/-- The state-level statement behind it (`Sync.Dangling.dangling_sync`): the map after
`insert k v; invalidate a; sync` from a reachable quiescent calm state. -/
theorem C13_sync_dangling_state {p : Params} (hq : Sync.NoQuirks p) (hsm : SmallSketch p)
    {cap : Nat} (hcap : p.cap = some cap) {s : SState} (hi : AInv p s) (hc : CalmS p cap s)
    (k v a : Nat) (hnew : AL.get? s.map k = none) {ea : VE} (hres : AL.get? s.map a = some ea)
    (hfit : p.weigh k v ≤ cap) (hroom : s.ws + p.weigh k v > cap) :
    (∀ n, Unsync.Admit.shortestPre (p.weigh k v)
        ((restProb s a).map (fun n => (getInfo s n.info).weight)) = some n →
      s.sk.frequency (p.hash k) >
        (((restProb s a).map (fun n => s.sk.frequency n.hash)).take n).sum →
      (syncRun p (Sync.invalidate p (Sync.insert p s k v) a)).map =
        eraseKeys (AL.erase (AL.put s.map k (candVE s v)) a) (((restProb s a).take n).map (·.key))) ∧
    ((¬ ∃ n, Unsync.Admit.shortestPre (p.weigh k v)
          ((restProb s a).map (fun n => (getInfo s n.info).weight)) = some n ∧
        s.sk.frequency (p.hash k) >
          (((restProb s a).map (fun n => s.sk.frequency n.hash)).take n).sum) →
      (syncRun p (Sync.invalidate p (Sync.insert p s k v) a)).map =
        AL.erase (AL.erase (AL.put s.map k (candVE s v)) a) k) :=
  dangling_sync hq hsm hcap hi hc k v a hnew hres hfit hroom

/-! ### non-vacuity -/

namespace C13DanglingEx

/-- Capacity 3, every entry weighs 1. -/
def cfg : Params := { cap := some 3 }

theorem nq_cfg : Sync.NoQuirks cfg := by unfold Sync.NoQuirks; rfl

/-- Residents 0, 1, 2 fill the cache; key 0 is looked up three times (estimate 3, and it moves
to the most recently used end), key 3 twice (estimate 2). -/
def fill : List Op :=
  [.ins 0 1, .sync, .ins 1 1, .sync, .ins 2 1, .sync, .get 0, .get 0, .get 0, .get 3, .get 3, .sync]

/-- Then key 3 is inserted and the more popular resident 0 invalidated before maintenance. -/
def hist : List Op := fill ++ [.snap, .freq 3, .ins 3 1, .inv 0, .sync, .snap]

/-- The same with white-box snapshots between the operations. -/
def hist' : List Op := fill ++ [.snap, .freq 3, .ins 3 1, .snap, .inv 0, .snap, .sync, .snap]

def full : SState := Sync.stateAfter cfg {} fill

end C13DanglingEx

open C13DanglingEx

/-- The window applies (quiescent, calm, full, `3` new, `0` resident and more popular than the
candidate: estimates 3 against 2) and the oracle accepts the model's trace: key 3 is admitted
although 0 is more popular, the LRU resident 1 (estimate 0) is the victim: 3 in, 1 out, 0 gone. -/
example :
    Spec.admitDanglingC13 3 none none cfg.weigh (Sync.trace cfg hist) = true ∧
    Spec.admitDanglingC13 3 none none cfg.weigh (Sync.trace cfg hist') = true ∧
    Spec.calm 3 none none (Sync.snapshot cfg full) = true ∧
    (Sync.snapshot cfg full).ws = 3 ∧ (Sync.snapshot cfg full).wq = 0 ∧
    (Sync.snapshot cfg full).freqs = [(0, 3), (1, 0), (2, 0)] ∧
    full.sk.frequency (cfg.hash 3) = 2 ∧
    Spec.lruOrder (Sync.snapshot cfg full) = [1, 2, 0] ∧
    Spec.predictAdmission (Spec.withoutKey (Sync.snapshot cfg full) 0) 1 2 = some [1] ∧
    (Sync.trace cfg hist).filterMap (fun x => match x.2 with
      | .snap sn => some (Spec.keysOf sn)
      | _ => none) = [[0, 1, 2], [2, 3]] := by
  decide +kernel

/-- The theorem applied to that configuration. -/
example (hsm : SmallSketch cfg) :
    Spec.admitDanglingC13 3 cfg.ttl cfg.tti cfg.weigh (Sync.trace cfg hist) = true :=
  C13_sync_dangling cfg nq_cfg hsm 3 rfl hist

/-- The oracle is not vacuous: it rejects a hand-made trace in which the candidate is dropped
(residents 1 and 2 stay) although its estimate exceeds that of the LRU resident other than `0` … -/
example : Spec.admitDanglingC13 3 none none cfg.weigh
    [(.sync, .ok), (.snap, .snap (Sync.snapshot cfg full)),
     (.freq 3, .freq 2), (.ins 3 1, .ok), (.inv 0, .ok), (.sync, .ok),
     (.snap, .snap (Sync.snapshot cfg (Sync.stateAfter cfg {} [.ins 1 1, .sync, .ins 2 1, .sync])))]
    = false := by
  decide +kernel

/-- … and one in which the invalidated key is still resident afterwards. -/
example : Spec.admitDanglingC13 3 none none cfg.weigh
    [(.sync, .ok), (.snap, .snap (Sync.snapshot cfg full)),
     (.freq 3, .freq 2), (.ins 3 1, .ok), (.inv 0, .ok), (.sync, .ok),
     (.snap, .snap (Sync.snapshot cfg (Sync.stateAfter cfg {}
        [.ins 0 1, .sync, .ins 2 1, .sync, .ins 3 1, .sync])))]
    = false := by
  decide +kernel

end Props
end MiniMoka

namespace MiniMoka.Props
#print axioms C13_sync_dangling
#print axioms C13_sync_dangling_state
end MiniMoka.Props
