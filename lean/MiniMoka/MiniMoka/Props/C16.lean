/-
  C16 — iteration yields every live entry exactly once (sequential part; the part beside
  concurrent writers is Props/C16Conc.lean).
-/
import MiniMoka.Lemmas.UnsyncLookup
import MiniMoka.Lemmas.SyncKeys
import MiniMoka.Lemmas.SketchLaws

namespace MiniMoka
namespace Props

open Spec

/-- Single-threaded cache, every reachable state: the keys iteration yields are pairwise
distinct, and `(k, v)` is yielded exactly when `k` is resident with current value `v` and
neither expiry deadline has passed. -/
theorem C16_unsync_exact {p : Params} {s : Unsync.UState} (hi : Unsync.Inv Sketch.Good p s) :
    ((Unsync.iter p s).map (·.1)).Nodup ∧
    ∀ k v, (k, v) ∈ Unsync.iter p s ↔
      ∃ e, AL.get? s.map k = some e ∧ e.val = v ∧ Unsync.isExpiredEntry p s e s.now = false := by
  have hn := hi.inv.struct.keysNodup
  refine ⟨?_, ?_⟩
  · unfold Unsync.iter
    rw [List.map_map]
    have : ((fun kv : Nat × Nat => kv.1) ∘ fun kv : Nat × Unsync.UEntry => (kv.1, kv.2.val)) =
        fun kv => kv.1 := rfl
    rw [this]
    rw [AL.keys_eq_map] at hn
    exact List.Nodup.sublist (List.Sublist.map _ List.filter_sublist) hn
  · intro k v
    simp only [Unsync.iter, List.mem_map, List.mem_filter, Bool.not_eq_true']
    constructor
    · rintro ⟨⟨k', e⟩, ⟨hin, hne⟩, heq⟩
      simp only [Prod.mk.injEq] at heq
      obtain ⟨rfl, rfl⟩ := heq
      exact ⟨e, AL.get?_of_mem hn hin, rfl, hne⟩
    · rintro ⟨e, hk, rfl, hne⟩
      exact ⟨(k, e), ⟨AL.mem_of_get? hk, hne⟩, rfl⟩

/-- Concurrent cache driven by one thread, every reachable state (any history, any `sync`
placement): no key twice, and `(k, v)` is yielded exactly when the map holds `v` for `k` and the
entry is neither expired nor hidden by an `invalidate_all` watermark. -/
theorem C16_sync_exact (p : Params) (hq : Sync.NoQuirks p) (h : List Op) :
    let s := Sync.runState p {} h
    ((Sync.iter p s).map (·.1)).Nodup ∧
    ∀ k v, (k, v) ∈ Sync.iter p s ↔
      ∃ ve, AL.get? s.map k = some ve ∧ ve.val = v ∧
        Sync.isExpiredInfo p s (Sync.getInfo s ve.info) s.now = false := by
  intro s
  have hn : (AL.keys s.map).Nodup := Sync.kn_run hq h (s := {}) (by simp [Sync.KN])
  refine ⟨?_, ?_⟩
  · unfold Sync.iter
    rw [List.map_map]
    have : ((fun kv : Nat × Nat => kv.1) ∘ fun kv : Nat × Sync.VE => (kv.1, kv.2.val)) =
        fun kv => kv.1 := rfl
    rw [this]
    rw [AL.keys_eq_map] at hn
    exact List.Nodup.sublist (List.Sublist.map _ List.filter_sublist) hn
  · intro k v
    simp only [Sync.iter, List.mem_map, List.mem_filter, Bool.not_eq_true']
    constructor
    · rintro ⟨⟨k', ve⟩, ⟨hin, hne⟩, heq⟩
      simp only [Prod.mk.injEq] at heq
      obtain ⟨rfl, rfl⟩ := heq
      exact ⟨ve, AL.get?_of_mem hn hin, rfl, hne⟩
    · rintro ⟨ve, hk, rfl, hne⟩
      exact ⟨(k, ve), ⟨AL.mem_of_get? hk, hne⟩, rfl⟩

/-- Every yielded pair also passes the lookup oracle (latest value, not invalidated, not
expired): both caches, all histories. -/
theorem C16_unsync_oracle (p : Params) (hq : Unsync.NoQuirks p) (hsm : SmallSketch p) (h : List Op) :
    lookupOracle .unsync checkC01 {} (Unsync.trace p h) = true := by
  unfold Unsync.trace
  refine Unsync.lookupOracle_of_coupled sketchLaws hq hsm _ ?_ h {} {} (Unsync.init_inv sketchLaws p)
    (Unsync.init_coupled p)
  intro g kv hkv
  simp only [Unsync.allChecks, Bool.and_eq_true] at hkv
  exact hkv.1.1

theorem C16_sync_oracle (p : Params) (hq : Sync.NoQuirks p) (h : List Op) :
    lookupOracle .sync checkC01 {} (Sync.trace p h) = true := by
  unfold Sync.trace
  refine Sync.lookupOracle_of_coupled hq _ ?_ h {} {} (Sync.init_coupled p)
  intro g kv hkv
  simp only [Sync.allChecks, Bool.and_eq_true] at hkv
  exact hkv.1.1

example : oracleC16 .unsync (some 5) none (Unsync.trace { ttl := some 5, cap := some 3 }
    [.ins 1 1, .ins 2 2, .iter, .snap, .adv 5, .ins 3 3, .iter, .snap, .inv 3, .iter, .snap]) = true := by
  decide +kernel

example : oracleC16 .unsync none none [(.ins 1 1, .ok), (.iter, .iter [(1, 1), (1, 1)])] = false := by
  decide

end Props
end MiniMoka
