/-
  C17 — configuration is honoured exactly as given.
-/
import MiniMoka.Config
import MiniMoka.Lemmas.UnsyncNoLoss
import MiniMoka.Lemmas.SketchLaws

namespace MiniMoka
namespace Props

open Config

/-- `policy()` reports exactly the knobs the cache was built with, whenever `build` returns. -/
theorem C17_policy_roundtrip (k : Knobs) (pol : Policy) (h : build k = .ok pol) :
    pol.maxCapacity = k.maxCapacity ∧ pol.timeToLive = k.timeToLive ∧ pol.timeToIdle = k.timeToIdle := by
  unfold build at h
  split at h
  · cases h
  · split at h
    · cases h
    · cases h; exact ⟨rfl, rfl, rfl⟩

theorem tooLong_iff (d : Option Nat) : tooLong d = true ↔ ∃ x, d = some x ∧ x > maxDuration := by
  cases d with
  | none => simp [tooLong]
  | some x => simp [tooLong]

/-- `build` panics if and only if `time_to_live` or `time_to_idle` exceeds 1000 years (the
boundary itself is accepted, one nanosecond more is not). -/
theorem C17_panic_iff (k : Knobs) :
    (∃ f, build k = .error f) ↔
      ((∃ d, k.timeToLive = some d ∧ d > maxDuration) ∨ (∃ d, k.timeToIdle = some d ∧ d > maxDuration)) := by
  rw [← tooLong_iff, ← tooLong_iff]
  unfold build
  by_cases h1 : tooLong k.timeToLive = true
  · simp [h1]
  · by_cases h2 : tooLong k.timeToIdle = true
    · simp [h1, h2]
    · simp [h1, h2]

example : build { timeToLive := some maxDuration } =
    .ok { maxCapacity := none, timeToLive := some maxDuration, timeToIdle := none } := by rfl
example : build { timeToLive := some (maxDuration + 1) } = .error .builderTtl := by rfl
example : build { timeToIdle := some (maxDuration + 1), maxCapacity := some 3 } = .error .builderTti := by
  rfl
example : maxDuration = 31536000000000000000 := by rfl

/-- `new(n)` is `builder().max_capacity(n).build()`. -/
theorem C17_new_eq_builder (n : Nat) : build { maxCapacity := some n } = .ok (new n) := by
  rfl

/-- `initial_capacity` has no observable effect: the parameters of the cache models do not
depend on it at all. -/
theorem C17_initial_capacity_unobservable (k : Knobs) (ic : Option Nat) (w : Nat → Nat → Nat)
    (hash : Nat → UInt64) (capF : Nat → Nat → Nat → Nat) :
    params { k with initialCapacity := ic } w hash capF = params k w hash capF ∧
    build { k with initialCapacity := ic } = build k := ⟨rfl, rfl⟩

/-- Without a weigher every entry weighs 1. -/
theorem C17_default_weight_one (k : Knobs) (hw : k.hasWeigher = false) (w : Nat → Nat → Nat)
    (hash : Nat → UInt64) (capF : Nat → Nat → Nat → Nat) (key v : Nat) :
    (params k w hash capF).weigh key v = 1 := by
  simp [params, Params.weigh, hw]

/-- A cache built without `max_capacity` never evicts for size (single-threaded cache): every
insert of a new key is retained and keeps every other resident, and the only entries the
start-of-operation purge drops are expired ones. -/
theorem C17_no_capacity_never_evicts_unsync {p : Params} (hq : Unsync.NoQuirks p)
    (hcap : p.cap = none) {s : Unsync.UState} (hi : Unsync.Inv Sketch.Good p s) (k v : Nat)
    (hnew : AL.get? (Unsync.maintain p s).map k = none) :
    (∃ e, AL.get? (Unsync.insert p s k v).map k = some e ∧ e.val = v) ∧
    (∀ k' e', AL.get? (Unsync.maintain p s).map k' = some e' →
      ∃ e'', AL.get? (Unsync.insert p s k v).map k' = some e'' ∧ e''.val = e'.val) ∧
    (∀ k' e', AL.get? s.map k' = some e' → AL.get? (Unsync.maintain p s).map k' = none →
      Unsync.isExpiredEntry p s e' s.now = true) := by
  have hfit : Unsync.hasEnoughCapacity p (p.weigh k v) (Unsync.maintain p s).ws = true := by
    simp [Unsync.hasEnoughCapacity, hcap]
  obtain ⟨h1, h2⟩ := Unsync.C03B_unsync_aux hq hi k v hnew hfit
  exact ⟨h1, h2, fun k' e' hw hg =>
    Unsync.maintain_only_expired hq hi (fun c hc => by rw [hcap] at hc; cases hc) k' e' ⟨hw, hg⟩⟩

end Props
end MiniMoka
