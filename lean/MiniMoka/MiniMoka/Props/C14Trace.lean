/-
  C14, clause "only lookups are recorded", on traces: the trace oracle `Spec.onlyGetC14`
  (`MiniMoka/Spec/Oracles.lean`) accepts every trace of the two cache models (current code),
  also after the hook reads `freq k` have been dropped (`Spec.noFreq`), which is what the
  driver judges on recorded traces of the implementation.

  The oracle looks at windows `(snap, snap before) :: (op, ob) :: (snap, snap after)`: unless
  `op` is a `get` or (concurrent cache) a recorded read is waiting (`before.rq ≠ 0`), every key
  that has an estimate in both snapshots keeps it, or the sketch was switched on in between
  and the new estimate is 0 (`winOk` below is that check, `onlyGetC14_window` /
  `onlyGetC14_skip` the two ways the oracle moves on, `onlyGetC14_of_windows`: a trace all of
  whose windows pass is accepted).

  Proved (in full, for every configuration with `NoQuirks` and `SmallSketch`, every history):
   * `C14_unsync_trace`, `C14_sync_trace`: `onlyGetC14 (trace p h) = true`;
   * `noFreq_unsync_trace`, `noFreq_sync_trace` (any configuration, faulted runs included):
     `noFreq (trace p h) = trace p (h without its freq readings)`;
   * `C14_unsync_trace_noFreq`, `C14_sync_trace_noFreq`.
  Ingredients: the state-level facts of `Lemmas/SketchFrame.lean` (`Unsync.SkF.step_en`: an
  operation other than `get` leaves the sketch alone or switches it on; `Sync.SkF.step_drain`:
  with an empty read queue nothing is drained, so the same holds), the invariant "flag off →
  sketch empty", and `Sketch.frequency_init` (a freshly sized sketch estimates 0).
-/
import MiniMoka.Props.C14Cache
import MiniMoka.Lemmas.UnsyncTrace
import MiniMoka.Spec.Oracles

namespace MiniMoka
namespace Props
open Spec

/-- The check `onlyGetC14` applies to one window `snapshot, operation, snapshot`. -/
def winOk (b : Snap) (op : Op) (a : Snap) : Bool :=
  (match op with
    | .get _ => true
    | _ => false) || !(b.rq == 0) || freqsKept b a

theorem onlyGetC14_window (b : Snap) (op : Op) (ob : Obs) (a : Snap) (rest : Trace) :
    onlyGetC14 ((.snap, .snap b) :: (op, ob) :: (.snap, .snap a) :: rest) =
      (winOk b op a && (match ob with
        | .panic _ => true
        | _ => onlyGetC14 ((.snap, .snap a) :: rest))) := by
  cases op <;> cases ob <;> simp [onlyGetC14, winOk]

theorem onlyGetC14_skip (x : Op × Obs) (rest : Trace)
    (hn : ∀ (before : Snap) (op : Op) (ob : Obs) (after : Snap) (rest_1 : List (Op × Obs)),
      x = (Op.snap, Obs.snap before) → rest = (op, ob) :: (Op.snap, Obs.snap after) :: rest_1 → False) :
    onlyGetC14 (x :: rest) = onlyGetC14 rest := by
  rw [onlyGetC14]
  exact hn

/-- A trace all of whose windows pass is accepted. -/
theorem onlyGetC14_of_windows (t : Trace) :
    (∀ pre b op ob a rest,
      t = pre ++ (Op.snap, Obs.snap b) :: (op, ob) :: (Op.snap, Obs.snap a) :: rest →
      winOk b op a = true) → onlyGetC14 t = true := by
  induction t using onlyGetC14.induct with
  | case1 b op ob a rest ih =>
    intro H
    rw [onlyGetC14_window, Bool.and_eq_true]
    refine ⟨H [] b op ob a rest rfl, ?_⟩
    have ih' := ih (fun pre b' op' ob' a' rest' h =>
      H ((Op.snap, Obs.snap b) :: (op, ob) :: pre) b' op' ob' a' rest' (by rw [h]; rfl))
    cases ob <;> first | rfl | exact ih'
  | case2 x rest hn ih =>
    intro H
    rw [onlyGetC14_skip x rest hn]
    exact ih (fun pre b' op' ob' a' rest' h => H (x :: pre) b' op' ob' a' rest' (by rw [h]; rfl))
  | case3 => intro _; rfl


/-- Two snapshots whose estimate lists are taken from sketches `f`, `f'` with the same estimates
— or with the sketch switched on in between and all new estimates 0 — pass `freqsKept`. -/
theorem freqsKept_of {β β' : Type} (b a : Snap) (m : List (Nat × β)) (m' : List (Nat × β'))
    (hash : Nat → UInt64) (f f' : UInt64 → Nat)
    (hb : b.freqs = sortBy (·.1) (m.map fun kv => (kv.1, f (hash kv.1))))
    (ha : a.freqs = sortBy (·.1) (m'.map fun kv => (kv.1, f' (hash kv.1))))
    (h : (∀ x, f' x = f x) ∨ (b.skOn = false ∧ a.skOn = true ∧ ∀ x, f' x = 0)) :
    freqsKept b a = true := by
  unfold freqsKept
  rw [List.all_eq_true]
  intro kf hkf
  rw [hb, mem_sortBy, List.mem_map] at hkf
  obtain ⟨kv, _, rfl⟩ := hkf
  cases hfind : a.freqs.find? (fun kf' => kf'.1 == kv.1) with
  | none => rfl
  | some kf' =>
    have hmem := List.mem_of_find?_eq_some hfind
    have hk := List.find?_some hfind
    rw [ha, mem_sortBy, List.mem_map] at hmem
    obtain ⟨kv', _, rfl⟩ := hmem
    have hk' : kv'.1 = kv.1 := by simpa using hk
    simp only [hk']
    rcases h with h | ⟨h1, h2, h3⟩
    · simp [h]
    · simp [h1, h2, h3]

/-- What `Enabled` plus "flag off → sketch empty" gives for the estimates. -/
theorem estimates_of_enabled {sk sk' : Sketch} {on on' : Bool} (h : Enabled sk on sk' on')
    (hoff : on = false → sk = {}) :
    (∀ x, sk'.frequency x = sk.frequency x) ∨
    (on = false ∧ on' = true ∧ ∀ x, sk'.frequency x = 0) := by
  rcases h with ⟨h1, _⟩ | ⟨h1, h2, cap, h3⟩
  · exact Or.inl (fun x => by rw [h1])
  · refine Or.inr ⟨h1, h2, fun x => ?_⟩
    rw [h3, hoff h1]
    exact Sketch.frequency_init cap x

/-! ### the single-threaded cache -/

section unsync
open Unsync

theorem unsync_step_snap {P : Sketch → Prop} {p : Params} {s : UState} (hi : Inv P p s) :
    step p s .snap = (s, .snap (snapshot p s)) := by
  have hnf := hi.inv.struct.noFault
  unfold step
  simp [hnf]

theorem unsync_run_cons (p : Params) (s : UState) (op : Op) (rest : List Op) :
    run p s (op :: rest) = (op, (step p s op).2) :: run p (step p s op).1 rest := rfl

/-- Every suffix of a model trace is the model trace of a reachable state. -/
theorem unsync_run_suffix {P : Sketch → Prop} (L : SketchLaws P) {p : Params} (hq : NoQuirks p)
    (hsm : SmallSketch p) (pre : Trace) : ∀ (h : List Op) (s : UState) (suf : Trace),
      Inv P p s → run p s h = pre ++ suf → ∃ s' h', Inv P p s' ∧ suf = run p s' h' := by
  induction pre with
  | nil => intro h s suf hi e; exact ⟨s, h, hi, e.symm⟩
  | cons x pre ih =>
    intro h s suf hi e
    cases h with
    | nil => cases e
    | cons op rest =>
      rw [unsync_run_cons] at e
      injection e with _ e2
      exact ih rest _ suf (step_inv L hq hsm hi op) e2

/-- One window of a model trace passes. -/
theorem unsync_window {P : Sketch → Prop} (L : SketchLaws P) {p : Params} (hq : NoQuirks p)
    (hsm : SmallSketch p) {s : UState} (hi : Inv P p s) (h : List Op)
    {b a : Snap} {op : Op} {ob : Obs} {rest : Trace}
    (e : run p s h = (Op.snap, Obs.snap b) :: (op, ob) :: (Op.snap, Obs.snap a) :: rest) :
    winOk b op a = true := by
  cases h with
  | nil => cases e
  | cons op1 h2 =>
    rw [unsync_run_cons] at e
    injection e with e1 e
    have hop1 : op1 = .snap := (Prod.mk.inj e1).1
    subst hop1
    rw [unsync_step_snap hi] at e1 e
    have hb : b = snapshot p s := by
      have := (Prod.mk.inj e1).2
      injection this with this
      exact this.symm
    cases h2 with
    | nil => cases e
    | cons op2 h3 =>
      rw [unsync_run_cons] at e
      injection e with e2 e
      have hop2 : op2 = op := (Prod.mk.inj e2).1
      subst hop2
      have hi2 := step_inv L hq hsm hi op2
      cases h3 with
      | nil => cases e
      | cons op3 h4 =>
        rw [unsync_run_cons] at e
        injection e with e3 _
        have hop3 : op3 = .snap := (Prod.mk.inj e3).1
        subst hop3
        rw [unsync_step_snap hi2] at e3
        have ha : a = snapshot p (step p s op2).1 := by
          have := (Prod.mk.inj e3).2
          injection this with this
          exact this.symm
        subst hb ha
        unfold winOk
        by_cases hop : ∀ k, op2 ≠ .get k
        · have hk : freqsKept (snapshot p s) (snapshot p (step p s op2).1) = true :=
            freqsKept_of _ _ s.map (step p s op2).1.map p.hash s.sk.frequency
              (step p s op2).1.sk.frequency rfl rfl
              (estimates_of_enabled (Unsync.SkF.step_en p s op2 hop) hi.skOff)
          rw [hk, Bool.or_true]
        · have : ∃ k, op2 = .get k := by
            cases op2 <;> first | exact ⟨_, rfl⟩ | exact absurd (fun k hk => by cases hk) hop
          obtain ⟨k, rfl⟩ := this
          rfl

end unsync

/-- **Unsync: the trace oracle accepts every model trace of the current code.** -/
theorem C14_unsync_trace (p : Params) (hq : Unsync.NoQuirks p) (hsm : SmallSketch p)
    (h : List Op) : Spec.onlyGetC14 (Unsync.trace p h) = true := by
  apply onlyGetC14_of_windows
  intro pre b op ob a rest e
  obtain ⟨s', h', hi', e'⟩ := unsync_run_suffix sketchLaws hq hsm pre h {} _
    (Unsync.init_inv sketchLaws p) e
  exact unsync_window sketchLaws hq hsm hi' h' e'.symm

/-! ### the concurrent cache -/

section sync
open Sync Sync.SkF Sync.Nodes

theorem sync_step_snap {p : Params} {s : SState} (hf : s.fault = none) :
    step p s .snap = (s, .snap (snapshot p s)) := by
  unfold step
  simp [hf]

theorem sync_run_cons (p : Params) (s : SState) (op : Op) (rest : List Op) :
    run p s (op :: rest) = (op, (step p s op).2) :: run p (step p s op).1 rest := rfl

theorem sync_run_suffix {P : Sketch → Prop} (L : SketchLaws P) {p : Params} (hq : Sync.NoQuirks p)
    (hsm : SmallSketch p) (pre : Trace) : ∀ (h : List Op) (s : SState) (suf : Trace),
      Reach P s → run p s h = pre ++ suf → ∃ s' h', Reach P s' ∧ suf = run p s' h' := by
  induction pre with
  | nil => intro h s suf hi e; exact ⟨s, h, hi, e.symm⟩
  | cons x pre ih =>
    intro h s suf hi e
    cases h with
    | nil => cases e
    | cons op rest =>
      rw [sync_run_cons] at e
      injection e with _ e2
      exact ih rest _ suf (step_reach L hq hsm hi op) e2

theorem sync_window {P : Sketch → Prop} (L : SketchLaws P) {p : Params} (hq : Sync.NoQuirks p)
    (hsm : SmallSketch p) {s : SState} (hi : Reach P s) (h : List Op)
    {b a : Snap} {op : Op} {ob : Obs} {rest : Trace}
    (e : run p s h = (Op.snap, Obs.snap b) :: (op, ob) :: (Op.snap, Obs.snap a) :: rest) :
    winOk b op a = true := by
  cases h with
  | nil => cases e
  | cons op1 h2 =>
    rw [sync_run_cons] at e
    injection e with e1 e
    have hop1 : op1 = .snap := (Prod.mk.inj e1).1
    subst hop1
    rw [sync_step_snap hi.top.nofault] at e1 e
    have hb : b = snapshot p s := by
      have := (Prod.mk.inj e1).2
      injection this with this
      exact this.symm
    cases h2 with
    | nil => cases e
    | cons op2 h3 =>
      rw [sync_run_cons] at e
      injection e with e2 e
      have hop2 : op2 = op := (Prod.mk.inj e2).1
      subst hop2
      have hi2 := step_reach L hq hsm hi op2
      cases h3 with
      | nil => cases e
      | cons op3 h4 =>
        rw [sync_run_cons] at e
        injection e with e3 _
        have hop3 : op3 = .snap := (Prod.mk.inj e3).1
        subst hop3
        rw [sync_step_snap hi2.top.nofault] at e3
        have ha : a = snapshot p (step p s op2).1 := by
          have := (Prod.mk.inj e3).2
          injection this with this
          exact this.symm
        subst hb ha
        unfold winOk
        by_cases hop : ∀ k, op2 ≠ .get k
        · by_cases hrq : s.readQ = []
          · -- nothing is waiting: nothing can be drained, the sketch is fed nothing
            obtain ⟨d, r, h1, _, _, h4⟩ := step_drain p hi.q op2
            have hd : d = [] := by
              rw [hrq] at h1
              exact (List.append_eq_nil_iff.mp h1.symm).1
            rw [hd] at h4
            have hk : freqsKept (snapshot p s) (snapshot p (step p s op2).1) = true :=
              freqsKept_of _ _ s.map (step p s op2).1.map p.hash s.sk.frequency
                (step p s op2).1.sk.frequency rfl rfl
                (estimates_of_enabled h4 hi.top.sk.skOff)
            rw [hk, Bool.or_true]
          · have : ((snapshot p s).rq == 0) = false := by
              show (s.readQ.length == 0) = false
              cases hq' : s.readQ with
              | nil => exact absurd hq' hrq
              | cons x t => rfl
            rw [this]; simp
        · have : ∃ k, op2 = .get k := by
            cases op2 <;> first | exact ⟨_, rfl⟩ | exact absurd (fun k hk => by cases hk) hop
          obtain ⟨k, rfl⟩ := this
          rfl

end sync

/-- **Sync: the trace oracle accepts every model trace of the current code** (one thread). -/
theorem C14_sync_trace (p : Params) (hq : Sync.NoQuirks p) (hsm : SmallSketch p)
    (h : List Op) : Spec.onlyGetC14 (Sync.trace p h) = true := by
  apply onlyGetC14_of_windows
  intro pre b op ob a rest e
  obtain ⟨s', h', hi', e'⟩ := sync_run_suffix sketchLaws hq hsm pre h {} _
    (Sync.SkF.reach_init sketchLaws) e
  exact sync_window sketchLaws hq hsm hi' h' e'.symm

/-! ### the hook reads `freq k` are invisible -/

/-- A history without its popularity readings. -/
def dropFreq (h : List Op) : List Op :=
  h.filter (fun op => match op with
    | .freq _ => false
    | _ => true)

theorem noFreq_unsync_run (p : Params) (h : List Op) : ∀ (s : Unsync.UState),
    Spec.noFreq (Unsync.run p s h) = Unsync.run p s (dropFreq h) := by
  induction h with
  | nil => intro s; rfl
  | cons op rest ih =>
    intro s
    rw [unsync_run_cons]
    cases op with
    | freq k =>
      have hs : (Unsync.step p s (.freq k)).1 = s := by
        rw [Unsync.SkF.step_fst]; split <;> rfl
      rw [hs]
      exact ih s
    | _ =>
      show _ :: Spec.noFreq (Unsync.run p _ rest) = _
      rw [ih]
      rfl

theorem noFreq_sync_run (p : Params) (h : List Op) : ∀ (s : Sync.SState),
    Spec.noFreq (Sync.run p s h) = Sync.run p s (dropFreq h) := by
  induction h with
  | nil => intro s; rfl
  | cons op rest ih =>
    intro s
    rw [sync_run_cons]
    cases op with
    | freq k =>
      have hs : (Sync.step p s (.freq k)).1 = s := by
        rw [Sync.SkF.step_fst]; split <;> rfl
      rw [hs]
      exact ih s
    | _ =>
      show _ :: Spec.noFreq (Sync.run p _ rest) = _
      rw [ih]
      rfl

/-- Dropping the `freq` readings from a model trace gives the model trace of the history
without them (any configuration, faulted runs included: the reading never changes the
state). -/
theorem noFreq_unsync_trace (p : Params) (h : List Op) :
    Spec.noFreq (Unsync.trace p h) =
      Unsync.trace p (h.filter (fun op => match op with
        | .freq _ => false
        | _ => true)) :=
  noFreq_unsync_run p h {}

theorem noFreq_sync_trace (p : Params) (h : List Op) :
    Spec.noFreq (Sync.trace p h) =
      Sync.trace p (h.filter (fun op => match op with
        | .freq _ => false
        | _ => true)) :=
  noFreq_sync_run p h {}

/-- What the driver judges: the oracle on the trace without the hook reads. -/
theorem C14_unsync_trace_noFreq (p : Params) (hq : Unsync.NoQuirks p) (hsm : SmallSketch p)
    (h : List Op) : Spec.onlyGetC14 (Spec.noFreq (Unsync.trace p h)) = true := by
  rw [noFreq_unsync_trace]; exact C14_unsync_trace p hq hsm _

theorem C14_sync_trace_noFreq (p : Params) (hq : Sync.NoQuirks p) (hsm : SmallSketch p)
    (h : List Op) : Spec.onlyGetC14 (Spec.noFreq (Sync.trace p h)) = true := by
  rw [noFreq_sync_trace]; exact C14_sync_trace p hq hsm _

/-! ### Non-vacuity -/

/-- `(skOn, rq, freqs)` of the snapshots of a trace. -/
def snapsOf (t : Trace) : List (Bool × Nat × List (Nat × Nat)) :=
  t.filterMap fun oo => match oo.2 with
    | .snap sn => some (sn.skOn, sn.rq, sn.freqs)
    | _ => none

/-- Unsync model trace: key 1 has been looked up once (estimate 1); an *update* insert of key 1
between two snapshots leaves the estimate at 1; the oracle accepts. -/
example :
    let t := Unsync.trace exP [.ins 1 10, .ins 2 20, .get 1, .snap, .ins 1 11, .snap]
    snapsOf t = [(true, 0, [(1, 1), (2, 0)]), (true, 0, [(1, 1), (2, 0)])] ∧
    onlyGetC14 t = true := by
  decide +kernel

/-- Sync model trace, the same (outside the periodic-sync interval, reads applied by `sync`);
then a `get` between snapshots queues a read (`rq = 1`), and the following `sync` window
raises the estimate to 2, which the oracle allows because a read was waiting. -/
example :
    let t := Sync.trace exP [.adv Gen.PAST_SYNC_INTERVAL_NS, .ins 1 10, .ins 2 20, .sync, .get 1, .sync,
      .snap, .ins 1 11, .snap, .get 1, .snap, .sync, .snap]
    snapsOf t = [(true, 0, [(1, 1), (2, 0)]), (true, 0, [(1, 1), (2, 0)]),
      (true, 1, [(1, 1), (2, 0)]), (true, 0, [(1, 2), (2, 0)])] ∧
    onlyGetC14 t = true := by
  decide +kernel

/-- Sync model trace inside the interval: the insert between the snapshots runs the maintenance
that applies the waiting read, so the estimate of key 1 changes across an insert — with
`rq = 1` in the snapshot before, which is why the oracle exempts such windows. -/
example :
    let t := Sync.trace exP [.ins 1 10, .ins 2 20, .sync, .get 1, .snap, .ins 3 30, .snap]
    snapsOf t = [(true, 1, [(1, 0), (2, 0)]), (true, 0, [(1, 1), (2, 0), (3, 0)])] ∧
    onlyGetC14 t = true := by
  decide +kernel

/-- The snapshot before the hand-made windows below: the unsync model after two inserts and
one lookup of key 1 (sketch on, estimates `[(1, 1), (2, 0)]`). -/
def exBefore : Snap :=
  Unsync.snapshot exP (Unsync.runState exP {} [.ins 1 10, .ins 2 20, .get 1])

/-- Hand-made: an `ins` that raises the estimate of the resident key 1 from 1 to 2 is rejected
(the seeded defect "an in-place insert bumps the estimate"); with the estimate kept it is
accepted; the same raise across a `get` is accepted. -/
example :
    exBefore.freqs = [(1, 1), (2, 0)] ∧ exBefore.skOn = true ∧
    onlyGetC14 [(.snap, .snap exBefore), (.ins 1 11, .ok),
      (.snap, .snap { exBefore with freqs := [(1, 2), (2, 0)] })] = false ∧
    onlyGetC14 [(.snap, .snap exBefore), (.ins 1 11, .ok), (.snap, .snap exBefore)] = true ∧
    onlyGetC14 [(.snap, .snap exBefore), (.get 1, .val (some 10)),
      (.snap, .snap { exBefore with freqs := [(1, 2), (2, 0)] })] = true ∧
    -- the same defect is also caught with the hook reads in between, once they are dropped
    onlyGetC14 (noFreq [(.snap, .snap exBefore), (.freq 1, .freq 1), (.ins 1 11, .ok),
      (.snap, .snap { exBefore with freqs := [(1, 2), (2, 0)] })]) = false := by
  decide +kernel

/-- The sketch switched on in between.  Model traces (both caches): before the second insert
the flag is off, after it (after the `sync` on the concurrent cache) on, estimates 0:
accepted.  Hand-made: with the flag going from off to on a new estimate 0 is accepted whatever
the old one, a non-zero new estimate that differs from the old one is not. -/
example :
    snapsOf (Unsync.trace exP [.ins 1 10, .snap, .ins 2 20, .snap]) =
      [(false, 0, [(1, 0)]), (true, 0, [(1, 0), (2, 0)])] ∧
    onlyGetC14 (Unsync.trace exP [.ins 1 10, .snap, .ins 2 20, .snap]) = true ∧
    snapsOf (Sync.trace exP [.adv Gen.PAST_SYNC_INTERVAL_NS, .ins 1 10, .ins 2 20, .snap, .sync, .snap]) =
      [(false, 0, [(1, 0), (2, 0)]), (true, 0, [(1, 0), (2, 0)])] ∧
    onlyGetC14 (Sync.trace exP [.adv Gen.PAST_SYNC_INTERVAL_NS, .ins 1 10, .ins 2 20, .snap, .sync, .snap]) = true ∧
    onlyGetC14 [(.snap, .snap { exBefore with skOn := false, freqs := [(1, 3)] }), (.ins 2 20, .ok),
      (.snap, .snap { exBefore with skOn := true, freqs := [(1, 0)] })] = true ∧
    onlyGetC14 [(.snap, .snap { exBefore with skOn := false, freqs := [(1, 3)] }), (.ins 2 20, .ok),
      (.snap, .snap { exBefore with skOn := true, freqs := [(1, 1)] })] = false := by
  decide +kernel

/-- `noFreq` on a model trace is the trace of the history without the readings (an instance of
`noFreq_unsync_trace`), and the readings are really there before. -/
example :
    let h : List Op := [.ins 1 10, .freq 1, .ins 2 20, .get 1, .freq 1, .snap, .freq 2,
      .ins 1 11, .snap]
    (Unsync.trace exP h).length = 9 ∧ (noFreq (Unsync.trace exP h)).length = 6 ∧
    onlyGetC14 (noFreq (Unsync.trace exP h)) = true := by
  decide +kernel

end Props
end MiniMoka

section
open MiniMoka.Props
#print axioms onlyGetC14_of_windows
#print axioms C14_unsync_trace
#print axioms C14_sync_trace
#print axioms noFreq_unsync_trace
#print axioms noFreq_sync_trace
#print axioms C14_unsync_trace_noFreq
#print axioms C14_sync_trace_noFreq
end
