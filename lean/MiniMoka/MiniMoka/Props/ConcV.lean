/-
  The `invalidate_all` watermark under ALL interleavings of any number of threads, with
  `invalidate_all` split into "read the clock" / "store the reading" (`MiniMoka/ConcV.lean`),
  and defect D12.

  PROVED, for the repaired code (`mono = true`, the store is `valid_after := max valid_after r`)
  and every state reachable by any finite sequence of steps of any number of threads:
   * `ConcV_watermark_monotone`: no step ever decreases the watermark, and the watermark never
     lies in the future (`va ≤ now`);
   * `ConcV_completed_below_watermark`: the reading of every `invalidate_all` call that has
     returned is `≤` the watermark;
   * `ConcV_invalidation_permanent`: an entry that a lookup returns was written at or after the
     reading of EVERY completed `invalidate_all`; hence (`ConcV_invalidation_permanent_later`)
     an entry written strictly before the reading of a call that has returned is hidden in
     every later state, whatever the other threads do, until the key is inserted again.
  MACHINE-CHECKED INTERLEAVING (`ConcV_counterexample_D12`, by `decide`): with the plain store
  of the unrepaired code (`mono = false`) the three theorems fail: the watermark moves
  backwards (1002 → 1000) and key 2, written at 1001 and discarded by the `invalidate_all`
  that read 1002 and has returned, is readable again.  The same events on the repaired code
  leave key 2 hidden.
  THE LINK to `Sync` / `ConcS`, which treat `invalidate_all` as one atomic step
  `va := some now` (`Sync.invalidateAll`): `ConcV_invRead_invStore_atomic` shows that
  `invRead t ; invStore t` run back to back from a state with `va ≤ now` is exactly that
  atomic step, for both stores; `va ≤ now` holds in every reachable state here
  (`ConcV_valid_after_le_now`, both stores) and in every reachable state of `ConcS`
  (`ConcS_valid_after_le_now`); `ConcV_justifies_Sync_invalidateAll` puts the two together.
  So the atomic step of `Sync` / `ConcS` is the special case "no other thread's store falls
  between the reading and the store"; what it leaves out is exactly the behaviour treated here.
-/
import MiniMoka.ConcV
import MiniMoka.Sync
import MiniMoka.Props.ConcSRefill

namespace MiniMoka
namespace Props

open ConcV

/-! ### association-list membership (own lemmas: the model needs nothing else) -/

theorem ConcV.mem_put {β : Type} {m : List (Nat × β)} {x : Nat} {b : β} {p : Nat × β}
    (h : p ∈ AL.put m x b) : p ∈ m ∨ p = (x, b) := by
  induction m with
  | nil =>
    simp only [AL.put, List.mem_singleton] at h
    exact Or.inr h
  | cons a m ih =>
    obtain ⟨k, v⟩ := a
    simp only [AL.put] at h
    by_cases hk : k = x
    · rw [if_pos hk] at h
      rcases List.mem_cons.1 h with h | h
      · exact Or.inr (by rw [h, hk])
      · exact Or.inl (List.mem_cons_of_mem _ h)
    · rw [if_neg hk] at h
      rcases List.mem_cons.1 h with h | h
      · exact Or.inl (by rw [h]; exact List.mem_cons_self)
      · rcases ih h with h | h
        · exact Or.inl (List.mem_cons_of_mem _ h)
        · exact Or.inr h

theorem ConcV.mem_erase {β : Type} {m : List (Nat × β)} {x : Nat} {p : Nat × β}
    (h : p ∈ AL.erase m x) : p ∈ m := by
  induction m with
  | nil => exact h
  | cons a m ih =>
    obtain ⟨k, v⟩ := a
    simp only [AL.erase] at h
    by_cases hk : k = x
    · rw [if_pos hk] at h
      exact List.mem_cons_of_mem _ h
    · rw [if_neg hk] at h
      rcases List.mem_cons.1 h with h | h
      · rw [h]; exact List.mem_cons_self
      · exact List.mem_cons_of_mem _ (ih h)

/-! ### the order on watermarks -/

theorem vaLe_refl (a : Option Nat) : vaLe a a := by
  cases a with
  | none => trivial
  | some a => exact Nat.le_refl a

theorem vaLe_trans {a b c : Option Nat} (h1 : vaLe a b) (h2 : vaLe b c) : vaLe a c := by
  cases a with
  | none => trivial
  | some a =>
    cases b with
    | none => exact h1.elim
    | some b =>
      cases c with
      | none => exact h2.elim
      | some c => exact Nat.le_trans h1 h2

/-- The monotone store does not decrease the watermark … -/
theorem vaLe_maxVa (va : Option Nat) (r : Nat) : vaLe va (maxVa va r) := by
  cases va with
  | none => trivial
  | some w => exact Nat.le_max_left w r

/-- … and lifts it to the stored reading at least. -/
theorem le_maxVa (va : Option Nat) (r : Nat) : vaLe (some r) (maxVa va r) := by
  cases va with
  | none => exact Nat.le_refl r
  | some w => exact Nat.le_max_right w r

/-- A visible entry was written at or after the watermark. -/
theorem vaLe_of_not_hidden {va : Option Nat} {ts : Nat} (h : hidden va ts = false) :
    vaLe va (some ts) := by
  cases va with
  | none => trivial
  | some w =>
    simp only [hidden, decide_eq_false_iff_not, Nat.not_lt] at h
    exact h

/-! ### the invariant of the reachable states (both stores) -/

/-- Neither the watermark nor a reading held by a thread lies in the future. -/
structure VInv (s : State) : Prop where
  vaNow : ∀ w, s.va = some w → w ≤ s.now
  heldNow : ∀ p ∈ s.held, p.2 ≤ s.now

theorem storeVa_le_now {mono : Bool} {va : Option Nat} {r now : Nat}
    (hva : ∀ w, va = some w → w ≤ now) (hr : r ≤ now) :
    ∀ w, storeVa mono va r = some w → w ≤ now := by
  intro w hw
  cases mono with
  | false =>
    simp only [storeVa, Bool.false_eq_true, if_false, Option.some.injEq] at hw
    omega
  | true =>
    cases va with
    | none =>
      simp only [storeVa, if_true, maxVa, Option.some.injEq] at hw
      omega
    | some v =>
      have := hva v rfl
      simp only [storeVa, if_true, maxVa, Option.some.injEq] at hw
      rw [← hw]
      exact Nat.max_le.2 ⟨this, hr⟩

theorem step_vinv {mono : Bool} {s s' : State} {e : Ev} (hi : VInv s)
    (hs : step mono s e = some s') : VInv s' := by
  cases e with
  | tick d =>
    simp only [step, Option.some.injEq] at hs
    subst hs
    exact ⟨fun w hw => Nat.le_trans (hi.vaNow w hw) (Nat.le_add_right _ _),
      fun p hp => Nat.le_trans (hi.heldNow p hp) (Nat.le_add_right _ _)⟩
  | insert t k v =>
    simp only [step, Option.some.injEq] at hs
    subst hs
    exact ⟨hi.vaNow, hi.heldNow⟩
  | invRead t =>
    simp only [step] at hs
    cases hg : AL.get? s.held t with
    | some r => rw [hg] at hs; simp at hs
    | none =>
      rw [hg] at hs
      simp only [Option.some.injEq] at hs
      subst hs
      refine ⟨hi.vaNow, fun p hp => ?_⟩
      rcases ConcV.mem_put hp with h | h
      · exact hi.heldNow p h
      · rw [h]; exact Nat.le_refl _
  | invStore t =>
    simp only [step] at hs
    cases hg : AL.get? s.held t with
    | none => rw [hg] at hs; simp at hs
    | some r =>
      rw [hg] at hs
      simp only [Option.some.injEq] at hs
      subst hs
      have hr : r ≤ s.now := hi.heldNow (t, r) (AL.mem_of_get? hg)
      exact ⟨storeVa_le_now hi.vaNow hr, fun p hp => hi.heldNow p (ConcV.mem_erase hp)⟩
  | get t k =>
    simp only [step, Option.some.injEq] at hs
    subst hs
    exact hi

theorem reach_vinv {mono : Bool} {s : State} (hr : Reach mono s) : VInv s := by
  induction hr with
  | init => exact ⟨fun w hw => by simp at hw, fun p hp => by simp at hp⟩
  | step e _ hs ih => exact step_vinv ih hs

/-- A finite path from a reachable state ends in a reachable state. -/
theorem ConcV.reach_of_runEvs {mono : Bool} (evs : List Ev) (s s' : State) (hr : Reach mono s)
    (h : runEvs mono s evs = some s') : Reach mono s' := by
  induction evs generalizing s with
  | nil =>
    simp only [runEvs, Option.some.injEq] at h
    rw [← h]; exact hr
  | cons e rest ih =>
    simp only [runEvs] at h
    cases hs : step mono s e with
    | none => rw [hs] at h; simp at h
    | some s1 =>
      rw [hs] at h
      exact ih s1 (Reach.step e hr hs) h

/-! ### steps of the repaired code -/

/-- With the monotone store no step decreases the watermark. -/
theorem step_va_mono {s s' : State} {e : Ev} (hs : step true s e = some s') :
    vaLe s.va s'.va := by
  cases e with
  | tick d =>
    simp only [step, Option.some.injEq] at hs
    subst hs; exact vaLe_refl _
  | insert t k v =>
    simp only [step, Option.some.injEq] at hs
    subst hs; exact vaLe_refl _
  | invRead t =>
    simp only [step] at hs
    cases hg : AL.get? s.held t with
    | some r => rw [hg] at hs; simp at hs
    | none =>
      rw [hg] at hs
      simp only [Option.some.injEq] at hs
      subst hs; exact vaLe_refl _
  | invStore t =>
    simp only [step] at hs
    cases hg : AL.get? s.held t with
    | none => rw [hg] at hs; simp at hs
    | some r =>
      rw [hg] at hs
      simp only [Option.some.injEq] at hs
      subst hs
      exact vaLe_maxVa _ _
  | get t k =>
    simp only [step, Option.some.injEq] at hs
    subst hs; exact vaLe_refl _

/-- The log of completed calls only grows. -/
theorem step_completed_sub {mono : Bool} {s s' : State} {e : Ev}
    (hs : step mono s e = some s') : ∀ r ∈ s.completed, r ∈ s'.completed := by
  intro r hr
  cases e with
  | tick d =>
    simp only [step, Option.some.injEq] at hs
    subst hs; exact hr
  | insert t k v =>
    simp only [step, Option.some.injEq] at hs
    subst hs; exact hr
  | invRead t =>
    simp only [step] at hs
    cases hg : AL.get? s.held t with
    | some r => rw [hg] at hs; simp at hs
    | none =>
      rw [hg] at hs
      simp only [Option.some.injEq] at hs
      subst hs; exact hr
  | invStore t =>
    simp only [step] at hs
    cases hg : AL.get? s.held t with
    | none => rw [hg] at hs; simp at hs
    | some r' =>
      rw [hg] at hs
      simp only [Option.some.injEq] at hs
      subst hs
      exact List.mem_cons_of_mem _ hr
  | get t k =>
    simp only [step, Option.some.injEq] at hs
    subst hs; exact hr

theorem runEvs_completed_sub {mono : Bool} (evs : List Ev) (s s' : State)
    (h : runEvs mono s evs = some s') : ∀ r ∈ s.completed, r ∈ s'.completed := by
  induction evs generalizing s with
  | nil =>
    simp only [runEvs, Option.some.injEq] at h
    rw [← h]; exact fun r hr => hr
  | cons e rest ih =>
    simp only [runEvs] at h
    cases hs : step mono s e with
    | none => rw [hs] at h; simp at h
    | some s1 =>
      rw [hs] at h
      exact fun r hr => ih s1 h r (step_completed_sub hs r hr)

/-- With the monotone store every completed reading stays below the watermark. -/
theorem step_completed_le {s s' : State} {e : Ev} (hi : ∀ r ∈ s.completed, vaLe (some r) s.va)
    (hs : step true s e = some s') : ∀ r ∈ s'.completed, vaLe (some r) s'.va := by
  have hm := step_va_mono hs
  cases e with
  | tick d =>
    simp only [step, Option.some.injEq] at hs
    subst hs; exact hi
  | insert t k v =>
    simp only [step, Option.some.injEq] at hs
    subst hs; exact hi
  | invRead t =>
    simp only [step] at hs
    cases hg : AL.get? s.held t with
    | some r => rw [hg] at hs; simp at hs
    | none =>
      rw [hg] at hs
      simp only [Option.some.injEq] at hs
      subst hs; exact hi
  | invStore t =>
    simp only [step] at hs
    cases hg : AL.get? s.held t with
    | none => rw [hg] at hs; simp at hs
    | some r' =>
      rw [hg] at hs
      simp only [Option.some.injEq] at hs
      subst hs
      intro r hr
      rcases List.mem_cons.1 hr with h | h
      · rw [h]; exact le_maxVa _ _
      · exact vaLe_trans (hi r h) hm
  | get t k =>
    simp only [step, Option.some.injEq] at hs
    subst hs; exact hi

/-! ### the theorems: repaired code, all interleavings -/

/-- The watermark never lies in the future: every reachable state, BOTH stores (the same shape as
`ConcS_valid_after_le_now`). -/
theorem ConcV_valid_after_le_now (mono : Bool) (s : State) (hr : Reach mono s) :
    ∀ w, s.va = some w → w ≤ s.now :=
  (reach_vinv hr).vaNow

/-- 1. Repaired code (`mono = true`), any number of threads, every interleaving: the watermark
never lies in the future, and no step enabled in a reachable state decreases it. -/
theorem ConcV_watermark_monotone (s : State) (hr : Reach true s) :
    (∀ w, s.va = some w → w ≤ s.now) ∧
    (∀ (e : Ev) (s' : State), step true s e = some s' → vaLe s.va s'.va) :=
  ⟨(reach_vinv hr).vaNow, fun _ _ hs => step_va_mono hs⟩

/-- … hence along every finite path from a reachable state. -/
theorem ConcV_watermark_monotone_path (s s' : State) (_hr : Reach true s) (evs : List Ev)
    (h : runEvs true s evs = some s') : vaLe s.va s'.va := by
  induction evs generalizing s with
  | nil =>
    simp only [runEvs, Option.some.injEq] at h
    rw [← h]; exact vaLe_refl _
  | cons e rest ih =>
    simp only [runEvs] at h
    cases hs : step true s e with
    | none => rw [hs] at h; simp at h
    | some s1 =>
      rw [hs] at h
      exact vaLe_trans (step_va_mono hs) (ih s1 (Reach.step e _hr hs) h)

/-- 2. Repaired code, every reachable state: the reading of every `invalidate_all` call that has
returned is at most the watermark. -/
theorem ConcV_completed_below_watermark (s : State) (hr : Reach true s) :
    ∀ r ∈ s.completed, vaLe (some r) s.va := by
  induction hr with
  | init => intro r h; simp at h
  | step e _ hs ih => exact step_completed_le ih hs

/-- 3. Repaired code, every reachable state: if a lookup of `k` returns the value `v` of an entry
written at `ts`, then `ts` is at or after the reading of EVERY `invalidate_all` that has returned.
Contrapositive: whatever a completed `invalidate_all` discarded (an entry written strictly
before its reading) is not visible — in this state and, the log only growing, in every later
one. -/
theorem ConcV_invalidation_permanent (s : State) (hr : Reach true s) (k v ts : Nat)
    (he : entry s k = some (v, ts)) (hv : visible s k = some v) :
    ∀ r ∈ s.completed, r ≤ ts := by
  intro r hmem
  have h1 := ConcV_completed_below_watermark s hr r hmem
  have hh : hidden s.va ts = false := by
    cases hh : hidden s.va ts with
    | false => rfl
    | true => simp [visible, he, hh] at hv
  exact vaLe_trans h1 (vaLe_of_not_hidden hh)

/-- 3′. The temporal form.  Repaired code: once an `invalidate_all` with reading `r` has returned
(`r ∈ s.completed`), then after ANY continuation by any number of threads every entry written
strictly before `r` is hidden (the call is still logged, too).  In particular an entry present
and discarded at `s` stays invisible for as long as its key is not inserted again. -/
theorem ConcV_invalidation_permanent_later (s : State) (hr : Reach true s) (r : Nat)
    (hmem : r ∈ s.completed) (evs : List Ev) (s' : State) (h : runEvs true s evs = some s') :
    r ∈ s'.completed ∧
    ∀ k v ts, entry s' k = some (v, ts) → ts < r → visible s' k = none := by
  have hr' := ConcV.reach_of_runEvs evs s s' hr h
  have hm' := runEvs_completed_sub evs s s' h r hmem
  refine ⟨hm', fun k v ts he hlt => ?_⟩
  cases hv : visible s' k with
  | none => rfl
  | some v' =>
    have hvv : v' = v := by
      simp only [visible, he] at hv
      cases hh : hidden s'.va ts with
      | false => rw [hh] at hv; simp at hv; exact hv.symm
      | true => rw [hh] at hv; simp at hv
    rw [hvv] at hv
    have := ConcV_invalidation_permanent s' hr' k v ts he hv r hm'
    omega

/-! ### 4. defect D12: the plain store -/

/-- T1 reads the clock (1000); T3 inserts key 2 at 1001; T2 runs a whole `invalidate_all` at 1002
(reads, stores, returns); T1 stores its stale reading. -/
def d12Evs : List Ev :=
  [.tick 1000, .invRead 1, .tick 1, .insert 3 2 7, .tick 1, .invRead 2, .invStore 2, .invStore 1]

/-- `(watermark, completed log, entry of key 2, what get(2) returns)` at the end of a path. -/
def d12Summary (mono : Bool) (evs : List Ev) :
    Option (Option Nat × List Nat × Option (Nat × Nat) × Option Nat) :=
  (runEvs mono {} evs).map fun s => (s.va, s.completed, entry s 2, visible s 2)

/-- 4. The unrepaired code (`mono = false`): the interleaving is enabled, the `invalidate_all`
that read 1002 has returned (`1002 ∈ completed`) and had hidden key 2 when it returned — yet at
the end the watermark is back at 1000 and `get(2)` returns the value 7 written at 1001 `< 1002`.
On the repaired code (`mono = true`) the same events end with the watermark at 1002 and key 2
hidden. -/
theorem ConcV_counterexample_D12 :
    -- the plain store: key 2 (written at 1001) is visible although 1002 ∈ completed
    d12Summary false d12Evs = some (some 1000, [1000, 1002], some (7, 1001), some 7) ∧
    (∃ s, runEvs false {} d12Evs = some s ∧ Reach false s ∧ visible s 2 = some 7 ∧
      entry s 2 = some (7, 1001) ∧ 1002 ∈ s.completed) ∧
    -- right after T2's call returned (before T1's store) the key was hidden
    d12Summary false (d12Evs.take 7) = some (some 1002, [1002], some (7, 1001), none) ∧
    -- the watermark moved backwards in the last step
    (∃ s s', runEvs false {} (d12Evs.take 7) = some s ∧ step false s (.invStore 1) = some s' ∧
      ¬ vaLe s.va s'.va) ∧
    -- the monotone store: the same events end with key 2 hidden
    d12Summary true d12Evs = some (some 1002, [1000, 1002], some (7, 1001), none) := by
  refine ⟨by decide, ?_, by decide, ?_, by decide⟩
  · have hs : (runEvs false {} d12Evs).isSome = true := by decide
    cases hrun : runEvs false {} d12Evs with
    | none => rw [hrun] at hs; simp at hs
    | some s =>
      have h : d12Summary false d12Evs
          = some (some 1000, [1000, 1002], some (7, 1001), some 7) := by decide
      simp only [d12Summary, hrun, Option.map_some, Option.some.injEq, Prod.mk.injEq] at h
      refine ⟨s, rfl, ConcV.reach_of_runEvs _ _ _ Reach.init hrun, h.2.2.2, h.2.2.1, ?_⟩
      rw [h.2.1]; decide
  · have hs : (runEvs false {} (d12Evs.take 7)).isSome = true := by decide
    cases hrun : runEvs false {} (d12Evs.take 7) with
    | none => rw [hrun] at hs; simp at hs
    | some s =>
      have h : ((runEvs false {} (d12Evs.take 7)).bind (fun s => step false s (.invStore 1))).isSome
          = true := by decide
      rw [hrun] at h
      simp only [Option.bind_some] at h
      cases hst : step false s (.invStore 1) with
      | none => rw [hst] at h; simp at h
      | some s' =>
        refine ⟨s, s', rfl, hst, ?_⟩
        have h2 : ((runEvs false {} (d12Evs.take 7)).bind (fun s =>
            (step false s (.invStore 1)).map (fun s' => decide (vaLe s.va s'.va))))
            = some false := by decide
        rw [hrun] at h2
        simp only [Option.bind_some, hst, Option.map_some, Option.some.injEq,
          decide_eq_false_iff_not] at h2
        exact h2

/-- The three theorems do fail for the plain store: a reachable state of the unrepaired code with a
completed reading above the watermark and a visible entry older than a completed call. -/
theorem ConcV_plain_store_violates :
    ∃ s, Reach false s ∧ (∃ r ∈ s.completed, ¬ vaLe (some r) s.va) ∧
      (∃ k v ts, entry s k = some (v, ts) ∧ visible s k = some v ∧
        ∃ r ∈ s.completed, ts < r) := by
  obtain ⟨_, ⟨s, hrun, hr, hv, he, hm⟩, _⟩ := ConcV_counterexample_D12
  have hva : s.va = some 1000 := by
    have h : d12Summary false d12Evs
        = some (some 1000, [1000, 1002], some (7, 1001), some 7) := by decide
    simp only [d12Summary, hrun, Option.map_some, Option.some.injEq, Prod.mk.injEq] at h
    exact h.1
  refine ⟨s, hr, ⟨1002, hm, ?_⟩, 2, 7, 1001, he, hv, 1002, hm, by decide⟩
  rw [hva]; decide

/-! ### 5. the link to `Sync` / `ConcS`: the atomic `invalidate_all` -/

/-- Under `va ≤ now` both stores write the reading `now` itself. -/
theorem storeVa_now (mono : Bool) (va : Option Nat) (now : Nat)
    (hva : ∀ w, va = some w → w ≤ now) : storeVa mono va now = some now := by
  cases mono with
  | false => rfl
  | true =>
    cases va with
    | none => rfl
    | some w =>
      have := hva w rfl
      simp only [storeVa, if_true, maxVa, Option.some.injEq]
      exact Nat.max_eq_right this

/-- 5. `invRead t ; invStore t` back to back, from any state whose watermark is not in the future
and in which `t` is not already inside `invalidate_all`, for BOTH stores: both steps are enabled
and together they are exactly the atomic step of `Sync.invalidateAll` — `va := some now`, nothing
else changes (the call is logged). -/
theorem ConcV_invRead_invStore_atomic (mono : Bool) (s : State) (t : Tid)
    (hva : ∀ w, s.va = some w → w ≤ s.now) (ht : AL.get? s.held t = none) :
    runEvs mono s [.invRead t, .invStore t]
      = some { s with va := some s.now, completed := s.now :: s.completed } := by
  simp only [runEvs, step, ht, AL.get?_put_self, AL.erase_put_of_none _ ht,
    storeVa_now mono s.va s.now hva]

/-- … in particular in every reachable state of this model, whichever store is used and whatever
the other threads hold at that moment. -/
theorem ConcV_invalidateAll_uninterrupted (mono : Bool) (s : State) (hr : Reach mono s) (t : Tid)
    (ht : AL.get? s.held t = none) :
    ∃ s', runEvs mono s [.invRead t, .invStore t] = some s' ∧ s'.va = some s.now ∧
      s'.now = s.now ∧ s'.entries = s.entries ∧ s'.held = s.held := by
  refine ⟨_, ConcV_invRead_invStore_atomic mono s t (ConcV_valid_after_le_now mono s hr) ht,
    rfl, rfl, rfl, rfl⟩

/-- The atomic step of the detailed models is justified as the case without interference.
`Sync.invalidateAll` sets `va := some now` in one step, and `ConcS` takes that step as its
`invAll t` event.  By `ConcS_valid_after_le_now` every reachable state `cs` of the many-thread
system `ConcS` has `va ≤ now`; so for any V-state with the same clock and watermark, the two
memory accesses of the real `invalidate_all` run without another thread in between produce exactly
the watermark `Sync.invalidateAll` produces — under the repaired store and under the old one. -/
theorem ConcV_justifies_Sync_invalidateAll (p : Params) (hq : Sync.NoQuirks p)
    (cs : ConcS.CState) (hr : ConcS.Reach p cs) (mono : Bool) (s : State) (t : Tid)
    (hnow : s.now = cs.s.now) (hva : s.va = cs.s.va) (ht : AL.get? s.held t = none) :
    (runEvs mono s [.invRead t, .invStore t]).map (fun s' => (s'.va, s'.now))
      = some ((Sync.invalidateAll cs.s).va, (Sync.invalidateAll cs.s).now) := by
  have h := ConcS_valid_after_le_now p hq cs hr
  rw [ConcV_invRead_invStore_atomic mono s t (by rw [hnow, hva]; exact h) ht]
  simp only [Option.map_some, Sync.invalidateAll, hnow]

/-- The visibility filter of V is the `valid_after` part of the expiry predicate of `Sync`
(`Sync.expiredTs` without deadlines). -/
theorem ConcV_hidden_eq_expiredTs (va : Option Nat) (ts now : Nat) :
    hidden va ts = Sync.expiredTs none va ts now := by
  cases va <;> simp [hidden, Sync.expiredTs]

end Props
end MiniMoka

namespace MiniMoka.Props
#print axioms ConcV_valid_after_le_now
#print axioms ConcV_watermark_monotone
#print axioms ConcV_watermark_monotone_path
#print axioms ConcV_completed_below_watermark
#print axioms ConcV_invalidation_permanent
#print axioms ConcV_invalidation_permanent_later
#print axioms ConcV_counterexample_D12
#print axioms ConcV_plain_store_violates
#print axioms ConcV_invRead_invStore_atomic
#print axioms ConcV_invalidateAll_uninterrupted
#print axioms ConcV_justifies_Sync_invalidateAll
#print axioms ConcV_hidden_eq_expiredTs
end MiniMoka.Props
