/-
  C01 — lookups return only the latest live value for a key, never stale or phantom data.
-/
import MiniMoka.Lemmas.UnsyncLookup
import MiniMoka.Lemmas.SketchLaws
import MiniMoka.Lemmas.SyncLookup

namespace MiniMoka
namespace Props

open Unsync Spec

/-- C01 on the single-threaded cache, for every configuration (capacity none/0/1/…, any
weigher incl. weights 0 and above capacity, any ttl/tti, any hash function incl. colliding
ones) and every history over insert, get, contains_key, iter, invalidate, invalidate_all,
invalidate_entries_if and clock advances: every key a lookup yields has a most recent insert
that has not been invalidated (by key, by predicate or by invalidate_all) since, and a
yielded value is exactly the value of that insert. -/
theorem C01_unsync (p : Params) (hq : NoQuirks p)
    (hsm : SmallSketch p) (h : List Op) :
    oracleC01 .unsync (Unsync.trace p h) = true := by
  unfold oracleC01 Unsync.trace
  refine lookupOracle_of_coupled sketchLaws hq hsm _ ?_ h {} {} (init_inv sketchLaws p) (init_coupled p)
  intro g kv hkv
  simp only [allChecks, Bool.and_eq_true] at hkv
  exact hkv.1.1

/-- Non-vacuity: a history with updates, invalidations of all three kinds, eviction and a
re-insert passes; the oracle is not trivially true — it rejects a trace with a stale value and
one with a phantom key. -/
example : oracleC01 .unsync (Unsync.trace { cap := some 2 }
    [.ins 1 10, .ins 1 11, .get 1, .ins 2 20, .ins 3 30, .iter, .inv 2, .get 2, .has 1,
     .invIf (.vlt 12), .get 1, .ins 1 12, .get 1, .invAll, .iter, .ins 4 40, .get 4]) = true := by
  decide +kernel

example : oracleC01 .unsync [(.ins 1 10, .ok), (.ins 1 11, .ok), (.get 1, .val (some 10))] = false := by
  decide

example : oracleC01 .unsync [(.ins 1 10, .ok), (.inv 1, .ok), (.has 1, .bool true)] = false := by
  decide

/-- C01 on the concurrent cache driven by one thread, for every configuration and every
history over insert, get, contains_key, iter, invalidate, invalidate_all, clock advances and
`sync` calls placed anywhere (so with any number of operations still queued, and with the
maintenance runs that insert/get/invalidate perform on their own): a yielded key has a most
recent insert that has not been invalidated by key, nor by an invalidate_all issued at a
strictly later clock reading; a yielded value is the value of that insert. The trace is judged
up to the first internal panic, if any (absence of panics is C08). -/
theorem C01_sync (p : Params) (hq : Sync.NoQuirks p) (h : List Op) :
    oracleC01 .sync (Sync.trace p h) = true := by
  unfold oracleC01 Sync.trace
  refine Sync.lookupOracle_of_coupled hq _ ?_ h {} {} (Sync.init_coupled p)
  intro g kv hkv
  simp only [Sync.allChecks, Bool.and_eq_true] at hkv
  exact hkv.1.1

/-- Non-vacuity on the concurrent cache: un-synced burst, invalidate while the insert is
still queued, re-insert, invalidate_all at the same and at a later clock reading. -/
example : oracleC01 .sync (Sync.trace { cap := some 2 }
    [.ins 1 10, .ins 2 20, .get 1, .inv 1, .get 1, .ins 1 11, .get 1, .adv Gen.PAST_SYNC_INTERVAL_NS, .ins 3 30,
     .ins 4 40, .iter, .invAll, .get 3, .adv 1, .ins 3 31, .invAll, .get 3, .has 4, .sync, .iter])
    = true := by
  decide +kernel

-- Note: the defects repaired on the concurrent cache (D6, D7) lose or hide values; a lost
-- value is "nothing" for C01, so they are witnessed under C03/C08/C10, not here.

end Props
end MiniMoka
