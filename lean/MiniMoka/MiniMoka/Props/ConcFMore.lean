/-
  Two lifts to the finest many-thread model (`MiniMoka/ConcF.lean`):

  1. `ConcF_no_spurious_removal` (C03 / C17 without a capacity limit): with `max_capacity = none`,
     for every enabled step out of a reachable state and every binding of the map: the binding is
     kept unchanged; or the step is the `insert` map step of its own key (updated in place: same
     info, the new value); or the `invalidate` map step of its own key; or a maintenance
     micro-step, and the entry is expired or hidden by the `invalidate_all` watermark (judged on
     the state after the micro-step).  With no capacity, no micro-step of an `Upsert` removes
     anything (`has_enough_capacity` always holds: the too-big path, the admission scan, the
     rejection and the LRU loop are unreachable, `reach_simple`); only the iterations of the
     expiry loops remove.
  2. C09 at the finest granularity:
     `ConcF_run_terminates`: from every reachable state with a run in progress, finitely many
     micro-steps of the running thread end the run (existence form: the program counter of the
     `Upsert` being applied runs down its run-local lists, then the phases of the run are the
     fuel / batch bounded loops of `Inner::sync`; no explicit bound is stated);
     `ConcF_no_stuck_state`: from every reachable state some finite event list reaches a state
     with no run in progress and no thread holding anything: the current run ends; then each
     holder performs a housekeeping run of its own (which empties the write queue) and sends.
-/
import MiniMoka.Lemmas.ConcF
import MiniMoka.Props.ConcF

namespace MiniMoka
namespace Props

open Sync Sync.Nodes Sync.Counters ConcS ConcM ConcF

/-! ### no spurious removal -/

/-- The map steps of the other threads touch only their own key. -/
theorem plain_no_spurious (p : Params) (s : SState) (pd : List (Tid × Pend)) (e : ConcS.Ev)
    (hpl : isPlain e = true) (c' : CState) (hs : ConcS.step p ⟨s, pd⟩ e = some c') (k : Nat)
    (ve : VE) (hk : AL.get? s.map k = some ve) :
    AL.get? c'.s.map k = some ve ∨
    (∃ t v, e = .insMap t k v ∧
      ∃ ve', AL.get? c'.s.map k = some ve' ∧ ve'.info = ve.info ∧ ve'.val = v) ∨
    (∃ t, e = .invMap t k) := by
  cases e with
  | insMap t k' v =>
    simp only [ConcS.step] at hs
    cases hp : pendOf pd t with
    | some x => rw [hp] at hs; cases hs
    | none =>
      rw [hp] at hs
      have e := Option.some.inj hs
      subst e
      by_cases hkk : k' = k
      · subst hkk
        refine Or.inr (Or.inl ⟨t, v, rfl, ?_⟩)
        show ∃ ve', AL.get? (insertMap p s k' v).1.map k' = some ve' ∧ _
        unfold insertMap
        dsimp only
        rw [hk]
        exact ⟨_, AL.get?_put_self _ _ _, rfl, rfl⟩
      · refine Or.inl ?_
        show AL.get? (insertMap p s k' v).1.map k = some ve
        unfold insertMap
        dsimp only
        cases hg : AL.get? s.map k' with
        | none =>
          dsimp only
          rw [AL.get?_put_ne _ hkk]; exact hk
        | some old =>
          dsimp only
          rw [AL.get?_put_ne _ hkk]; exact hk
  | invMap t k' =>
    simp only [ConcS.step] at hs
    cases hp : pendOf pd t with
    | some x => rw [hp] at hs; cases hs
    | none =>
      rw [hp] at hs
      dsimp only at hs
      by_cases hkk : k' = k
      · subst hkk; exact Or.inr (Or.inr ⟨t, rfl⟩)
      · refine Or.inl ?_
        cases ho : (invalidateMap s k').2 with
        | none =>
          rw [ho] at hs
          rw [← Option.some.inj hs]; exact hk
        | some op =>
          rw [ho] at hs
          have e := Option.some.inj hs
          subst e
          show AL.get? (invalidateMap s k').1.map k = some ve
          unfold invalidateMap
          cases hg : AL.get? s.map k' with
          | none => exact hk
          | some old =>
            dsimp only
            rw [AL.get?_erase_ne hkk]; exact hk
  | getMap t k' =>
    simp only [ConcS.step] at hs
    cases hp : pendOf pd t with
    | some x => rw [hp] at hs; cases hs
    | none =>
      rw [hp] at hs
      rw [← Option.some.inj hs]; exact Or.inl hk
  | maint t => cases hpl
  | sync t => cases hpl
  | enq t =>
    refine Or.inl ?_
    simp only [ConcS.step] at hs
    cases hp : pendOf pd t with
    | none => rw [hp] at hs; cases hs
    | some x =>
      rw [hp] at hs
      cases x with
      | write op =>
        dsimp only at hs
        split at hs
        · rw [← Option.some.inj hs]; exact hk
        · cases hs
      | read op =>
        dsimp only at hs
        split at hs
        · rw [← Option.some.inj hs]; exact hk
        · rw [← Option.some.inj hs]; exact hk
  | tick d =>
    simp only [ConcS.step] at hs
    rw [← Option.some.inj hs]; exact Or.inl hk
  | invAll t =>
    simp only [ConcS.step] at hs
    rw [← Option.some.inj hs]; exact Or.inl hk

/-- C03 / C17 at the finest granularity, without `max_capacity`: no step of any thread removes or
changes a map entry except the `insert` / `invalidate` of its own key and the removal of an
expired or invalidated entry by a micro-step of a maintenance run. -/
theorem ConcF_no_spurious_removal (p : Params) (hq : Sync.NoQuirks p) (hsm : SmallSketch p)
    (hcap : p.cap = none) (c c' : FState) (hr : ConcF.Reach p c) (ev : ConcM.Ev)
    (hs : ConcF.step p .good c ev = some c') (k : Nat) (ve : VE)
    (hk : AL.get? c.s.map k = some ve) :
    AL.get? c'.s.map k = some ve ∨
    (∃ t v, ev = .other (.insMap t k v) ∧
      ∃ ve', AL.get? c'.s.map k = some ve' ∧ ve'.info = ve.info ∧ ve'.val = v) ∨
    (∃ t, ev = .other (.invMap t k)) ∨
    ((∃ t, ev = .mStep t) ∧ isExpiredInfo p c'.s (getInfo c'.s ve.info) c'.s.now = true) := by
  cases ev with
  | other e0 =>
    simp only [ConcF.step] at hs
    by_cases hpl : isPlain e0 = true
    · rw [if_pos hpl] at hs
      cases h0 : ConcS.step p ⟨c.s, c.pending⟩ e0 with
      | none => rw [h0] at hs; cases hs
      | some c1 =>
        rw [h0] at hs
        rw [← Option.some.inj hs]
        rcases plain_no_spurious p c.s c.pending e0 hpl c1 h0 k ve hk with a | ⟨t, v, a, b⟩ | ⟨t, a⟩
        · exact Or.inl a
        · exact Or.inr (Or.inl ⟨t, v, by rw [a], b⟩)
        · exact Or.inr (Or.inr (Or.inl ⟨t, by rw [a]⟩))
    · rw [if_neg hpl] at hs; cases hs
  | mBegin t ex =>
    refine Or.inl ?_
    simp only [ConcF.step] at hs
    cases hrun : c.run with
    | some r =>
      rw [hrun] at hs
      dsimp only at hs
      split at hs
      · cases hs
      · split at hs
        · rw [← Option.some.inj hs]; exact hk
        · cases hs
    | none =>
      rw [hrun] at hs
      dsimp only at hs
      rw [← Option.some.inj hs]
      show AL.get? (beginRun c.s ex).map k = some ve
      rw [(beginRun_fields c.s ex).1]; exact hk
  | mStep t =>
    rcases mstep_kept_none hq hcap (reach_finv hq hsm hr) (reach_simple hcap hr) t hs k ve hk
      with a | a
    · exact Or.inl a
    · exact Or.inr (Or.inr (Or.inr ⟨⟨t, rfl⟩, a⟩))

/-! ### progress -/

/-- Every run ends: from a reachable state with a run in progress, finitely many micro-steps of
the running thread (and nothing else) lead to a state with no run in progress; what threads
hold is untouched. -/
theorem ConcF_run_terminates (p : Params) (hq : Sync.NoQuirks p) (hsm : SmallSketch p)
    (c : FState) (hr : ConcF.Reach p c) (r : FRun) (hrun : c.run = some r) :
    ∃ n c', ConcF.runEvs p .good c (List.replicate n (.mStep r.tid)) = some c' ∧
      c'.run = none ∧ c'.pending = c.pending := by
  obtain ⟨n, s', h⟩ := run_terminates (reach_finv hq hsm hr) r hrun
  exact ⟨n, _, h, rfl, rfl⟩

/-- A housekeeping run by thread `t`, then `t` sends what it holds. -/
theorem run_then_enq (p : Params) {c : FState} (hrun : c.run = none)
    (hnr : c.s.running = false) {t : Tid} {pd : Pend} (hp : pendOf c.pending t = some pd) :
    ∃ evs c', ConcF.runEvs p .good c evs = some c' ∧ c'.run = none ∧
      c'.pending = dropPend c.pending t := by
  have hc : c = ⟨c.s, c.pending, none⟩ := by cases c; simp only at hrun; rw [hrun]
  obtain ⟨n, he⟩ := runEvs_of_fpath' (fpath_of_mpath (run_is_trySync p c.s hnr)) t c.pending
  have hw := (trySync_spec p c.s hnr).writeQ
  obtain ⟨c2, h2, h3⟩ := ConcS.step_enq_enabled p (c := ⟨trySync p c.s, c.pending⟩) (t := t) hp
    (fun op _ => by
      show (trySync p c.s).writeQ.length < _
      rw [hw]; decide)
  refine ⟨.mBegin t false :: (List.replicate n (.mStep t) ++ [.other (.enq t)]),
    ⟨c2.s, c2.pending, none⟩, ?_, rfl, h3⟩
  rw [hc]
  simp only [ConcF.runEvs, ConcF.step]
  rw [ConcF.runEvs_append, he]
  simp only [Option.map_none, ConcF.runEvs, ConcF.step, isPlain, if_true, h2, Option.map_some]

theorem drainF {p : Params} (hq : Sync.NoQuirks p) (hsm : SmallSketch p) : ∀ (n : Nat)
    (c : FState), ConcF.Reach p c → c.run = none → c.pending.length ≤ n →
    ∃ evs c', ConcF.runEvs p .good c evs = some c' ∧ c'.run = none ∧ c'.pending = [] := by
  intro n
  induction n with
  | zero =>
    intro c _ hrun hn
    exact ⟨[], c, rfl, hrun, List.eq_nil_of_length_eq_zero (Nat.le_zero.mp hn)⟩
  | succ n ih =>
    intro c hr hrun hn
    cases hp : c.pending with
    | nil => exact ⟨[], c, rfl, hrun, hp⟩
    | cons x rest =>
      obtain ⟨t, pd⟩ := x
      have hinv := reach_finv hq hsm hr
      unfold FInv at hinv
      rw [hrun] at hinv
      have hpo : pendOf c.pending t = some pd := by rw [hp]; exact ConcS.pendOf_head t pd rest
      obtain ⟨evs1, c1, e1, r1, p1⟩ := run_then_enq p hrun hinv.1.running hpo
      have hlen : c1.pending.length ≤ n := by
        rw [p1, hp]
        have := ConcS.dropPend_head_length t pd rest
        rw [hp, List.length_cons] at hn
        omega
      obtain ⟨evs2, c2, e2, r2, p2⟩ := ih c1 (ConcF.reach_of_runEvs evs1 c c1 hr e1) r1 hlen
      refine ⟨evs1 ++ evs2, c2, ?_, r2, p2⟩
      rw [ConcF.runEvs_append, e1]
      exact e2

/-- No reachable state is stuck: some finite event list leads to a state with no run in
progress and no thread holding an operation.  (The run in progress, if any, ends; then every
holder runs maintenance itself, which makes room in the write queue, and sends.) -/
theorem ConcF_no_stuck_state (p : Params) (hq : Sync.NoQuirks p) (hsm : SmallSketch p)
    (c : FState) (hr : ConcF.Reach p c) :
    ∃ evs c', ConcF.runEvs p .good c evs = some c' ∧ c'.run = none ∧ c'.pending = [] ∧
      ConcF.Reach p c' := by
  have hfin : ∃ evs0 c0, ConcF.runEvs p .good c evs0 = some c0 ∧ c0.run = none := by
    cases hrun : c.run with
    | none => exact ⟨[], c, rfl, hrun⟩
    | some r =>
      obtain ⟨n, c0, h1, h2, _⟩ := ConcF_run_terminates p hq hsm c hr r hrun
      exact ⟨_, c0, h1, h2⟩
  obtain ⟨evs0, c0, h1, h2⟩ := hfin
  have hr0 := ConcF.reach_of_runEvs evs0 c c0 hr h1
  obtain ⟨evs1, c1, g1, g2, g3⟩ := drainF hq hsm c0.pending.length c0 hr0 h2 (Nat.le_refl _)
  refine ⟨evs0 ++ evs1, c1, ?_, g2, g3, ConcF.reach_of_runEvs evs1 c0 c1 hr0 g1⟩
  rw [ConcF.runEvs_append, h1]
  exact g1

/-! ### a run over a long write queue -/

/-- One thread fills the write channel: `n` inserts of distinct keys, each sent, no
maintenance. -/
def fillF (n : Nat) : List ConcM.Ev :=
  ((List.range n).map (fun k => [ConcM.Ev.other (.insMap 0 k 1), .other (.enq 0)])).flatten

/-- `(run over, |write queue|, entry_count, weighted_size, |map|)` after `fillF n`, the start of a
housekeeping run by thread 1 and `m` of its micro-steps. -/
def runOverQueue (n m : Nat) : Option (Bool × Nat × Nat × Nat × Nat) :=
  (ConcF.runEvs {} .good {} (fillF n ++ [.mBegin 1 false] ++ List.replicate m (.mStep 1))).map
    fun c => (c.run.isNone, c.s.writeQ.length, c.s.ec, c.s.ws, c.s.map.length)

/-- 70 queued operations (more than the flush point 64): the run needs exactly
`1 + 70 · 4 + 3 = 284` micro-steps (receive, `clearDirty`, `readCurrent`, `dispatch` per
operation), not one less.  For the full channel (`WRITE_LOG_SIZE` = 384 operations, 1540
micro-steps) `#eval runOverQueue 384 1540` gives `some (true, 0, 384, 384, 384)`. -/
example : runOverQueue 70 284 = some (true, 0, 70, 70, 70) ∧
    runOverQueue 70 283 = some (false, 0, 0, 0, 70) := by
  decide +kernel

end Props
end MiniMoka

namespace MiniMoka.Props
#print axioms ConcF_no_spurious_removal
#print axioms ConcF_run_terminates
#print axioms ConcF_no_stuck_state
end MiniMoka.Props
