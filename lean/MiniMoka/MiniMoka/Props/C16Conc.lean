/-
  C16 (concurrent part): iteration over the sharded map beside concurrent writers.
  Final theorems only; model in `MiniMoka/ConcI.lean`, proofs in `Lemmas/ConcI.lean`.

  All theorems quantify over: any number `n` of shards, any shard function `shardOf`, any
  well-formed initial map `m0` (unique keys per shard, keys in their own shard), and ANY
  trace `tr` that is one iteration (`visit 0, …, visit (n-1)` in order) with arbitrary
  `write`/`remove` events interleaved anywhere, i.e. all interleavings with any number of
  writer threads whose map operations are atomic per key. `out` is what the iterator
  yielded. ASSUMPTION of the model (stated in `ConcI.lean`): each shard is observed at one
  moment ("shard snapshot"), which DashMap guarantees by holding the shard's read lock
  while it yields the shard's entries.
-/
import MiniMoka.Lemmas.ConcI

namespace MiniMoka.ConcI

/-- The iterator's output for initial map `m0` and trace `tr`. -/
abbrev outOf (shardOf : Key → Nat) (m0 : Nat → Shard) (tr : List Ev) : List (Key × Val) :=
  (run shardOf ⟨m0, []⟩ tr).out

/-- No key is yielded twice, whatever the writers do. -/
theorem C16_no_duplicates (shardOf : Key → Nat) (n : Nat) (m0 : Nat → Shard) (tr : List Ev)
    (hw : WfMap shardOf m0) (hit : IsIteration n tr) :
    ((outOf shardOf m0 tr).map Prod.fst).Nodup := by
  refine nodup_out_gen shardOf tr ⟨m0, []⟩ 0 n hw ?_ (by simp) (by simp)
  rw [hit, List.range_eq_range']

/-- Each yielded `(k, v)` was the map's binding of `k` at the moment its shard was
visited, a moment inside the iteration (`tr = pre ++ visit (shardOf k) :: post`). -/
theorem C16_value_was_current (shardOf : Key → Nat) (m0 : Nat → Shard) (tr : List Ev)
    (hw : WfMap shardOf m0) {k : Key} {v : Val} (h : (k, v) ∈ outOf shardOf m0 tr) :
    ∃ pre post, tr = pre ++ Ev.visit (shardOf k) :: post ∧
      lookup shardOf (run shardOf ⟨m0, []⟩ pre).map k = some v := by
  rcases (mem_out_run shardOf).1 h with h0 | ⟨pre, i, post, htr, hmem⟩
  · exact absurd h0 (by simp)
  · have hwp := wf_run shardOf (s := ⟨m0, []⟩) hw pre i
    have hi : shardOf k = i := hwp.2 k (mem_keys_of_mem hmem)
    subst hi
    exact ⟨pre, post, htr, get?_of_mem_nodup hwp.1 hmem⟩

/-- A key that is absent at every moment of the iteration is not yielded. -/
theorem C16_no_phantom (shardOf : Key → Nat) (m0 : Nat → Shard) (tr : List Ev)
    (hw : WfMap shardOf m0) {k : Key}
    (habs : ∀ pre post, tr = pre ++ post →
      lookup shardOf (run shardOf ⟨m0, []⟩ pre).map k = none) :
    k ∉ (outOf shardOf m0 tr).map Prod.fst := by
  intro hk
  obtain ⟨⟨k', v⟩, hmem, rfl⟩ := List.mem_map.1 hk
  obtain ⟨pre, post, htr, hl⟩ := C16_value_was_current shardOf m0 tr hw hmem
  rw [habs pre _ htr] at hl
  exact absurd hl (by simp)

/-- A key that is present at every moment from the start to the end of the iteration
(writers may update it) is yielded exactly once. -/
theorem C16_resident_yielded_once (shardOf : Key → Nat) (n : Nat) (m0 : Nat → Shard)
    (tr : List Ev) (hw : WfMap shardOf m0) (hit : IsIteration n tr) {k : Key}
    (hk : shardOf k < n)
    (hres : ∀ pre post, tr = pre ++ post →
      (lookup shardOf (run shardOf ⟨m0, []⟩ pre).map k).isSome) :
    ((outOf shardOf m0 tr).map Prod.fst).count k = 1 := by
  apply count_eq_one_of_nodup_mem (C16_no_duplicates shardOf n m0 tr hw hit)
  have hv : shardOf k ∈ visits tr := by rw [hit]; exact List.mem_range.2 hk
  obtain ⟨pre, post, htr⟩ := mem_visits hv
  have hp := hres pre _ htr
  obtain ⟨v, hv'⟩ := Option.isSome_iff_exists.1 hp
  have hmem : (k, v) ∈ outOf shardOf m0 tr :=
    (mem_out_run shardOf).2 (Or.inr ⟨pre, _, post, htr, mem_of_get? hv'⟩)
  exact List.mem_map.2 ⟨(k, v), hmem, rfl⟩

/-- The same with the syntactic hypothesis: present at the start and no `remove k` among
the interleaved writer events (only `write`s to it). -/
theorem C16_resident_yielded_once' (shardOf : Key → Nat) (n : Nat) (m0 : Nat → Shard)
    (tr : List Ev) (hw : WfMap shardOf m0) (hit : IsIteration n tr) {k : Key}
    (hk : shardOf k < n) (h0 : (lookup shardOf m0 k).isSome) (hnr : Ev.remove k ∉ tr) :
    ((outOf shardOf m0 tr).map Prod.fst).count k = 1 := by
  apply C16_resident_yielded_once shardOf n m0 tr hw hit hk
  intro pre post htr
  apply present_of_no_remove shardOf pre ⟨m0, []⟩ h0
  intro hm
  exact hnr (by rw [htr]; exact List.mem_append_left _ hm)

/-- Every yielded value of `k` is its initial value or a value written during the
iteration before the visit. -/
theorem C16_value_origin (shardOf : Key → Nat) (m0 : Nat → Shard) (tr : List Ev)
    (hw : WfMap shardOf m0) {k : Key} {v : Val} (h : (k, v) ∈ outOf shardOf m0 tr) :
    lookup shardOf m0 k = some v ∨ Ev.write k v ∈ tr := by
  obtain ⟨pre, post, htr, hl⟩ := C16_value_was_current shardOf m0 tr hw h
  rcases value_origin shardOf pre ⟨m0, []⟩ hw hl with h1 | h1
  · exact Or.inl h1
  · exact Or.inr (by rw [htr]; exact List.mem_append_left _ h1)

/-- Sequential corollary: with no writer events the output is exactly the content of the
map: equal to the shards' contents in shard order (hence a permutation of it), without
repeated keys, and `(k, v)` is yielded iff it is the binding of `k` in a shard `< n`. -/
theorem C16_sequential (shardOf : Key → Nat) (n : Nat) (m0 : Nat → Shard)
    (hw : WfMap shardOf m0) :
    outOf shardOf m0 (seqIteration n) = content n m0 ∧
    (outOf shardOf m0 (seqIteration n)).Perm (content n m0) ∧
    ((outOf shardOf m0 (seqIteration n)).map Prod.fst).Nodup ∧
    ∀ k v, (k, v) ∈ outOf shardOf m0 (seqIteration n) ↔
      (shardOf k < n ∧ lookup shardOf m0 k = some v) := by
  have heq : outOf shardOf m0 (seqIteration n) = content n m0 := by
    simp [outOf, seqIteration, run_seq, content]
  refine ⟨heq, by rw [heq], ?_, ?_⟩
  · exact C16_no_duplicates shardOf n m0 _ hw (by simp [IsIteration, seqIteration, visits_seq])
  · intro k v
    rw [heq, mem_content]
    constructor
    · rintro ⟨i, hi, hmem⟩
      have hs : shardOf k = i := (hw i).2 k (mem_keys_of_mem hmem)
      subst hs
      exact ⟨hi, get?_of_mem_nodup (hw _).1 hmem⟩
    · rintro ⟨hi, hl⟩
      exact ⟨shardOf k, hi, mem_of_get? hl⟩

/-- Soundness (and completeness) of the executable acceptor: it accepts exactly when no
key is repeated in the yielded list, every fixed key appears exactly once, and every
yielded value is one of the candidate values of its key. -/
theorem acceptI_sound (keys : List Key) (out : List (Key × Val))
    (cand : List (Key × List Val)) :
    acceptI keys out cand = true ↔
      (out.map Prod.fst).Nodup ∧
      (∀ k ∈ keys, (out.map Prod.fst).count k = 1) ∧
      (∀ kv ∈ out, kv.2 ∈ candOf cand kv.1) :=
  acceptI_iff keys out cand

/-- The model's runs are accepted: if the fixed keys live in shards `< n`, are present at
the start and never removed, and `cand` lists for every key at least its initial value
and the values written to it, then the acceptor accepts the output of every interleaving.
(So a rejection by `acceptI` on a recorded real run contradicts the model.) -/
theorem C16_model_accepted (shardOf : Key → Nat) (n : Nat) (m0 : Nat → Shard) (tr : List Ev)
    (hw : WfMap shardOf m0) (hit : IsIteration n tr)
    (keys : List Key) (cand : List (Key × List Val))
    (hkeys : ∀ k ∈ keys, shardOf k < n ∧ (lookup shardOf m0 k).isSome ∧ Ev.remove k ∉ tr)
    (hcand : ∀ k v, (lookup shardOf m0 k = some v ∨ Ev.write k v ∈ tr) → v ∈ candOf cand k) :
    acceptI keys (outOf shardOf m0 tr) cand = true := by
  rw [acceptI_sound]
  refine ⟨C16_no_duplicates shardOf n m0 tr hw hit, ?_, ?_⟩
  · intro k hk
    obtain ⟨h1, h2, h3⟩ := hkeys k hk
    exact C16_resident_yielded_once' shardOf n m0 tr hw hit h1 h2 h3
  · rintro ⟨k, v⟩ hmem
    exact hcand k v (C16_value_origin shardOf m0 tr hw hmem)

/-! ## Non-vacuity: a 2-shard run with writer events between the two visits -/

def exShardOf : Key → Nat := fun k => k % 2
def exMap : Nat → Shard := ofList [[(0, 10), (2, 20)], [(1, 11), (5, 55)]]
/-- visit shard 0; then writers update key 1, insert key 3, remove key 5 and (too late to
be seen) update key 2 and remove key 0; visit shard 1. -/
def exTrace : List Ev :=
  [.visit 0, .write 1 99, .write 3 7, .remove 5, .write 2 21, .remove 0, .visit 1]

theorem exTrace_isIteration : IsIteration 2 exTrace := by decide

theorem exMap_wf : WfMap exShardOf exMap := by
  intro i
  match i with
  | 0 => decide
  | 1 => decide
  | (j + 2) => simp [exMap, ofList, AL.keys]

/-- The output: shard 0 as it was at the first visit, shard 1 as it was at the second. -/
example : outOf exShardOf exMap exTrace = [(0, 10), (2, 20), (1, 99), (3, 7)] := by decide

/-- Key 1 is resident throughout (only written): hypotheses of
`C16_resident_yielded_once'` hold, and it is yielded once with the written value. -/
example : exShardOf 1 < 2 ∧ (lookup exShardOf exMap 1).isSome ∧ Ev.remove 1 ∉ exTrace := by
  decide

example : ((outOf exShardOf exMap exTrace).map Prod.fst).count 1 = 1 := by decide

/-- The hypotheses of the theorems are jointly satisfiable: instantiate them here. -/
example : ((outOf exShardOf exMap exTrace).map Prod.fst).Nodup :=
  C16_no_duplicates exShardOf 2 exMap exTrace exMap_wf exTrace_isIteration
example : ((outOf exShardOf exMap exTrace).map Prod.fst).count 1 = 1 :=
  C16_resident_yielded_once' exShardOf 2 exMap exTrace exMap_wf exTrace_isIteration
    (by decide) (by decide) (by decide)

/-- The acceptor on this run: fixed keys 1 and 2. -/
example : acceptI [1, 2] (outOf exShardOf exMap exTrace)
    [(0, [10]), (1, [11, 99]), (2, [20, 21]), (3, [7]), (5, [55])] = true := by decide

/-- The acceptor rejects a duplicate, a missing fixed key, and a value never written. -/
example : acceptI [1] [(1, 11), (2, 20), (1, 99)] [(1, [11, 99]), (2, [20])] = false := by
  decide
example : acceptI [1, 2] [(1, 11)] [(1, [11]), (2, [20])] = false := by decide
example : acceptI [1] [(1, 12)] [(1, [11, 99])] = false := by decide

/-- Without the shard-snapshot discipline duplicates are possible in principle: a trace
that visits shard 0 twice is not an iteration and does yield key 0 twice. -/
example : ¬ ((outOf exShardOf exMap [.visit 0, .visit 0]).map Prod.fst).Nodup := by decide

end MiniMoka.ConcI

section Axioms
open MiniMoka.ConcI
#print axioms C16_no_duplicates
#print axioms C16_value_was_current
#print axioms C16_no_phantom
#print axioms C16_resident_yielded_once
#print axioms C16_resident_yielded_once'
#print axioms C16_value_origin
#print axioms C16_sequential
#print axioms acceptI_sound
#print axioms C16_model_accepted
end Axioms
