/-
  C09, departure form (ConcS granularity): the calls that have started can all complete *using
  only steps of the threads that hold them*.  No step of an idle thread — in particular of a
  thread that ran a maintenance earlier and has since left — is needed, whatever state that thread
  left behind (full write channel included).  This is the model-level counterpart of the
  real-thread `stall` component (harness/src/conc.rs, `run_stall`), which parks a thread inside a
  maintenance run, lets writers fill the write channel, releases the thread, lets it leave, and
  demands that every writer finishes.
-/
import MiniMoka.Props.ConcSProgress

namespace MiniMoka
namespace Props

open Sync ConcS

theorem mem_dropPend {l : List (Tid × Pend)} {t : Tid} {x : Tid × Pend}
    (h : x ∈ dropPend l t) : x ∈ l := by
  induction l with
  | nil => simp [dropPend] at h
  | cons y l ih =>
    simp only [dropPend] at h
    by_cases e : y.1 = t
    · rw [if_pos e] at h; exact List.mem_cons_of_mem _ (ih h)
    · rw [if_neg e] at h
      rcases List.mem_cons.1 h with h | h
      · exact h ▸ List.mem_cons_self
      · exact List.mem_cons_of_mem _ (ih h)

/-- The events of the holding threads: a housekeeping attempt or the send of the held op. -/
def OwnStep (holders : List Tid) (e : Ev) : Prop :=
  ∃ t ∈ holders, e = .maint t ∨ e = .enq t

theorem drain_own {p : Params} (hq : NoQuirks p) (hsm : SmallSketch p) : ∀ (n : Nat) (c : CState),
    Reach p c → c.pending.length ≤ n →
      ∃ evs c', evs.length ≤ 2 * n ∧ runEvs p c evs = some c' ∧ c'.pending = [] ∧ Reach p c' ∧
        ∀ e ∈ evs, OwnStep (c.pending.map Prod.fst) e := by
  intro n
  induction n with
  | zero =>
    intro c hr hn
    exact ⟨[], c, Nat.le_refl _, rfl, List.eq_nil_of_length_eq_zero (Nat.le_zero.mp hn), hr,
      fun _ h => by cases h⟩
  | succ n ih =>
    intro c hr hn
    cases hp : c.pending with
    | nil => exact ⟨[], c, Nat.zero_le _, rfl, hp, hr, fun _ h => by cases h⟩
    | cons x rest =>
      obtain ⟨t, pd⟩ := x
      have hrun := (reach_csinv hq hsm hr).running
      have hpo : pendOf c.pending t = some pd := by rw [hp]; exact pendOf_head t pd rest
      obtain ⟨c1, c2, h1, h2, h3⟩ := maint_then_enq p hrun hpo t
      have hr2 : Reach p c2 := Reach.step _ (Reach.step _ hr h1) h2
      have hlen : c2.pending.length ≤ n := by
        rw [h3, hp]
        have := dropPend_head_length t pd rest
        rw [hp, List.length_cons] at hn
        omega
      obtain ⟨evs, c', e1, e2, e3, e4, e5⟩ := ih c2 hr2 hlen
      have ht : t ∈ ((t, pd) :: rest).map Prod.fst := by simp
      refine ⟨.maint t :: .enq t :: evs, c', ?_, ?_, e3, e4, ?_⟩
      · simp only [List.length_cons]; omega
      · simp only [runEvs, h1, h2]
        exact e2
      · intro e he
        rcases List.mem_cons.1 he with he | he
        · exact ⟨t, ht, Or.inl he⟩
        rcases List.mem_cons.1 he with he | he
        · exact ⟨t, ht, Or.inr he⟩
        obtain ⟨t', ht', h'⟩ := e5 e he
        refine ⟨t', ?_, h'⟩
        rw [h3, hp] at ht'
        obtain ⟨y, hy, rfl⟩ := List.mem_map.1 ht'
        exact List.mem_map.2 ⟨y, mem_dropPend hy, rfl⟩

/-- **Departure.** From every reachable state of the many-thread system, the threads that hold
an operation can complete all started calls by themselves: a path of at most two events per
holding thread, each event a housekeeping attempt (`maint t`) or the send (`enq t`) of a thread
`t` that holds an operation in `c`, leads to a state in which nobody holds anything.  Threads
that hold nothing — e.g. one that ran the last maintenance and left — take no step in it. -/
theorem C09_ConcS_complete_without_idle_threads (p : Params) (hq : Sync.NoQuirks p)
    (hsm : SmallSketch p) (c : CState) (hr : Reach p c) :
    ∃ evs c', evs.length ≤ 2 * c.pending.length ∧ runEvs p c evs = some c' ∧ c'.pending = [] ∧
      Reach p c' ∧ ∀ e ∈ evs, OwnStep (c.pending.map Prod.fst) e :=
  drain_own hq hsm c.pending.length c hr (Nat.le_refl _)

/-- In particular the path needs no step of any given thread that holds nothing. -/
theorem C09_ConcS_departed_thread_not_needed (p : Params) (hq : Sync.NoQuirks p)
    (hsm : SmallSketch p) (c : CState) (hr : Reach p c) (gone : Tid)
    (hg : pendOf c.pending gone = none) :
    ∃ evs c', runEvs p c evs = some c' ∧ c'.pending = [] ∧
      ∀ e ∈ evs, e ≠ .maint gone ∧ e ≠ .enq gone ∧ e ≠ .sync gone := by
  obtain ⟨evs, c', _, h2, h3, _, h5⟩ := C09_ConcS_complete_without_idle_threads p hq hsm c hr
  refine ⟨evs, c', h2, h3, ?_⟩
  intro e he
  obtain ⟨t, ht, h⟩ := h5 e he
  have hne : t ≠ gone := by
    rintro rfl
    obtain ⟨y, hy, rfl⟩ := List.mem_map.1 ht
    have : ∀ (l : List (Tid × Pend)), y ∈ l → pendOf l y.1 ≠ none := by
      intro l
      induction l with
      | nil => intro h; cases h
      | cons z l ih =>
        intro h
        simp only [pendOf]
        by_cases e : z.1 = y.1
        · rw [if_pos e]; simp
        · rw [if_neg e]
          rcases List.mem_cons.1 h with h | h
          · exact absurd (h ▸ rfl) e
          · exact ih h
    exact this _ hy hg
  rcases h with rfl | rfl
  · refine ⟨?_, ?_, ?_⟩ <;> intro h <;> cases h <;> exact hne rfl
  · refine ⟨?_, ?_, ?_⟩ <;> intro h <;> cases h <;> exact hne rfl

/-- Non-vacuity: a state in which one thread filled the write channel completely and left, and
another thread holds a write it cannot send (the channel is full), is reachable; the path of the
theorem there is `[maint 1, enq 1]`. -/
example :
    (runEvs {} {} (fillEvs Gen.WRITE_LOG_SIZE ++ [Ev.insMap 1 1000 1])).map
        (fun c => (c.s.writeQ.length, c.pending.length)) = some (Gen.WRITE_LOG_SIZE, 1) ∧
    ((runEvs {} {} (fillEvs Gen.WRITE_LOG_SIZE ++ [Ev.insMap 1 1000 1, Ev.enq 1])).isNone) ∧
    ((runEvs {} {} (fillEvs Gen.WRITE_LOG_SIZE ++ [Ev.insMap 1 1000 1, Ev.maint 1, Ev.enq 1])).map
        (fun c => c.pending.length)) = some 0 := by
  decide +kernel

end Props
end MiniMoka

#print axioms MiniMoka.Props.C09_ConcS_complete_without_idle_threads
#print axioms MiniMoka.Props.C09_ConcS_departed_thread_not_needed
