/-
  C16 on the detailed many-thread model: iteration beside writers (`MiniMoka/ConcSI.lean`:
  `ConcS` plus iterators that visit the shards in order, one shard per atomic step, filtering
  with `is_expired_entry`).

  PROVED in full, for every configuration of the current code (`NoQuirks`, `SmallSketch`: needed
  for "the keys of the map are distinct" in every reachable state), every shard function and
  every interleaving:
   1. `ConcSI_no_duplicates`: what an iterator has yielded never contains a key twice, and only
      keys of shards already visited.
   2. `ConcSI_value_was_current`: every pair an iterator holds at the end of a path that started
      with its `itBegin` was, at the `itShard` step that yielded it, the map's binding of the key,
      not expired and not hidden by the watermark in that state, the key lying in the shard being
      visited.  (`ConcSI_yielded_origin`: the general form for any path.)
   3. `ConcSI_resident_yielded_once`: if the key stays bound to the same value entry, unexpired
      and not hidden, in every state from the start of the path until the iterator has passed
      its shard, the pair is yielded, exactly once.
   4. `ConcSI_no_phantom`: a key that is bound in no state of the path is not yielded.
   5. `ConcSI_sequential`: `itBegin`, then all shards with no other step in between: the result
      is a permutation of `Sync.iter p s` (what `C16_sync_exact` speaks about), provided every
      key's shard is below `nshards`.
  Paths are event lists run by `ConcSI.runEvs`; "every state of the path" is "the state after
  every prefix", as in `Props/C16Conc.lean`.
-/
import MiniMoka.Lemmas.ConcSI
import MiniMoka.Props.ConcS

namespace MiniMoka
namespace Props

open Sync ConcS ConcSI

theorem count_one_of_nodup_mem {l : List Nat} {k : Nat} (hn : l.Nodup) (hm : k ∈ l) :
    l.count k = 1 := by
  induction l with
  | nil => cases hm
  | cons x xs ih =>
    simp only [List.nodup_cons] at hn
    rcases List.mem_cons.mp hm with e | h
    · subst e
      have : xs.count k = 0 := List.count_eq_zero.mpr hn.1
      simp [this]
    · have hx : x ≠ k := fun e => hn.1 (e ▸ h)
      rw [List.count_cons_of_ne hx]
      exact ih hn.2 h

/-- 1. No duplicates: the keys an iterator has yielded are pairwise distinct and belong to
shards it has already visited. -/
theorem ConcSI_no_duplicates (p : Params) (cfg : Cfg) (hq : Sync.NoQuirks p) (hsm : SmallSketch p)
    (c : IState) (hr : ConcSI.Reach p cfg c) (t : Tid) (it : ItSt)
    (hi : iterOf c.iters t = some it) :
    (it.yielded.map (·.1)).Nodup ∧ ∀ kv, kv ∈ it.yielded → cfg.shardOf kv.1 < it.next :=
  reach_itOK hq hsm hr t it hi

/-- 2, general form: a yielded pair was yielded before the path, or was current at its visit. -/
theorem ConcSI_yielded_origin (p : Params) (cfg : Cfg) (hq : Sync.NoQuirks p)
    (hsm : SmallSketch p) (t : Tid) (evs : List ConcSI.Ev) (c0 c1 : IState)
    (hr : ConcSI.Reach p cfg c0) (hrun : ConcSI.runEvs p cfg c0 evs = some c1) (k v : Nat)
    (hm : (k, v) ∈ yOf c1 t) :
    (k, v) ∈ yOf c0 t ∨
    ∃ pre post cpre it ve, evs = pre ++ ConcSI.Ev.itShard t :: post ∧
      ConcSI.runEvs p cfg c0 pre = some cpre ∧ iterOf cpre.iters t = some it ∧
      cfg.shardOf k = it.next ∧ AL.get? cpre.c.s.map k = some ve ∧ ve.val = v ∧
      isExpiredInfo p cpre.c.s (getInfo cpre.c.s ve.info) cpre.c.s.now = false :=
  yielded_origin hq hsm t evs c0 c1 hr hrun k v hm

/-- 2. Value was current: on a path that begins with the iterator's `itBegin`, every pair the
iterator holds at the end was the map's binding of its key, unexpired and not hidden, in the
state in which its shard was visited. -/
theorem ConcSI_value_was_current (p : Params) (cfg : Cfg) (hq : Sync.NoQuirks p)
    (hsm : SmallSketch p) (t : Tid) (evs : List ConcSI.Ev) (c0 c1 : IState)
    (hr : ConcSI.Reach p cfg c0)
    (hrun : ConcSI.runEvs p cfg c0 (.itBegin t :: evs) = some c1) (it1 : ItSt)
    (h1 : iterOf c1.iters t = some it1) (k v : Nat) (hm : (k, v) ∈ it1.yielded) :
    ∃ pre post cpre it ve, evs = pre ++ ConcSI.Ev.itShard t :: post ∧
      ConcSI.runEvs p cfg c0 (.itBegin t :: pre) = some cpre ∧ iterOf cpre.iters t = some it ∧
      cfg.shardOf k = it.next ∧ AL.get? cpre.c.s.map k = some ve ∧ ve.val = v ∧
      isExpiredInfo p cpre.c.s (getInfo cpre.c.s ve.info) cpre.c.s.now = false := by
  simp only [ConcSI.runEvs] at hrun
  cases hs : ConcSI.step p cfg c0 (.itBegin t) with
  | none => rw [hs] at hrun; cases hrun
  | some c' =>
    rw [hs] at hrun
    have hy : yOf c' t = [] := by
      rcases step_iter hs t with ⟨_, _, _, g⟩ | ⟨_, _, g⟩ | ⟨g, _⟩ | ⟨g, _⟩
      · exact absurd rfl g
      · rw [yOf_some g]
      · cases g
      · cases g
    rcases yielded_origin hq hsm t evs c' c1 (ConcSI.Reach.step _ hr hs) hrun k v
        (by rw [yOf_some h1]; exact hm) with h | ⟨pre, post, cpre, it, ve, a1, a2, a3⟩
    · rw [hy] at h; cases h
    · exact ⟨pre, post, cpre, it, ve, a1, by simp only [ConcSI.runEvs, hs]; exact a2, a3⟩

/-- 3. A resident entry is yielded exactly once: `k` is bound to the value entry `ve`, unexpired
and not hidden, in every state of the path in which the iterator has not yet passed the shard
of `k`; the path does not end the iteration; at its end the iterator has passed that shard.  Then
`(k, ve.val)` has been yielded, and `k` occurs exactly once among the yielded keys. -/
theorem ConcSI_resident_yielded_once (p : Params) (cfg : Cfg) (hq : Sync.NoQuirks p)
    (hsm : SmallSketch p) (t : Tid) (k : Nat) (ve : VE) (evs : List ConcSI.Ev) (c0 c1 : IState)
    (hr : ConcSI.Reach p cfg c0) (hrun : ConcSI.runEvs p cfg c0 evs = some c1)
    (hne : ConcSI.Ev.itEnd t ∉ evs) (it0 : ItSt) (h0 : iterOf c0.iters t = some it0)
    (hle : it0.next ≤ cfg.shardOf k)
    (hres : ∀ pre post cpre it, evs = pre ++ post → ConcSI.runEvs p cfg c0 pre = some cpre →
      iterOf cpre.iters t = some it → it.next ≤ cfg.shardOf k →
      AL.get? cpre.c.s.map k = some ve ∧
        isExpiredInfo p cpre.c.s (getInfo cpre.c.s ve.info) cpre.c.s.now = false)
    (it1 : ItSt) (h1 : iterOf c1.iters t = some it1) (hlt : cfg.shardOf k < it1.next) :
    (k, ve.val) ∈ it1.yielded ∧ (it1.yielded.map (·.1)).count k = 1 := by
  obtain ⟨it1', g1, g2⟩ := resident_inv hq hsm t k ve evs c0 c1 hr hrun hne it0 h0 (Or.inr hle) hres
  rw [h1] at g1
  have e := Option.some.inj g1
  subst e
  have hmem : (k, ve.val) ∈ it1.yielded := by
    rcases g2 with g | g
    · exact g
    · exact absurd hlt (Nat.not_lt.mpr g)
  refine ⟨hmem, ?_⟩
  have hnd := (ConcSI_no_duplicates p cfg hq hsm c1 (ConcSI.reach_of_runEvs evs c0 c1 hr hrun) t it1 h1).1
  exact count_one_of_nodup_mem hnd (List.mem_map.mpr ⟨(k, ve.val), hmem, rfl⟩)

/-- 4. No phantom: a key that is bound in no state of a path beginning with the iterator's
`itBegin` is not among the keys the iterator holds at the end. -/
theorem ConcSI_no_phantom (p : Params) (cfg : Cfg) (hq : Sync.NoQuirks p) (hsm : SmallSketch p)
    (t : Tid) (k : Nat) (evs : List ConcSI.Ev) (c0 c1 : IState) (hr : ConcSI.Reach p cfg c0)
    (hrun : ConcSI.runEvs p cfg c0 (.itBegin t :: evs) = some c1)
    (habs : ∀ pre post cpre, evs = pre ++ post →
      ConcSI.runEvs p cfg c0 (.itBegin t :: pre) = some cpre → AL.get? cpre.c.s.map k = none)
    (it1 : ItSt) (h1 : iterOf c1.iters t = some it1) : k ∉ it1.yielded.map (·.1) := by
  intro hk
  obtain ⟨⟨k', v⟩, hm, e⟩ := List.mem_map.mp hk
  simp only at e
  subst e
  obtain ⟨pre, post, cpre, it, ve, a1, a2, _, _, a5, _⟩ :=
    ConcSI_value_was_current p cfg hq hsm t evs c0 c1 hr hrun it1 h1 k' v hm
  have := habs pre (ConcSI.Ev.itShard t :: post) cpre a1 a2
  rw [this] at a5; cases a5

/-- 5. Sequential iteration: `itBegin` followed by the visits of all shards, no other step in
between.  The cache state is untouched and the result is a permutation of `Sync.iter` (the
unexpired, not hidden entries as `(key, value)` pairs), provided the shard of every key is below
`nshards`. -/
theorem ConcSI_sequential (p : Params) (cfg : Cfg) (c0 : IState) (t : Tid)
    (hi : iterOf c0.iters t = none) (hp : pendOf c0.c.pending t = none)
    (hsh : ∀ k, cfg.shardOf k < cfg.nshards) :
    ∃ c1 it, ConcSI.runEvs p cfg c0
        (.itBegin t :: List.replicate cfg.nshards (ConcSI.Ev.itShard t)) = some c1 ∧
      c1.c = c0.c ∧ iterOf c1.iters t = some it ∧ it.next = cfg.nshards ∧
      it.yielded.Perm (Sync.iter p c0.c.s) ∧
      ∃ c2, ConcSI.step p cfg c1 (.itEnd t) = some c2 ∧ c2.done = c0.done ++ [(t, it.yielded)] := by
  have hs : ConcSI.step p cfg c0 (.itBegin t) = some ⟨c0.c, setIter c0.iters t {}, c0.done⟩ := by
    simp only [ConcSI.step, hi, hp]
  obtain ⟨c1, r1, r2, r3, r4⟩ := run_visits (p := p) (cfg := cfg) t cfg.nshards
    ⟨c0.c, setIter c0.iters t {}, c0.done⟩ 0 [] (by simp only [iterOf_setIter, if_true])
    (by omega)
  refine ⟨c1, _, by simp only [ConcSI.runEvs, hs]; exact r1, r2, r4, by simp, ?_, ?_⟩
  · simp only [List.nil_append, ← List.range_eq_range']
    have h1 : ((List.range cfg.nshards).flatMap (shardEntries cfg p c0.c.s)) =
        ((List.range cfg.nshards).flatMap fun i => c0.c.s.map.filter fun kv =>
          cfg.shardOf kv.1 == i &&
            !isExpiredInfo p c0.c.s (getInfo c0.c.s kv.2.info) c0.c.s.now).map
          fun kv => (kv.1, kv.2.val) := by
      rw [List.map_flatMap]; rfl
    rw [h1]
    unfold Sync.iter
    refine List.Perm.map _ ?_
    refine (shards_perm (fun kv : Nat × VE => cfg.shardOf kv.1)
      (fun kv => !isExpiredInfo p c0.c.s (getInfo c0.c.s kv.2.info) c0.c.s.now) c0.c.s.map
      cfg.nshards).trans ?_
    have : (fun kv : Nat × VE => decide (cfg.shardOf kv.1 < cfg.nshards) &&
        !isExpiredInfo p c0.c.s (getInfo c0.c.s kv.2.info) c0.c.s.now) =
        fun kv => !isExpiredInfo p c0.c.s (getInfo c0.c.s kv.2.info) c0.c.s.now := by
      funext kv
      simp [hsh kv.1]
    rw [this]
  · refine ⟨⟨c1.c, dropIter c1.iters t, c1.done ++ [(t, _)]⟩, ?_, by rw [r3]⟩
    simp only [ConcSI.step, r4]
    simp

/-! ### a machine-checked interleaving -/

/-- Two shards: even and odd keys. -/
def siCfg : Cfg := { nshards := 2, shardOf := fun k => k % 2 }

/-- Threads 10–13 put keys 0–3 (values 100–103).  Thread 5 starts iterating and visits shard 0
(keys 0 and 2).  Then a writer inserts key 4 into shard 0, already visited: not seen; updates
key 1 in shard 1, not yet visited: the new value is seen; and invalidates key 3 in shard 1:
not yielded.  Thread 5 visits shard 1 and ends. -/
def siInterleaving : List ConcSI.Ev :=
  [.cs (.insMap 10 0 100), .cs (.insMap 11 1 101), .cs (.insMap 12 2 102), .cs (.insMap 13 3 103),
   .itBegin 5, .itShard 5,
   .cs (.insMap 14 4 104), .cs (.insMap 15 1 111), .cs (.invMap 16 3),
   .itShard 5, .itEnd 5]

example : (ConcSI.runEvs {} siCfg {} siInterleaving).map (fun c => (c.done, c.iters.length,
    c.c.s.map.map (fun (kv : Nat × VE) => (kv.1, kv.2.val)))) =
    some ([(5, [(0, 100), (2, 102), (1, 111)])], 0, [(0, 100), (1, 111), (2, 102), (4, 104)]) := by
  decide +kernel

/-- A thread that is iterating takes no other step, and an iteration cannot end before all
shards have been visited. -/
example : ConcSI.runEvs {} siCfg {} [.itBegin 5, .cs (.insMap 5 0 1)] = none := by decide +kernel
example : ConcSI.runEvs {} siCfg {} [.itBegin 5, .itShard 5, .itEnd 5] = none := by decide +kernel

/-- With a time-to-live, an expired entry is filtered at the visit of its shard. -/
example : (ConcSI.runEvs { ttl := some 5 } siCfg {}
    [.cs (.insMap 10 0 100), .cs (.tick 3), .cs (.insMap 11 2 102), .itBegin 5, .cs (.tick 2),
     .itShard 5, .itShard 5, .itEnd 5]).map (·.done) = some [(5, [(2, 102)])] := by
  decide +kernel

end Props
end MiniMoka

namespace MiniMoka.Props
#print axioms ConcSI_no_duplicates
#print axioms ConcSI_yielded_origin
#print axioms ConcSI_value_was_current
#print axioms ConcSI_resident_yielded_once
#print axioms ConcSI_no_phantom
#print axioms ConcSI_sequential
end MiniMoka.Props
