/-
  C14, clause "only `get` calls (hit or miss, each at most once) are ever recorded, never
  `insert`, `contains_key`, iteration or invalidation" — on the two cache models.
  (The clauses about the estimator itself are in `Props/C14.lean`.)

  Models: `MiniMoka/Unsync.lean` (`unsync::Cache`), `MiniMoka/Sync.lean` (`sync::Cache` driven
  by one thread).  Lemmas: `MiniMoka/Lemmas/SketchFrame.lean`.

  Reading guide.
  * `s.sk : Sketch` is the cache's `frequency_sketch`, `s.skOn` its `frequency_sketch_enabled`.
    `s.sk.frequency x` is the popularity estimate of hash `x`.
  * `Sketch.incr1 legacy sk h` — one `Sketch.increment legacy sk h` as the caches perform it (if
    `increment` faults, the sketch stays and the cache raises its sticky fault);
    `Sketch.feed legacy sk hs` — `incr1` for the hashes `hs`, left to right.  Under the sketch
    laws (current code, documented size limit) no increment faults and `feed false` is the
    monadic fold of `Sketch.increment false` (`Sketch.feed_ok`); `legacy` is the defect switch
    `p.q.d5` (D5), `false` for the current code.
  * `Sketch.init cap = ({} : Sketch).ensureCapacity cap` — a freshly sized sketch; all its
    estimates are 0 (`Sketch.frequency_init`).  The empty sketch `{}` ignores increments
    (`Sketch.increment_of_empty`: `if self.table.is_empty() { return; }`), so a lookup made
    before the sketch is switched on is recorded zero times.
  * `Enabled sk on sk' on'` — nothing happened to (sketch, flag), or the flag went from off to on
    and `sk' = sk.ensureCapacity cap` for some `cap` (`enable_frequency_sketch`).
  * Unsync: `Unsync.runState p {} h` is the state after the history `h`.
  * Sync: `Sync.stateAfter p {} h` is the state after the history `h`; `s.readQ` the read
    channel; `ROp.hash` the hash a queued read carries; `Sync.readOf p s k` the read operation
    `get k` creates in state `s` (`Hit(hash, entry, now)` or `Miss(hash)`);
    `Sync.SkF.newReads p s op` is `[readOf p s k]` for `op = get k` in a fault-free state and
    `[]` otherwise.

  Everything below is proved in full (no `_partial`).  Hypotheses: `NoQuirks p` (all defect
  switches off: the current code) and `SmallSketch p` (sketch table below 2^28 slots, the
  documented limit) wherever a statement talks about *reachable* states, because that is
  what the invariants "no fault" and "flag off → sketch empty" are proved under.  The
  state-level statements need no such hypothesis.
-/
import MiniMoka.Lemmas.SketchFrame
import MiniMoka.Props.C09Seq

namespace MiniMoka
namespace Props

/-! ## 1. The single-threaded cache -/

/-- State level, any configuration (quirks included), any state: an operation other than
`get` either leaves the sketch and its flag alone or switches the sketch on (flag off → on,
`ensure_capacity`); an operation other than `get` and `insert` leaves them alone. -/
theorem C14_unsync_nonget_frame (p : Params) (s : Unsync.UState) (op : Op)
    (hop : ∀ k, op ≠ .get k) :
    Enabled s.sk s.skOn (Unsync.step p s op).1.sk (Unsync.step p s op).1.skOn ∧
    ((∀ k v, op ≠ .ins k v) →
      (Unsync.step p s op).1.sk = s.sk ∧ (Unsync.step p s op).1.skOn = s.skOn) :=
  ⟨Unsync.SkF.step_en p s op hop, fun hins => Unsync.SkF.step_same p s op hop hins⟩

/-- State level, under the invariant of reachable states: for an operation other than `get`
either the sketch is unchanged, or it has just been switched on *from the empty sketch*: it
had recorded nothing, and is now a freshly sized sketch (all estimates 0 before and after). -/
theorem C14_unsync_nonget_state {P : Sketch → Prop} {p : Params} {s : Unsync.UState}
    (hi : Unsync.Inv P p s) (op : Op) (hop : ∀ k, op ≠ .get k) :
    ((Unsync.step p s op).1.sk = s.sk ∧ (Unsync.step p s op).1.skOn = s.skOn) ∨
    (s.skOn = false ∧ s.sk = {} ∧ (Unsync.step p s op).1.skOn = true ∧
      ∃ cap, (Unsync.step p s op).1.sk = Sketch.init cap) := by
  rcases Unsync.SkF.step_en p s op hop with h | ⟨h1, h2, cap, h3⟩
  · exact Or.inl h
  · refine Or.inr ⟨h1, hi.skOff h1, h2, cap, ?_⟩
    rw [h3, hi.skOff h1]; rfl

/-- **Only lookups are recorded (unsync).**  In every reachable state, an operation other
than `get` (insert, contains_key, iteration, invalidate, invalidate_all,
invalidate_entries_if, clock steps, the hooks) changes no popularity estimate. -/
theorem C14_unsync_only_get_records (p : Params) (hq : Unsync.NoQuirks p) (hsm : SmallSketch p)
    (h : List Op) (op : Op) (hop : ∀ k, op ≠ .get k) (x : UInt64) :
    (Unsync.step p (Unsync.runState p {} h) op).1.sk.frequency x =
      (Unsync.runState p {} h).sk.frequency x :=
  (Unsync.SkF.step_en p _ op hop).frequency
    (Unsync.reachable_inv sketchLaws hq hsm h).skOff x

/-- State level, any configuration: in a fault-free state `get k` records the hash of `k`
exactly once — one `increment` on the sketch as the maintenance `get` starts with leaves it,
and that maintenance does not touch the sketch — whether the lookup hits, misses or finds an
expired entry. -/
theorem C14_unsync_get_records_once_state (p : Params) (s : Unsync.UState) (k : Nat)
    (hf : s.fault = none) :
    (Unsync.step p s (.get k)).1.sk = Sketch.incr1 p.q.d5 (Unsync.maintain p s).sk (p.hash k) ∧
    (Unsync.maintain p s).sk = s.sk ∧
    (Unsync.step p s (.get k)).1.skOn = s.skOn :=
  ⟨(Unsync.SkF.step_get p s k hf).1, (Unsync.SkF.maintain_sk p s).1,
    (Unsync.SkF.step_get p s k hf).2⟩

/-- **`get` records once (unsync).**  In every reachable state `s`, the sketch after `get k`
is exactly `increment (hash k)` of the sketch of `s` (which never faults); the flag is
unchanged. -/
theorem C14_unsync_get_records_once (p : Params) (hq : Unsync.NoQuirks p) (hsm : SmallSketch p)
    (h : List Op) (k : Nat) :
    Sketch.increment false (Unsync.runState p {} h).sk (p.hash k) =
      .ok (Unsync.step p (Unsync.runState p {} h) (.get k)).1.sk ∧
    (Unsync.maintain p (Unsync.runState p {} h)).sk = (Unsync.runState p {} h).sk ∧
    (Unsync.step p (Unsync.runState p {} h) (.get k)).1.skOn = (Unsync.runState p {} h).skOn := by
  have hi := Unsync.reachable_inv sketchLaws hq hsm h
  obtain ⟨h1, h2, h3⟩ :=
    C14_unsync_get_records_once_state p _ k hi.inv.struct.noFault
  refine ⟨?_, h2, h3⟩
  have hd5 : p.q.d5 = false := by rw [hq]
  obtain ⟨sk', e, _⟩ := sketchLaws.incr _ (p.hash k) hi.sk
  rw [h1, h2, hd5, e]
  unfold Sketch.incr1
  rw [e]

/-! ## 2. The concurrent cache (driven by one thread) -/

open Sync Sync.SkF Sync.Nodes

/-- **(a) Only `get` queues reads.**  In every reachable state (any configuration, quirks
included), after an operation other than `get` the read queue is a suffix of the read queue
before: nothing is appended; the maintenance the operation may run has drained nothing or
everything. -/
theorem C14_sync_only_get_queues_reads (p : Params) (h : List Op) (op : Op)
    (hop : ∀ k, op ≠ .get k) :
    ∃ drained, (stateAfter p {} h).readQ = drained ++ (step p (stateAfter p {} h) op).1.readQ ∧
      (drained = [] ∨ (step p (stateAfter p {} h) op).1.readQ = []) := by
  obtain ⟨d, r, h1, h2, h3, _⟩ := step_drain p (stateAfter_qinv p h qinv_init) op
  rw [newReads_of_not_get p _ op hop, List.append_nil] at h3
  rw [h3]
  exact ⟨d, h1, h2⟩

/-- **(a) `get` queues exactly one read.**  In every reachable fault-free state, after `get k`
the read queue is what the maintenance left of the old queue (all of it, or nothing) followed
by exactly one read operation, `readOf p s k`: a hit or a miss carrying the hash of `k`.  (It
is never dropped: `C09_sync_read_never_dropped`.) -/
theorem C14_sync_get_queues_one_read (p : Params) (h : List Op) (k : Nat)
    (hf : (stateAfter p {} h).fault = none) :
    ∃ drained rest, (stateAfter p {} h).readQ = drained ++ rest ∧ (drained = [] ∨ rest = []) ∧
      (step p (stateAfter p {} h) (.get k)).1.readQ = rest ++ [readOf p (stateAfter p {} h) k] ∧
      (readOf p (stateAfter p {} h) k).hash = p.hash k ∧
      (readOf p (stateAfter p {} h) k = .miss (p.hash k) ∨
        ∃ ve ts, readOf p (stateAfter p {} h) k = .hit (p.hash k) ve ts) := by
  obtain ⟨d, r, h1, h2, h3, _⟩ := step_drain p (stateAfter_qinv p h qinv_init) (.get k)
  rw [newReads_get p _ k hf] at h3
  refine ⟨d, r, h1, h2, h3, readOf_hash p _ k, ?_⟩
  unfold readOf
  split
  · exact Or.inl rfl
  · split
    · exact Or.inl rfl
    · exact Or.inr ⟨_, _, rfl⟩

/-- The same for the current code: reachable states are fault-free. -/
theorem C14_sync_get_queues_one_read' (p : Params) (hq : Sync.NoQuirks p) (hsm : SmallSketch p)
    (h : List Op) (k : Nat) :
    ∃ drained rest, (stateAfter p {} h).readQ = drained ++ rest ∧ (drained = [] ∨ rest = []) ∧
      (step p (stateAfter p {} h) (.get k)).1.readQ = rest ++ [readOf p (stateAfter p {} h) k] ∧
      (readOf p (stateAfter p {} h) k).hash = p.hash k :=
  have ⟨d, r, h1, h2, h3, h4, _⟩ :=
    C14_sync_get_queues_one_read p h k (reachable_ok sketchLaws hq hsm h).1
  ⟨d, r, h1, h2, h3, h4⟩

/-- **(b) The sketch is fed by applying recorded reads only** — the pieces, for any
configuration and any state:
 1. `apply_writes` (admission, updates, removals), `evict_expired`, `evict_lru_entries`
    leave the sketch and its flag alone;
 2. `apply_reads` of one read operation is exactly one `increment` with that operation's hash,
    and of `n` operations the `feed` of the first `n` queued hashes, in queue order;
 3. the sketch is switched on only while its flag is off, and the new sketch is
    `ensure_capacity` of the old one. -/
theorem C14_sync_sketch_fed_by_reads_only (p : Params) :
    (∀ n s, SkSame s (applyWrites p n s)) ∧
    (∀ s, SkSame s (evictExpired p s)) ∧
    (∀ n s wte ev, SkSame s (evictLruLoop p n s wte ev)) ∧
    (∀ s op, (applyRead p s op).sk = Sketch.incr1 p.q.d5 s.sk op.hash ∧
      (applyRead p s op).skOn = s.skOn) ∧
    (∀ n s, (applyReads p n s).sk = Sketch.feed p.q.d5 s.sk ((s.readQ.take n).map ROp.hash) ∧
      (applyReads p n s).skOn = s.skOn) ∧
    (∀ s, shouldEnableSketch p s = true →
      Enabled s.sk s.skOn (enableSketch p s).sk (enableSketch p s).skOn ∧ s.skOn = false) :=
  ⟨fun n s => applyWrites_sk p n s, fun s => evictExpired_sk p s,
   fun n s wte ev => evictLruLoop_sk p n s wte ev, fun s op => applyRead_sk p s op,
   fun n s => applyReads_sk p n s,
   fun s hen => ⟨enableSketch_en p s hen, by
     rcases enableSketch_en p s hen with ⟨_, h2⟩ | ⟨h1, _⟩
     · unfold shouldEnableSketch at hen
       cases hs : s.skOn with
       | false => rfl
       | true => rw [hs] at hen; simp at hen
     · exact h1⟩⟩

/-- (b) Enabling happens on a sketch that has recorded nothing: where the invariant of
reachable states holds (`SkOK`: flag off → sketch empty), `enable_frequency_sketch` turns the
empty sketch into a freshly sized one. -/
theorem C14_sync_enable_from_empty {P : Sketch → Prop} (p : Params) {s : SState}
    (hk : SkOK P s) (hen : shouldEnableSketch p s = true) :
    s.sk = {} ∧ ((enableSketch p s).sk = {} ∨ ∃ cap, (enableSketch p s).sk = Sketch.init cap) := by
  obtain ⟨he, hoff⟩ := (C14_sync_sketch_fed_by_reads_only p).2.2.2.2.2 s hen
  have h0 := hk.skOff hoff
  refine ⟨h0, ?_⟩
  rcases he with ⟨h1, _⟩ | ⟨_, _, cap, h3⟩
  · exact Or.inl (h1.trans h0)
  · exact Or.inr ⟨cap, by rw [h3, h0]; rfl⟩

/-- **(b) combined, state level** (any configuration; `QInv`: between two calls of the one
thread, which holds in every reachable state).  For every operation: a prefix `drained` of
the read queue — nothing, or all of it — was removed from the queue and recorded in the
sketch in queue order; what the operation itself queues (`newReads`: one read for a `get`,
nothing otherwise) is appended behind the rest, hence not recorded yet; after the recording
the sketch may have been switched on. -/
theorem C14_sync_step_feed_state (p : Params) {s : SState} (hq : QInv s) (op : Op) :
    ∃ drained rest, s.readQ = drained ++ rest ∧ (drained = [] ∨ rest = []) ∧
      (step p s op).1.readQ = rest ++ newReads p s op ∧
      Enabled (Sketch.feed p.q.d5 s.sk (drained.map ROp.hash)) s.skOn
        (step p s op).1.sk (step p s op).1.skOn :=
  step_drain p hq op

/-- **(b) combined, reachable states of the current code.**  For every history `h` and every
next operation `op`, with `s` the state after `h` and `s'` the state after `op`: there is a
prefix `drained` of `s.readQ` (nothing or all of it) such that `s'.readQ` is the rest followed
by the read `op` queues itself, and
 * either the flag is unchanged and `s'.sk` is `s.sk` with the hashes of `drained` recorded
   in queue order, none of these increments faulting,
 * or the sketch was switched on in this step: it was empty (the drained reads were applied
   to the empty sketch, which ignores them) and `s'.sk` is a freshly sized sketch. -/
theorem C14_sync_step_feed (p : Params) (hq : Sync.NoQuirks p) (hsm : SmallSketch p)
    (h : List Op) (op : Op) :
    ∃ drained rest, (stateAfter p {} h).readQ = drained ++ rest ∧ (drained = [] ∨ rest = []) ∧
      (step p (stateAfter p {} h) op).1.readQ = rest ++ newReads p (stateAfter p {} h) op ∧
      (((step p (stateAfter p {} h) op).1.skOn = (stateAfter p {} h).skOn ∧
        (step p (stateAfter p {} h) op).1.sk =
          Sketch.feed false (stateAfter p {} h).sk (drained.map ROp.hash) ∧
        (drained.map ROp.hash).foldlM (Sketch.increment false) (stateAfter p {} h).sk =
          .ok (step p (stateAfter p {} h) op).1.sk) ∨
       ((stateAfter p {} h).skOn = false ∧ (stateAfter p {} h).sk = {} ∧
        (step p (stateAfter p {} h) op).1.skOn = true ∧
        ∃ cap, (step p (stateAfter p {} h) op).1.sk = Sketch.init cap)) := by
  obtain ⟨_, hk, hqi⟩ := reachable_ok sketchLaws hq hsm h
  have hd5 : p.q.d5 = false := by rw [hq]
  obtain ⟨d, r, h1, h2, h3, h4⟩ := step_drain p hqi op
  rw [hd5] at h4
  refine ⟨d, r, h1, h2, h3, ?_⟩
  rcases h4 with ⟨e1, e2⟩ | ⟨e1, e2, cap, e3⟩
  · refine Or.inl ⟨e2, e1, ?_⟩
    rw [e1]
    exact (Sketch.feed_ok sketchLaws _ hk.sk).1
  · refine Or.inr ⟨e1, hk.skOff e1, e2, cap, ?_⟩
    rw [e3, hk.skOff e1, Sketch.feed_default]; rfl

/-- Consequence: in reachable states of the current code, the operations that neither queue
nor run maintenance (`contains_key`, iteration, `invalidate_all`, clock steps, the hooks)
change neither the sketch nor the read queue — for any configuration, any state. -/
theorem C14_sync_pure_ops (p : Params) (s : SState) (op : Op)
    (hop : ∀ k, op ≠ .get k) (hins : ∀ k v, op ≠ .ins k v) (hinv : ∀ k, op ≠ .inv k)
    (hsync : op ≠ .sync) :
    (step p s op).1.sk = s.sk ∧ (step p s op).1.skOn = s.skOn ∧
    (step p s op).1.readQ = s.readQ :=
  step_pure p s op hop hins hinv hsync

end Props
end MiniMoka
