/-
  C14, clause "only `get` calls (hit or miss, each at most once) are ever recorded, never
  `insert`, `contains_key`, iteration or invalidation" — on the two cache models.
  (The clauses about the estimator itself are in `Props/C14.lean`.)

  Models: `MiniMoka/Unsync.lean` (`unsync::Cache`), `MiniMoka/Sync.lean` (`sync::Cache` driven
  by one thread).  Lemmas: `MiniMoka/Lemmas/SketchFrame.lean`.

  Reading guide.
  * `s.sk : Sketch` is the cache's `frequency_sketch`, `s.skOn` its `frequency_sketch_enabled`.
    `s.sk.frequency x` is the popularity estimate of hash `x`.
  * `Sketch.incr1 legacy sk h` — one `Sketch.increment legacy sk h` as the caches perform it (if
    `increment` faults, the sketch stays and the cache raises its sticky fault);
    `Sketch.feed legacy sk hs` — `incr1` for the hashes `hs`, left to right.  Under the sketch
    laws (current code, documented size limit) no increment faults and `feed false` is the
    monadic fold of `Sketch.increment false` (`Sketch.feed_ok`); `legacy` is the defect switch
    `p.q.d5` (D5), `false` for the current code.
  * `Sketch.init cap = ({} : Sketch).ensureCapacity cap` — a freshly sized sketch; all its
    estimates are 0 (`Sketch.frequency_init`).  The empty sketch `{}` ignores increments
    (`Sketch.increment_of_empty`: `if self.table.is_empty() { return; }`), so a lookup made
    before the sketch is switched on is recorded zero times.
  * `Enabled sk on sk' on'` — nothing happened to (sketch, flag), or the flag went from off to on
    and `sk' = sk.ensureCapacity cap` for some `cap` (`enable_frequency_sketch`).
  * Unsync: `Unsync.runState p {} h` is the state after the history `h`.
  * Sync: `Sync.stateAfter p {} h` is the state after the history `h`; `s.readQ` the read
    channel; `ROp.hash` the hash a queued read carries; `Sync.readOf p s k` the read operation
    `get k` creates in state `s` (`Hit(hash, entry, now)` or `Miss(hash)`);
    `Sync.SkF.newReads p s op` is `[readOf p s k]` for `op = get k` in a fault-free state and
    `[]` otherwise.
  * `getHashes p h` — the hashes of the `get` calls of the history `h`, in order.
    `Sketch.runG (init cap, ghost0) hs = .ok (sk, g)`: recording `hs` from a fresh sketch gives
    `sk` (and the ghost counts `g`), the form in which `Props/C14.lean` states its theorems.

  Contents.
  1. Unsync: `C14_unsync_only_get_records` (an operation other than `get` changes no estimate, in
     every reachable state), with its state-level forms `C14_unsync_nonget_frame` /
     `C14_unsync_nonget_state`; `C14_unsync_get_records_once(_state)`.
  2. Sync: (a) `C14_sync_only_get_queues_reads`, `C14_sync_get_queues_one_read(')`;
     (b) `C14_sync_sketch_fed_by_reads_only`, `C14_sync_enable_from_empty`, and the combined
     `C14_sync_step_feed_state` / `C14_sync_step_feed`; `C14_sync_pure_ops`.
  3. Whole histories: `C14_unsync_sketch_holds_exactly_the_gets`,
     `C14_sync_sketch_holds_exactly_the_gets`.

  Everything below is proved in full (no `_partial`).  Hypotheses: `NoQuirks p` (all defect
  switches off: the current code) and `SmallSketch p` (sketch table below 2^28 slots, the
  documented limit) wherever a statement talks about *reachable* states, because that is
  what the invariants "no fault" and "flag off → sketch empty" are proved under.  The
  state-level statements need no such hypothesis.
-/
import MiniMoka.Lemmas.SketchFrame
import MiniMoka.Props.C09Seq
import MiniMoka.Props.C14

namespace MiniMoka
namespace Props

/-! ## 1. The single-threaded cache -/

/-- State level, any configuration (quirks included), any state: an operation other than
`get` either leaves the sketch and its flag alone or switches the sketch on (flag off → on,
`ensure_capacity`); an operation other than `get` and `insert` leaves them alone. -/
theorem C14_unsync_nonget_frame (p : Params) (s : Unsync.UState) (op : Op)
    (hop : ∀ k, op ≠ .get k) :
    Enabled s.sk s.skOn (Unsync.step p s op).1.sk (Unsync.step p s op).1.skOn ∧
    ((∀ k v, op ≠ .ins k v) →
      (Unsync.step p s op).1.sk = s.sk ∧ (Unsync.step p s op).1.skOn = s.skOn) :=
  ⟨Unsync.SkF.step_en p s op hop, fun hins => Unsync.SkF.step_same p s op hop hins⟩

/-- State level, under the invariant of reachable states: for an operation other than `get`
either the sketch is unchanged, or it has just been switched on *from the empty sketch*: it
had recorded nothing, and is now a freshly sized sketch (all estimates 0 before and after). -/
theorem C14_unsync_nonget_state {P : Sketch → Prop} {p : Params} {s : Unsync.UState}
    (hi : Unsync.Inv P p s) (op : Op) (hop : ∀ k, op ≠ .get k) :
    ((Unsync.step p s op).1.sk = s.sk ∧ (Unsync.step p s op).1.skOn = s.skOn) ∨
    (s.skOn = false ∧ s.sk = {} ∧ (Unsync.step p s op).1.skOn = true ∧
      ∃ cap, (Unsync.step p s op).1.sk = Sketch.init cap) := by
  rcases Unsync.SkF.step_en p s op hop with h | ⟨h1, h2, cap, h3⟩
  · exact Or.inl h
  · refine Or.inr ⟨h1, hi.skOff h1, h2, cap, ?_⟩
    rw [h3, hi.skOff h1]; rfl

/-- **Only lookups are recorded (unsync).**  In every reachable state, an operation other
than `get` (insert, contains_key, iteration, invalidate, invalidate_all,
invalidate_entries_if, clock steps, the hooks) changes no popularity estimate. -/
theorem C14_unsync_only_get_records (p : Params) (hq : Unsync.NoQuirks p) (hsm : SmallSketch p)
    (h : List Op) (op : Op) (hop : ∀ k, op ≠ .get k) (x : UInt64) :
    (Unsync.step p (Unsync.runState p {} h) op).1.sk.frequency x =
      (Unsync.runState p {} h).sk.frequency x :=
  (Unsync.SkF.step_en p _ op hop).frequency
    (Unsync.reachable_inv sketchLaws hq hsm h).skOff x

/-- State level, any configuration: in a fault-free state `get k` records the hash of `k`
exactly once — one `increment` on the sketch as the maintenance `get` starts with leaves it,
and that maintenance does not touch the sketch — whether the lookup hits, misses or finds an
expired entry. -/
theorem C14_unsync_get_records_once_state (p : Params) (s : Unsync.UState) (k : Nat)
    (hf : s.fault = none) :
    (Unsync.step p s (.get k)).1.sk = Sketch.incr1 p.q.d5 (Unsync.maintain p s).sk (p.hash k) ∧
    (Unsync.maintain p s).sk = s.sk ∧
    (Unsync.step p s (.get k)).1.skOn = s.skOn :=
  ⟨(Unsync.SkF.step_get p s k hf).1, (Unsync.SkF.maintain_sk p s).1,
    (Unsync.SkF.step_get p s k hf).2⟩

/-- **`get` records once (unsync).**  In every reachable state `s`, the sketch after `get k`
is exactly `increment (hash k)` of the sketch of `s` (which never faults); the flag is
unchanged. -/
theorem C14_unsync_get_records_once (p : Params) (hq : Unsync.NoQuirks p) (hsm : SmallSketch p)
    (h : List Op) (k : Nat) :
    Sketch.increment false (Unsync.runState p {} h).sk (p.hash k) =
      .ok (Unsync.step p (Unsync.runState p {} h) (.get k)).1.sk ∧
    (Unsync.maintain p (Unsync.runState p {} h)).sk = (Unsync.runState p {} h).sk ∧
    (Unsync.step p (Unsync.runState p {} h) (.get k)).1.skOn = (Unsync.runState p {} h).skOn := by
  have hi := Unsync.reachable_inv sketchLaws hq hsm h
  obtain ⟨h1, h2, h3⟩ :=
    C14_unsync_get_records_once_state p _ k hi.inv.struct.noFault
  refine ⟨?_, h2, h3⟩
  have hd5 : p.q.d5 = false := by rw [hq]
  obtain ⟨sk', e, _⟩ := sketchLaws.incr _ (p.hash k) hi.sk
  rw [h1, h2, hd5, e]
  unfold Sketch.incr1
  rw [e]

/-! ## 2. The concurrent cache (driven by one thread) -/

open Sync Sync.SkF Sync.Nodes

/-- **(a) Only `get` queues reads.**  In every reachable state (any configuration, quirks
included), after an operation other than `get` the read queue is a suffix of the read queue
before: nothing is appended; the maintenance the operation may run has drained nothing or
everything. -/
theorem C14_sync_only_get_queues_reads (p : Params) (h : List Op) (op : Op)
    (hop : ∀ k, op ≠ .get k) :
    ∃ drained, (stateAfter p {} h).readQ = drained ++ (step p (stateAfter p {} h) op).1.readQ ∧
      (drained = [] ∨ (step p (stateAfter p {} h) op).1.readQ = []) := by
  obtain ⟨d, r, h1, h2, h3, _⟩ := step_drain p (stateAfter_qinv p h qinv_init) op
  rw [newReads_of_not_get p _ op hop, List.append_nil] at h3
  rw [h3]
  exact ⟨d, h1, h2⟩

/-- **(a) `get` queues exactly one read.**  In every reachable fault-free state, after `get k`
the read queue is what the maintenance left of the old queue (all of it, or nothing) followed
by exactly one read operation, `readOf p s k`: a hit or a miss carrying the hash of `k`.  (It
is never dropped: `C09_sync_read_never_dropped`.) -/
theorem C14_sync_get_queues_one_read (p : Params) (h : List Op) (k : Nat)
    (hf : (stateAfter p {} h).fault = none) :
    ∃ drained rest, (stateAfter p {} h).readQ = drained ++ rest ∧ (drained = [] ∨ rest = []) ∧
      (step p (stateAfter p {} h) (.get k)).1.readQ = rest ++ [readOf p (stateAfter p {} h) k] ∧
      (readOf p (stateAfter p {} h) k).hash = p.hash k ∧
      (readOf p (stateAfter p {} h) k = .miss (p.hash k) ∨
        ∃ ve ts, readOf p (stateAfter p {} h) k = .hit (p.hash k) ve ts) := by
  obtain ⟨d, r, h1, h2, h3, _⟩ := step_drain p (stateAfter_qinv p h qinv_init) (.get k)
  rw [newReads_get p _ k hf] at h3
  refine ⟨d, r, h1, h2, h3, readOf_hash p _ k, ?_⟩
  unfold readOf
  split
  · exact Or.inl rfl
  · split
    · exact Or.inl rfl
    · exact Or.inr ⟨_, _, rfl⟩

/-- The same for the current code: reachable states are fault-free. -/
theorem C14_sync_get_queues_one_read' (p : Params) (hq : Sync.NoQuirks p) (hsm : SmallSketch p)
    (h : List Op) (k : Nat) :
    ∃ drained rest, (stateAfter p {} h).readQ = drained ++ rest ∧ (drained = [] ∨ rest = []) ∧
      (step p (stateAfter p {} h) (.get k)).1.readQ = rest ++ [readOf p (stateAfter p {} h) k] ∧
      (readOf p (stateAfter p {} h) k).hash = p.hash k :=
  have ⟨d, r, h1, h2, h3, h4, _⟩ :=
    C14_sync_get_queues_one_read p h k (reachable_ok sketchLaws hq hsm h).1
  ⟨d, r, h1, h2, h3, h4⟩

/-- **(b) The sketch is fed by applying recorded reads only** — the pieces, for any
configuration and any state:
 1. `apply_writes` (admission, updates, removals), `evict_expired`, `evict_lru_entries`
    leave the sketch and its flag alone;
 2. `apply_reads` of one read operation is exactly one `increment` with that operation's hash,
    and of `n` operations the `feed` of the first `n` queued hashes, in queue order;
 3. the sketch is switched on only while its flag is off, and the new sketch is
    `ensure_capacity` of the old one. -/
theorem C14_sync_sketch_fed_by_reads_only (p : Params) :
    (∀ n s, SkSame s (applyWrites p n s)) ∧
    (∀ s, SkSame s (evictExpired p s)) ∧
    (∀ n s wte ev, SkSame s (evictLruLoop p n s wte ev)) ∧
    (∀ s op, (applyRead p s op).sk = Sketch.incr1 p.q.d5 s.sk op.hash ∧
      (applyRead p s op).skOn = s.skOn) ∧
    (∀ n s, (applyReads p n s).sk = Sketch.feed p.q.d5 s.sk ((s.readQ.take n).map ROp.hash) ∧
      (applyReads p n s).skOn = s.skOn) ∧
    (∀ s, shouldEnableSketch p s = true →
      Enabled s.sk s.skOn (enableSketch p s).sk (enableSketch p s).skOn ∧ s.skOn = false) :=
  ⟨fun n s => applyWrites_sk p n s, fun s => evictExpired_sk p s,
   fun n s wte ev => evictLruLoop_sk p n s wte ev, fun s op => applyRead_sk p s op,
   fun n s => applyReads_sk p n s,
   fun s hen => ⟨enableSketch_en p s hen, shouldEnableSketch_off hen⟩⟩

/-- (b) Enabling happens on a sketch that has recorded nothing: where the invariant of
reachable states holds (`SkOK`: flag off → sketch empty), `enable_frequency_sketch` turns the
empty sketch into a freshly sized one. -/
theorem C14_sync_enable_from_empty {P : Sketch → Prop} (p : Params) {s : SState}
    (hk : SkOK P s) (hen : shouldEnableSketch p s = true) :
    s.sk = {} ∧ ((enableSketch p s).sk = {} ∨ ∃ cap, (enableSketch p s).sk = Sketch.init cap) := by
  obtain ⟨he, hoff⟩ := (C14_sync_sketch_fed_by_reads_only p).2.2.2.2.2 s hen
  have h0 := hk.skOff hoff
  refine ⟨h0, ?_⟩
  rcases he with ⟨h1, _⟩ | ⟨_, _, cap, h3⟩
  · exact Or.inl (h1.trans h0)
  · exact Or.inr ⟨cap, by rw [h3, h0]; rfl⟩

/-- **(b) combined, state level** (any configuration; `QInv`: between two calls of the one
thread, which holds in every reachable state).  For every operation: a prefix `drained` of
the read queue — nothing, or all of it — was removed from the queue and recorded in the
sketch in queue order; what the operation itself queues (`newReads`: one read for a `get`,
nothing otherwise) is appended behind the rest, hence not recorded yet; after the recording
the sketch may have been switched on. -/
theorem C14_sync_step_feed_state (p : Params) {s : SState} (hq : QInv s) (op : Op) :
    ∃ drained rest, s.readQ = drained ++ rest ∧ (drained = [] ∨ rest = []) ∧
      (step p s op).1.readQ = rest ++ newReads p s op ∧
      Enabled (Sketch.feed p.q.d5 s.sk (drained.map ROp.hash)) s.skOn
        (step p s op).1.sk (step p s op).1.skOn :=
  step_drain p hq op

/-- **(b) combined, reachable states of the current code.**  For every history `h` and every
next operation `op`, with `s` the state after `h` and `s'` the state after `op`: there is a
prefix `drained` of `s.readQ` (nothing or all of it) such that `s'.readQ` is the rest followed
by the read `op` queues itself, and
 * either the flag is unchanged and `s'.sk` is `s.sk` with the hashes of `drained` recorded
   in queue order, none of these increments faulting,
 * or the sketch was switched on in this step: it was empty (the drained reads were applied
   to the empty sketch, which ignores them) and `s'.sk` is a freshly sized sketch. -/
theorem C14_sync_step_feed (p : Params) (hq : Sync.NoQuirks p) (hsm : SmallSketch p)
    (h : List Op) (op : Op) :
    ∃ drained rest, (stateAfter p {} h).readQ = drained ++ rest ∧ (drained = [] ∨ rest = []) ∧
      (step p (stateAfter p {} h) op).1.readQ = rest ++ newReads p (stateAfter p {} h) op ∧
      (((step p (stateAfter p {} h) op).1.skOn = (stateAfter p {} h).skOn ∧
        (step p (stateAfter p {} h) op).1.sk =
          Sketch.feed false (stateAfter p {} h).sk (drained.map ROp.hash) ∧
        (drained.map ROp.hash).foldlM (Sketch.increment false) (stateAfter p {} h).sk =
          .ok (step p (stateAfter p {} h) op).1.sk) ∨
       ((stateAfter p {} h).skOn = false ∧ (stateAfter p {} h).sk = {} ∧
        (step p (stateAfter p {} h) op).1.skOn = true ∧
        ∃ cap, (step p (stateAfter p {} h) op).1.sk = Sketch.init cap)) := by
  obtain ⟨_, hk, hqi⟩ := reachable_ok sketchLaws hq hsm h
  have hd5 : p.q.d5 = false := by rw [hq]
  obtain ⟨d, r, h1, h2, h3, h4⟩ := step_drain p hqi op
  rw [hd5] at h4
  refine ⟨d, r, h1, h2, h3, ?_⟩
  rcases h4 with ⟨e1, e2⟩ | ⟨e1, e2, cap, e3⟩
  · refine Or.inl ⟨e2, e1, ?_⟩
    rw [e1]
    exact (Sketch.feed_ok sketchLaws _ hk.sk).1
  · refine Or.inr ⟨e1, hk.skOff e1, e2, cap, ?_⟩
    rw [e3, hk.skOff e1, Sketch.feed_default]; rfl

/-- The operations that neither queue an operation nor run maintenance (`contains_key`,
iteration, `invalidate_all`, clock steps, the hooks) change neither the sketch, nor its flag,
nor the read queue — for any configuration, in any state. -/
theorem C14_sync_pure_ops (p : Params) (s : SState) (op : Op)
    (hop : ∀ k, op ≠ .get k) (hins : ∀ k v, op ≠ .ins k v) (hinv : ∀ k, op ≠ .inv k)
    (hsync : op ≠ .sync) :
    (step p s op).1.sk = s.sk ∧ (step p s op).1.skOn = s.skOn ∧
    (step p s op).1.readQ = s.readQ :=
  step_pure p s op hop hins hinv hsync

/-! ## 3. Whole histories: the sketch holds exactly the lookups -/

/-- **Unsync, whole histories.**  After any history `h` of the current code, the sketch is
either still off and empty (nothing recorded, all estimates 0), or it was switched on at some
point — `getHashes p h = pre ++ post`, the lookups before and after that moment — as a
freshly sized sketch `init cap`, and is now exactly the result of recording `post`: the hashes
of the `get` calls made since, in order, each once, and nothing else (a run of the sketch
model, to which the theorems of `Props/C14.lean` apply: e.g. no estimate is below the ghost
count `g` of that run). -/
theorem C14_unsync_sketch_holds_exactly_the_gets (p : Params) (hq : Unsync.NoQuirks p)
    (hsm : SmallSketch p) (h : List Op) :
    ((Unsync.runState p {} h).skOn = false ∧ (Unsync.runState p {} h).sk = {}) ∨
    ∃ pre post cap g, getHashes p h = pre ++ post ∧ (Unsync.runState p {} h).skOn = true ∧
      Sketch.runG (Sketch.init cap, Sketch.ghost0) post = .ok ((Unsync.runState p {} h).sk, g) ∧
      ∀ x, g x ≤ (Unsync.runState p {} h).sk.frequency x := by
  have hr := (Unsync.SkF.runState_recorded sketchLaws hq hsm h
    (Unsync.init_inv sketchLaws p) (Recorded.init _)).run
  rw [List.nil_append] at hr
  rcases hr with hr | ⟨pre, post, cap, g, h1, h2, h3⟩
  · exact Or.inl hr
  · exact Or.inr ⟨pre, post, cap, g, h1, h2, h3,
      fun x => (Sketch.C14_never_underestimates cap post h3 x).1⟩

/-- **Sync, whole histories.**  After any history `h` of the current code driven by one
thread, the hashes of the `get` calls of `h` are, in order, those already `applied` to the
sketch followed by those waiting in the read queue (none lost, none duplicated, nothing
else queued); and the sketch is either still off and empty, or was switched on at some point
of `applied = pre ++ post` as a freshly sized sketch and is now exactly the result of
recording `post`. -/
theorem C14_sync_sketch_holds_exactly_the_gets (p : Params) (hq : Sync.NoQuirks p)
    (hsm : SmallSketch p) (h : List Op) :
    ∃ applied, getHashes p h = applied ++ (stateAfter p {} h).readQ.map ROp.hash ∧
      (((stateAfter p {} h).skOn = false ∧ (stateAfter p {} h).sk = {}) ∨
       ∃ pre post cap g, applied = pre ++ post ∧ (stateAfter p {} h).skOn = true ∧
        Sketch.runG (Sketch.init cap, Sketch.ghost0) post = .ok ((stateAfter p {} h).sk, g) ∧
        ∀ x, g x ≤ (stateAfter p {} h).sk.frequency x) := by
  have hr := stateAfter_recQ sketchLaws hq hsm h (reach_init sketchLaws)
    (⟨[], rfl, Recorded.init _⟩ : RecQ Sketch.Good {} [])
  rw [List.nil_append] at hr
  obtain ⟨applied, h0, hrec⟩ := hr
  refine ⟨applied, h0, ?_⟩
  rcases hrec.run with hr | ⟨pre, post, cap, g, h1, h2, h3⟩
  · exact Or.inl hr
  · exact Or.inr ⟨pre, post, cap, g, h1, h2, h3,
      fun x => (Sketch.C14_never_underestimates cap post h3 x).1⟩

/-! ## Non-vacuity -/

/-- Capacity 4 (entries): the sketch is switched on when the cache is half full. -/
def exP : Params := { cap := some 4 }

theorem exP_small : SmallSketch exP :=
  ⟨fun c hc => by
      have h4 : 4 = c := Option.some.inj hc
      subst h4; decide,
   fun _ _ _ => by show Sketch.sketchCapacity 0 ≤ 2 ^ 27; decide⟩

/-- Two inserts (the second one crosses half capacity), then lookups of keys 1, 1, 2 and of
the absent key 7. -/
def exH : List Op := [.ins 1 10, .ins 2 20, .get 1, .get 1, .get 2, .get 7]

/-- Unsync: the estimates are non-zero (2 for key 1, 1 for key 2, 1 for the *missed* key 7);
an insert (of a new key, and an update), `contains_key`, iteration, `invalidate`,
`invalidate_all`, `invalidate_entries_if` and a clock step leave the estimate of key 1 at 2
(and the insert does insert: 3 entries); a `get` raises it to 3, a `get` of another key does
not. -/
example :
    let s := Unsync.runState exP {} exH
    s.skOn = true ∧ s.sk.frequency (exP.hash 1) = 2 ∧ s.sk.frequency (exP.hash 2) = 1 ∧
    s.sk.frequency (exP.hash 7) = 1 ∧ s.map.length = 2 ∧
    (Unsync.step exP s (.ins 3 30)).1.sk.frequency (exP.hash 1) = 2 ∧
    (Unsync.step exP s (.ins 3 30)).1.map.length = 3 ∧
    (Unsync.step exP s (.ins 1 11)).1.sk.frequency (exP.hash 1) = 2 ∧
    (Unsync.step exP s (.has 1)).1.sk.frequency (exP.hash 1) = 2 ∧
    (Unsync.step exP s .iter).1.sk.frequency (exP.hash 1) = 2 ∧
    (Unsync.step exP s (.inv 1)).1.sk.frequency (exP.hash 1) = 2 ∧
    (Unsync.step exP s .invAll).1.sk.frequency (exP.hash 1) = 2 ∧
    (Unsync.step exP s (.invIf .all)).1.sk.frequency (exP.hash 1) = 2 ∧
    (Unsync.step exP s (.adv 5)).1.sk.frequency (exP.hash 1) = 2 ∧
    (Unsync.step exP s (.get 1)).1.sk.frequency (exP.hash 1) = 3 ∧
    (Unsync.step exP s (.get 2)).1.sk.frequency (exP.hash 1) = 2 ∧
    (Unsync.step exP s (.get 2)).1.sk.frequency (exP.hash 2) = 2 := by
  decide +kernel

/-- Unsync, the enabling moment: after the first insert the sketch is off and empty; the
second insert (weighted size 2 = 4 / 2) switches it on: 128 words, all estimates 0 before and
after.  A lookup made before that moment is not recorded (the empty sketch ignores it). -/
example :
    let s := Unsync.runState exP {} [.get 1, .ins 1 10]
    let s' := (Unsync.step exP s (.ins 2 20)).1
    s.skOn = false ∧ s.sk = {} ∧ s.sk.frequency (exP.hash 1) = 0 ∧
    s'.skOn = true ∧ s'.sk = Sketch.init 128 ∧ s'.sk.table.size = 128 ∧
    s'.sk.frequency (exP.hash 1) = 0 ∧ s'.sk.frequency (exP.hash 2) = 0 := by
  decide +kernel

/-- Sync, outside the periodic-sync interval (so that reads pile up in the queue): two
inserts, a maintenance run (which switches the sketch on), three lookups. -/
def exS : List Op := [.adv Gen.PAST_SYNC_INTERVAL_NS, .ins 1 10, .ins 2 20, .sync, .get 1, .get 1, .get 3]

/-- Sync: the three reads are queued (two hits of key 1, a miss of key 3), not yet recorded;
an insert, `contains_key`, iteration, `invalidate`, `invalidate_all` queue no read and change
no estimate; a further `get` queues one more read; the next maintenance run records the
queued reads (estimates 2 and 1) and empties the queue. -/
example :
    let s := stateAfter exP {} exS
    s.skOn = true ∧ s.readQ.map ROp.hash = [exP.hash 1, exP.hash 1, exP.hash 3] ∧
    s.sk.frequency (exP.hash 1) = 0 ∧
    (step exP s (.ins 5 50)).1.readQ.length = 3 ∧ (step exP s (.ins 5 50)).1.writeQ.length = 1 ∧
    (step exP s (.ins 5 50)).1.sk.frequency (exP.hash 1) = 0 ∧
    (step exP s (.has 1)).1.readQ.length = 3 ∧ (step exP s .iter).1.readQ.length = 3 ∧
    (step exP s (.inv 1)).1.readQ.length = 3 ∧ (step exP s .invAll).1.readQ.length = 3 ∧
    (step exP s (.get 2)).1.readQ.map ROp.hash =
      [exP.hash 1, exP.hash 1, exP.hash 3, exP.hash 2] ∧
    (step exP s .sync).1.readQ = [] ∧
    (step exP s .sync).1.sk.frequency (exP.hash 1) = 2 ∧
    (step exP s .sync).1.sk.frequency (exP.hash 3) = 1 ∧
    (step exP s .sync).1.sk.frequency (exP.hash 2) = 0 := by
  decide +kernel

/-- Sync, inside the periodic-sync interval every `get` first runs the maintenance (which
records the reads queued before) and then queues its own read: after two lookups of key 1 one
is recorded and one is waiting. -/
example :
    let s := stateAfter exP {} [.ins 1 10, .ins 2 20, .get 1, .get 1]
    s.skOn = true ∧ s.readQ.map ROp.hash = [exP.hash 1] ∧ s.sk.frequency (exP.hash 1) = 1 := by
  decide +kernel

/-- Sync, the enabling moment: before the maintenance run the sketch is off and empty, the run
switches it on (128 words, every estimate 0); the read queued before is applied to the empty
sketch in that very run, i.e. not recorded. -/
example :
    let s := stateAfter exP {} [.adv Gen.PAST_SYNC_INTERVAL_NS, .get 1, .ins 1 10, .ins 2 20]
    let s' := (step exP s .sync).1
    s.skOn = false ∧ s.sk = {} ∧ s.readQ.map ROp.hash = [exP.hash 1] ∧
    s'.skOn = true ∧ s'.sk = Sketch.init 128 ∧ s'.readQ = [] ∧
    s'.sk.frequency (exP.hash 1) = 0 := by
  decide +kernel

/-- The hypotheses of the reachable-state theorems are satisfiable for this configuration. -/
example : Unsync.NoQuirks exP ∧ Sync.NoQuirks exP ∧ SmallSketch exP := ⟨rfl, rfl, exP_small⟩

end Props
end MiniMoka

section
open MiniMoka.Props
#print axioms C14_unsync_nonget_frame
#print axioms C14_unsync_nonget_state
#print axioms C14_unsync_only_get_records
#print axioms C14_unsync_get_records_once_state
#print axioms C14_unsync_get_records_once
#print axioms C14_sync_only_get_queues_reads
#print axioms C14_sync_get_queues_one_read
#print axioms C14_sync_get_queues_one_read'
#print axioms C14_sync_sketch_fed_by_reads_only
#print axioms C14_sync_enable_from_empty
#print axioms C14_sync_step_feed_state
#print axioms C14_sync_step_feed
#print axioms C14_sync_pure_ops
#print axioms C14_unsync_sketch_holds_exactly_the_gets
#print axioms C14_sync_sketch_holds_exactly_the_gets
end
