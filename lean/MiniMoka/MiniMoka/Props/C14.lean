/-
  C14 (popularity estimator): the 4-bit count-min sketch `common/frequency_sketch.rs`.

  Model: `MiniMoka/Sketch.lean`.  Lemmas and the definitions used in the statements:
  `MiniMoka/Lemmas/Sketch.lean`.

  Reading guide.
  * `init cap` — `({} : Sketch).ensureCapacity cap`, any `cap` (0, non powers of two, …).
  * `incrStep s h : Except Fault (Sketch × Bool)` — one `Sketch.increment false s h` that also
    reports whether it ran the aging step (`reset`); `increment_eq_incrStep` says that
    forgetting the flag gives exactly `Sketch.increment false s h`.
  * `bump s h` — the state after the four counters of `h` were incremented and `size` bumped,
    *before* the aging step this increment may trigger (`step_aged`: when the flag is `true`
    the result is `reset false (bump s h)`).
  * `Ghost = UInt64 → Nat`, `ghostStep g h aged` — the ghost count `c`: when `h` is recorded,
    `c h` becomes `satInc (c h) = min 15 (c h + 1)`; when that increment aged, every `c x`
    is floor-halved afterwards.  `ghost0` is constantly 0.
  * `runG (s, g) hs` — record the hashes `hs` one after the other (`stepG` = `incrStep` + the
    ghost update); `.ok (s', g')` is the final state and ghost, `.error f` a fault.  `run s hs`
    is the same on the model alone, `run s hs = hs.foldlM (increment false) s`
    (`run_eq_foldlM`, `run_of_runG`).
  * All run theorems are of the form "`runG (init cap, ghost0) hs = .ok (s, g)` implies …";
    `hs` is arbitrary, so they hold after every prefix of every run (`runG_prefix_ok`: every
    prefix of a successful run is a successful run).  That runs never fault is
    `C08_sketch_no_overflow` (`Props/C08Sketch.lean`).
  * `hits s h' x y` — `(x, y)` (table index, nibble) is one of the four counter positions of
    `h'`; the four positions of `h` are `(s.indexOf h i, start h + i)`, `i < 4`.
  * `cntAt t x y` — counter `y` of word `x` of table `t`.
-/
import MiniMoka.Lemmas.Sketch

namespace MiniMoka
namespace Sketch

/-! ## The statements -/

/-- (1) The estimate is at most 15 — in every state whatsoever. -/
theorem C14_bounds (s : Sketch) (h : UInt64) : s.frequency h ≤ 15 :=
  frequency_le s h

/-- (2) The estimate never underestimates: after any sequence `hs` of recorded hashes (colliding
ones included, aging steps included), for every hash `h`, `c h ≤ frequency h` (and `c h ≤ 15`). -/
theorem C14_never_underestimates (cap : Nat) (hs : List UInt64) {s : Sketch} {g : Ghost}
    (hrun : runG (init cap, ghost0) hs = .ok (s, g)) (h : UInt64) :
    g h ≤ s.frequency h ∧ s.frequency h ≤ 15 ∧ g h ≤ 15 :=
  ⟨ghost_le_frequency (rinv_of_run hrun) h, frequency_le s h, (rinv_of_run hrun).gle h⟩

/-- (3) If one of the four counter positions of `h` (the `i`-th) is used by no other recorded
hash, the estimate is exact. -/
theorem C14_exact_without_collision (cap : Nat) (hs : List UInt64) {s : Sketch} {g : Ghost}
    (hrun : runG (init cap, ghost0) hs = .ok (s, g)) (h : UInt64) (i : Nat) (hi : i < 4)
    (hfree : ∀ h', h' ∈ hs → h' ≠ h →
      ¬ hits (init cap) h' ((init cap).indexOf h i) (start h + i)) :
    s.frequency h = g h :=
  frequency_eq_ghost (rinv_of_run hrun) h i hi hfree

/-- (4a) In any reachable state, recording any hash `h'` (equal to `h` or not) does not lower the
estimate of `h`, unless that very increment ran the aging step. -/
theorem C14_others_never_lower (cap : Nat) (hs : List UInt64) {s : Sketch} {g : Ghost}
    (hrun : runG (init cap, ghost0) hs = .ok (s, g)) (h' : UInt64) {s' : Sketch}
    (hstep : incrStep s h' = .ok (s', false)) (h : UInt64) :
    increment false s h' = .ok s' ∧ s.frequency h ≤ s'.frequency h :=
  ⟨increment_of_incrStep hstep, frequency_step_mono (rinv_of_run hrun).wf hstep h⟩

/-- (4b) An increment that ages: the result is `reset false` of the bumped state, in which no
estimate is lower than before; the aging step floor-halves every counter, hence every estimate,
and the ghost of every hash. -/
theorem C14_aging_halves_all (cap : Nat) (hs : List UInt64) {s : Sketch} {g : Ghost}
    (hrun : runG (init cap, ghost0) hs = .ok (s, g)) (h' : UInt64) {s' : Sketch}
    (hstep : incrStep s h' = .ok (s', true)) :
    increment false s h' = .ok s' ∧
    reset false (bump s h') = .ok s' ∧
    (∀ x y, y < 16 → cntAt s'.table x y = cntAt (bump s h').table x y / 2) ∧
    (∀ h, s'.frequency h = (bump s h').frequency h / 2) ∧
    (∀ h, s.frequency h ≤ (bump s h').frequency h) ∧
    (∀ h, ghostStep g h' true h = (if h = h' then satInc (g h) else g h) / 2) :=
  ⟨increment_of_incrStep hstep, step_aged hstep,
    fun x y hy => reset_cnt (step_aged hstep) x y hy,
    fun h => reset_frequency (step_aged hstep) h,
    fun h => frequency_bump_mono (rinv_of_run hrun).wf (rinv_of_run hrun).ne h' h,
    fun _ => rfl⟩

/-- (4b), the aging step by itself, on any state: every estimate is floor-halved. -/
theorem C14_aging_halves_all_reset {s s' : Sketch} (h : reset false s = .ok s') (x : UInt64) :
    s'.frequency x = s.frequency x / 2 :=
  reset_frequency h x

/-! ## Non-vacuity -/

/-- Capacity 0: one word, `sampleSize = 10`.  Nine recordings of hash 0 and one of hash 1
(different nibbles, no collision): the tenth increment ages.  Counters 9 and 1 become 4 and 0,
so do the ghosts; `size = (10 - 8/4) / 2 = 4`. -/
example : ∃ s g, runG (init 0, ghost0) [0, 0, 0, 0, 0, 0, 0, 0, 0, 1] = .ok (s, g) ∧
    (s.frequency 0 = 4 ∧ g 0 = 4 ∧ s.frequency 1 = 0 ∧ g 1 = 0 ∧ s.size = 4 ∧
      s.table = #[0x4444]) :=
  exists_of_checkRun (by decide +kernel)

/-- … and the tenth increment is indeed one that reports an aging step. -/
example : ∃ s g, runG (init 0, ghost0) [0, 0, 0, 0, 0, 0, 0, 0, 0] = .ok (s, g) ∧
    (s.frequency 0 = 9 ∧ g 0 = 9 ∧
      (incrStep s 1).toOption.map (fun p => (p.2, p.1.size)) = some (true, 4)) :=
  exists_of_checkRun (by decide +kernel)

/-- The hypothesis of `C14_exact_without_collision` is satisfiable: in that run, position 0 of
hash 0 is used by no other recorded hash. -/
example : ∀ h', h' ∈ ([0, 0, 0, 0, 0, 0, 0, 0, 0, 1] : List UInt64) → h' ≠ 0 →
    ¬ hits (init 0) h' ((init 0).indexOf 0 0) (start 0 + 0) := by decide +kernel

/-- Collision: with one word, hashes 0 and 4 share all four counters; recording 4 alone makes
the estimate of 0 strictly larger than its count. -/
example : ∃ s g, runG (init 0, ghost0) [4, 4, 4] = .ok (s, g) ∧
    (g 0 = 0 ∧ s.frequency 0 = 3 ∧ g 4 = 3) :=
  exists_of_checkRun (by decide +kernel)

/-- Saturation: twenty recordings at capacity 512 (no aging: `sampleSize = 5120`). -/
example : ∃ s g, runG (init 512, ghost0) (List.replicate 20 77) = .ok (s, g) ∧
    (g 77 = 15 ∧ s.frequency 77 = 15 ∧ s.size = 15 ∧ s.table.size = 512) :=
  exists_of_checkRun (by decide +kernel)

/-- A capacity that is not a power of two: 100 → 128 words. -/
example : (init 100).table.size = 128 ∧ (init 100).mask = 127 ∧ (init 100).sampleSize = 1000 := by
  decide +kernel

end Sketch
end MiniMoka
