/-
  C06 — time-to-idle: no entry is observable after tti without an access.
-/
import MiniMoka.Lemmas.UnsyncLookup
import MiniMoka.Lemmas.SketchLaws
import MiniMoka.Lemmas.SyncLookup

namespace MiniMoka
namespace Props

open Unsync Spec

/-- C06 on the single-threaded cache: with `time_to_idle = d`, for every configuration and
history, a key yielded by a lookup at reading `now` satisfies `now < a + d`, where `a` is the
reading of its most recent insert, update or *successful get*; `contains_key` and iteration
never count as an access (the reference bookkeeping does not record them, so if they
extended the idle timer the bound would fail). -/
theorem C06_unsync (p : Params) (hq : NoQuirks p)
    (hsm : SmallSketch p) (h : List Op) :
    oracleC06 .unsync p.tti (Unsync.trace p h) = true := by
  unfold oracleC06 Unsync.trace
  refine lookupOracle_of_coupled sketchLaws hq hsm _ ?_ h {} {} (init_inv sketchLaws p) (init_coupled p)
  intro g kv hkv
  simp only [allChecks, Bool.and_eq_true] at hkv
  exact hkv.2

example : oracleC06 .unsync (some 3) (Unsync.trace { tti := some 3 }
    [.ins 1 10, .adv 2, .get 1, .adv 2, .has 1, .iter, .adv 1, .get 1, .ins 2 5, .adv 2, .has 2,
     .adv 1, .has 2, .iter]) = true := by
  decide +kernel

/-- The oracle rejects a trace in which `contains_key` had extended the idle timer. -/
example : oracleC06 .unsync (some 3)
    [(.ins 1 10, .ok), (.adv 2, .ok), (.has 1, .bool true), (.adv 2, .ok), (.get 1, .val (some 10))]
    = false := by
  decide

/-- C06 on the concurrent cache driven by one thread: for every configuration, history and
`sync` placement, a key yielded at reading `now` satisfies `now < a + tti`, `a` being the
reading of its most recent insert, update or successful get — in particular a read that is
applied late can never move the idle deadline beyond that (and, after the D6 repair, never
backwards, which is C03's half). -/
theorem C06_sync (p : Params) (hq : Sync.NoQuirks p) (h : List Op) :
    oracleC06 .sync p.tti (Sync.trace p h) = true := by
  unfold oracleC06 Sync.trace
  refine Sync.lookupOracle_of_coupled hq _ ?_ h {} {} (Sync.init_coupled p)
  intro g kv hkv
  simp only [Sync.allChecks, Bool.and_eq_true] at hkv
  exact hkv.2

example : oracleC06 .sync (some 3) (Sync.trace { tti := some 3 }
    [.ins 1 10, .adv 2, .get 1, .adv 2, .has 1, .iter, .sync, .adv 1, .get 1, .ins 2 5, .adv 2,
     .has 2, .adv 1, .has 2, .iter]) = true := by
  decide +kernel

end Props
end MiniMoka
