/-
  C06 — time-to-idle: no entry is observable after tti without an access.
-/
import MiniMoka.Lemmas.UnsyncLookup

namespace MiniMoka
namespace Props

open Unsync Spec

/-- C06 on the single-threaded cache: with `time_to_idle = d`, for every configuration and
history, a key yielded by a lookup at reading `now` satisfies `now < a + d`, where `a` is the
reading of its most recent insert, update or *successful get*; `contains_key` and iteration
never count as an access (the reference bookkeeping does not record them, so if they
extended the idle timer the bound would fail). -/
theorem C06_unsync {P : Sketch → Prop} (L : SketchLaws P) (p : Params) (hq : NoQuirks p)
    (hsm : SmallSketch p) (h : List Op) :
    oracleC06 .unsync p.tti (Unsync.trace p h) = true := by
  unfold oracleC06 Unsync.trace
  refine lookupOracle_of_coupled L hq hsm _ ?_ h {} {} (init_inv L p) (init_coupled p)
  intro g kv hkv
  simp only [allChecks, Bool.and_eq_true] at hkv
  exact hkv.2

example : oracleC06 .unsync (some 3) (Unsync.trace { tti := some 3 }
    [.ins 1 10, .adv 2, .get 1, .adv 2, .has 1, .iter, .adv 1, .get 1, .ins 2 5, .adv 2, .has 2,
     .adv 1, .has 2, .iter]) = true := by
  decide +kernel

/-- The oracle rejects a trace in which `contains_key` had extended the idle timer. -/
example : oracleC06 .unsync (some 3)
    [(.ins 1 10, .ok), (.adv 2, .ok), (.has 1, .bool true), (.adv 2, .ok), (.get 1, .val (some 10))]
    = false := by
  decide

end Props
end MiniMoka
