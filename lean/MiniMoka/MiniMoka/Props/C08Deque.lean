/-
  C08 (memory safety, layer M3): the intrusive doubly linked list `common/deque.rs`.

  Model: `MiniMoka/DequeHeap.lean` (heap of nodes addressed by naturals, every dereference
  of a dead address is `Fault.useAfterFree`, so is a double free). Lemmas and the
  definitions used in the statements (`WF`, `Detached`, `Pres`, `Frees`, `Allocs`, `leave`,
  `succOf`, `Cmd`, `rstep`, `Legal`, …): `MiniMoka/Lemmas/DequeHeap.lean`.

  Reading guide.
  * `WF s l` — the heap of `s` encodes the list of node addresses `l` (distinct live nodes,
    `head`/`tail`/`len`, consistent `next`/`prev`, cursor `None`/`Done`/at a node of `l`, no
    fault, live addresses below the allocation counter, ghost free-log duplicate-free and dead).
  * `Detached s l a` — `a` is live, not in `l`, `prev = next = None` (result of `unlink`).
  * `m s = .ok (r, s')` — operation `m` run in state `s` returns `r` in state `s'` without any
    fault (`.error f` would be the fault `f`).
  * `Pres s s' l l'` — relinking only: allocation counter, free-log and fault unchanged, every
    address keeps liveness and element, nodes outside `l` and `l'` untouched.
  * `Frees s s' a` — exactly `a` (live before) is freed: the log grows by `a`, `a` is dead,
    every other address keeps liveness and element.
  * `Allocs s s' e` — exactly the fresh address `s.next` (dead before, never in the free-log)
    becomes live with element `e`.
-/
import MiniMoka.Lemmas.DequeHeap

namespace MiniMoka
namespace DequeHeap

/-! ## 1. Well-formedness is satisfiable; `new` -/

theorem C08_deque_new : WF new [] := new_wf

/-! ## 2./3. Every operation, called as the Rust callers call it -/

/-- `push_back(Box::new(DeqNode::new(e)))`: returns the fresh address, appends it. -/
theorem C08_deque_push_back {s : DState} {l : List Nat} (h : WF s l) (e : Nat) :
    ∃ s', pushBack e s = .ok (s.next, s') ∧ WF s' (l ++ [s.next]) ∧ Allocs s s' e ∧
      s'.cursor = s.cursor ∧
      (∀ b, b ∉ l → b ≠ s.next → hget s'.heap b = hget s.heap b) :=
  pushBack_spec h e

/-- A fresh address is dead, was never freed (no reuse of freed addresses) and is not linked. -/
theorem C08_deque_alloc_fresh {s : DState} {l : List Nat} (h : WF s l) :
    hget s.heap s.next = none ∧ s.next ∉ s.freed ∧ s.next ∉ l :=
  alloc_fresh h

/-- `push_back` of an existing box (any live node that is not linked): same address. -/
theorem C08_deque_push_back_box {s : DState} {l : List Nat} {a : Nat} {n : Node}
    (h : WF s l) (hal : a ∉ l) (han : hget s.heap a = some n) :
    ∃ s', pushBackBox a s = .ok (a, s') ∧ (WF s' (l ++ [a]) ∧ Pres s s' l (l ++ [a])) ∧
      s'.cursor = s.cursor :=
  pushBackBox_spec h hal han

/-- `pop_front` on a non-empty list: returns the old head (and its element), frees exactly it;
a cursor at the head is advanced first. -/
theorem C08_deque_pop_front {s : DState} {a : Nat} {t : List Nat} (h : WF s (a :: t)) :
    ∃ s', popFront s = .ok (some (a, elemAt s a), s') ∧ WF s' t ∧ Frees s s' a ∧
      s'.cursor = leave (a :: t) a s.cursor ∧
      (∀ b, b ∉ a :: t → hget s'.heap b = hget s.heap b) :=
  popFront_ok h

theorem C08_deque_pop_front_empty {s : DState} (h : WF s []) : popFront s = .ok (none, s) :=
  popFront_nil h

/-- `move_to_back(a)` for `a ∈ l`: `l.erase a ++ [a]`; frees and allocates nothing. The cursor
is untouched when `a` already is the tail, otherwise a cursor at `a` is advanced first. -/
theorem C08_deque_move_to_back {s : DState} {l : List Nat} {a : Nat} (h : WF s l) (ha : a ∈ l) :
    ∃ s', moveToBack a s = .ok ((), s') ∧ WF s' (l.erase a ++ [a]) ∧
      Pres s s' l (l.erase a ++ [a]) ∧
      s'.cursor = if l.getLast? = some a then s.cursor else leave l a s.cursor :=
  moveToBack_ok h ha

/-- `move_front_to_back` is `move_to_back(head)`, or nothing on the empty list. -/
theorem C08_deque_move_front_to_back {s : DState} {l : List Nat} (h : WF s l) :
    (l = [] → moveFrontToBack s = .ok ((), s)) ∧
    (∀ a, l.head? = some a → moveFrontToBack s = moveToBack a s) := by
  refine ⟨fun hl => ?_, fun a ha => ?_⟩
  · subst hl; exact moveFrontToBack_nil h
  · exact moveFrontToBack_eq h (by rw [← List.head?_eq_getElem?]; exact ha)

/-- `unlink(a)` for `a ∈ l`: `l.erase a`, nothing freed, `a` is left detached. -/
theorem C08_deque_unlink {s : DState} {l : List Nat} {a : Nat} (h : WF s l) (ha : a ∈ l) :
    ∃ s', unlink a s = .ok ((), s') ∧ WF s' (l.erase a) ∧ Pres s s' l (l.erase a) ∧
      s'.cursor = leave l a s.cursor ∧ Detached s' (l.erase a) a :=
  unlink_ok h ha

/-- `unlink_and_drop(a)` for `a ∈ l`: `l.erase a`, exactly `a` is freed. -/
theorem C08_deque_unlink_and_drop {s : DState} {l : List Nat} {a : Nat}
    (h : WF s l) (ha : a ∈ l) :
    ∃ s', unlinkAndDrop a s = .ok ((), s') ∧ WF s' (l.erase a) ∧ Frees s s' a ∧
      s'.cursor = leave l a s.cursor ∧ (∀ b, b ∉ l → hget s'.heap b = hget s.heap b) :=
  unlinkAndDrop_ok h ha

/-- `contains` answers list membership, for nodes of this list and for detached nodes; it
changes nothing. -/
theorem C08_deque_contains {s : DState} {l : List Nat} {a : Nat} (h : WF s l)
    (ha : a ∈ l ∨ Detached s l a) :
    contains a s = .ok (decide (a ∈ l), s) :=
  contains_spec h ha

theorem C08_deque_contains_iff {s : DState} {l : List Nat} {a : Nat} (h : WF s l)
    (ha : a ∈ l ∨ Detached s l a) :
    contains a s = .ok (true, s) ↔ a ∈ l := by
  rw [contains_spec h ha]
  by_cases hm : a ∈ l <;> simp [hm]

theorem C08_deque_peek_front {s : DState} {l : List Nat} (h : WF s l) :
    peekFront s = .ok (l.head?, s) ∧ peekFrontPtr s = .ok (l.head?, s) :=
  ⟨peekFront_spec h, peekFrontPtr_spec h⟩

/-- `DeqNode::next_node_ptr(a)` is the successor of `a` in `l`. -/
theorem C08_deque_next_node_ptr {s : DState} {l : List Nat} {a : Nat} (h : WF s l) (ha : a ∈ l) :
    nextNodePtr a s = .ok (succOf l a, s) :=
  nextNodePtr_ok h ha

/-- Allocation status: relinking operations change no address's liveness or element, a freeing
operation changes only the freed address, `push_back` only the fresh address. -/
theorem C08_deque_allocation_status {s s' : DState} :
    (∀ l l', Pres s s' l l' → ∀ b, (hget s'.heap b).isSome = (hget s.heap b).isSome) ∧
    (∀ a, Frees s s' a → ∀ b, b ≠ a → (hget s'.heap b).isSome = (hget s.heap b).isSome) ∧
    (∀ e, Allocs s s' e → ∀ b, b ≠ s.next → (hget s'.heap b).isSome = (hget s.heap b).isSome) :=
  ⟨fun _ _ hp b => hp.live_iff b, fun _ hp b hb => hp.live_iff b hb,
    fun _ hp b hb => hp.live_iff b hb⟩

/-! ## 4. Iterator and cursor -/

/-- From `cursor = None`, `l.length + 1` calls of `next` yield the nodes of `l` front to back
(address and stored element) and then `None`; the state is then exactly the initial one
(cursor `None` again: the following call starts over). -/
theorem C08_deque_iterator {s : DState} {l : List Nat} (h : WF s l) (hc : s.cursor = none) :
    iterRun (l.length + 1) s = .ok (l.map (fun a => some (a, elemAt s a)) ++ [none], s) :=
  iterRun_all h hc

/-- One step of the iterator at position `j`, and the step after `Done`. -/
theorem C08_deque_iterator_step {s : DState} {l : List Nat} (h : WF s l) :
    (∀ c j, s.cursor = some (.node c) → l[j]? = some c →
      iterNext s = .ok (some (c, elemAt s c), { s with cursor := curAfter l j })) ∧
    (s.cursor = some .done → iterNext s = .ok (none, { s with cursor := none })) :=
  ⟨fun _ _ hc hj => iterNext_at h hc hj, fun hc => iterNext_done h hc⟩

/-- When `a` leaves its position (pop, unlink, move to the back from an inner position) the
cursor does not stay at `a`. Together with `WF` of the result state (cursor at a node of the
new list) this is cursor preservation. -/
theorem C08_deque_cursor_leaves {l : List Nat} (hn : l.Nodup) {a : Nat} (ha : a ∈ l)
    (c : Option Cursor) : leave l a c ≠ some (.node a) :=
  leave_ne hn ha c

/-! ## 5. Drop -/

/-- `Drop`: all nodes of `l` are freed, each exactly once, in list order; nothing else is
touched; no linked node remains. -/
theorem C08_deque_drop {s : DState} {l : List Nat} (h : WF s l) :
    ∃ s', dropAll s = .ok ((), s') ∧ WF s' [] ∧
      s'.freed = l.reverse ++ s.freed ∧ s'.freed.Nodup ∧ s'.next = s.next ∧
      (∀ a, a ∈ l → hget s'.heap a = none) ∧
      (∀ b, b ∉ l → hget s'.heap b = hget s.heap b) := by
  obtain ⟨s', hrun, hwf, hfreed, hnext, hdead, hframe⟩ := dropAll_spec h
  exact ⟨s', hrun, hwf, hfreed, hwf.freedNodup, hnext, hdead, hframe⟩

/-! ## 6. Arbitrary legal command sequences -/

/-- Any sequence of legal list-level commands run on a fresh deque: the model never faults
(the run is `.ok`; a dereference or a second free of a freed address would be
`.error useAfterFree`), returns exactly the results of the pure list interpreter `rrun`, and
ends in a state that is well-formed for the interpreter's list, with its cursor, its set of
detached nodes and its free-log; the free-log has no duplicates and every address in it is dead.
Since `LegalSeq` is prefix-closed this holds after every prefix. -/
theorem C08_deque_sequences (cmds : List Cmd) (hl : LegalSeq {} cmds) :
    ∃ s, mrun cmds new = .ok ((rrun {} cmds).2, s) ∧
      exec (mrun cmds) new = (s, some (rrun {} cmds).2) ∧
      WF s (rrun {} cmds).1.l ∧
      s.fault = none ∧
      s.cursor = (rrun {} cmds).1.cur ∧
      (∀ a, a ∈ (rrun {} cmds).1.det → Detached s (rrun {} cmds).1.l a) ∧
      s.freed = (rrun {} cmds).1.freed ∧ s.freed.Nodup ∧
      (∀ a, a ∈ s.freed → hget s.heap a = none) := by
  obtain ⟨s, hrun, hsim⟩ := run_legal cmds hl
  exact ⟨s, hrun, exec_ok rfl hrun, hsim.wf, hsim.wf.fault, hsim.cur, hsim.det, hsim.freed,
    hsim.wf.freedNodup, fun a ha => (hsim.wf.freedDead a ha).1⟩

/-- The same from any state related to a reference state (not only the fresh one). -/
theorem C08_deque_sequences_from (cmds : List Cmd) (s : DState) (r : RState) (h : Sim s r)
    (hl : LegalSeq r cmds) :
    ∃ s', mrun cmds s = .ok ((rrun r cmds).2, s') ∧ Sim s' (rrun r cmds).1 :=
  sim_run cmds s r h hl

/-! ## Fault tracking is not vacuous -/

/-- Dereferencing a node after `unlink_and_drop` is reported. -/
example :
    (exec (do let _ ← pushBack 7; let a ← pushBack 8; unlinkAndDrop a; nextNodePtr a) new).1.fault
      = some .useAfterFree := by decide

/-- `contains` on a freed node is reported. -/
example :
    (exec (do let a ← pushBack 7; unlinkAndDrop a; contains a) new).1.fault
      = some .useAfterFree := by decide

/-- Double free is reported. -/
example :
    (exec (do let a ← pushBack 7; unlinkAndDrop a; unlinkAndDrop a) new).1.fault
      = some .useAfterFree := by decide

/-- `move_to_back` of a popped node is reported. -/
example :
    (exec (do let a ← pushBack 7; let _ ← pushBack 8; let _ ← popFront; moveToBack a) new).1.fault
      = some .useAfterFree := by decide

/-- `unlink` of a node that is already unlinked underflows `len` when the list is empty. -/
example :
    (exec (do let a ← pushBack 7; unlink a; unlink a) new).1.fault = some .overflow := by decide

/-- A fault is sticky. -/
example :
    (exec (pushBack 9)
      (exec (do let a ← pushBack 7; unlinkAndDrop a; contains a) new).1).1.fault
      = some .useAfterFree := by decide

/-! ## 7. Non-vacuity -/

/-- A concrete three-node state: what three `push_back`s build. -/
def threeNodes : DState :=
  { heap := [(0, some ⟨some 1, none, 10⟩), (1, some ⟨some 2, some 0, 20⟩),
             (2, some ⟨none, some 1, 30⟩)],
    head := some 0, tail := some 2, len := 3, cursor := none, next := 3 }

/-- (`decide +kernel`: plain `decide` evaluates the monadic run without sharing.) -/
example : (exec (mrun [.push 10, .push 20, .push 30]) new).1 = threeNodes := by decide +kernel

/-- It is well-formed for `[0, 1, 2]`: directly from the definition … -/
example : WF threeNodes [0, 1, 2] := by
  refine ⟨by decide, ?_, rfl, rfl, rfl, Or.inl rfl, rfl, ?_, List.nodup_nil, ?_⟩
  · intro i a h
    rcases i with _ | _ | _ | i
    · simp at h; subst h; exact ⟨_, rfl⟩
    · simp at h; subst h; exact ⟨_, rfl⟩
    · simp at h; subst h; exact ⟨_, rfl⟩
    · simp at h
  · intro a n h
    simp only [threeNodes, hget] at h
    show a < 3
    grind
  · intro a h; simp [threeNodes] at h

/-- … and as an instance of the sequence theorem. -/
example : WF threeNodes [0, 1, 2] := by
  obtain ⟨s, _, hex, hwf, _⟩ :=
    C08_deque_sequences [.push 10, .push 20, .push 30] ⟨trivial, trivial, trivial, trivial⟩
  have hs : s = threeNodes := by
    have h1 : (exec (mrun [.push 10, .push 20, .push 30]) new).1 = s := by rw [hex]
    rw [← h1]; decide +kernel
  have hl : (rrun {} [.push 10, .push 20, .push 30]).1.l = [0, 1, 2] := by decide
  rw [hs, hl] at hwf
  exact hwf

/-- A run with the cursor in the middle: iterate once (cursor now at node 1), move node 1 to
the back (cursor advances to node 2), pop the front, unlink-and-drop node 2 (cursor advances to
node 1, now the only node), finish the iteration, start over. -/
def demo : List Cmd :=
  [.push 10, .push 20, .push 30, .iterNext, .moveToBack 1, .popFront, .unlinkAndDrop 2,
   .iterNext, .iterNext, .iterNext]

example : LegalSeq {} demo := by decide

example :
    (rrun {} demo).2 =
      [.addr (some 0), .addr (some 1), .addr (some 2), .node (some (0, 10)), .unit,
       .node (some (0, 10)), .unit, .node (some (1, 20)), .node none, .node (some (1, 20))] ∧
    (rrun {} demo).1.l = [1] ∧ (rrun {} demo).1.freed = [2, 0] ∧
    (exec (mrun demo) new).2 = some (rrun {} demo).2 ∧
    (exec (mrun demo) new).1.cursor = some .done ∧
    (exec (mrun demo) new).1.fault = none := by decide +kernel

/-- Cursor positions along the first part of `demo`. -/
example :
    (exec (mrun (demo.take 4)) new).1.cursor = some (.node 1) ∧
    (exec (mrun (demo.take 5)) new).1.cursor = some (.node 2) ∧
    (exec (mrun (demo.take 7)) new).1.cursor = some (.node 1) := by decide +kernel

#print axioms C08_deque_sequences

end DequeHeap
end MiniMoka
