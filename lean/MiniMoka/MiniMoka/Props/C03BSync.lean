/-
  C03 part B on the concurrent cache driven by one thread: between two quiescent snapshots a
  fresh key whose (last) value fits in the room the residents leave is retained, and if every
  value inserted in between fits, nothing unexpired is evicted.  With part A
  (`Props/C03ASync.lean`) this is the whole C03 oracle of the concurrent cache.
  Property theorems only; lemmas live in `Lemmas/SyncFits.lean`.
-/
import MiniMoka.Lemmas.SyncFits
import MiniMoka.Props.C03ASync

namespace MiniMoka
namespace Props

open Sync

/-- C03 part B, concurrent cache with `max_capacity = c`, for every ttl/tti, weigher, hash
function and history.  Every window `sync, snap(before), <inserts of one key k, with snapshots
and popularity readings in between>, sync, snap(after)` of the trace: if `k` is not resident in
`before`, no deadline is zero and the weight of the LAST inserted value fits in the room the
residents of `before` leave (`Σ weights + weigh k v ≤ c`), then `after` holds `(k, v)` — the
later inserts are updates that share the entry info of the first, maintenance re-weighs the
value the map holds now, and it makes no difference which of the inserts started a
housekeeping run of their own; if moreover the heaviest of the inserted values fits, every
resident of `before` that is not expired (or invalidated) at `after` is still resident. -/
theorem C03B_sync (p : Params) (hq : Sync.NoQuirks p) (hsm : SmallSketch p) (c : Nat)
    (hcap : p.cap = some c) (h : List Op) :
    Spec.fitsC03Sync c p.ttl p.tti p.weigh (Sync.trace p h) = true :=
  fitsC03Sync_run hq hsm hcap h {} (Counters.init_t p) (fun v hv => by cases hv)

/-- The whole C03 oracle of the concurrent cache (part A: `C03A_sync_oracle`, part B:
`C03B_sync`), for every configuration and every history. -/
theorem C03_sync_oracle (p : Params) (hq : Sync.NoQuirks p) (hsm : SmallSketch p) (h : List Op) :
    Spec.oracleC03 .sync p.cap p.ttl p.tti p.weigh (Sync.trace p h) = true := by
  have hA := C03A_sync_oracle p hq hsm h
  unfold Spec.oracleC03
  cases hcap : p.cap with
  | none =>
    rw [hcap] at hA
    simpa using hA
  | some c =>
    rw [hcap] at hA
    simp only [Bool.and_eq_true]
    exact ⟨hA, C03B_sync p hq hsm c hcap h⟩

/-! ### non-vacuity -/

/-- A two-insert window (capacity 4, weight = value): key 1 weighs 2; key 2 is inserted with a
value that does not fit (3) and then with one that does (1).  Past the periodic-sync window
both upserts are still queued at the closing `sync`. -/
example : Spec.fitsC03Sync 4 none none (fun _ v => v) (Sync.trace
    { cap := some 4, hasWeigher := true, w := fun _ v => v }
    [.adv Gen.PAST_SYNC_INTERVAL_NS, .ins 1 2, .sync, .snap, .ins 2 3, .snap, .ins 2 1, .freq 2, .sync, .snap])
    = true := by
  decide +kernel

/-- The same inside the periodic-sync window, where the second insert itself runs the
maintenance that handles the first upsert. -/
example : Spec.fitsC03Sync 4 none none (fun _ v => v) (Sync.trace
    { cap := some 4, hasWeigher := true, w := fun _ v => v }
    [.ins 1 2, .sync, .snap, .ins 2 3, .snap, .ins 2 1, .freq 2, .sync, .snap]) = true := by
  decide +kernel

/-- In both regimes the closing snapshot holds key 1 and key 2 with its last value (the check
is not satisfied vacuously). -/
example : ((Sync.trace { cap := some 4, hasWeigher := true, w := fun _ v => v }
    [.adv Gen.PAST_SYNC_INTERVAL_NS, .ins 1 2, .sync, .snap, .ins 2 3, .ins 2 1, .sync, .snap]).map
      (fun oo => match oo.2 with
        | .snap sn => sn.entries.map (fun e => (e.key, e.val, e.weight))
        | _ => [])).getLast? = some [(1, 2, 2), (2, 1, 1)] := by
  decide +kernel

example : ((Sync.trace { cap := some 4, hasWeigher := true, w := fun _ v => v }
    [.ins 1 2, .sync, .snap, .ins 2 3, .ins 2 1, .sync, .snap]).map
      (fun oo => match oo.2 with
        | .snap sn => sn.entries.map (fun e => (e.key, e.val, e.weight))
        | _ => [])).getLast? = some [(1, 2, 2), (2, 1, 1)] := by
  decide +kernel

/-- With ttl and tti, an entry that expires inside the window is exempt. -/
example : Spec.fitsC03Sync 3 (some 5) (some 3) (fun _ _ => 1) (Sync.trace
    { cap := some 3, ttl := some 5, tti := some 3 }
    [.adv Gen.PAST_SYNC_INTERVAL_NS, .ins 1 1, .adv 2, .ins 3 3, .adv 1, .sync, .snap, .ins 2 7, .ins 2 8,
     .sync, .snap, .adv 3, .sync, .snap, .ins 4 4, .sync, .snap]) = true := by
  decide +kernel

/-- A hand-made snapshot with the given residents `(key, value, weight, last accessed)`. -/
def mkSnap (now : Nat) (es : List (Nat × Nat × Nat × Nat)) : Snap :=
  { ec := es.length, ws := (es.map (·.2.2.1)).sum,
    entries := es.map fun e => { key := e.1, val := e.2.1, weight := e.2.2.1, la := some e.2.2.2,
                                 lm := some e.2.2.2, aoOk := true, woOk := true },
    prob := [], wo := [], skOn := false, skSize := 0, skSample := 0, skLen := 0, skCrc := 0,
    freqs := [], now := now }

/-- The oracle is not vacuous: it rejects a window in which the fitting fresh key is missing
afterwards, one in which it is there with a stale value, and one in which a resident was
evicted although everything fit — but not if that resident was past its idle deadline, nor if
the heaviest inserted value did not fit. -/
example : Spec.fitsC03Sync 4 none none (fun _ v => v)
    [(.sync, .ok), (.snap, .snap (mkSnap 0 [(1, 2, 2, 0)])), (.ins 2 1, .ok), (.sync, .ok),
     (.snap, .snap (mkSnap 0 [(1, 2, 2, 0)]))] = false := by decide

example : Spec.fitsC03Sync 4 none none (fun _ v => v)
    [(.sync, .ok), (.snap, .snap (mkSnap 0 [(1, 2, 2, 0)])), (.ins 2 3, .ok), (.ins 2 1, .ok),
     (.sync, .ok), (.snap, .snap (mkSnap 0 [(1, 2, 2, 0), (2, 3, 3, 0)]))] = false := by decide

example : Spec.fitsC03Sync 4 none (some 5) (fun _ v => v)
    [(.sync, .ok), (.snap, .snap (mkSnap 7 [(1, 2, 2, 3)])), (.ins 2 1, .ok), (.sync, .ok),
     (.snap, .snap (mkSnap 7 [(2, 1, 1, 7)]))] = false := by decide

example : Spec.fitsC03Sync 4 none (some 4) (fun _ v => v)
    [(.sync, .ok), (.snap, .snap (mkSnap 7 [(1, 2, 2, 3)])), (.ins 2 1, .ok), (.sync, .ok),
     (.snap, .snap (mkSnap 7 [(2, 1, 1, 7)]))] = true := by decide

example : Spec.fitsC03Sync 4 none none (fun _ v => v)
    [(.sync, .ok), (.snap, .snap (mkSnap 0 [(1, 2, 2, 0)])), (.ins 2 3, .ok), (.ins 2 1, .ok),
     (.sync, .ok), (.snap, .snap (mkSnap 0 [(2, 1, 1, 0)]))] = true := by decide

end Props
end MiniMoka

#print axioms MiniMoka.Props.C03B_sync
#print axioms MiniMoka.Props.C03_sync_oracle
