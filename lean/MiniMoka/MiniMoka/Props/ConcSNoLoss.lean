/-
  C03 ("nothing is dropped for any other reason") for the many-thread system of
  `MiniMoka/ConcS.lean`, without a capacity limit.

  PROVED in full, for every configuration of the current code with `max_capacity = none`, every
  reachable state and every enabled step of any thread:
   * `ConcS_no_spurious_removal`: an entry of the map is, after the step, (a) still there
     unchanged, or (b) the step is an `insert` of its own key, which replaces it in place (same
     info, the new value), or (c) the step is the `invalidate` of its own key, or (d) the step is
     a maintenance run (`maint` or `sync`) and the entry is expired or hidden by the
     `invalidate_all` watermark, judged on the state after the run, in which every queued hit
     has been applied to the idle timers (`C17_no_capacity_never_evicts_sync`).
   * `ConcS_insert_retained`: the entry `(k, v)` put by `insMap t k v` is resident right after the
     step, and stays across any following step that is not an `invalidate` / another `insert`
     of `k`, nor a maintenance run that finds it expired or invalidated; whether or not the
     thread has enqueued its operation yet.  `ConcS_insert_retained_path`: the same along any
     path of such steps.
  Out of scope here: `max_capacity = some c` (size eviction and admission; see
  `Props/C03ASync.lean`, `C03BSync.lean` for the one-thread statements).
-/
import MiniMoka.Props.ConcS
import MiniMoka.Props.C03ASync

namespace MiniMoka
namespace Props

open Sync Sync.Nodes Sync.Counters ConcS

/-- Without `max_capacity`, no step of any thread removes or changes a map entry except the
`insert` / `invalidate` of its own key and the removal of an expired or invalidated entry by a
maintenance run. -/
theorem ConcS_no_spurious_removal (p : Params) (hq : Sync.NoQuirks p) (hsm : SmallSketch p)
    (hcap : p.cap = none) (c c' : CState) (hr : Reach p c) (ev : Ev)
    (hs : ConcS.step p c ev = some c') (k : Nat) (ve : VE) (hk : AL.get? c.s.map k = some ve) :
    AL.get? c'.s.map k = some ve ∨
    (∃ t v, ev = .insMap t k v ∧
      ∃ ve', AL.get? c'.s.map k = some ve' ∧ ve'.info = ve.info ∧ ve'.val = v) ∨
    (∃ t, ev = .invMap t k) ∨
    ((∃ t, ev = .maint t ∨ ev = .sync t) ∧
      isExpiredInfo p c'.s (getInfo c'.s ve.info) c'.s.now = true) := by
  have h := reach_csinv hq hsm hr
  have hkn := h.top.map.kn
  cases ev with
  | insMap t k' v =>
    simp only [ConcS.step] at hs
    cases hp : pendOf c.pending t with
    | some x => rw [hp] at hs; cases hs
    | none =>
      rw [hp] at hs
      have e := Option.some.inj hs
      subst e
      by_cases hkk : k' = k
      · subst hkk
        refine Or.inr (Or.inl ⟨t, v, rfl, ?_⟩)
        show ∃ ve', AL.get? (insertMap p c.s k' v).1.map k' = some ve' ∧ _
        unfold insertMap
        dsimp only
        rw [hk]
        exact ⟨_, AL.get?_put_self _ _ _, rfl, rfl⟩
      · refine Or.inl ?_
        show AL.get? (insertMap p c.s k' v).1.map k = some ve
        unfold insertMap
        dsimp only
        cases hg : AL.get? c.s.map k' with
        | none =>
          dsimp only
          rw [AL.get?_put_ne _ hkk]; exact hk
        | some old =>
          dsimp only
          rw [AL.get?_put_ne _ hkk]; exact hk
  | invMap t k' =>
    simp only [ConcS.step] at hs
    cases hp : pendOf c.pending t with
    | some x => rw [hp] at hs; cases hs
    | none =>
      rw [hp] at hs
      dsimp only at hs
      by_cases hkk : k' = k
      · subst hkk; exact Or.inr (Or.inr (Or.inl ⟨t, rfl⟩))
      · refine Or.inl ?_
        cases ho : (invalidateMap c.s k').2 with
        | none =>
          rw [ho] at hs
          rw [← Option.some.inj hs]; exact hk
        | some op =>
          rw [ho] at hs
          have e := Option.some.inj hs
          subst e
          show AL.get? (invalidateMap c.s k').1.map k = some ve
          unfold invalidateMap
          cases hg : AL.get? c.s.map k' with
          | none => exact hk
          | some old =>
            dsimp only
            rw [AL.get?_erase_ne hkk]; exact hk
  | getMap t k' =>
    simp only [ConcS.step] at hs
    cases hp : pendOf c.pending t with
    | some x => rw [hp] at hs; cases hs
    | none =>
      rw [hp] at hs
      rw [← Option.some.inj hs]; exact Or.inl hk
  | maint t =>
    rw [step_maint_eq p h.running t] at hs
    have e := Option.some.inj hs
    subst e
    rcases (C17_no_capacity_never_evicts_sync p hq hcap c.s hkn).2.2 k ve hk with h1 | h1
    · exact Or.inl h1
    · exact Or.inr (Or.inr (Or.inr ⟨⟨t, Or.inl rfl⟩, h1⟩))
  | sync t =>
    rw [step_sync_eq' p h.running t] at hs
    have e := Option.some.inj hs
    subst e
    rcases (C17_no_capacity_never_evicts_sync p hq hcap c.s hkn).1 k ve hk with h1 | h1
    · exact Or.inl h1
    · exact Or.inr (Or.inr (Or.inr ⟨⟨t, Or.inr rfl⟩, h1⟩))
  | enq t =>
    refine Or.inl ?_
    simp only [ConcS.step] at hs
    cases hp : pendOf c.pending t with
    | none => rw [hp] at hs; cases hs
    | some pd =>
      rw [hp] at hs
      cases pd with
      | write op =>
        dsimp only at hs
        split at hs
        · rw [← Option.some.inj hs]; exact hk
        · cases hs
      | read op =>
        dsimp only at hs
        split at hs
        · rw [← Option.some.inj hs]; exact hk
        · rw [← Option.some.inj hs]; exact hk
  | tick d =>
    simp only [ConcS.step] at hs
    rw [← Option.some.inj hs]; exact Or.inl hk
  | invAll t =>
    simp only [ConcS.step] at hs
    rw [← Option.some.inj hs]; exact Or.inl hk

/-- The steps that may take the entry of `k` with info `i` away: `invalidate` / `insert` of `k`,
and a maintenance run after which the entry counts as expired or invalidated. -/
def Disturbs (p : Params) (k i : Nat) (ev : Ev) (c' : CState) : Prop :=
  (∃ t, ev = .invMap t k) ∨ (∃ t v, ev = .insMap t k v) ∨
  ((∃ t, ev = .maint t ∨ ev = .sync t) ∧
    isExpiredInfo p c'.s (getInfo c'.s i) c'.s.now = true)

/-- One step that does not disturb the entry keeps it. -/
theorem ConcS_entry_kept (p : Params) (hq : Sync.NoQuirks p) (hsm : SmallSketch p)
    (hcap : p.cap = none) (c c' : CState) (hr : Reach p c) (ev : Ev)
    (hs : ConcS.step p c ev = some c') (k : Nat) (ve : VE) (hk : AL.get? c.s.map k = some ve)
    (hnd : ¬ Disturbs p k ve.info ev c') : AL.get? c'.s.map k = some ve := by
  rcases ConcS_no_spurious_removal p hq hsm hcap c c' hr ev hs k ve hk with
    h1 | ⟨t, v, e, _⟩ | ⟨t, e⟩ | ⟨e, hx⟩
  · exact h1
  · exact absurd (Or.inr (Or.inl ⟨t, v, e⟩)) hnd
  · exact absurd (Or.inl ⟨t, e⟩) hnd
  · exact absurd (Or.inr (Or.inr ⟨e, hx⟩)) hnd

/-- After the map step of `insert k v` by thread `t` the entry `(k, v)` is resident, and any one
following step of any thread keeps it unless that step disturbs it; it does not matter whether
`t` has enqueued its operation yet, nor how many maintenance runs pass meanwhile. -/
theorem ConcS_insert_retained (p : Params) (hq : Sync.NoQuirks p) (hsm : SmallSketch p)
    (hcap : p.cap = none) (c c1 : CState) (hr : Reach p c) (t : Tid) (k v : Nat)
    (hs1 : ConcS.step p c (.insMap t k v) = some c1) :
    ∃ ve, AL.get? c1.s.map k = some ve ∧ ve.val = v ∧
      ∀ ev c2, ConcS.step p c1 ev = some c2 → ¬ Disturbs p k ve.info ev c2 →
        AL.get? c2.s.map k = some ve := by
  have hr1 : Reach p c1 := Reach.step _ hr hs1
  have hget : ∃ ve, AL.get? c1.s.map k = some ve ∧ ve.val = v := by
    simp only [ConcS.step] at hs1
    cases hp : pendOf c.pending t with
    | some x => rw [hp] at hs1; cases hs1
    | none =>
      rw [hp] at hs1
      have e := Option.some.inj hs1
      subst e
      show ∃ ve, AL.get? (insertMap p c.s k v).1.map k = some ve ∧ ve.val = v
      unfold insertMap
      dsimp only
      cases hg : AL.get? c.s.map k with
      | none => exact ⟨_, AL.get?_put_self _ _ _, rfl⟩
      | some old => exact ⟨_, AL.get?_put_self _ _ _, rfl⟩
  obtain ⟨ve, h1, h2⟩ := hget
  exact ⟨ve, h1, h2, fun ev c2 hs2 hnd =>
    ConcS_entry_kept p hq hsm hcap c1 c2 hr1 ev hs2 k ve h1 hnd⟩

/-- A path none of whose steps disturbs the entry of `k` with info `i`. -/
def Undisturbed (p : Params) (k i : Nat) : CState → List Ev → Prop
  | _, [] => True
  | c, ev :: rest =>
    ∃ c', ConcS.step p c ev = some c' ∧ ¬ Disturbs p k i ev c' ∧ Undisturbed p k i c' rest

/-- The entry survives any undisturbed path. -/
theorem ConcS_insert_retained_path (p : Params) (hq : Sync.NoQuirks p) (hsm : SmallSketch p)
    (hcap : p.cap = none) (k : Nat) (ve : VE) : ∀ (evs : List Ev) (c cN : CState), Reach p c →
      AL.get? c.s.map k = some ve → Undisturbed p k ve.info c evs → runEvs p c evs = some cN →
      AL.get? cN.s.map k = some ve := by
  intro evs
  induction evs with
  | nil =>
    intro c cN _ hk _ hrun
    simp only [runEvs] at hrun
    rw [← Option.some.inj hrun]; exact hk
  | cons ev rest ih =>
    intro c cN hr hk hu hrun
    obtain ⟨c', hs, hnd, hu'⟩ := hu
    simp only [runEvs, hs] at hrun
    exact ih c' cN (Reach.step _ hr hs)
      (ConcS_entry_kept p hq hsm hcap c c' hr ev hs k ve hk hnd) hu' hrun

/-! ### a machine-checked interleaving -/

/-- Time-to-live 5, no capacity limit. -/
def noLossParams : Params := { ttl := some 5 }

/-- Thread 1 inserts key 1 (clock 0) and enqueues; maintenance admits it.  At clock 3 thread 2
performs the map step of `insert 2 20` and keeps holding its operation.  At clock 5 key 1 has
expired: the next maintenance run removes it.  Key 2 survives that run and two more while its
operation is still held; at clock 15 it has expired too, but an entry that was never admitted
owns no node, so maintenance cannot find it (lookups hide it); once thread 2 has enqueued, the
next run admits it and removes it as expired. -/
def noLossInterleaving : List Ev :=
  [.insMap 1 1 10, .enq 1, .maint 0, .tick 3, .insMap 2 2 20, .tick 2, .maint 0, .maint 1, .sync 0,
   .tick 10, .maint 0, .enq 2, .maint 0]

/-- `(map as (key, value), entry_count, threads holding something)` after the first `n`
events. -/
def noLossAfter (n : Nat) : Option (List (Nat × Nat) × Nat × Nat) :=
  (runEvs noLossParams {} (noLossInterleaving.take n)).map fun c =>
    (c.s.map.map (fun (kv : Nat × VE) => (kv.1, kv.2.val)), c.s.ec, c.pending.length)

example : [3, 6, 7, 8, 9, 11, 12, 13].map noLossAfter =
    [some ([(1, 10)], 1, 0),                -- key 1 admitted
     some ([(1, 10), (2, 20)], 1, 1),       -- clock 5: key 1 expired, key 2 held by thread 2
     some ([(2, 20)], 0, 1),                -- `maint`: key 1 removed, key 2 kept
     some ([(2, 20)], 0, 1),                -- another `maint`
     some ([(2, 20)], 0, 1),                -- `sync`
     some ([(2, 20)], 0, 1),                -- clock 15, `maint`: still there (owns no node)
     some ([(2, 20)], 0, 0),                -- thread 2 enqueues
     some ([], 0, 0)] := by                 -- admitted and removed as expired
  decide +kernel

/-- The removal of key 1 is case (d) of the theorem: after the run the entry counts as
expired. -/
example : (runEvs noLossParams {} (noLossInterleaving.take 7)).map (fun c =>
    c.s.map.map (fun (kv : Nat × VE) => (kv.1, isExpiredInfo noLossParams c.s (getInfo c.s kv.2.info) c.s.now)))
    = some [(2, false)] ∧
    (runEvs noLossParams {} (noLossInterleaving.take 6)).map (fun c =>
    c.s.map.map (fun (kv : Nat × VE) => (kv.1, isExpiredInfo noLossParams c.s (getInfo c.s kv.2.info) c.s.now)))
    = some [(1, true), (2, false)] := by
  decide +kernel

end Props
end MiniMoka

namespace MiniMoka.Props
#print axioms ConcS_no_spurious_removal
#print axioms ConcS_entry_kept
#print axioms ConcS_insert_retained
#print axioms ConcS_insert_retained_path
end MiniMoka.Props
