/-
  C12 — growth eviction with stale residents (single-threaded cache).  When a lookup runs on a
  cache that is over capacity while some residents are already past a deadline, the stale
  residents are purged first and the size eviction works off only the excess that remains:
  exactly the shortest prefix of the remaining residents, in recency order, that covers
  `live weight - capacity` leaves.  `Spec.growthExpC12` (Spec/OraclesExt.lean) checks this on
  every window `snap, get/contains_key, snap` with at most one batch of residents.
  Property theorems only; lemmas live in `Lemmas/UnsyncGrowExp.lean`.
-/
import MiniMoka.Lemmas.UnsyncGrowExp

namespace MiniMoka
namespace Props

open Unsync Unsync.Admit Unsync.GrowExp

/-- **C12, growth eviction with stale residents, on traces.** For every configuration of the
current code with a capacity (any weigher, hasher, ttl/tti) and every history, the oracle
`growthExpC12` (batch = the code's `EVICTION_BATCH_SIZE`) accepts the model's trace. -/
theorem C12_unsync_growth_expiry (p : Params) (hq : Unsync.NoQuirks p) (hsm : SmallSketch p)
    (cap : Nat) (hcap : p.cap = some cap) (h : List Op) :
    Spec.growthExpC12 cap p.ttl p.tti Gen.UNSYNC_EVICTION_BATCH_SIZE (Unsync.trace p h) = true :=
  growthExpC12_trace sketchLaws hq hsm hcap h

/-- The invariant behind it: in every reachable state of a cache with expiry the timestamps of
the access-order list and of the write-order list are non-decreasing from front to back, and
none lies in the future.  Hence the stale nodes form a prefix of either list. -/
theorem C12_unsync_timestamps_sorted (p : Params) (hq : Unsync.NoQuirks p) (hsm : SmallSketch p)
    (hx : p.hasExpiry = true) (h : List Op) :
    TsList (runState p {} h).now ((runState p {} h).prob.map (·.ts)) ∧
    TsList (runState p {} h).now ((runState p {} h).wo.map (·.ts)) :=
  ⟨(reachable_tsInv sketchLaws hq hsm h hx).ao, (reachable_tsInv sketchLaws hq hsm h hx).wo⟩

/-- **The purge is exact.** On a reachable state with at most one batch of residents,
`evict_expired_if_needed` removes every resident that is past a deadline at the state's clock
reading and no other; the recency order of the survivors is unchanged. -/
theorem C12_unsync_purge_exact (p : Params) (hq : Unsync.NoQuirks p) (hsm : SmallSketch p)
    (h : List Op) (hlen : (runState p {} h).map.length ≤ EVICTION_BATCH_SIZE) (k : Nat) (e : UEntry) :
    (AL.get? (evictExpiredIfNeeded p (runState p {} h)).map k = some e ↔
      (AL.get? (runState p {} h).map k = some e ∧
        isExpiredEntry p (runState p {} h) e (runState p {} h).now = false)) ∧
    (evictExpiredIfNeeded p (runState p {} h)).prob.Sublist (runState p {} h).prob := by
  have ph := evictExpiredIfNeeded_purged hq (reachable_inv sketchLaws hq hsm h).inv
    (reachable_tsInv sketchLaws hq hsm h) hlen
  exact ⟨⟨fun hk => ⟨ph.shrinks.sub k e hk, ph.live k e hk⟩, fun hk => ph.keeps k e hk.1 hk.2⟩,
    ph.sub.prob⟩

/-! ### non-vacuity -/

/-- Capacity 10, time-to-live 2 s, the weight of an entry is its value. -/
def cfgX : Params :=
  { cap := some 10, ttl := some 2000000000, hasWeigher := true, w := fun _ v => v }

/-- Key 1 (weight 4) written at 0, keys 2 and 3 at 1.2 s; a hit on 1; an update makes 3 heavier
(weight 5, weighted size 12 against a capacity of 10); the clock then stands at 2.2 s. -/
def histX : List Op :=
  [.ins 1 4, .adv 1200000000, .ins 2 3, .ins 3 3, .get 1, .ins 3 5, .adv 1000000000]

def staleX : UState := runState cfgX {} histX

theorem nq_cfgX : Unsync.NoQuirks cfgX := by unfold Unsync.NoQuirks; rfl

theorem small_cfgX : SmallSketch cfgX :=
  ⟨fun c h => by cases h; decide, fun _ _ _ => by show Sketch.sketchCapacity 0 ≤ 2 ^ 27; decide⟩

/-- In `staleX` key 1 is past its deadline, the cache is over capacity by 2 and the recency order
is 2, 1, 3.  The lookup purges key 1 and then has nothing left to work off: exactly 2 and 3
remain.  (A size eviction run before the purge would have taken the live key 2.) -/
example :
    staleX.ws = 12 ∧ AL.keys staleX.map = [1, 2, 3] ∧ staleX.prob.map (·.key) = [2, 1, 3] ∧
    (staleX.map.filter (fun kv => isExpiredEntry cfgX staleX kv.2 staleX.now)).map (·.1) = [1] ∧
    AL.keys (evictLru cfgX staleX).map = [1, 3] ∧
    AL.keys (containsKey cfgX staleX 2).1.map = [2, 3] ∧
    (containsKey cfgX staleX 2).1.ws = 8 := by
  decide +kernel

/-- The oracle accepts the model's trace of that history followed by `snap, contains_key, snap`
(and a second window in which nothing is left to do). -/
example : Spec.growthExpC12 10 cfgX.ttl cfgX.tti EVICTION_BATCH_SIZE
    (Unsync.trace cfgX (histX ++ [.snap, .has 2, .snap, .get 3, .snap])) = true := by
  decide +kernel

/-- `C12_unsync_growth_expiry` applied to that configuration (hypotheses discharged). -/
example : Spec.growthExpC12 10 cfgX.ttl cfgX.tti Gen.UNSYNC_EVICTION_BATCH_SIZE
    (Unsync.trace cfgX (histX ++ [.snap, .has 2, .snap])) = true :=
  C12_unsync_growth_expiry cfgX nq_cfgX small_cfgX 10 rfl _

/-- The oracle is not vacuous: it rejects a hand-made trace in which the lookup evicted for size
before purging — the live key 2 (least recently used) is gone together with the stale key 1. -/
example : Spec.growthExpC12 10 cfgX.ttl cfgX.tti EVICTION_BATCH_SIZE
    [(.snap, .snap (snapshot cfgX staleX)), (.has 2, .bool false),
     (.snap, .snap (snapshot cfgX (runState cfgX {} (histX ++ [.has 2, .inv 2]))))] = false := by
  decide +kernel

/-- ... and one in which the stale key 1 survived the lookup. -/
example : Spec.growthExpC12 10 cfgX.ttl cfgX.tti EVICTION_BATCH_SIZE
    [(.snap, .snap (snapshot cfgX staleX)), (.has 2, .bool true),
     (.snap, .snap (snapshot cfgX staleX))] = false := by
  decide +kernel

/-- Both deadlines, and an excess that remains after the purge (capacity 6, ttl 100, tti 50):
at time 55 key 1 (idle since 0) is stale, keys 2 and 3 (weights 2 and 5) are live and weigh 7;
the lookup purges 1 and then evicts 2, the least recently used live resident; 3 remains. -/
def cfgY : Params :=
  { cap := some 6, ttl := some 100, tti := some 50, hasWeigher := true, w := fun _ v => v }

def histY : List Op := [.ins 1 2, .adv 30, .ins 2 2, .ins 3 2, .ins 3 5, .adv 25]

example :
    (runState cfgY {} histY).ws = 9 ∧
    (runState cfgY {} histY).prob.map (·.key) = [1, 2, 3] ∧
    AL.keys (get cfgY (runState cfgY {} histY) 9).1.map = [3] ∧
    Spec.growthExpC12 6 cfgY.ttl cfgY.tti EVICTION_BATCH_SIZE
      (Unsync.trace cfgY (histY ++ [.snap, .get 9, .snap])) = true ∧
    Spec.growthExpC12 6 cfgY.ttl cfgY.tti EVICTION_BATCH_SIZE
      [(.snap, .snap (snapshot cfgY (runState cfgY {} histY))), (.get 9, .val none),
       (.snap, .snap (snapshot cfgY (runState cfgY {} (histY ++ [.get 9, .ins 2 1, .inv 3]))))]
      = false := by
  decide +kernel

end Props
end MiniMoka

#print axioms MiniMoka.Props.C12_unsync_timestamps_sorted
#print axioms MiniMoka.Props.C12_unsync_purge_exact
#print axioms MiniMoka.Props.C12_unsync_growth_expiry
