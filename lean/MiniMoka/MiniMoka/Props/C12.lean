/-
  C12 — LRU victims on the single-threaded cache: whenever residents leave for size (to
  make room for an admitted candidate, or to work off an excess over the capacity) they are
  a prefix of the recency order, the shortest one that is heavy enough; and the recency
  order is maintained by hits, updates and admissions as the property says.
  Property theorems only; lemmas live in `Lemmas/UnsyncAdmit.lean`.
-/
import MiniMoka.Lemmas.UnsyncAdmit
import MiniMoka.Lemmas.UnsyncRecency
import MiniMoka.Lemmas.SketchLaws

namespace MiniMoka
namespace Props

open Unsync Unsync.Admit

/-- **C12, victims of an admission.** For a new key `k` that finds no room and is not
oversized (`s1 := maintain p s` is the state after the operation's own maintenance,
`s1.prob` its recency order, front = least recently used): there is a length `n` such that
the residents evicted by `insert p s k v` (resident in `s1`, absent afterwards) are exactly
the keys of the first `n` nodes of `s1.prob`; if the candidate was admitted, `n` is the
length of the *shortest* prefix whose weights reach the candidate's weight; if it was
rejected, `n = 0` (nothing was evicted). -/
theorem C12_unsync_admission_victims {p : Params} (hq : NoQuirks p) {s : UState}
    (hi : Inv Sketch.Good p s) (k v : Nat)
    (hnew : AL.get? (maintain p s).map k = none)
    (hroom : hasEnoughCapacity p (p.weigh k v) (maintain p s).ws = false)
    (hbig : tooBig p (p.weigh k v) = false) :
    ∃ n, n ≤ (maintain p s).prob.length ∧
      (∀ k', ((∃ e, AL.get? (maintain p s).map k' = some e) ∧
                AL.get? (insert p s k v).map k' = none) ↔
              k' ∈ ((maintain p s).prob.take n).map (·.key)) ∧
      ((∃ e, AL.get? (insert p s k v).map k = some e) →
        p.weigh k v ≤ ((probWeights (maintain p s)).take n).sum ∧
        ∀ m, m < n → ((probWeights (maintain p s)).take m).sum < p.weigh k v) ∧
      (AL.get? (insert p s k v).map k = none → n = 0) := by
  obtain ⟨hadm, hrej⟩ := insert_noroom hq hi.inv k v hnew hroom hbig
  obtain ⟨h1, _, _⟩ := maintain_spec hq hi.inv
  by_cases hdec : ∃ n, shortestPre (p.weigh k v) (probWeights (maintain p s)) = some n ∧
      (maintain p s).sk.frequency (p.hash k) > ((probFreqs (maintain p s)).take n).sum
  · obtain ⟨n, hn1, hn2⟩ := hdec
    obtain ⟨⟨e, he, _, _⟩, hmap, _⟩ := hadm n hn1 hn2
    obtain ⟨s1, s2, s3⟩ := (shortestPre_eq_some_iff _ _ _).mp hn1
    refine ⟨n, by simpa [probWeights] using s1, ?_, fun _ => ⟨s2, s3⟩,
      fun h => by rw [he] at h; cases h⟩
    intro k'
    constructor
    · rintro ⟨⟨e', he'⟩, hgone⟩
      have hne : k' ≠ k := by rintro rfl; rw [hnew] at he'; cases he'
      rw [hmap k' hne] at hgone
      by_cases hin : k' ∈ ((maintain p s).prob.take n).map (·.key)
      · exact hin
      · rw [if_neg hin, he'] at hgone; cases hgone
    · intro hin
      have hres : ∃ e', AL.get? (maintain p s).map k' = some e' :=
        (mem_prob_keys_iff h1.struct k').mp
          (List.mem_map.mpr (by
            obtain ⟨nd, hnd, rfl⟩ := List.mem_map.mp hin
            exact ⟨nd, List.mem_of_mem_take hnd, rfl⟩))
      have hne : k' ≠ k := by
        rintro rfl
        obtain ⟨e', he'⟩ := hres
        rw [hnew] at he'; cases he'
      exact ⟨hres, by rw [hmap k' hne, if_pos hin]⟩
  · have heq := hrej hdec
    refine ⟨0, Nat.zero_le _, ?_, ?_, fun _ => rfl⟩
    · intro k'
      rw [heq]
      constructor
      · rintro ⟨⟨e', he'⟩, hgone⟩
        rw [he'] at hgone; cases hgone
      · intro hin; simp at hin
    · rintro ⟨e, he⟩
      rw [heq, hnew] at he; cases he

/-- Meaning of `prefLen need ws`: the length of the shortest prefix of `ws` whose sum reaches
`need`, or the length of the whole list when even that does not suffice. -/
theorem C12_prefLen_meaning (need : Nat) (ws : List Nat) :
    (need ≤ ws.sum →
      prefLen need ws ≤ ws.length ∧ need ≤ (ws.take (prefLen need ws)).sum ∧
      ∀ m, m < prefLen need ws → (ws.take m).sum < need) ∧
    (ws.sum < need → prefLen need ws = ws.length) := by
  unfold prefLen
  constructor
  · intro h
    cases hs : shortestPre need ws with
    | none => exact absurd ((shortestPre_eq_none_iff ws need).mp hs) (by omega)
    | some n => exact (shortestPre_eq_some_iff ws need n).mp hs
  · intro h
    rw [(shortestPre_eq_none_iff ws need).mpr h]; rfl

/-- **C12, growth eviction.** `evict_lru_entries` on a reachable state of a cache with
`max_capacity = cap`: with `excess := weighted_size - cap`, the call removes exactly the
residents of the first `m` nodes of the recency order, `m` = the length of the shortest
prefix whose weights reach `excess` (the whole list if none does), capped by the batch size;
every other key holds exactly the entry it held before, and the recency order of the
survivors is unchanged. -/
theorem C12_unsync_growth_eviction {p : Params} {s : UState} (hi : Inv Sketch.Good p s)
    (cap : Nat) (hcap : p.cap = some cap) :
    (∀ k', AL.get? (evictLru p s).map k' =
      if k' ∈ (s.prob.take (min (prefLen (s.ws - cap) (probWeights s)) EVICTION_BATCH_SIZE)).map
          (·.key)
      then none else AL.get? s.map k') ∧
    (∀ k' ∈ (s.prob.take (min (prefLen (s.ws - cap) (probWeights s)) EVICTION_BATCH_SIZE)).map
        (·.key), ∃ e, AL.get? s.map k' = some e) ∧
    (evictLru p s).prob =
      s.prob.drop (min (prefLen (s.ws - cap) (probWeights s)) EVICTION_BATCH_SIZE) := by
  obtain ⟨h1, h2⟩ := evictLru_exact hi.inv
  have hcut : lruCut p s = min (prefLen (s.ws - cap) (probWeights s)) EVICTION_BATCH_SIZE := by
    simp [lruCut, weightsToEvict, hcap]
  rw [hcut] at h1 h2
  refine ⟨?_, ?_, h1⟩
  · intro k'
    rw [h2, get?_eraseKeys hi.inv.struct.keysNodup]
  · intro k' hk'
    apply (mem_prob_keys_iff hi.inv.struct k').mp
    obtain ⟨nd, hnd, rfl⟩ := List.mem_map.mp hk'
    exact List.mem_map.mpr ⟨nd, List.mem_of_mem_take hnd, rfl⟩

/-- Without an excess (or without `max_capacity`) `evict_lru_entries` removes nothing. -/
theorem C12_unsync_no_growth_eviction {p : Params} {s : UState} (hi : Inv Sketch.Good p s)
    (hfit : ∀ cap, p.cap = some cap → s.ws ≤ cap) :
    (evictLru p s).map = s.map ∧ (evictLru p s).prob = s.prob := by
  obtain ⟨h1, h2⟩ := evictLru_exact hi.inv
  have hcut : lruCut p s = 0 := by
    unfold lruCut weightsToEvict
    cases hc : p.cap with
    | none => simp
    | some cap =>
      have := hfit cap hc
      have h0 : s.ws - cap = 0 := by omega
      simp [h0]
  rw [hcut] at h1 h2
  exact ⟨by simpa [eraseKeys] using h2, by simpa using h1⟩

/-- Without expiry the maintenance at the start of `get`, `contains_key`, `insert` and
`invalidate` is exactly this growth eviction. -/
theorem C12_unsync_maintain_is_growth_eviction {p : Params} (s : UState)
    (hx : p.hasExpiry = false) : maintain p s = evictLru p s := by
  simp [maintain, evictExpiredIfNeeded, hx]

/-- Under the structural invariant the nodes of the recency order carry distinct keys, and
these are exactly the resident keys. -/
theorem C12_recency_keys {p : Params} {s : UState} (hi : Inv Sketch.Good p s) :
    (s.prob.map (·.key)).Nodup ∧
    ∀ k, k ∈ s.prob.map (·.key) ↔ ∃ e, AL.get? s.map k = some e :=
  ⟨prob_keys_nodup hi.inv.struct, mem_prob_keys_iff hi.inv.struct⟩

/-- **C12, the recency order.** With `s1 := maintain p s` the state after the operation's own
maintenance and the recency order read as the list of keys of `s1.prob` (front = least
recently used):
* a successful `get k` moves `k` to the back and keeps the relative order of the others;
* an `insert` that updates a resident key does the same;
* an `insert` of a new key that ends up resident puts it at the back, behind the survivors
  (a suffix of the old order: the victims were a prefix). -/
theorem C12_recency_order {p : Params} (hq : NoQuirks p) {s : UState}
    (hi : Inv Sketch.Good p s) (k : Nat) :
    (∀ v, (get p s k).2 = some v →
      (get p s k).1.prob.map (·.key) = ((maintain p s).prob.map (·.key)).erase k ++ [k]) ∧
    (∀ v old, AL.get? (maintain p s).map k = some old →
      (insert p s k v).prob.map (·.key) = ((maintain p s).prob.map (·.key)).erase k ++ [k]) ∧
    (∀ v, AL.get? (maintain p s).map k = none →
      (∃ e, AL.get? (insert p s k v).map k = some e) →
      ∃ n, (insert p s k v).prob.map (·.key) = ((maintain p s).prob.map (·.key)).drop n ++ [k] ∧
        ∀ k', ((∃ e, AL.get? (maintain p s).map k' = some e) ∧
                AL.get? (insert p s k v).map k' = none) ↔
              k' ∈ ((maintain p s).prob.map (·.key)).take n) := by
  obtain ⟨h1, _, _⟩ := maintain_spec hq hi.inv
  refine ⟨fun v hhit => get_hit_prob hq hi.inv k v hhit,
    fun v old hold => insert_update_prob hq hi.inv k v hold, ?_⟩
  intro v hnew ⟨e, he⟩
  cases hroom : hasEnoughCapacity p (p.weigh k v) (maintain p s).ws with
  | true =>
    obtain ⟨_, hmap, hprob⟩ := insert_hasroom hq hi.inv k v hnew hroom
    refine ⟨0, by rw [hprob]; simp [candNode], ?_⟩
    intro k'
    constructor
    · rintro ⟨⟨e', he'⟩, hgone⟩
      have hne : k' ≠ k := by rintro rfl; rw [hnew] at he'; cases he'
      rw [hmap k' hne, he'] at hgone; cases hgone
    · intro hin; simp at hin
  | false =>
    cases hbig : tooBig p (p.weigh k v) with
    | true =>
      rw [insert_toobig hnew hroom hbig, hnew] at he; cases he
    | false =>
      obtain ⟨hadm, hrej⟩ := insert_noroom hq hi.inv k v hnew hroom hbig
      by_cases hdec : ∃ n, shortestPre (p.weigh k v) (probWeights (maintain p s)) = some n ∧
          (maintain p s).sk.frequency (p.hash k) > ((probFreqs (maintain p s)).take n).sum
      · obtain ⟨n, hn1, hn2⟩ := hdec
        obtain ⟨_, hmap, hprob⟩ := hadm n hn1 hn2
        refine ⟨n, by rw [hprob]; simp [candNode], ?_⟩
        intro k'
        rw [← List.map_take]
        constructor
        · rintro ⟨⟨e', he'⟩, hgone⟩
          have hne : k' ≠ k := by rintro rfl; rw [hnew] at he'; cases he'
          rw [hmap k' hne] at hgone
          by_cases hin : k' ∈ ((maintain p s).prob.take n).map (·.key)
          · exact hin
          · rw [if_neg hin, he'] at hgone; cases hgone
        · intro hin
          have hres : ∃ e', AL.get? (maintain p s).map k' = some e' :=
            (mem_prob_keys_iff h1.struct k').mp
              (List.mem_map.mpr (by
                obtain ⟨nd, hnd, rfl⟩ := List.mem_map.mp hin
                exact ⟨nd, List.mem_of_mem_take hnd, rfl⟩))
          have hne : k' ≠ k := by
            rintro rfl
            obtain ⟨e', he'⟩ := hres
            rw [hnew] at he'; cases he'
          exact ⟨hres, by rw [hmap k' hne, if_pos hin]⟩
      · rw [hrej hdec, hnew] at he; cases he

/-- **C12, "recency is order of use", on traces.** For every configuration of the current code
(any capacity incl. none, any weigher, hasher, ttl/tti) and every history — with any number of
operations between two snapshots — the recency walk accepts the model's trace: at every
snapshot (all model snapshots are quiescent) the recency order is the one of the previous
snapshot restricted to the keys still resident and not used since, followed by the keys used
since (every `insert`, every `get` that returned a value) that are still resident, in order
of last use. -/
theorem C12_unsync_recency (p : Params) (hq : NoQuirks p) (hsm : SmallSketch p) (h : List Op) :
    Spec.recencyC12 .unsync (Unsync.trace p h) = true :=
  recencyC12_trace sketchLaws hq hsm h

/-- The segment invariant behind `C12_unsync_recency`, on states: if the recency order of `s`
is `expOrd L0 · M` (survivors of `L0` not in `M`, then the resident keys of `M`), it stays so
over maintenance and every operation that is not a use, and an `insert k` / a `get k` that
returns a value replaces `M` by `M` with `k` moved to its end. -/
theorem C12_recency_segment {p : Params} (hq : NoQuirks p) {s : UState}
    (hi : Inv Sketch.Good p s) (L0 M : List Nat) (hr : Rec L0 M s) (k v : Nat) :
    Rec L0 M (maintain p s) ∧ Rec L0 M (invalidate p s k) ∧
    Rec L0 (useKey M k) (insert p s k v) ∧
    (∀ v', (get p s k).2 = some v' → Rec L0 (useKey M k) (get p s k).1) ∧
    ((get p s k).2 = none → Rec L0 M (get p s k).1) :=
  ⟨hr.maintain hi.inv.struct, hr.of_sublist hi.inv.struct (invalidate_prob_sublist p s k),
    hr.insert hq hi.inv k v, (hr.get hq hi.inv k).1, (hr.get hq hi.inv k).2⟩

/-- **C12 on traces.** For every configuration of the current code and every history, the C12
oracle (batch = the code's `EVICTION_BATCH_SIZE`) accepts the model's trace: the recency walk
(`C12_unsync_recency`; with no `max_capacity` this is the whole oracle), and with a capacity
also the admission windows of C13 and every window `snap, get/contains_key, snap` taken over
capacity with nothing expired and at most one batch of residents, which loses exactly the
shortest prefix of the recency order that covers the excess (everything, if even that does
not suffice). -/
theorem C12_unsync_oracle (p : Params) (hq : NoQuirks p) (hsm : SmallSketch p) (h : List Op) :
    Spec.oracleC12 .unsync p.cap p.ttl p.tti p.weigh Gen.UNSYNC_EVICTION_BATCH_SIZE
      (Unsync.trace p h) = true :=
  oracleC12_trace sketchLaws hq hsm h

/-! ### non-vacuity -/

open Unsync.Admit.Ex

/-- Victims of an admission on a weighted cache (capacity 3, weight = value; residents 1 of
weight 2 (LRU) and 2 of weight 1; key 5 looked up three times, residents never): the
candidate of weight 3 needs the prefix of length 2, and both residents leave; the candidate of
weight 2 needs only the LRU resident. -/
example :
    AL.get? (maintain cfgW fullW).map 5 = none ∧
    hasEnoughCapacity cfgW (cfgW.weigh 5 3) (maintain cfgW fullW).ws = false ∧
    tooBig cfgW (cfgW.weigh 5 3) = false ∧
    (maintain cfgW fullW).prob.map (·.key) = [1, 2] ∧
    probWeights (maintain cfgW fullW) = [2, 1] ∧
    AL.keys (insert cfgW fullW 5 3).map = [5] ∧
    (insert cfgW fullW 5 3).prob.map (·.key) = [5] ∧
    AL.keys (insert cfgW fullW 5 2).map = [2, 5] ∧
    (insert cfgW fullW 5 2).prob.map (·.key) = [2, 5] := by
  decide +kernel

/-- `C12_unsync_admission_victims` applied to that state (hypotheses discharged). -/
example : ∃ n, n ≤ (maintain cfgW fullW).prob.length ∧
    (∀ k', ((∃ e, AL.get? (maintain cfgW fullW).map k' = some e) ∧
              AL.get? (insert cfgW fullW 5 3).map k' = none) ↔
            k' ∈ ((maintain cfgW fullW).prob.take n).map (·.key)) ∧
    ((∃ e, AL.get? (insert cfgW fullW 5 3).map 5 = some e) →
      cfgW.weigh 5 3 ≤ ((probWeights (maintain cfgW fullW)).take n).sum ∧
      ∀ m, m < n → ((probWeights (maintain cfgW fullW)).take m).sum < cfgW.weigh 5 3) ∧
    (AL.get? (insert cfgW fullW 5 3).map 5 = none → n = 0) :=
  C12_unsync_admission_victims (p := cfgW) nq_cfgW (reachable_inv sketchLaws nq_cfgW small_cfgW _)
    5 3 (by decide +kernel) (by decide +kernel) (by decide +kernel)

/-- Growth eviction: after an update made resident 1 heavier the weighted size is 5 against a
capacity of 3; the recency order is 2, 3, 1 with weights 1, 1, 3; the shortest prefix covering
the excess 2 has length 2: residents 2 and 3 leave, 1 stays. -/
example :
    overW.ws = 5 ∧ overW.prob.map (·.key) = [2, 3, 1] ∧ probWeights overW = [1, 1, 3] ∧
    min (prefLen (overW.ws - 3) (probWeights overW)) EVICTION_BATCH_SIZE = 2 ∧
    AL.keys (evictLru cfgW overW).map = [1] ∧ (evictLru cfgW overW).prob.map (·.key) = [1] ∧
    (get cfgW overW 1).2 = some 3 ∧ AL.keys (get cfgW overW 1).1.map = [1] := by
  decide +kernel

/-- `C12_unsync_growth_eviction` applied to that state. -/
example : (evictLru cfgW overW).prob =
    overW.prob.drop (min (prefLen (overW.ws - 3) (probWeights overW)) EVICTION_BATCH_SIZE) :=
  (C12_unsync_growth_eviction (p := cfgW) (reachable_inv sketchLaws nq_cfgW small_cfgW _) 3 rfl).2.2

/-- Recency order: a hit on the LRU resident 1 of `full2` moves it behind 2; an update of 1
does the same; an admitted insert puts the new key last. -/
example :
    (maintain cfg2 full2).prob.map (·.key) = [1, 2] ∧
    (get cfg2 full2 1).2 = some 10 ∧ (get cfg2 full2 1).1.prob.map (·.key) = [2, 1] ∧
    (insert cfg2 full2 1 11).prob.map (·.key) = [2, 1] ∧
    (insert cfg2 full2 3 30).prob.map (·.key) = [2, 3] := by
  decide +kernel

/-- The trace oracle of C12 accepts the model's trace of a history with an admission (victim:
the LRU resident), a rejection, and a growth eviction after a weight-increasing update. -/
example : Spec.oracleC12 .unsync (some 3) none none (fun _ v => v) EVICTION_BATCH_SIZE
    (Unsync.trace cfgW
      [.ins 1 2, .ins 2 1, .get 5, .get 5, .get 5, .snap, .freq 5, .ins 5 2, .snap, .freq 6,
       .ins 6 1, .snap, .ins 2 3, .snap, .get 9, .snap]) = true := by
  decide +kernel

/-- The oracle is not vacuous: it rejects a trace whose growth eviction spares the LRU
resident and takes a more recently used one. -/
example : Spec.oracleC12 .unsync (some 3) none none (fun _ v => v) EVICTION_BATCH_SIZE
    [(.snap, .snap (snapshot cfgW overW)), (.get 9, .val none),
     (.snap, .snap (snapshot cfgW (runState cfgW {} [.ins 2 1])))] = false := by
  decide +kernel

/-- Recency walk, several uses between two snapshots: hits, an update, a rejected insert (key 7,
never looked up), an admitted insert (key 5) that evicts the then-LRU resident, an
invalidation, a miss and a last hit on key 1 — the model's trace is accepted; the second
snapshot shows the order `[5, 1]`: no survivor of `[1, 2, 3]` is unused, then the used keys
still resident in order of last use (uses: 2, 1, 3, 7, 5, 1). -/
example :
    Spec.recencyC12 .unsync (Unsync.trace { cap := some 3 }
      [.ins 1 1, .ins 2 2, .ins 3 3, .get 5, .get 5, .snap,
       .get 2, .ins 1 11, .get 3, .ins 7 7, .ins 5 5, .inv 3, .get 9, .get 1, .snap,
       .get 5, .snap]) = true ∧
    (runState { cap := some 3 } {}
      [.ins 1 1, .ins 2 2, .ins 3 3, .get 5, .get 5, .snap,
       .get 2, .ins 1 11, .get 3, .ins 7 7, .ins 5 5, .inv 3, .get 9, .get 1]).prob.map (·.key)
      = [5, 1] := by
  decide +kernel

/-- The recency walk is not vacuous: a hand-made trace in which a hit on key 1 is followed by a
snapshot that still shows 1 as the least recently used resident is rejected. -/
example : Spec.recencyC12 .unsync
    [(.snap, .snap (snapshot cfg2 full2)), (.get 1, .val (some 10)),
     (.snap, .snap (snapshot cfg2 full2))] = false := by
  decide +kernel

/-- ... while the model's own trace of the same operations is accepted. -/
example : Spec.recencyC12 .unsync (Unsync.run cfg2 full2 [.snap, .get 1, .snap]) = true := by
  decide +kernel

end Props
end MiniMoka
