/-
  C13 / C12 on the concurrent cache driven by one thread (`sync::Cache`, model `Sync`):
  TinyLFU admission.  In a quiescent calm cache a new key that finds no room is admitted by the
  next maintenance run exactly when its popularity estimate exceeds the summed estimates of the
  shortest prefix of the access order whose weight covers the candidate's; that prefix is what
  leaves; otherwise the candidate is dropped and no resident is touched.
  Property theorems only; lemmas live in `Lemmas/SyncAdmit.lean`.
-/
import MiniMoka.Lemmas.SyncAdmit

namespace MiniMoka
namespace Props

open Sync Sync.Admit Sync.Nodes
open Unsync.Admit (shortestPre shortestPre_eq_some_iff shortestPre_eq_none_iff)

/-- Every state the one thread can reach satisfies the invariant the theorems below assume
(`AInv`: node ownership, queue bounds, a node stores the hash of its key, no time stamp lies in
the future; no fault). -/
theorem C13_sync_reachable (p : Params) (hq : Sync.NoQuirks p) (hsm : SmallSketch p) (h : List Op) :
    AInv p (Sync.stateAfter p {} h) := by
  have : ∀ (h : List Op) (s : SState), AInv p s → AInv p (Sync.stateAfter p s h) := by
    intro h
    induction h with
    | nil => intro s hs; exact hs
    | cons op rest ih => intro s hs; exact ih _ (step_ainv hq hsm hs op)
  exact this h {} (init_ainv p)

/-- **C13 on the concurrent cache, the admission decision** (state level).  For every
configuration of the current code (`NoQuirks`; any weigher, hasher, ttl/tti) with capacity
`cap`, every reachable (`AInv`) quiescent calm state `s` (`CalmS`: both queues empty,
`weighted_size ≤ cap`, every node of the access-order list owned by the map's entry of its key,
no resident past an expiry deadline) and every key `k` that is not resident, of weight
`w := p.weigh k v ≤ cap` that does not fit (`s.ws + w > cap`): let
`s' := syncRun p (insert p s k v)` be the state after `insert(k, v)` and the next maintenance
run (the insert may itself run housekeeping before it queues its write — both regimes of
`shouldApply` are covered), and `cf := s.sk.frequency (p.hash k)` the estimate read in `s`.

* If the shortest prefix of the access order `s.prob` whose weights reach `w` has length `n`
  and `cf` is strictly greater than the summed estimates of these `n` residents, then in `s'`
  the key is resident with value `v`, exactly the `n` residents of that prefix have left, every
  other key holds the entry it held, and the access order is the remaining nodes followed by `k`.
* Otherwise (no prefix is heavy enough, or `cf` does not exceed the sum) the map and the access
  order of `s'` are those of `s`: the candidate was dropped, no resident was touched. -/
theorem C13_sync_admission {p : Params} (hq : Sync.NoQuirks p) (hsm : SmallSketch p) {cap : Nat}
    (hcap : p.cap = some cap) {s : SState} (hi : AInv p s) (hc : CalmS p cap s) (k v : Nat)
    (hnew : AL.get? s.map k = none) (hfit : p.weigh k v ≤ cap)
    (hroom : s.ws + p.weigh k v > cap) :
    (∀ n, shortestPre (p.weigh k v) (probWeights s) = some n →
      s.sk.frequency (p.hash k) > ((probFreqs s).take n).sum →
      (∃ e, AL.get? (syncRun p (insert p s k v)).map k = some e ∧ e.val = v) ∧
      (∀ k' ∈ (s.prob.take n).map (·.key),
        (∃ e', AL.get? s.map k' = some e') ∧ AL.get? (syncRun p (insert p s k v)).map k' = none) ∧
      (∀ k', k' ≠ k → k' ∉ (s.prob.take n).map (·.key) →
        AL.get? (syncRun p (insert p s k v)).map k' = AL.get? s.map k') ∧
      (syncRun p (insert p s k v)).prob.map (·.key) = (s.prob.drop n).map (·.key) ++ [k]) ∧
    ((¬ ∃ n, shortestPre (p.weigh k v) (probWeights s) = some n ∧
        s.sk.frequency (p.hash k) > ((probFreqs s).take n).sum) →
      (∀ k', AL.get? (syncRun p (insert p s k v)).map k' = AL.get? s.map k') ∧
      (syncRun p (insert p s k v)).prob = s.prob) := by
  have hkn := hi.top.map.kn
  have hkn2 : (AL.keys (AL.put s.map k (candVE s v))).Nodup := AL.nodup_put _ _ hkn
  obtain ⟨hadm, hrej⟩ := insert_sync_calm hq hsm hcap hi hc k v hnew hfit hroom
  refine ⟨?_, ?_⟩
  · intro n hn1 hn2
    obtain ⟨hmap, node, hnk, hprob⟩ := hadm n hn1 hn2
    have hkv : k ∉ (s.prob.take n).map (·.key) := by
      intro hin
      obtain ⟨m, hm, hmk⟩ := List.mem_map.mp hin
      obtain ⟨e, he, _⟩ := hc.cur m (List.mem_of_mem_take hm)
      rw [hmk, hnew] at he; cases he
    refine ⟨⟨candVE s v, ?_, rfl⟩, ?_, ?_, ?_⟩
    · rw [hmap, get?_eraseKeys hkn2, if_neg hkv, AL.get?_put_self]
    · intro k' hk'
      refine ⟨?_, by rw [hmap, get?_eraseKeys hkn2, if_pos hk']⟩
      obtain ⟨m, hm, hmk⟩ := List.mem_map.mp hk'
      obtain ⟨e, he, _⟩ := hc.cur m (List.mem_of_mem_take hm)
      exact ⟨e, by rw [← hmk]; exact he⟩
    · intro k' hne hk'
      rw [hmap, get?_eraseKeys hkn2, if_neg hk', AL.get?_put_ne _ (Ne.symm hne)]
    · rw [hprob, List.map_append, List.map_cons, List.map_nil, hnk]
  · intro hno
    obtain ⟨hmap, hprob⟩ := hrej hno
    refine ⟨?_, hprob⟩
    intro k'
    rw [hmap, AL.get?_erase k k' hkn2]
    by_cases hx : k = k'
    · subst hx; rw [if_pos rfl, hnew]
    · rw [if_neg hx, AL.get?_put_ne _ hx]

/-- **A candidate that fits is admitted outright.**  In a quiescent calm state, a new key whose
weight fits in the room the residents leave (and that does not expire the moment it is inserted:
neither `ttl` nor `tti` is zero) is resident after `insert` and the next maintenance run, at
the most recently used end of the access order; the popularity estimates are not consulted
and every other key holds the entry it held. -/
theorem C13_sync_has_room {p : Params} (hq : Sync.NoQuirks p) (hsm : SmallSketch p) {cap : Nat}
    (hcap : p.cap = some cap) {s : SState} (hi : AInv p s) (hc : CalmS p cap s) (k v : Nat)
    (hnew : AL.get? s.map k = none) (hroom : s.ws + p.weigh k v ≤ cap)
    (httl : p.ttl ≠ some 0) (htti : p.tti ≠ some 0) :
    (∃ e, AL.get? (syncRun p (insert p s k v)).map k = some e ∧ e.val = v) ∧
    (∀ k', k' ≠ k → AL.get? (syncRun p (insert p s k v)).map k' = AL.get? s.map k') ∧
    (syncRun p (insert p s k v)).prob.map (·.key) = s.prob.map (·.key) ++ [k] := by
  obtain ⟨hmap, node, hnk, hprob⟩ := insert_sync_fits hq hsm hcap hi hc k v hnew hroom httl htti
  refine ⟨⟨candVE s v, by rw [hmap, AL.get?_put_self], rfl⟩, ?_, ?_⟩
  · intro k' hne
    rw [hmap, AL.get?_put_ne _ (Ne.symm hne)]
  · rw [hprob, List.map_append, List.map_cons, List.map_nil, hnk]

/-- **Scan resistance** on the concurrent cache: in a quiescent calm cache a new key whose
estimate is zero and that finds no room never displaces a resident, whatever the residents'
estimates and weights. -/
theorem C13_sync_scan_resistance {p : Params} (hq : Sync.NoQuirks p) (hsm : SmallSketch p)
    {cap : Nat} (hcap : p.cap = some cap) {s : SState} (hi : AInv p s) (hc : CalmS p cap s)
    (k v : Nat) (hnew : AL.get? s.map k = none) (hfit : p.weigh k v ≤ cap)
    (hroom : s.ws + p.weigh k v > cap) (hcold : s.sk.frequency (p.hash k) = 0) :
    (∀ k', AL.get? (syncRun p (insert p s k v)).map k' = AL.get? s.map k') ∧
    (syncRun p (insert p s k v)).prob = s.prob := by
  refine (C13_sync_admission hq hsm hcap hi hc k v hnew hfit hroom).2 ?_
  rintro ⟨n, _, h2⟩
  rw [hcold] at h2
  exact absurd h2 (Nat.not_lt_zero _)

/-- **C13 on traces, concurrent cache.**  For every configuration of the current code (any
capacity incl. none, any weigher, hasher, ttl/tti; `SmallSketch` is the documented sketch-size
limit) and every history of one thread, the C13 oracle accepts the model's trace: in every
window `sync, snap, freq k, ins k v, [snap,] sync, snap` whose outer snapshots show empty
queues, in which `k` is new, the first snapshot is calm, the candidate is not oversized and
finds no room, the keys resident afterwards are those predicted from the first snapshot and
the popularity reading by the closed formula (`predictAdmission`). -/
theorem C13_sync_oracle (p : Params) (hq : Sync.NoQuirks p) (hsm : SmallSketch p) (h : List Op) :
    Spec.oracleC13 .sync p.cap p.ttl p.tti p.weigh (Sync.trace p h) = true :=
  oracleC13_trace hq hsm h

/-! ### non-vacuity -/

namespace C13SyncEx

/-- Capacity 4, the weight of an entry is `value % 5`. -/
def cfg : Params := { cap := some 4, hasWeigher := true, w := fun _ v => v % 5 }

theorem nq_cfg : Sync.NoQuirks cfg := by unfold Sync.NoQuirks; rfl

theorem small_cfg : SmallSketch cfg :=
  ⟨fun c h => by cases h; decide, fun _ _ _ => by show Sketch.sketchCapacity 0 ≤ 2 ^ 27; decide⟩

/-- Residents 1 (weight 1, LRU), 2 (weight 2), 3 (weight 1) fill the cache; key 7 is looked up
three times (estimate 3), key 8 never. -/
def fill : List Op :=
  [.ins 1 1, .sync, .ins 2 2, .sync, .ins 3 1, .sync, .get 7, .get 7, .get 7, .sync]

/-- Then: key 7 of weight 3 is inserted (admitted, victims 1 and 2), then key 8 of weight 2
(rejected: estimate 0). -/
def hist : List Op :=
  fill ++ [.snap, .freq 7, .ins 7 3, .sync, .snap, .freq 8, .ins 8 2, .snap, .sync, .snap]

/-- The state after `fill`. -/
def full : SState := Sync.stateAfter cfg {} fill

end C13SyncEx

open C13SyncEx

/-- The state after `fill` is quiescent and calm, the cache is full, key 7 has estimate 3 and
the residents estimate 0: the shortest prefix covering weight 3 is `[1, 2]`. -/
example :
    full.readQ.length = 0 ∧ full.writeQ.length = 0 ∧ full.ws = 4 ∧
    full.prob.map (·.key) = [1, 2, 3] ∧ probWeights full = [1, 2, 1] ∧
    probFreqs full = [0, 0, 0] ∧ full.sk.frequency (cfg.hash 7) = 3 ∧
    shortestPre (cfg.weigh 7 3) (probWeights full) = some 2 ∧
    Spec.calm 4 cfg.ttl cfg.tti (Sync.snapshot cfg full) = true := by
  decide +kernel

/-- `C13_sync_admission` applied to that state (all hypotheses discharged, including
reachability and calmness): key 7 is admitted, exactly the residents 1 and 2 leave. -/
example :
    (∃ e, AL.get? (syncRun cfg (Sync.insert cfg full 7 3)).map 7 = some e ∧ e.val = 3) ∧
    (∀ k' ∈ (full.prob.take 2).map (·.key),
      (∃ e', AL.get? full.map k' = some e') ∧
        AL.get? (syncRun cfg (Sync.insert cfg full 7 3)).map k' = none) ∧
    (∀ k', k' ≠ 7 → k' ∉ (full.prob.take 2).map (·.key) →
      AL.get? (syncRun cfg (Sync.insert cfg full 7 3)).map k' = AL.get? full.map k') ∧
    (syncRun cfg (Sync.insert cfg full 7 3)).prob.map (·.key) =
      (full.prob.drop 2).map (·.key) ++ [7] :=
  (C13_sync_admission nq_cfg small_cfg (cap := 4) rfl (C13_sync_reachable cfg nq_cfg small_cfg fill)
    (calmS_of_snapshot (by decide +kernel) (by decide +kernel) (by decide +kernel)) 7 3
    (by decide +kernel) (by decide +kernel) (by decide +kernel)).1 2 (by decide +kernel)
    (by decide +kernel)

/-- … and evaluated: residents 3 and 7, access order `[3, 7]`. -/
example :
    AL.keys (syncRun cfg (Sync.insert cfg full 7 3)).map = [3, 7] ∧
    (syncRun cfg (Sync.insert cfg full 7 3)).prob.map (·.key) = [3, 7] ∧
    (syncRun cfg (Sync.insert cfg full 7 3)).ws = 4 := by
  decide +kernel

/-- A rejection on the same state: key 8 was never looked up (`C13_sync_scan_resistance`). -/
example :
    (∀ k', AL.get? (syncRun cfg (Sync.insert cfg full 8 2)).map k' = AL.get? full.map k') ∧
    (syncRun cfg (Sync.insert cfg full 8 2)).prob = full.prob :=
  C13_sync_scan_resistance nq_cfg small_cfg (cap := 4) rfl
    (C13_sync_reachable cfg nq_cfg small_cfg fill)
    (calmS_of_snapshot (by decide +kernel) (by decide +kernel) (by decide +kernel)) 8 2
    (by decide +kernel) (by decide +kernel) (by decide +kernel) (by decide +kernel)

/-- The trace oracle accepts the model's trace of a history with an admission with two victims
(window `sync, snap, freq 7, ins 7 3, sync, snap`) and a rejection (window with the extra
snapshot); the resident keys in the three quiescent snapshots are as expected. -/
example :
    Spec.oracleC13 .sync (some 4) none none cfg.weigh (Sync.trace cfg hist) = true ∧
    (Sync.trace cfg hist).filterMap (fun x => match x.2 with
      | .snap sn => if sn.wq == 0 then some (Spec.keysOf sn) else none
      | _ => none) = [[1, 2, 3], [3, 7], [3, 7]] := by
  decide +kernel

/-- The oracle is not vacuous: it rejects a hand-made trace in which the popular key 7
displaces the wrong residents (2 and 3 instead of the LRU prefix 1, 2) … -/
example : Spec.oracleC13 .sync (some 4) none none cfg.weigh
    [(.sync, .ok), (.snap, .snap (Sync.snapshot cfg full)),
     (.freq 7, .freq 3), (.ins 7 3, .ok), (.sync, .ok),
     (.snap, .snap (Sync.snapshot cfg (Sync.stateAfter cfg {} [.ins 1 1, .sync, .ins 7 3, .sync])))]
    = false := by
  decide +kernel

/-- … and one in which the cold key 8 (estimate 0) displaces the LRU resident. -/
example : Spec.oracleC13 .sync (some 4) none none cfg.weigh
    [(.sync, .ok), (.snap, .snap (Sync.snapshot cfg full)),
     (.freq 8, .freq 0), (.ins 8 1, .ok), (.sync, .ok),
     (.snap, .snap (Sync.snapshot cfg (Sync.stateAfter cfg {}
        [.ins 2 2, .sync, .ins 3 1, .sync, .ins 8 1, .sync])))]
    = false := by
  decide +kernel

/-! ## C12 on the concurrent cache: victims are the LRU prefix, recency is order of use -/

/-- Every state the one thread can reach satisfies the invariant of the recency theorems
(`RInv`: `AInv`, an info belongs to one key, a dirty entry has its insert queued). -/
theorem C12_sync_reachable (p : Params) (hq : Sync.NoQuirks p) (hsm : SmallSketch p) (h : List Op) :
    RInv p (Sync.stateAfter p {} h) := by
  have : ∀ (h : List Op) (s : SState), RInv p s → RInv p (Sync.stateAfter p s h) := by
    intro h
    induction h with
    | nil => intro s hs; exact hs
    | cons op rest ih =>
      intro s hs
      have h1 := rawStep_rinv hq hsm hs op
      have e : (Sync.step p s op).1 = (rawStep p s op).1 := step_fst p s op hs.ainv.top.nofault
      show RInv p (Sync.stateAfter p (Sync.step p s op).1 rest)
      rw [e]
      exact ih _ h1
  exact this h {} (init_rinv p)

/-- **C12, recency is order of use, state level.**  `N` is the access order at the last
quiescent point, `mv` the at most one key used since (`insert`, or a `get` that returned a
value), `SI`/`Pend` the segment invariant that every operation of the one thread maintains
(`C12_sync_segment`).  Whenever both queues are empty again and every node belongs to the
map's entry of its key, the access order is: the keys of `N` that are still resident and were
not used, in their old relative order, then the used key if it is still resident. -/
theorem C12_sync_recency_state {p : Params} {s : SState} (hr : RInv p s) {N : List AoNode}
    {mv : List Nat} {u : Option Nat} {d : Bool} (hN : (N.map (·.key)).Nodup)
    (h : SI N mv u d s) (hp : Pend d u s) (hrq : s.readQ = []) (hwq : s.writeQ = [])
    (hcur : AllCur s s.prob) :
    s.prob.map (·.key) =
      (N.map (·.key)).filter (fun k => (s.prob.map (·.key)).contains k && !mv.contains k) ++
        mv.filter ((s.prob.map (·.key)).contains ·) :=
  final_order hr.ainv.top.nodes.toNodesCore hr.key.prob hN h hp hrq hwq hcur

/-- The segment invariant (as the recency walk carries it: `WInv st s`, `st` the oracle's
bookkeeping) is kept by maintenance (`sync`), by `invalidate`, `invalidate_all`, clock steps
and lookups that miss; an `insert k` and a `get k` that returns a value register the use of
`k` (`useSt`). -/
theorem C12_sync_segment {p : Params} (hq : Sync.NoQuirks p) {st : Spec.RecSt} {s : SState}
    (hr : RInv p s) (h : WInv st s) (k v d : Nat) :
    WInv st (syncRun p s) ∧ WInv st (Sync.invalidate p s k) ∧ WInv st (Sync.invalidateAll s) ∧
    WInv st { s with now := s.now + d } ∧ WInv (useSt st k) (Sync.insert p s k v) ∧
    ((Sync.get p s k).2 = none → WInv st (Sync.get p s k).1) ∧
    (∀ v', (Sync.get p s k).2 = some v' → WInv (useSt st k) (Sync.get p s k).1) :=
  ⟨h.sync hq hr.ainv.top, h.inv hq hr.ainv k, h.of_eq rfl rfl rfl rfl rfl,
   h.of_eq rfl rfl rfl rfl rfl, h.ins hq hr k v, (h.getOp hq hr k).1, (h.getOp hq hr k).2⟩

/-- A hit in a quiescent state followed by a maintenance run that ends quiescent: the key goes
to the most recently used end, the other survivors keep their relative order. -/
theorem C12_sync_hit_order {p : Params} (hq : Sync.NoQuirks p) (hsm : SmallSketch p) {s : SState}
    (hr : RInv p s) (hqs : Spec.quiescent (Sync.snapshot p s) = true) (k v : Nat)
    (hv : (Sync.get p s k).2 = some v)
    (hqs' : Spec.quiescent (Sync.snapshot p (syncRun p (Sync.get p s k).1)) = true) :
    Spec.lruOrder (Sync.snapshot p (syncRun p (Sync.get p s k).1)) =
      Spec.expectedOrder (Sync.snapshot p s) (Sync.snapshot p (syncRun p (Sync.get p s k).1)) [k] :=
  get_sync_order hq hsm hr hqs k v hv hqs'

/-- An insert (of a new key, or an update) in a quiescent state followed by a maintenance run
that ends quiescent: the key, if it is resident, is at the most recently used end, the other
survivors keep their relative order — whatever was evicted for it. -/
theorem C12_sync_insert_order {p : Params} (hq : Sync.NoQuirks p) (hsm : SmallSketch p)
    {s : SState} (hr : RInv p s) (hqs : Spec.quiescent (Sync.snapshot p s) = true) (k v : Nat)
    (hqs' : Spec.quiescent (Sync.snapshot p (syncRun p (Sync.insert p s k v))) = true) :
    Spec.lruOrder (Sync.snapshot p (syncRun p (Sync.insert p s k v))) =
      Spec.expectedOrder (Sync.snapshot p s) (Sync.snapshot p (syncRun p (Sync.insert p s k v))) [k] :=
  insert_sync_order hq hsm hr hqs k v hqs'

/-- **C12, "recency is order of use", on traces, concurrent cache.**  For every configuration
of the current code and every history of one thread, the recency walk accepts the model's
trace: between two quiescent snapshots (both queues empty, every node current) with at most
one use in between (an `insert`, a `get` that returned a value) — and any number of `sync`,
`invalidate`, `invalidate_all`, clock steps, misses, `contains_key`, iterations — the access
order is that of the earlier snapshot restricted to the keys still resident and not used,
followed by the used key if it is still resident. -/
theorem C12_sync_recency (p : Params) (hq : Sync.NoQuirks p) (hsm : SmallSketch p) (h : List Op) :
    Spec.recencyC12 .sync (Sync.trace p h) = true :=
  recencyC12_trace hq hsm h

/-- **C12 on traces, concurrent cache.**  The C12 oracle accepts every trace of the model: the
recency walk (`C12_sync_recency`; with no `max_capacity` this is the whole oracle) and, with a
capacity, the admission windows of C13, in which the residents that leave for size are the
shortest sufficient prefix of the access order. -/
theorem C12_sync_oracle (p : Params) (hq : Sync.NoQuirks p) (hsm : SmallSketch p) (h : List Op) :
    Spec.oracleC12 .sync p.cap p.ttl p.tti p.weigh Gen.UNSYNC_EVICTION_BATCH_SIZE
      (Sync.trace p h) = true :=
  oracleC12_trace hq hsm _ h

/-! ### non-vacuity (C12) -/

namespace C13SyncEx

/-- A history with quiescent snapshots around: a hit on the LRU key, an update, an
invalidation with a clock step and a miss, lookups that miss, an insert that fits, an admission
with two victims, `invalidate_all`. -/
def histR : List Op :=
  [.ins 1 1, .sync, .ins 2 1, .sync, .ins 3 1, .sync, .snap,
   .get 1, .sync, .snap,
   .ins 2 1, .sync, .snap,
   .inv 3, .adv 5, .get 9, .sync, .snap,
   .get 7, .get 7, .get 7, .sync, .snap,
   .ins 4 2, .sync, .snap,
   .ins 7 2, .sync, .snap,
   .adv 1, .invAll, .sync, .snap]

end C13SyncEx

/-- The recency walk accepts that trace, and the access orders seen in its quiescent snapshots
are what the rule says: `[1,2,3]`, hit on 1 → `[2,3,1]`, update of 2 → `[3,1,2]`, invalidation of
3 → `[1,2]`, lookups that miss → `[1,2]`, insert of 4 (fits) → `[1,2,4]`, admission of the
popular 7 (weight 2) evicting 1 and 2 → `[4,7]`, `invalidate_all` → `[]`. -/
example :
    Spec.recencyC12 .sync (Sync.trace cfg histR) = true ∧
    Spec.oracleC12 .sync cfg.cap cfg.ttl cfg.tti cfg.weigh Gen.UNSYNC_EVICTION_BATCH_SIZE
      (Sync.trace cfg histR) = true ∧
    (Sync.trace cfg histR).filterMap (fun x => match x.2 with
      | .snap sn => if Spec.quiescent sn then some (Spec.lruOrder sn) else none
      | _ => none) = [[1, 2, 3], [2, 3, 1], [3, 1, 2], [1, 2], [1, 2], [1, 2, 4], [4, 7], []] := by
  decide +kernel

/-- `C12_sync_hit_order` applied to a reachable state (hypotheses discharged). -/
example :
    Spec.lruOrder (Sync.snapshot cfg (syncRun cfg (Sync.get cfg full 1).1)) =
      Spec.expectedOrder (Sync.snapshot cfg full)
        (Sync.snapshot cfg (syncRun cfg (Sync.get cfg full 1).1)) [1] :=
  C12_sync_hit_order nq_cfg small_cfg (C12_sync_reachable cfg nq_cfg small_cfg fill)
    (by decide +kernel) 1 1 (by decide +kernel) (by decide +kernel)

example : Spec.lruOrder (Sync.snapshot cfg (syncRun cfg (Sync.get cfg full 1).1)) = [2, 3, 1] := by
  decide +kernel

/-- The recency walk is not vacuous: it rejects a hand-made trace in which a hit does not move
the key to the most recently used end … -/
example : Spec.recencyC12 .sync
    [(.snap, .snap (Sync.snapshot cfg full)), (.get 1, .val (some 1)), (.sync, .ok),
     (.snap, .snap (Sync.snapshot cfg full))] = false := by
  decide +kernel

/-- … and one in which two residents swap places without having been used. -/
example : Spec.recencyC12 .sync
    [(.snap, .snap (Sync.snapshot cfg (Sync.stateAfter cfg {} [.ins 1 1, .sync, .ins 2 1, .sync]))),
     (.sync, .ok),
     (.snap, .snap (Sync.snapshot cfg (Sync.stateAfter cfg {} [.ins 2 1, .sync, .ins 1 1, .sync])))]
    = false := by
  decide +kernel

end Props
end MiniMoka

namespace MiniMoka.Props
#print axioms C13_sync_reachable
#print axioms C13_sync_admission
#print axioms C13_sync_has_room
#print axioms C13_sync_scan_resistance
#print axioms C13_sync_oracle
#print axioms C12_sync_reachable
#print axioms C12_sync_recency_state
#print axioms C12_sync_segment
#print axioms C12_sync_hit_order
#print axioms C12_sync_insert_order
#print axioms C12_sync_recency
#print axioms C12_sync_oracle
end MiniMoka.Props
