/-
  Properties of model T (`ConcT.lean`): an update's clock reading and its map write are two steps.

  With the code's PLAIN store of the reading into the shared timestamp, for every interleaving of
  any number of threads: the timestamp a lookup tests is the reading of the insert whose value the
  map holds (`ConcT_inv`), hence a value whose insert read the clock at `r` is never returned at a
  clock reading `≥ r + ttl` (C05, in the property's own clock-reading wording) nor after an
  `invalidate_all` with a strictly later reading has completed (C01, C07) — `ConcT_get_fresh`,
  `ConcT_run_fresh`.  With a forward-only store (`mono`, the seeded changes `C01h` and `C05i`) both
  fail: `ConcT_counterexample_ttl`, `ConcT_counterexample_watermark`.
-/
import MiniMoka.ConcT

namespace MiniMoka
namespace Props

open ConcT

/-- The shared timestamp is the reading of the insert whose value the map holds. -/
def TInv (s : State) : Prop := ∀ v r, s.cur = some (v, r) → s.lm = r

theorem ConcT_inv_init : TInv {} := by
  intro v r h; cases h

theorem ConcT_inv_step (ttl : Option Nat) (s s' : State) (ev : Ev) (hi : TInv s)
    (hs : step false ttl s ev = some s') : TInv s' := by
  cases ev with
  | tick d => simp only [step, Option.some.injEq] at hs; subst hs; exact hi
  | read t v =>
    simp only [step] at hs
    split at hs
    · cases hs
    · simp only [Option.some.injEq] at hs; subst hs; exact hi
  | write t =>
    simp only [step] at hs
    split at hs
    · cases hs
    · simp only [Option.some.injEq] at hs; subst hs
      intro v r h
      simp only [Option.some.injEq, Prod.mk.injEq] at h
      simp [h.2]
  | invAll => simp only [step, Option.some.injEq] at hs; subst hs; exact hi
  | get => simp only [step, Option.some.injEq] at hs; subst hs; exact hi

/-- What a lookup that returns a value guarantees about the reading `r` of the insert that wrote
it: the time-to-live has not run out counted from `r`, and no completed `invalidate_all` has a
strictly later reading. -/
def Fresh (ttl : Option Nat) (ob : Option (Nat × Nat) × Nat × Option Nat) : Prop :=
  ∀ v r, ob.1 = some (v, r) →
    (∀ d, ttl = some d → ob.2.1 < r + d) ∧ (∀ w, ob.2.2 = some w → ¬ r < w)

theorem ConcT_get_fresh (ttl : Option Nat) (s : State) (hi : TInv s) :
    Fresh ttl (lookup ttl s, s.now, s.va) := by
  intro v r h
  dsimp only at h ⊢
  simp only [lookup] at h
  cases hc : s.cur with
  | none => simp [hc] at h
  | some vr =>
    simp only [hc] at h
    split at h
    · cases h
    · rename_i hh
      simp only [Option.some.injEq] at h; subst h
      have hl : s.lm = r := hi v r hc
      simp only [hidden, Bool.or_eq_true, not_or] at hh
      constructor
      · intro d hd
        have h2 := hh.2
        simp only [hd, decide_eq_true_eq] at h2
        omega
      · intro w hw
        have h1 := hh.1
        simp only [hw, decide_eq_true_eq] at h1
        omega

/-- **Every interleaving.** From any state satisfying the invariant — in particular the initial
one — and for every schedule of clock ticks, clock readings, map writes, `invalidate_all` calls and
lookups of any number of threads, every lookup that returns a value is `Fresh`. -/
theorem ConcT_run_fresh (ttl : Option Nat) (evs : List Ev) (s sf : State)
    (obs : List (Option (Nat × Nat) × Nat × Option Nat)) (hi : TInv s)
    (hr : run false ttl s evs = some (sf, obs)) : ∀ ob ∈ obs, Fresh ttl ob := by
  induction evs generalizing s sf obs with
  | nil =>
    simp only [run, Option.some.injEq, Prod.mk.injEq] at hr
    intro ob hob; rw [← hr.2] at hob; cases hob
  | cons ev rest ih =>
    simp only [run] at hr
    cases hst : step false ttl s ev with
    | none => simp [hst] at hr
    | some s' =>
      simp only [hst] at hr
      have hi' := ConcT_inv_step ttl s s' ev hi hst
      cases hrr : run false ttl s' rest with
      | none => simp [hrr] at hr
      | some p =>
        obtain ⟨sf', obs'⟩ := p
        simp only [hrr] at hr
        have hrest := ih s' sf' obs' hi' hrr
        cases ev with
        | get =>
          simp only [Option.some.injEq, Prod.mk.injEq] at hr
          intro ob hob
          rw [← hr.2] at hob
          cases hob with
          | head => exact ConcT_get_fresh ttl s hi
          | tail _ h => exact hrest ob h
        | tick d =>
          simp only [Option.some.injEq, Prod.mk.injEq] at hr
          intro ob hob; rw [← hr.2] at hob; exact hrest ob hob
        | read t v =>
          simp only [Option.some.injEq, Prod.mk.injEq] at hr
          intro ob hob; rw [← hr.2] at hob; exact hrest ob hob
        | write t =>
          simp only [Option.some.injEq, Prod.mk.injEq] at hr
          intro ob hob; rw [← hr.2] at hob; exact hrest ob hob
        | invAll =>
          simp only [Option.some.injEq, Prod.mk.injEq] at hr
          intro ob hob; rw [← hr.2] at hob; exact hrest ob hob

/-! ### the two schedules of the seeded changes, and non-vacuity -/

/-- Thread 0 makes the key resident; thread 1 reads the clock at 5 for value 10; thread 2 reads it
at 10 for value 20 and writes; thread 1 writes last; at 17 — past `5 + ttl` — a lookup. -/
def schedTtl : List Ev :=
  [.read 0 1, .write 0, .tick 5, .read 1 10, .tick 5, .read 2 20, .write 2, .write 1, .tick 7, .get]

/-- The same with an `invalidate_all` at 7, between the two readings. -/
def schedVa : List Ev :=
  [.read 0 1, .write 0, .tick 5, .read 1 10, .tick 2, .invAll, .tick 3, .read 2 20, .write 2, .write 1, .get]

/-- The code (plain store): value 10, read at 5, has expired at 17 with `ttl = 10`; nothing is
returned.  The lookup just before the deadline returns it: the schedule is not vacuous. -/
example : (run false (some 10) {} schedTtl).map (·.2) = some [(none, 17, none)] := by decide
example : (run false (some 10) {}
    [.read 0 1, .write 0, .tick 5, .read 1 10, .tick 5, .read 2 20, .write 2, .write 1, .tick 4, .get]).map (·.2)
    = some [(some (10, 5), 14, none)] := by decide

/-- Forward-only store: value 10, whose insert read the clock at 5, is returned at 17 ≥ 5 + 10. -/
theorem ConcT_counterexample_ttl :
    (run true (some 10) {} schedTtl).map (·.2) = some [(some (10, 5), 17, none)] ∧
    ¬ Fresh (some 10) (some (10, 5), 17, none) := by
  refine ⟨by decide, ?_⟩
  intro h
  have := (h 10 5 rfl).1 10 rfl
  dsimp only at this
  omega

/-- The code: value 10, read at 5, is hidden by the `invalidate_all` of reading 7. -/
example : (run false none {} schedVa).map (·.2) = some [(none, 10, some 7)] := by decide

/-- Forward-only store: value 10, read at 5, is returned after the `invalidate_all` of reading 7
has completed. -/
theorem ConcT_counterexample_watermark :
    (run true none {} schedVa).map (·.2) = some [(some (10, 5), 10, some 7)] ∧
    ¬ Fresh none (some (10, 5), 10, some 7) := by
  refine ⟨by decide, ?_⟩
  intro h
  exact (h 10 5 rfl).2 7 rfl (by omega)

end Props
end MiniMoka

#print axioms MiniMoka.Props.ConcT_inv_step
#print axioms MiniMoka.Props.ConcT_get_fresh
#print axioms MiniMoka.Props.ConcT_run_fresh
#print axioms MiniMoka.Props.ConcT_counterexample_ttl
#print axioms MiniMoka.Props.ConcT_counterexample_watermark
