/-
  C08 / C10 / C11 / C04 (count) and "maintenance only deletes" for `sync::Cache` under all
  interleavings of any number of threads at the finest granularity (`MiniMoka/ConcF.lean`): every
  access of a maintenance run to the concurrent map while it applies a queued `Upsert`
  (`Inner::handle_upsert`, `Inner::admit`) is its own atomic step, and other threads' `insert` /
  `invalidate` / `get` map steps and sends interleave between any two of them.

  PROVED in full, for every configuration of the current code (`NoQuirks`, `SmallSketch`) and
  every state reachable by any finite sequence of steps (`ConcF.Reach p c`):
   * `ConcF_write_is_applyWrite`: the steps of one queued write executed back to back are
     `Sync.applyWrite`; `ConcF_refines_ConcM`: every step of `ConcM` is a path of `ConcF`, every
     state reachable in `ConcM` (hence in `ConcS`, hence by one thread) is reachable in `ConcF`.
   * `ConcF_no_fault`: no reachable state is faulty.  In particular a victim node selected by the
     admission scan whose entry another thread invalidates or replaces before its eviction is
     handled: the `remove_if` fails, nothing is freed, the node joins the skipped list.
   * `ConcF_inv`: the invariant.  Outside a run: that of `ConcS`.  Between micro-steps of a run:
     that of `ConcM`.  Between two steps of one `Upsert`: `Safe` (node ownership, run-local
     count), `MapOK`, `CInv` for the logical queue `the operation being applied :: write queue
     ++ operations held`, and the program counter's local facts `WLocal`: the run-local victim
     / skipped lists are distinct nodes of the access-order list (other threads never touch the
     deques); the weight read at (b) is the weigher applied to the value the map holds, *or* a
     newer value has its own `Upsert` pending; the dirty flag cleared at (a), if set again, is
     covered by a pending `Upsert`; an entry that was current at (b) is still in the map or
     awaits a `Remove`.
   * `ConcF_maintenance_only_deletes`: every micro-step of a run leaves each binding of the map
     unchanged or removes it: values are only ever written by `insert` map steps.  (This is what
     the seeded change `putBack` violates.)
   * `ConcF_C10_quiescent`, `ConcF_C11_quiescent`: with no run in progress, no thread holding an
     operation and an empty write queue (both queues empty): exact counters, `liveOk`.
   * `ConcF_C04_overshoot`: `|map| ≤ |access-order list| + |write queue| + (threads holding a
     write) + (1 if an `Upsert` is half applied)`.
  The argument for exactness under the racing update (order (a) before (b)): see
  `ConcF_racing_update_covered`.
  No interleaving at this granularity breaks an invariant on the current code.  The two seeded
  concurrency-only changes are refuted by machine-checked interleavings of the *variant* step
  functions: `ConcF_counterexample_dirty_order` (inexact `weighted_size` at quiescence) and
  `ConcF_counterexample_put_back` (a stale value in the map at quiescence).
-/
import MiniMoka.Lemmas.ConcF
import MiniMoka.Props.ConcM

namespace MiniMoka
namespace Props

open Sync Sync.Nodes Sync.Counters ConcS ConcM ConcF

/-! ### back to back; containment -/

/-- The steps of one queued write operation, executed back to back by the run of thread `t`,
are `Sync.applyWrite`: the run ends up where the one step `mWrite` of `ConcM` takes it. -/
theorem ConcF_write_is_applyWrite (p : Params) (s : SState) (t : Tid) (ex : Bool)
    (pd : List (Tid × Pend)) (f n : Nat) (op : WOp) (rest : List WOp)
    (hq : s.writeQ = op :: rest) :
    ∃ evs, ConcF.runEvs p .good ⟨s, pd, some ⟨t, ex, .writes f (n + 1), none⟩⟩ evs =
      some ⟨applyWrite p { s with writeQ := rest } op, pd, some ⟨t, ex, .writes f n, none⟩⟩ := by
  obtain ⟨evs, he⟩ := runEvs_of_fpath (fpath_of_micro p ex s (.writes f (n + 1))) t pd
  refine ⟨evs, ?_⟩
  have hm : micro p ex s (.writes f (n + 1)) =
      (applyWrite p { s with writeQ := rest } op, some (.writes f n)) := by
    simp only [micro, hq]
  rw [hm] at he
  exact he

/-- Every step of `ConcM` is a path of `ConcF`; every state reachable in `ConcM` is reachable
in `ConcF`. -/
theorem ConcF_refines_ConcM (p : Params) :
    (∀ (c c' : MState) (e : ConcM.Ev), ConcM.step p c e = some c' →
      ∃ evs, ConcF.runEvs p .good (embedM c) evs = some (embedM c')) ∧
    (∀ c : MState, ConcM.Reach p c → ConcF.Reach p (embedM c)) :=
  ⟨fun _ _ e hs => path_of_concM_step p e hs, fun _ h => reach_embedM h⟩

/-! ### the invariant -/

/-- C08 at the finest granularity: no reachable state is faulty. -/
theorem ConcF_no_fault (p : Params) (hq : Sync.NoQuirks p) (hsm : SmallSketch p) (c : FState)
    (hr : ConcF.Reach p c) : c.s.fault = none :=
  finv_nofault (reach_finv hq hsm hr)

theorem ConcF_no_fault_step (p : Params) (hq : Sync.NoQuirks p) (hsm : SmallSketch p)
    (c c' : FState) (hr : ConcF.Reach p c) (e : ConcM.Ev)
    (hs : ConcF.step p .good c e = some c') : c'.s.fault = none :=
  ConcF_no_fault p hq hsm c' (ConcF.Reach.step e hr hs)

/-- The invariant of the reachable states. -/
theorem ConcF_inv (p : Params) (hq : Sync.NoQuirks p) (hsm : SmallSketch p) (c : FState)
    (hr : ConcF.Reach p c) :
    -- no run in progress
    (c.run = none → NodesInvTop c.s ∧ MapOK c.s ∧ c.s.running = false ∧
      CTop p c.s (c.s.writeQ ++ pendWrites c.pending)) ∧
    -- between micro-steps of a run, no `Upsert` half applied
    (∀ r, c.run = some r → r.w = none → Safe c.s ∧ NodesInv c.s ∧ MapOK c.s ∧
      CInv p c.s (c.s.writeQ ++ pendWrites c.pending)) ∧
    -- between two steps of one `Upsert`
    (∀ r pc, c.run = some r → r.w = some pc → Safe c.s ∧ NodesInv c.s ∧ MapOK c.s ∧
      CInv p c.s (wop (opOf pc) :: (c.s.writeQ ++ pendWrites c.pending)) ∧
      WLocal p c.s (c.s.writeQ ++ pendWrites c.pending) pc) := by
  have h := reach_finv hq hsm hr
  unfold FInv at h
  cases hrun : c.run with
  | none =>
    rw [hrun] at h
    exact ⟨fun _ => ⟨h.1.top.nodes, h.1.top.map, h.1.running, h.1.cinv⟩,
      fun r hx => (by cases hx), fun r pc hx => (by cases hx)⟩
  | some r =>
    rw [hrun] at h
    dsimp only at h
    refine ⟨fun hx => (by cases hx), ?_, ?_⟩
    · intro r' hx hw
      have e := Option.some.inj hx
      subst e
      rw [hw] at h
      have hri := rinv_of_view h.2.1
      exact ⟨hri.run.safe, hri.run.safe.toNodesInv, hri.run.map, hri.cinv⟩
    · intro r' pc hx hw
      have e := Option.some.inj hx
      subst e
      rw [hw] at h
      exact ⟨h.2.1.run.safe, h.2.1.run.safe.toNodesInv, h.2.1.run.map, h.2.1.cinv, h.2.2⟩

/-- Why the racing update is harmless with `set_dirty(false)` *before* the lookup: while an
`Upsert` of info `i` is being applied, after the lookup (b) the run holds a weight `nw`; for the
entry of info `i` the map holds under the key, either `nw` is the weigher applied to its value,
or that entry is newer than the lookup and its own `Upsert` is pending (queued or held); and if
the dirty flag is set (again), an `Upsert` of this info is pending.  So whatever weight the run
accounts at (c) / (e), a later operation re-weighs the newer value. -/
theorem ConcF_racing_update_covered (p : Params) (hq : Sync.NoQuirks p) (hsm : SmallSketch p)
    (c : FState) (hr : ConcF.Reach p c) (r : FRun) (u : UOp) (nw : Nat) (cur : Bool)
    (hrun : c.run = some r) (hw : r.w = some (.dispatch u nw cur)) :
    (∀ ve, AL.get? c.s.map u.key = some ve → ve.info = u.ve.info →
      nw = p.weigh u.key ve.val ∨
        ∃ h o w, WOp.upsert u.key h ve o w ∈ c.s.writeQ ++ pendWrites c.pending) ∧
    ((getInfo c.s u.ve.info).dirty = true →
      ∃ k' h v o w, WOp.upsert k' h v o w ∈ c.s.writeQ ++ pendWrites c.pending ∧
        v.info = u.ve.info) := by
  have h := (ConcF_inv p hq hsm c hr).2.2 r _ hrun hw
  have hl : WF p c.s (c.s.writeQ ++ pendWrites c.pending) u nw cur := h.2.2.2.2
  exact ⟨hl.wcur, hl.dirty⟩

/-- Maintenance only deletes: a micro-step of a run (including every step of the application
of an `Upsert`: victims' `remove_if`, the rejection's `remove_if`) leaves each binding of the
map unchanged or removes it.  Values are written by `insert` map steps only. -/
theorem ConcF_maintenance_only_deletes (p : Params) (hq : Sync.NoQuirks p) (hsm : SmallSketch p)
    (c c' : FState) (hr : ConcF.Reach p c) (t : Tid)
    (hs : ConcF.step p .good c (.mStep t) = some c') (k : Nat) (ve : VE)
    (hk : AL.get? c'.s.map k = some ve) : AL.get? c.s.map k = some ve :=
  finv_mstep_mapsub hq (reach_finv hq hsm hr) t hs k ve hk

/-! ### quiescent states -/

theorem ConcF_C10_quiescent (p : Params) (hq : Sync.NoQuirks p) (hsm : SmallSketch p)
    (c : FState) (hr : ConcF.Reach p c) (hrun : c.run = none) (hp : c.pending = [])
    (hw : c.s.writeQ = []) : Spec.snapCountersOk p.weigh (Sync.snapshot p c.s) = true := by
  have h := reach_finv hq hsm hr
  unfold FInv at h
  rw [hrun] at h
  rw [snapCountersOk_readQ]
  exact sync_snapshot_counters (csinv_quiescent_tinv (c := ⟨c.s, c.pending⟩) h.1 hp hw) hw

theorem ConcF_C11_quiescent (p : Params) (hq : Sync.NoQuirks p) (hsm : SmallSketch p)
    (c : FState) (hr : ConcF.Reach p c) (hrun : c.run = none) (hp : c.pending = []) :
    Spec.liveOk (Sync.snapshot p c.s) = true := by
  have h := reach_finv hq hsm hr
  unfold FInv at h
  rw [hrun] at h
  have h := h.1
  by_cases hqz : ((Sync.snapshot p c.s).rq == 0 && (Sync.snapshot p c.s).wq == 0) = true
  · have hrq : c.s.readQ = [] := by
      have : c.s.readQ.length = 0 := by
        have := (Bool.and_eq_true _ _ ▸ hqz).1
        simpa [Sync.snapshot] using this
      exact List.eq_nil_of_length_eq_zero this
    have hwq : c.s.writeQ = [] := by
      have : c.s.writeQ.length = 0 := by
        have := (Bool.and_eq_true _ _ ▸ hqz).2
        simpa [Sync.snapshot] using this
      exact List.eq_nil_of_length_eq_zero this
    have ht : TInv p c.s [] := by
      refine ⟨h.top, ⟨h.running, ?_, ?_⟩, ?_⟩
      · rw [hwq]; exact Nat.zero_le _
      · rw [hrq]; exact Nat.zero_le _
      · have h1 := h.cinv
        simp only [hp] at h1
        exact h1
    exact sync_snapshot_liveOk ht
  · unfold Spec.liveOk
    have : ((Sync.snapshot p c.s).rq == 0 && (Sync.snapshot p c.s).wq == 0) = false := by
      cases hx : ((Sync.snapshot p c.s).rq == 0 && (Sync.snapshot p c.s).wq == 0) with
      | false => rfl
      | true => exact absurd hx hqz
    rw [this]; rfl

/-- C04 (count) at the finest granularity: the map never holds more entries than the
access-order list (= the entry counter: the published one outside a run, the run-local one
inside) plus the queued writes, plus one per thread holding a write operation, plus one while
an `Upsert` is half applied. -/
theorem ConcF_C04_overshoot (p : Params) (hq : Sync.NoQuirks p) (hsm : SmallSketch p)
    (c : FState) (hr : ConcF.Reach p c) :
    c.s.map.length ≤ c.s.prob.length + c.s.writeQ.length + (pendWrites c.pending).length +
      (match c.run with
       | some r => (match r.w with | some _ => 1 | none => 0)
       | none => 0) := by
  have h := reach_finv hq hsm hr
  unfold FInv at h
  cases hrun : c.run with
  | none =>
    rw [hrun] at h
    have := cinv_map_length_le (s := { c.s with cec := c.s.ec, cws := c.s.ws }) h.1.cinv
      (h.1.top.nodes.toNodesCore.congr (fun _ => rfl) (fun _ => rfl) (fun _ => rfl)
        (List.Perm.refl _) (List.Perm.refl _) (Nat.le_refl _)) h.1.top.map.kn
    rw [List.length_append] at this
    dsimp only at this ⊢
    omega
  | some r =>
    rw [hrun] at h
    dsimp only at h ⊢
    cases hw : r.w with
    | none =>
      rw [hw] at h
      have hri := rinv_of_view h.2.1
      have := cinv_map_length_le hri.cinv hri.run.safe.toNodesCore hri.run.map.kn
      rw [List.length_append] at this
      dsimp only
      omega
    | some pc =>
      rw [hw] at h
      have := cinv_map_length_le h.2.1.cinv h.2.1.run.safe.toNodesCore h.2.1.run.map.kn
      rw [List.length_cons, List.length_append] at this
      dsimp only
      omega

/-! ### machine-checked interleavings -/

/-- `n` micro-steps of thread 9. -/
def fSteps (n : Nat) : List ConcM.Ev := List.replicate n (.mStep 9)

/-- `(map as (key, value), keys of the access-order list,
[entry_count, weighted_size, |write queue|, threads holding something, faults])`. -/
def cfSummary (p : Params) (v : Variant) (evs : List ConcM.Ev) :
    Option (List (Nat × Nat) × List Nat × List Nat) :=
  (ConcF.runEvs p v {} evs).map fun c =>
    (c.s.map.map (fun (kv : Nat × VE) => (kv.1, kv.2.val)), c.s.prob.map (·.key),
     [c.s.ec, c.s.ws, c.s.writeQ.length, c.pending.length, if c.s.fault.isNone then 0 else 1])

/-- Is the end state quiescent, and does it satisfy `snapCountersOk`? -/
def cfQuiescentOk (p : Params) (v : Variant) (evs : List ConcM.Ev) : Option (Bool × Bool) :=
  (ConcF.runEvs p v {} evs).map fun c =>
    (c.run.isNone && c.pending.isEmpty && c.s.writeQ.isEmpty,
     Spec.snapCountersOk p.weigh (Sync.snapshot p c.s))

/-- Weigher = value, no capacity limit. -/
def cfParams : Params := { hasWeigher := true, w := fun _ v => v }

/-- The seeded change `dirtyOrder` (C10c).  Key 1 is resident with value 1.  It is updated to
2; a run starts applying that `Upsert`: it looks the current entry up and determines the weight
(2) — and *then*, before the run clears the dirty flag, thread 2 updates the key to 5 (its
map step sets the dirty flag; it holds its `Upsert`).  The run clears the flag and accounts 2.
Thread 2 sends its `Upsert`; the next run finds the entry admitted and not dirty and reuses
the accounted weight. -/
def dirtyOrderInterleaving : List ConcM.Ev :=
  [.other (.insMap 1 1 1), .other (.enq 1), .mBegin 9 true] ++ fSteps 8 ++
  [.other (.insMap 1 1 2), .other (.enq 1), .mBegin 9 true] ++ fSteps 3 ++
  [.other (.insMap 2 1 5)] ++ fSteps 5 ++
  [.other (.enq 2), .mBegin 9 true] ++ fSteps 8

/-- With the seeded change the quiescent end state has `weighted_size = 2` for a resident of
weight 5: `snapCountersOk` fails. -/
theorem ConcF_counterexample_dirty_order :
    cfSummary cfParams .dirtyOrder dirtyOrderInterleaving = some ([(1, 5)], [1], [1, 2, 0, 0, 0]) ∧
    cfQuiescentOk cfParams .dirtyOrder dirtyOrderInterleaving = some (true, false) := by
  decide +kernel

/-- The current code, same interleaving (the racing update now falls between the lookup (b) and
the bookkeeping (c); the flag was cleared before): the run accounts 2, the update's own
`Upsert` re-weighs: exact. -/
example :
    cfSummary cfParams .good dirtyOrderInterleaving = some ([(1, 5)], [1], [1, 5, 0, 0, 0]) ∧
    cfQuiescentOk cfParams .good dirtyOrderInterleaving = some (true, true) := by
  decide +kernel

/-- Capacity 2, weigher `value % 3`. -/
def cfParams2 : Params := { cap := some 2, hasWeigher := true, w := fun _ v => v % 3 }

/-- Keys 1 and 2 (weight 1 each) fill the cache; key 3 is made popular and inserted with
weight 2.  The admission scan of its `Upsert` selects the nodes of keys 1 and 2 as victims.  The
run removes key 1 from the map; *then* thread 2 inserts a new value 4 for key 1 and thread 3
invalidates key 2; the removal of victim 2 fails. -/
def victimInterleaving : List ConcM.Ev :=
  [.other (.insMap 1 1 1), .other (.enq 1), .other (.insMap 1 2 1), .other (.enq 1),
   .mBegin 9 true] ++ fSteps 12 ++
  [.other (.getMap 3 3), .other (.enq 3), .other (.insMap 1 3 2), .other (.enq 1),
   .mBegin 9 true] ++ fSteps 10 ++
  [.other (.insMap 2 1 4), .other (.invMap 3 2)] ++ fSteps 7 ++
  [.other (.enq 2), .other (.enq 3), .mBegin 9 true] ++ fSteps 9

/-- The seeded change `putBack` (C01c): the victim already taken out is given back with an
unconditional `cache.insert`, overwriting the value 4 that thread 2's `insert(1, 4)` wrote
meanwhile; that insert's own `Upsert` is then dropped as not current.  At quiescence the map
holds the *stale* value 1 for key 1 (with consistent counters: lookups return it for good). -/
theorem ConcF_counterexample_put_back :
    cfSummary cfParams2 .putBack victimInterleaving = some ([(1, 1)], [1], [1, 1, 0, 0, 0]) ∧
    cfQuiescentOk cfParams2 .putBack victimInterleaving = some (true, true) ∧
    -- right after thread 2's `insert(1, 4)` the map did hold the new value
    (cfSummary cfParams2 .putBack (victimInterleaving.take 33)).map (·.1)
      = some [(2, 1), (3, 2), (1, 4)] := by
  decide +kernel

/-- The current code on the same interleaving (an invalidate of a selected victim between the
scan (g) and its eviction (h), and an insert of the key of the victim already evicted): the
failed removal only moves the node to the skipped list, nothing is put back, the candidate is
admitted and — the cache being over capacity by the victim that was not evicted — evicted again
by the LRU pass; key 1 holds the value thread 2 inserted.  Exact at quiescence. -/
example :
    cfSummary cfParams2 .good victimInterleaving = some ([(1, 4)], [1], [1, 1, 0, 0, 0]) ∧
    cfQuiescentOk cfParams2 .good victimInterleaving = some (true, true) := by
  decide +kernel

/-- An update of the candidate's key between the lookup (b) and `handle_admit` (e): key 1 is
inserted; the run has read the current entry (weight 1) when thread 2 updates the key to 5; the
run admits the entry with the weight 1 it read; the update's `Upsert` (held, then queued)
re-weighs it in the next run. -/
def admitRaceInterleaving : List ConcM.Ev :=
  [.other (.insMap 1 1 1), .other (.enq 1), .mBegin 9 true] ++ fSteps 4 ++
  [.other (.insMap 2 1 5)] ++ fSteps 4 ++
  [.other (.enq 2), .mBegin 9 true] ++ fSteps 8

example :
    -- after the run that raced with the update: admitted with the weight read at (b)
    cfSummary cfParams .good (admitRaceInterleaving.take 12) = some ([(1, 5)], [1], [1, 1, 0, 1, 0]) ∧
    cfSummary cfParams .good admitRaceInterleaving = some ([(1, 5)], [1], [1, 5, 0, 0, 0]) ∧
    cfQuiescentOk cfParams .good admitRaceInterleaving = some (true, true) := by
  decide +kernel

/-- The theorems apply to these paths. -/
example : ∀ c, ConcF.runEvs cfParams2 .good {} victimInterleaving = some c → c.s.fault = none := by
  intro c hc
  exact ConcF_no_fault cfParams2 rfl
    ⟨fun cap hcap => (by cases hcap; decide +kernel),
     fun _ _ _ => (by show Sketch.sketchCapacity 0 ≤ 2 ^ 27; decide +kernel)⟩ c
    (ConcF.reach_of_runEvs _ _ _ ConcF.Reach.init hc)

end Props
end MiniMoka

namespace MiniMoka.Props
#print axioms ConcF_write_is_applyWrite
#print axioms ConcF_refines_ConcM
#print axioms ConcF_no_fault
#print axioms ConcF_no_fault_step
#print axioms ConcF_inv
#print axioms ConcF_racing_update_covered
#print axioms ConcF_maintenance_only_deletes
#print axioms ConcF_C10_quiescent
#print axioms ConcF_C11_quiescent
#print axioms ConcF_C04_overshoot
#print axioms ConcF_counterexample_dirty_order
#print axioms ConcF_counterexample_put_back
end MiniMoka.Props
