/-
  C10 — entry_count and weighted_size equal what the cache physically holds.
  Property theorems only; lemmas live in `Lemmas/`.
-/
import MiniMoka.Lemmas.UnsyncTrace
import MiniMoka.Lemmas.SketchLaws

namespace MiniMoka
namespace Props

open Unsync

/-- C10 on the single-threaded cache: for every configuration (any capacity incl. 0 and
none, any weigher incl. weights 0 and above capacity, any ttl/tti, any hash function),
and every history, every snapshot taken after any operation shows
`entry_count = number of resident entries` and `weighted_size = Σ their weights`, the
weights being both the stored ones and the weigher applied to the resident key and value.
`SmallSketch` is the documented limit (popularity-sketch table below 2^28 slots). -/
theorem C10_unsync (p : Params) (hq : NoQuirks p)
    (hsm : SmallSketch p) (h : List Op) :
    Spec.oracleC10 .unsync p.weigh (Unsync.trace p h) = true := by
  unfold Spec.oracleC10 Unsync.trace
  apply run_all sketchLaws hq hsm _ _ h {} (init_inv sketchLaws p)
  intro s op hi
  rw [step_obs sketchLaws hq hsm hi op]
  cases op <;> simp only []
  exact snapshot_counters hi.inv

/-- Non-vacuity: a concrete history with eviction, rejection, invalidation, expiry and a
weight-changing update; the oracle is evaluated on its trace. -/
example : Spec.oracleC10 .unsync (fun _ v => v % 3) (Unsync.trace
    { cap := some 3, ttl := some 5, hasWeigher := true, w := fun _ v => v % 3 }
    [.ins 1 1, .snap, .ins 2 2, .snap, .get 1, .ins 3 5, .snap, .ins 1 2, .snap, .inv 2, .snap,
     .adv 5, .get 1, .snap, .ins 4 1, .invIf (.kmod 2 0), .snap, .invAll, .snap]) = true := by
  decide +kernel

/-- On the unrepaired tree the property fails (defect D1): after `invalidate` the counter
stays one too high. Witness evaluated on the model with the defect switch on. -/
theorem C10_unsync_counterexample_D1 :
    Spec.oracleC10 .unsync (fun _ _ => 1) (Unsync.trace { q := { d1 := true } }
      [.ins 1 1, .ins 2 2, .inv 1, .snap]) = false := by
  decide

theorem C10_unsync_counterexample_D2 :
    Spec.oracleC10 .unsync (fun _ _ => 1) (Unsync.trace { q := { d2 := true } }
      [.ins 1 1, .ins 2 2, .invAll, .snap]) = false := by
  decide

theorem C10_unsync_counterexample_D3 :
    Spec.oracleC10 .unsync (fun _ _ => 1) (Unsync.trace { q := { d3 := true } }
      [.ins 1 1, .ins 2 2, .invIf .all, .snap]) = false := by
  decide

theorem C10_unsync_counterexample_D4 :
    Spec.oracleC10 .unsync (fun _ _ => 1) (Unsync.trace { ttl := some 5, q := { d4 := true } }
      [.ins 1 1, .adv 5, .get 2, .snap]) = false := by
  decide

end Props
end MiniMoka
