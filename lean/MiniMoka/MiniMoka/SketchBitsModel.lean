/-
  Word-level executable model of `src/common/frequency_sketch.rs`.

  The table is an array of machine words (`UInt64`) and every bit manipulation is done by the
  functions *generated from the Rust text* (`Gen/Logic/SketchBits.lean`: `counter_of_word`,
  `inc_offset`, `inc_mask`, `inc_room`, `inc_delta`, `odd_counters`, `halved_word`;
  `Gen/Logic/SketchArith.lean`: `index_of`, `reset_size`, `age_now`, `table_size`,
  `sample_size`).  The functions below follow the Rust functions statement by statement.

  `abs : SketchW → Sketch` reads every word as a natural number; `Props/C14Bits.lean` proves
  that this model refines the arithmetic model `MiniMoka/Sketch.lean` (faults included).

  As in `Sketch.lean`: scalar fields are `Nat` (`u32` in the code; the overflow-checked
  additions/subtractions are explicit faults), `table[index]` is `getD index 0` (indices are in
  bounds for well-formed states, `Sketch.indexOf_lt`).
-/
import MiniMoka.Sketch
import MiniMoka.SketchWord
import MiniMoka.Gen.Logic.SketchArith
import MiniMoka.Gen.Logic.SketchBits

namespace MiniMoka

structure SketchW where
  sampleSize : Nat := 0
  mask : Nat := 0
  table : Array UInt64 := #[]
  size : Nat := 0
  deriving Repr, Inhabited

namespace SketchW

open Gen.Logic

/-- The abstraction: every machine word read as a natural number. -/
def abs (s : SketchW) : Sketch :=
  { sampleSize := s.sampleSize
    mask := s.mask
    table := s.table.map UInt64.toNat
    size := s.size }

/-- `ensure_capacity` (64-bit target). -/
def ensureCapacityW (s : SketchW) (cap : Nat) : SketchW :=
  let maximum := min cap (2 ^ Gen.SKETCH_MAX_TABLE_POW)
  let tableSize := table_size maximum
  if s.table.size ≥ tableSize then s
  else
    { s with
      table := Array.replicate tableSize 0
      mask := tableSize - 1
      sampleSize := sample_size cap maximum }

/-- `index_of(hash, depth)`: the generated wrapping `u64` expression, `as usize`. -/
def indexOfW (s : SketchW) (hash : UInt64) (depth : Nat) : Nat :=
  (index_of (Sketch.SEED depth) s.mask.toUInt64 hash).toNat

/-- `let start = ((hash & 3) << 2)`. -/
def startW (hash : UInt64) : UInt64 := (hash &&& 3) <<< 2

/-- `frequency(hash)`. -/
def frequencyW (s : SketchW) (hash : UInt64) : Nat :=
  if s.table.size = 0 then 0
  else
    let start := startW hash
    -- `let mut frequency = u8::MAX; for i in 0..4 { … frequency = frequency.min(count) }`
    [0, 1, 2, 3].foldl (fun (frequency : Nat) (i : Nat) =>
      let index := s.indexOfW hash i
      let count := counter_of_word (s.table.getD index 0) start i.toUInt64
      min frequency count.toNat) 255

/-- `increment_at(table_index, counter_index)`. -/
def incrementAtW (t : Array UInt64) (tableIndex : Nat) (counterIndex : UInt64) :
    Array UInt64 × Bool :=
  let offset := inc_offset counterIndex
  let mask := inc_mask offset
  if inc_room (t.getD tableIndex 0) mask then
    (t.setIfInBounds tableIndex (t.getD tableIndex 0 + inc_delta offset), true)
  else (t, false)

/-- The loop of `reset`: one pass that counts the odd counters and halves every word. -/
def resetLoopW (t : Array UInt64) : Nat × Array UInt64 :=
  t.foldl (fun (acc : Nat × Array UInt64) (entry : UInt64) =>
    (acc.1 + odd_counters entry, acc.2.push (halved_word entry))) (0, #[])

/-- `reset()`; faults as in `Sketch.reset false` (`count` leaves `u32`, `size - (count >> 2)`
underflows). -/
def resetW (s : SketchW) : Except Fault SketchW :=
  let r := resetLoopW s.table
  if r.1 > U32_MAX then .error .overflow
  else if s.size < r.1 / 4 then .error .overflow
  else .ok { s with table := r.2, size := reset_size s.size r.1 }

/-- The loop of `increment`: `for i in 0..4 { added |= self.increment_at(index_of(hash, i), start + i) }`. -/
def incrementLoopW (s : SketchW) (hash : UInt64) : Array UInt64 × Bool :=
  let start := startW hash
  [0, 1, 2, 3].foldl (fun (acc : Array UInt64 × Bool) (i : Nat) =>
    let index := s.indexOfW hash i
    let r := incrementAtW acc.1 index (start + i.toUInt64)
    (r.1, acc.2 || r.2)) (s.table, false)

/-- `increment(hash)`. -/
def incrementW (s : SketchW) (hash : UInt64) : Except Fault SketchW :=
  if s.table.size = 0 then .ok s
  else
    let r := incrementLoopW s hash
    if r.2 then
      if s.size + 1 > U32_MAX then .error .overflow
      else
        let s' := { s with table := r.1, size := s.size + 1 }
        if age_now s'.size s'.sampleSize then resetW s' else .ok s'
    else .ok { s with table := r.1 }

/-- Record a sequence of hashes. -/
def runW (s : SketchW) (hs : List UInt64) : Except Fault SketchW :=
  hs.foldlM incrementW s

end SketchW
end MiniMoka
