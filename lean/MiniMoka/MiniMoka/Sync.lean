/-
  Model of `sync::Cache` as the deterministic machine that one thread drives
  (src/sync/cache.rs, src/sync/base_cache.rs, src/common/concurrent/*.rs).

  The map holds value entries that share an `Info` (the `TrioArc<EntryInfo>`) across
  updates of one key; list nodes and queued operations refer to infos and value
  entries by identity.  Every API call performs its map step at once and queues a
  read or write operation; `syncRun` is `Inner::sync`.  Although single-threaded, the
  model contains the maintenance run that `insert`/`invalidate`/`get` perform *between*
  their map step and the queuing of their own operation, and arbitrary numbers of
  operations that have not been applied yet.
-/
import MiniMoka.Types

namespace MiniMoka
namespace Sync

structure Info where
  /-- ghost: the key this info was created for (the code keeps it in the list nodes and
  queued ops; an `EntryInfo` never moves to another key) -/
  key : Nat := 0
  admitted : Bool := false
  dirty : Bool := true
  la : Nat := 0
  lm : Nat := 0
  weight : Nat := 0
  ao : Option Nat := none
  wo : Option Nat := none
  deriving Repr, Inhabited

/-- A `TrioArc<ValueEntry>`: identity, value, and the info it shares. -/
structure VE where
  id : Nat
  val : Nat
  info : Nat
  /-- ghost: identity of the key object (`Arc<K>`) the map stores this entry under: the `id`
  of the value entry whose insert created the map slot (an update keeps the slot's key) -/
  slot : Nat := 0
  deriving Repr, Inhabited, DecidableEq

structure AoNode where
  id : Nat
  key : Nat
  hash : UInt64
  info : Nat
  /-- ghost: identity of the key object the node holds (that of the write op that was admitted) -/
  kobj : Nat := 0
  deriving Repr, Inhabited

structure WoNode where
  id : Nat
  key : Nat
  info : Nat
  kobj : Nat := 0
  deriving Repr, Inhabited

inductive WOp where
  | upsert (key : Nat) (hash : UInt64) (ve : VE) (oldW newW : Nat)
  | remove (key : Nat) (ve : VE)
  deriving Repr, Inhabited

inductive ROp where
  | hit (hash : UInt64) (ve : VE) (ts : Nat)
  | miss (hash : UInt64)
  deriving Repr, Inhabited

structure SState where
  map : List (Nat × VE) := []
  infos : List (Nat × Info) := []
  prob : List AoNode := []
  wo : List WoNode := []
  readQ : List ROp := []
  writeQ : List WOp := []
  /-- published counters (`AtomicCell`s of `Inner`) -/
  ec : Nat := 0
  ws : Nat := 0
  /-- the local `EvictionCounters` of a maintenance run -/
  cec : Nat := 0
  cws : Nat := 0
  sk : Sketch := {}
  skOn : Bool := false
  va : Option Nat := none
  syncAfter : Nat := Gen.PERIODICAL_SYNC_INTERVAL_MILLIS * 1000000
  running : Bool := false
  now : Nat := 0
  nextId : Nat := 0
  fault : Option Fault := none
  deriving Repr, Inhabited

def SState.fail (s : SState) (f : Fault) : SState :=
  if s.fault.isSome then s else { s with fault := some f }

def getInfo (s : SState) (i : Nat) : Info := (AL.get? s.infos i).getD {}

def withInfo (s : SState) (i : Nat) (f : Info → Info) : SState :=
  { s with infos := AL.put s.infos i (f (getInfo s i)) }

/-! ### list helpers -/

def findAo : List AoNode → Nat → Option AoNode
  | [], _ => none
  | n :: rest, id => if n.id = id then some n else findAo rest id

def eraseAo : List AoNode → Nat → List AoNode
  | [], _ => []
  | n :: rest, id => if n.id = id then rest else n :: eraseAo rest id

def findWo : List WoNode → Nat → Option WoNode
  | [], _ => none
  | n :: rest, id => if n.id = id then some n else findWo rest id

def eraseWo : List WoNode → Nat → List WoNode
  | [], _ => []
  | n :: rest, id => if n.id = id then rest else n :: eraseWo rest id

/-- `Deque::move_to_back(node)`; dereferencing a node that is in no list (freed) is a
use-after-free. -/
def moveNodeToBackAo (s : SState) (id : Nat) : SState :=
  match findAo s.prob id with
  | some n => { s with prob := eraseAo s.prob id ++ [n] }
  | none => s.fail .useAfterFree

def moveNodeToBackWo (s : SState) (id : Nat) : SState :=
  match findWo s.wo id with
  | some n => { s with wo := eraseWo s.wo id ++ [n] }
  | none => s.fail .useAfterFree

/-- `Deques::move_to_back_ao(&entry)` / `move_to_back_ao_in_deque`. -/
def moveToBackAoE (s : SState) (info : Nat) : SState :=
  match (getInfo s info).ao with
  | none => s
  | some id => moveNodeToBackAo s id

/-- `Deques::move_to_back_wo(&entry)` / `move_to_back_wo_in_deque`. -/
def moveToBackWoE (s : SState) (info : Nat) : SState :=
  match (getInfo s info).wo with
  | none => s
  | some id => moveNodeToBackWo s id

/-- `Deques::unlink_ao(&entry)`: takes the node pointer out of the info, then frees the
node if it is linked. -/
def unlinkAo (s : SState) (info : Nat) : SState :=
  match (getInfo s info).ao with
  | none => s
  | some id =>
    let s := withInfo s info (fun i => { i with ao := none })
    match findAo s.prob id with
    | some _ => { s with prob := eraseAo s.prob id }
    | none => s.fail .useAfterFree

def unlinkWo (s : SState) (info : Nat) : SState :=
  match (getInfo s info).wo with
  | none => s
  | some id =>
    let s := withInfo s info (fun i => { i with wo := none })
    match findWo s.wo id with
    | some _ => { s with wo := eraseWo s.wo id }
    | none => s.fail .useAfterFree

/-! ### expiry predicates (`is_expired_entry_ao/wo` with `valid_after`) -/

def expiredTs (d : Option Nat) (va : Option Nat) (ts now : Nat) : Bool :=
  (match va with
   | some v => decide (ts < v)
   | none => false) ||
  (match d with
   | some d => decide (ts + d ≤ now)
   | none => false)

def isExpiredInfo (p : Params) (s : SState) (i : Info) (now : Nat) : Bool :=
  expiredTs p.ttl s.va i.lm now || expiredTs p.tti s.va i.la now

/-! ### local counters of a maintenance run -/

/-- `counters.saturating_sub(n, weight)`: `entry_count -= n` is overflow-checked. -/
def subCounters (s : SState) (n weight : Nat) : SState :=
  let s := if s.cec < n then s.fail .overflow else { s with cec := s.cec - n }
  { s with cws := s.cws - weight }

def addCounters (s : SState) (n weight : Nat) : SState :=
  { s with cec := s.cec + n, cws := s.cws + weight }

/-! ### apply_reads -/

def sketchIncrement (p : Params) (s : SState) (h : UInt64) : SState :=
  match s.sk.increment p.q.d5 h with
  | .ok sk => { s with sk := sk }
  | .error f => s.fail f

def applyRead (p : Params) (s : SState) : ROp → SState
  | .hit hash ve ts =>
    let s := sketchIncrement p s hash
    let s :=
      if p.q.d6 then withInfo s ve.info (fun i => { i with la := ts })
      else if (getInfo s ve.info).la < ts then withInfo s ve.info (fun i => { i with la := ts })
      else s
    if (getInfo s ve.info).admitted then moveToBackAoE s ve.info else s
  | .miss hash => sketchIncrement p s hash

def applyReads (p : Params) : Nat → SState → SState
  | 0, s => s
  | n + 1, s =>
    match s.readQ with
    | [] => s
    | op :: rest => applyReads p n (applyRead p { s with readQ := rest } op)

/-! ### apply_writes -/

/-- `handle_remove` / `handle_remove_with_deques`. -/
def handleRemove (s : SState) (ve : VE) : SState :=
  let i := getInfo s ve.info
  if i.admitted then
    let s := withInfo s ve.info (fun i => { i with admitted := false })
    let s := subCounters s 1 i.weight
    let s := unlinkAo s ve.info
    unlinkWo s ve.info
  else withInfo s ve.info (fun i => { i with ao := none, wo := none })

def hasEnoughCapacity (p : Params) (weight : Nat) (s : SState) : Bool :=
  match p.cap with
  | some limit => s.cws + weight ≤ limit
  | none => true

/-- `handle_admit`. -/
def handleAdmit (p : Params) (s : SState) (key : Nat) (hash : UInt64) (ve : VE) (weight : Nat) :
    SState :=
  let s := addCounters s 1 weight
  let s := if p.q.d8 then s else withInfo s ve.info (fun i => { i with weight := weight })
  let aoId := s.nextId
  let node : AoNode := { id := aoId, key := key, hash := hash, info := ve.info, kobj := ve.slot }
  let s := { s with prob := s.prob ++ [node], nextId := s.nextId + 1 }
  let s := withInfo s ve.info (fun i => { i with ao := some aoId })
  let s :=
    if p.ttl.isSome then
      let woId := s.nextId
      let wnode : WoNode := { id := woId, key := key, info := ve.info, kobj := ve.slot }
      let s := { s with wo := s.wo ++ [wnode], nextId := s.nextId + 1 }
      withInfo s ve.info (fun i => { i with wo := some woId })
    else s
  withInfo s ve.info (fun i => { i with admitted := true })

structure Admission where
  vw : Nat := 0
  vf : Nat := 0
  retries : Nat := 0
  victims : List AoNode := []
  skipped : List AoNode := []
  deriving Repr, Inhabited

/-- The map's entry for the key of list node `n`, as `admit` and the eviction loops see
it: after the D7 repair only the entry that owns the node counts. -/
def entryOfNode (p : Params) (s : SState) (key info : Nat) : Option VE :=
  match AL.get? s.map key with
  | some ve => if p.q.d7 || ve.info == info then some ve else none
  | none => none

def admitLoop (p : Params) (s : SState) (cw cf : Nat) : List AoNode → Admission → Admission
  | [], a => a
  | n :: rest, a =>
    if a.vw < cw ∧ ¬ cf < a.vf then
      match entryOfNode p s n.key n.info with
      | some ve =>
        admitLoop p s cw cf rest
          { a with vw := a.vw + (getInfo s ve.info).weight,
                   vf := a.vf + s.sk.frequency n.hash,
                   victims := a.victims ++ [n],
                   retries := 0 }
      | none =>
        let a := { a with skipped := a.skipped ++ [n], retries := a.retries + 1 }
        if a.retries > Gen.MAX_CONSECUTIVE_RETRIES then a else admitLoop p s cw cf rest a
    else a

/-- Removal of the selected victims; a victim whose node has been freed meanwhile is a
use-after-free (`victim.as_ref()`). Returns the nodes to add to the skipped list. -/
def removeVictims (p : Params) : List AoNode → SState → List AoNode → SState × List AoNode
  | [], s, sk => (s, sk)
  | v :: rest, s, sk =>
    match findAo s.prob v.id with
    | none => removeVictims p rest (s.fail .useAfterFree) sk
    | some _ =>
      match entryOfNode p s v.key v.info with
      | some ve =>
        let s := { s with map := AL.erase s.map v.key }
        removeVictims p rest (handleRemove s ve) sk
      | none => removeVictims p rest s (sk ++ [v])

def moveSkipped : List AoNode → SState → SState
  | [], s => s
  | n :: rest, s => moveSkipped rest (moveNodeToBackAo s n.id)

/-- Removal of the rejected candidate from the map: by key on the unrepaired tree, only
the very entry of the queued op after the D7 repair. -/
def removeCandidate (p : Params) (s : SState) (key : Nat) (ve : VE) : SState :=
  match AL.get? s.map key with
  | some cur => if p.q.d7 || cur.id == ve.id then { s with map := AL.erase s.map key } else s
  | none => s

/-- "Is the entry of this queued op still the map's entry for its key?" (D7 repair) -/
def isCurrentEntry (s : SState) (key : Nat) (ve : VE) : Bool :=
  match AL.get? s.map key with
  | some cur => cur.info == ve.info
  | none => false

/-- "The candidate is too big to fit in the cache." -/
def tooBig (p : Params) (weight : Nat) : Bool :=
  match p.cap with
  | some maxCap => decide (weight > maxCap)
  | none => false

/-- The `match Self::admit(..)` part of `handle_upsert`. -/
def admitOrReject (p : Params) (s : SState) (key : Nat) (hash : UInt64) (ve : VE) (newW : Nat) :
    SState :=
  let cf := s.sk.frequency hash
  let a := admitLoop p s newW cf s.prob {}
  if a.vw ≥ newW ∧ cf > a.vf then
    let (s, skipped) := removeVictims p a.victims s a.skipped
    let s := handleAdmit p s key hash ve newW
    moveSkipped skipped s
  else
    let s := removeCandidate p s key ve
    moveSkipped a.skipped s

/-- The "already admitted" branch of `handle_upsert`: an update. -/
def applyUpdate (p : Params) (s : SState) (ve : VE) (oldW newW : Nat) : SState :=
  let s := subCounters s 0 (if p.q.d8 then oldW else (getInfo s ve.info).weight)
  let s := addCounters s 0 newW
  let s := if p.q.d8 then s else withInfo s ve.info (fun i => { i with weight := newW })
  let s := moveToBackAoE s ve.info
  moveToBackWoE s ve.info

/-- The weight `handle_upsert` accounts: that of the value the map holds now for this entry
(write ops of different threads may be queued in another order than their map updates), or
the op's own if the entry is no longer the map's (D10 repair). -/
def currentWeight (p : Params) (s : SState) (key : Nat) (ve : VE) (newW : Nat) : Nat :=
  if p.q.d10 then newW
  else match AL.get? s.map key with
    | some cur => if cur.info == ve.info then p.weigh key cur.val else newW
    | none => newW

/-- `handle_upsert`. -/
def handleUpsert (p : Params) (s : SState) (key : Nat) (hash : UInt64) (ve : VE)
    (oldW newW0 : Nat) : SState :=
  let newW := currentWeight p s key ve newW0
  let s := withInfo s ve.info (fun i => { i with dirty := false })
  if (getInfo s ve.info).admitted then applyUpdate p s ve oldW newW
  else if !p.q.d7 && !isCurrentEntry s key ve then s
  else if hasEnoughCapacity p newW s then handleAdmit p s key hash ve newW
  else if tooBig p newW then removeCandidate p s key ve
  else admitOrReject p s key hash ve newW

def applyWrite (p : Params) (s : SState) : WOp → SState
  | .upsert key hash ve oldW newW => handleUpsert p s key hash ve oldW newW
  | .remove _ ve => handleRemove s ve

def applyWrites (p : Params) : Nat → SState → SState
  | 0, s => s
  | n + 1, s =>
    match s.writeQ with
    | [] => s
    | op :: rest => applyWrites p n (applyWrite p { s with writeQ := rest } op)

/-! ### eviction -/

/-- `try_skip_updated_entry`; the Boolean is its return value. -/
def trySkipUpdated (s : SState) (key : Nat) : SState × Bool :=
  match AL.get? s.map key with
  | some ve =>
    if (getInfo s ve.info).dirty then (moveToBackWoE (moveToBackAoE s ve.info) ve.info, true)
    else (s, false)
  | none =>
    match s.prob with
    | n :: _ => (moveNodeToBackAo s n.id, true)
    | [] => (s, true)

def removeExpiredAo (p : Params) : Nat → SState → SState
  | 0, s => s
  | fuel + 1, s =>
    match s.prob with
    | [] => s
    | n :: _ =>
      if expiredTs p.tti s.va (getInfo s n.info).la s.now then
        let victim := match entryOfNode p s n.key n.info with
          | some ve => if expiredTs p.tti s.va (getInfo s ve.info).la s.now then some ve else none
          | none => none
        match victim with
        | some ve =>
          removeExpiredAo p fuel (handleRemove { s with map := AL.erase s.map n.key } ve)
        | none =>
          let (s, cont) := trySkipUpdated s n.key
          if cont then removeExpiredAo p fuel s else s
      else s

def removeExpiredWo (p : Params) : Nat → SState → SState
  | 0, s => s
  | fuel + 1, s =>
    match s.wo with
    | [] => s
    | n :: _ =>
      if expiredTs p.ttl s.va (getInfo s n.info).lm s.now then
        let victim := match entryOfNode p s n.key n.info with
          | some ve => if expiredTs p.ttl s.va (getInfo s ve.info).lm s.now then some ve else none
          | none => none
        match victim with
        | some ve =>
          removeExpiredWo p fuel (handleRemove { s with map := AL.erase s.map n.key } ve)
        | none =>
          match AL.get? s.map n.key with
          | some ve =>
            if (getInfo s ve.info).dirty then
              removeExpiredWo p fuel (moveToBackWoE (moveToBackAoE s ve.info) ve.info)
            else s
          | none => removeExpiredWo p fuel (moveNodeToBackWo s n.id)
      else s

def evictExpired (p : Params) (s : SState) : SState :=
  let s := if p.ttl.isSome then removeExpiredWo p Gen.SYNC_EVICTION_BATCH_SIZE s else s
  if p.tti.isSome || s.va.isSome then removeExpiredAo p Gen.SYNC_EVICTION_BATCH_SIZE s else s

def evictLruLoop (p : Params) : Nat → SState → Nat → Nat → SState
  | 0, s, _, _ => s
  | fuel + 1, s, wte, evicted =>
    if evicted ≥ wte then s
    else
      match s.prob with
      | [] => s
      | n :: _ =>
        let ni := getInfo s n.info
        if ni.dirty then
          let (s, cont) := trySkipUpdated s n.key
          if cont then evictLruLoop p fuel s wte evicted else s
        else
          let victim := match entryOfNode p s n.key n.info with
            | some ve => if (getInfo s ve.info).lm == ni.lm then some ve else none
            | none => none
          match victim with
          | some ve =>
            let w := (getInfo s ve.info).weight
            evictLruLoop p fuel (handleRemove { s with map := AL.erase s.map n.key } ve) wte
              (evicted + w)
          | none =>
            let (s, cont) := trySkipUpdated s n.key
            if cont then evictLruLoop p fuel s wte evicted else s

def weightsToEvict (p : Params) (s : SState) : Nat :=
  match p.cap with
  | some limit => s.cws - limit
  | none => 0

def shouldEnableSketch (p : Params) (s : SState) : Bool :=
  if s.skOn then false
  else match p.cap with
    | some maxCap => s.cws ≥ maxCap / 2
    | none => false

def enableSketch (p : Params) (s : SState) : SState :=
  match p.cap with
  | some maxCap =>
    let cap := if !p.hasWeigher then maxCap else p.capF s.cec s.cws maxCap
    { s with sk := s.sk.ensureCapacity (Sketch.sketchCapacity cap), skOn := true }
  | none => s

/-- The `while should_sync && calls <= max_repeats` loop of `Inner::sync`. -/
def syncLoop (p : Params) : Nat → SState → SState
  | 0, s => s
  | fuel + 1, s =>
    let s := if s.readQ.length > 0 then applyReads p s.readQ.length s else s
    let s := if s.writeQ.length > 0 then applyWrites p s.writeQ.length s else s
    let s := if shouldEnableSketch p s then enableSketch p s else s
    if s.readQ.length ≥ Gen.READ_LOG_FLUSH_POINT || s.writeQ.length ≥ Gen.WRITE_LOG_FLUSH_POINT
    then syncLoop p fuel s else s

/-- `Inner::sync(max_repeats)`. -/
def syncRun (p : Params) (s : SState) : SState :=
  let s := { s with cec := s.ec, cws := s.ws }
  let s := syncLoop p (Gen.MAX_SYNC_REPEATS + 1) s
  let s := if p.hasExpiry || s.va.isSome then evictExpired p s else s
  let wte := weightsToEvict p s
  let s := if wte > 0 then evictLruLoop p Gen.SYNC_EVICTION_BATCH_SIZE s wte 0 else s
  { s with ec := s.cec, ws := s.cws }

/-! ### housekeeper -/

def shouldApply (s : SState) (len flushPoint : Nat) : Bool :=
  len ≥ flushPoint || s.syncAfter ≥ s.now

/-- `Housekeeper::try_sync`. -/
def trySync (p : Params) (s : SState) : SState :=
  if s.running then s
  else
    let s := { s with running := true,
                      syncAfter := s.now + Gen.PERIODICAL_SYNC_INTERVAL_MILLIS * 1000000 }
    let s := syncRun p s
    { s with running := false }

/-- `schedule_write_op`: the retry loop, with fuel; running out of fuel means the loop
never leaves (the write queue stays full). -/
def scheduleWriteOp (p : Params) : Nat → SState → WOp → SState
  | 0, s, _ => s.fail .hang
  | fuel + 1, s, op =>
    let s := if shouldApply s s.writeQ.length Gen.WRITE_LOG_FLUSH_POINT then trySync p s else s
    if s.writeQ.length < Gen.WRITE_LOG_SIZE then { s with writeQ := s.writeQ ++ [op] }
    else scheduleWriteOp p fuel s op

/-- `record_read_op`: maintenance if due, then `try_send` (dropped when full). -/
def recordReadOp (p : Params) (s : SState) (op : ROp) : SState :=
  let s := if shouldApply s s.readQ.length Gen.READ_LOG_FLUSH_POINT then trySync p s else s
  if s.readQ.length < Gen.READ_LOG_SIZE then { s with readQ := s.readQ ++ [op] } else s

/-! ### public API -/

/-- `new_value_entry_from`: the shared info is marked dirty and re-timed (and, on the
unrepaired tree, given the new weight at once). -/
def refreshInfo (p : Params) (s : SState) (i : Nat) (ts weight : Nat) : SState :=
  withInfo s i (fun x =>
    { x with dirty := true, la := ts, lm := ts, weight := if p.q.d8 then weight else x.weight })

def insert (p : Params) (s : SState) (k v : Nat) : SState :=
  let ts := s.now
  let weight := p.weigh k v
  let hash := p.hash k
  match AL.get? s.map k with
  | some old =>
    let oldW := (getInfo s old.info).weight
    let s := refreshInfo p s old.info ts weight
    let ve : VE := { id := s.nextId, val := v, info := old.info, slot := old.slot }
    let s := { s with nextId := s.nextId + 1, map := AL.put s.map k ve }
    scheduleWriteOp p 3 s (.upsert k hash ve oldW weight)
  | none =>
    let infoId := s.nextId
    let ve : VE := { id := s.nextId + 1, val := v, info := infoId, slot := s.nextId + 1 }
    let info : Info :=
      { key := k, admitted := false, dirty := true, la := ts, lm := ts, weight := weight }
    let s := { s with nextId := s.nextId + 2, infos := AL.put s.infos infoId info,
                      map := AL.put s.map k ve }
    scheduleWriteOp p 3 s (.upsert k hash ve 0 weight)

def get (p : Params) (s : SState) (k : Nat) : SState × Option Nat :=
  let now := s.now
  let hash := p.hash k
  match AL.get? s.map k with
  | none => (recordReadOp p s (.miss hash), none)
  | some ve =>
    if isExpiredInfo p s (getInfo s ve.info) now then (recordReadOp p s (.miss hash), none)
    else (recordReadOp p s (.hit hash ve now), some ve.val)

def containsKey (p : Params) (s : SState) (k : Nat) : Bool :=
  match AL.get? s.map k with
  | none => false
  | some ve => !isExpiredInfo p s (getInfo s ve.info) s.now

def iter (p : Params) (s : SState) : List (Nat × Nat) :=
  (s.map.filter (fun kv => !isExpiredInfo p s (getInfo s kv.2.info) s.now)).map
    (fun kv => (kv.1, kv.2.val))

def invalidate (p : Params) (s : SState) (k : Nat) : SState :=
  match AL.get? s.map k with
  | none => s
  | some ve =>
    let s := { s with map := AL.erase s.map k }
    scheduleWriteOp p 3 s (.remove k ve)

def invalidateAll (s : SState) : SState := { s with va := some s.now }

/-! ### snapshot and step -/

def entryView (s : SState) (kv : Nat × VE) : EntryView :=
  let i := getInfo s kv.2.info
  { key := kv.1, val := kv.2.val, weight := i.weight, la := some i.la, lm := some i.lm,
    aoOk := match i.ao with
      | some id => (match findAo s.prob id with | some n => n.key == kv.1 | none => false)
      | none => false,
    woOk := match i.wo with
      | some id => (match findWo s.wo id with | some n => n.key == kv.1 | none => false)
      | none => true,
    admitted := i.admitted, dirty := i.dirty }

def snapshot (p : Params) (s : SState) : Snap :=
  { ec := s.ec, ws := s.ws,
    entries := sortBy (·.key) (s.map.map (entryView s)),
    prob := s.prob.map (fun n =>
      { key := n.key, ts := some (getInfo s n.info).la,
        current := match AL.get? s.map n.key with
          | some ve => ve.info == n.info
          | none => false }),
    wo := s.wo.map (fun n =>
      { key := n.key, ts := some (getInfo s n.info).lm,
        current := match AL.get? s.map n.key with
          | some ve => ve.info == n.info
          | none => false }),
    skOn := s.skOn, skSize := s.sk.size, skSample := s.sk.sampleSize,
    skLen := s.sk.table.size, skCrc := s.sk.crc,
    freqs := sortBy (·.1) (s.map.map (fun kv => (kv.1, s.sk.frequency (p.hash kv.1)))),
    rq := s.readQ.length, wq := s.writeQ.length, va := s.va,
    hkRunning := s.running, hkAfter := s.syncAfter, now := s.now,
    liveK := countDistinct (s.map.map (·.2.slot) ++ s.prob.map (·.kobj) ++ s.wo.map (·.kobj) ++
      s.writeQ.map (fun op => match op with
        | .upsert _ _ ve _ _ => ve.id
        | .remove _ ve => ve.slot)),
    liveV := countDistinct (s.map.map (·.2.id) ++
      s.writeQ.map (fun op => match op with
        | .upsert _ _ ve _ _ => ve.id
        | .remove _ ve => ve.id) ++
      s.readQ.filterMap (fun op => match op with
        | .hit _ ve _ => some ve.id
        | .miss _ => none)) }

def step (p : Params) (s : SState) (op : Op) : SState × Obs :=
  if s.fault.isSome then (s, .badOp)
  else
    let r : SState × Obs := match op with
      | .ins k v => (insert p s k v, .ok)
      | .get k => let (s', v) := get p s k; (s', .val v)
      | .has k => (s, .bool (containsKey p s k))
      | .iter => (s, .iter (sortBy (·.1) (iter p s)))
      | .inv k => (invalidate p s k, .ok)
      | .invAll => (invalidateAll s, .ok)
      | .invIf _ => (s, .badOp)
      | .sync => (syncRun p s, .ok)
      | .adv d => ({ s with now := s.now + d }, .ok)
      | .snap => (s, .snap (snapshot p s))
      | .freq k => (s, .freq (s.sk.frequency (p.hash k)))
    match r.1.fault with
    | some f => (r.1, .panic f)
    | none => r

def run (p : Params) : SState → List Op → List (Op × Obs)
  | _, [] => []
  | s, op :: rest =>
    let (s', o) := step p s op
    (op, o) :: run p s' rest

def trace (p : Params) (h : List Op) : List (Op × Obs) := run p {} h

end Sync
end MiniMoka
