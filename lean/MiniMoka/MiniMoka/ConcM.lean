/-
  `sync::Cache` used by any number of threads, with maintenance runs that are NOT atomic.

  `MiniMoka/ConcS.lean` treats a whole maintenance run (`Inner::sync`) as one step.  In the
  code the run holds the deques mutex, but the concurrent map and the two channels are shared:
  other threads' `insert` / `invalidate` / `get` map operations and their sends interleave
  *inside* a run: between the application of two queued operations, between two iterations
  of the expiry and LRU eviction loops.  This is where the repaired D7 defects lived
  (maintenance addressing map entries by key only).

  Here a run by thread `t` is a sequence of atomic micro-steps driven by a small program
  counter (`Phase`), and between any two of them every other thread may take its `ConcS`
  steps (`insMap`, `invMap`, `getMap`, `enq`, `tick`, `invAll`):

   * `mBegin t explicit`: the run starts.  Housekeeping run (`explicit = false`,
     `Housekeeper::try_sync`): the flag is taken (`running := true`) and the deadline set, as
     `Sync.trySync` does; explicit run (`ConcurrentCacheExt::sync`): neither.  Both copy the
     published counters into the run-local ones (`cec := ec`, `cws := ws`) and enter the first
     pass of the `while should_sync` loop, reading `read_op_ch.len()`.
     While a run is in progress: another thread's `try_sync` finds the flag taken and returns
     (step enabled, nothing happens) if the run is a housekeeping run, and blocks (not
     enabled) if it is an explicit one (it would take the flag and then wait for the deques
     mutex); an explicit `sync` blocks on the mutex (not enabled).
   * `mStep t`: the next micro-step of `t`'s run, by phase:
       `reads f n`   (mRead)     apply ONE queued read (`Sync.applyRead`); when `n` reads have
                                 been applied (or the queue is empty) read `write_op_ch.len()`;
       `writes f n`  (mWrite)    apply ONE queued write (`Sync.applyWrite`: the whole
                                 `handle_upsert` / `handle_remove` of that operation);
       `enable f`    (mEnable)   the sketch-enable check, then the loop condition: another pass
                                 (`f` passes left, as `MAX_SYNC_REPEATS` allows) or on to eviction;
       `expireWo n`  (mExpireWo) ONE iteration of `remove_expired_wo` (`expireWoBody`);
       `expireAo n`  (mExpireAo) ONE iteration of `remove_expired_ao` (`expireAoBody`);
       `lru n wte ev` (mEvictLru) ONE iteration of `evict_lru_entries` (`lruBody`);
       `finish`      (mEnd)      publish `ec := cec`, `ws := cws`, release the flag.
     Run back to back with nothing in between, the micro-steps compose to `Sync.trySync` /
     `Sync.syncRun` (`Lemmas/ConcM.lean`: `run_is_trySync`, `run_is_syncRun`), so every `ConcS`
     execution is a `ConcM` execution.

  Still NOT modelled: the several map accesses of ONE operation inside `handle_upsert`
  (`cache.get(key)` for the current entry, `remove_if` of the candidate, `remove_if` of each
  victim of the admission scan) and inside one iteration of an eviction loop are one atomic
  step; memory ordering (all steps sequentially consistent); the internals of DashMap and of
  the crossbeam channels; a `try_sync` that has taken the flag but is still waiting for the
  deques mutex held by an explicit `sync`.
-/
import MiniMoka.Sync
import MiniMoka.ConcS

namespace MiniMoka
namespace ConcM

open Sync ConcS

/-- Program counter of a maintenance run. -/
inductive Phase where
  | reads (fuel n : Nat)
  | writes (fuel n : Nat)
  | enable (fuel : Nat)
  | expireWo (n : Nat)
  | expireAo (n : Nat)
  | lru (n wte ev : Nat)
  | finish
  deriving Repr, DecidableEq, Inhabited

structure Run where
  tid : Tid
  explicit : Bool
  phase : Phase
  deriving Repr, Inhabited

structure MState where
  s : SState := {}
  pending : List (Tid × Pend) := []
  run : Option Run := none
  deriving Repr, Inhabited

inductive Ev where
  /-- a step of `ConcS` other than `maint` / `sync` -/
  | other (e : ConcS.Ev)
  | mBegin (t : Tid) (explicit : Bool)
  | mStep (t : Tid)
  deriving Repr, Inhabited

/-! ### one iteration of each eviction loop -/

/-- One iteration of `Sync.removeExpiredAo`; the Boolean says whether the loop goes on. -/
def expireAoBody (p : Params) (s : SState) : SState × Bool :=
  match s.prob with
  | [] => (s, false)
  | n :: _ =>
    if expiredTs p.tti s.va (getInfo s n.info).la s.now then
      let victim := match entryOfNode p s n.key n.info with
        | some ve => if expiredTs p.tti s.va (getInfo s ve.info).la s.now then some ve else none
        | none => none
      match victim with
      | some ve => (handleRemove { s with map := AL.erase s.map n.key } ve, true)
      | none => trySkipUpdated s n.key
    else (s, false)

/-- One iteration of `Sync.removeExpiredWo`. -/
def expireWoBody (p : Params) (s : SState) : SState × Bool :=
  match s.wo with
  | [] => (s, false)
  | n :: _ =>
    if expiredTs p.ttl s.va (getInfo s n.info).lm s.now then
      let victim := match entryOfNode p s n.key n.info with
        | some ve => if expiredTs p.ttl s.va (getInfo s ve.info).lm s.now then some ve else none
        | none => none
      match victim with
      | some ve => (handleRemove { s with map := AL.erase s.map n.key } ve, true)
      | none =>
        match AL.get? s.map n.key with
        | some ve =>
          if (getInfo s ve.info).dirty then
            (moveToBackWoE (moveToBackAoE s ve.info) ve.info, true)
          else (s, false)
        | none => (moveNodeToBackWo s n.id, true)
    else (s, false)

/-- One iteration of `Sync.evictLruLoop`: new state, evicted weight so far, whether the loop
goes on. -/
def lruBody (p : Params) (s : SState) (wte evicted : Nat) : SState × Nat × Bool :=
  if evicted ≥ wte then (s, evicted, false)
  else
    match s.prob with
    | [] => (s, evicted, false)
    | n :: _ =>
      let ni := getInfo s n.info
      if ni.dirty then
        ((trySkipUpdated s n.key).1, evicted, (trySkipUpdated s n.key).2)
      else
        let victim := match entryOfNode p s n.key n.info with
          | some ve => if (getInfo s ve.info).lm == ni.lm then some ve else none
          | none => none
        match victim with
        | some ve =>
          (handleRemove { s with map := AL.erase s.map n.key } ve,
           evicted + (getInfo s ve.info).weight, true)
        | none => ((trySkipUpdated s n.key).1, evicted, (trySkipUpdated s n.key).2)

/-! ### the program of a run -/

def lruStart (p : Params) (s : SState) : Phase :=
  if weightsToEvict p s > 0 then .lru Gen.SYNC_EVICTION_BATCH_SIZE (weightsToEvict p s) 0
  else .finish

def aoStart (p : Params) (s : SState) : Phase :=
  if p.tti.isSome || s.va.isSome then .expireAo Gen.SYNC_EVICTION_BATCH_SIZE else lruStart p s

/-- Where the run goes when the `while should_sync` loop is over. -/
def afterLoop (p : Params) (s : SState) : Phase :=
  if p.hasExpiry || s.va.isSome then
    (if p.ttl.isSome then .expireWo Gen.SYNC_EVICTION_BATCH_SIZE else aoStart p s)
  else lruStart p s

/-- Start of a pass of the loop with `fuel` passes left. -/
def passStart (p : Params) (fuel : Nat) (s : SState) : Phase :=
  match fuel with
  | 0 => afterLoop p s
  | f + 1 => .reads f s.readQ.length

/-- The state in which a run starts. -/
def beginRun (s : SState) (explicit : Bool) : SState :=
  if explicit then { s with cec := s.ec, cws := s.ws }
  else
    let s : SState := { s with running := true,
                               syncAfter := s.now + Gen.PERIODICAL_SYNC_INTERVAL_MILLIS * 1000000 }
    { s with cec := s.ec, cws := s.ws }

/-- One micro-step: the new state and the next phase (`none`: the run is over). -/
def micro (p : Params) (explicit : Bool) (s : SState) : Phase → SState × Option Phase
  | .reads f 0 => (s, some (.writes f s.writeQ.length))
  | .reads f (n + 1) =>
    match s.readQ with
    | [] => (s, some (.writes f s.writeQ.length))
    | op :: rest => (applyRead p { s with readQ := rest } op, some (.reads f n))
  | .writes f 0 => (s, some (.enable f))
  | .writes f (n + 1) =>
    match s.writeQ with
    | [] => (s, some (.enable f))
    | op :: rest => (applyWrite p { s with writeQ := rest } op, some (.writes f n))
  | .enable f =>
    let s := if shouldEnableSketch p s then enableSketch p s else s
    if s.readQ.length ≥ Gen.READ_LOG_FLUSH_POINT || s.writeQ.length ≥ Gen.WRITE_LOG_FLUSH_POINT
    then (s, some (passStart p f s)) else (s, some (afterLoop p s))
  | .expireWo 0 => (s, some (aoStart p s))
  | .expireWo (n + 1) =>
    if (expireWoBody p s).2 then ((expireWoBody p s).1, some (.expireWo n))
    else ((expireWoBody p s).1, some (aoStart p (expireWoBody p s).1))
  | .expireAo 0 => (s, some (lruStart p s))
  | .expireAo (n + 1) =>
    if (expireAoBody p s).2 then ((expireAoBody p s).1, some (.expireAo n))
    else ((expireAoBody p s).1, some (lruStart p (expireAoBody p s).1))
  | .lru 0 _ _ => (s, some .finish)
  | .lru (n + 1) wte ev =>
    if (lruBody p s wte ev).2.2 then
      ((lruBody p s wte ev).1, some (.lru n wte (lruBody p s wte ev).2.1))
    else ((lruBody p s wte ev).1, some .finish)
  | .finish =>
    if explicit then ({ s with ec := s.cec, ws := s.cws }, none)
    else ({ ({ s with ec := s.cec, ws := s.cws } : SState) with running := false }, none)

/-- Is this a step of `ConcS` that `ConcM` takes over unchanged? -/
def isPlain : ConcS.Ev → Bool
  | .maint _ => false
  | .sync _ => false
  | _ => true

def step (p : Params) (c : MState) : Ev → Option MState
  | .other e =>
    if isPlain e then
      (ConcS.step p ⟨c.s, c.pending⟩ e).map fun c' => { c with s := c'.s, pending := c'.pending }
    else none
  | .mBegin t explicit =>
    match c.run with
    | some _ => if explicit then none else if c.s.running then some c else none
    | none =>
      some { c with s := beginRun c.s explicit,
                    run := some { tid := t, explicit := explicit,
                                  phase := passStart p (Gen.MAX_SYNC_REPEATS + 1)
                                    (beginRun c.s explicit) } }
  | .mStep t =>
    match c.run with
    | none => none
    | some r =>
      if r.tid = t then
        some { c with s := (micro p r.explicit c.s r.phase).1,
                      run := (micro p r.explicit c.s r.phase).2.map
                        fun ph => { r with phase := ph } }
      else none

def runEvs (p : Params) : MState → List Ev → Option MState
  | c, [] => some c
  | c, e :: rest =>
    match step p c e with
    | some c' => runEvs p c' rest
    | none => none

inductive Reach (p : Params) : MState → Prop where
  | init : Reach p {}
  | step {c c' : MState} (e : Ev) : Reach p c → step p c e = some c' → Reach p c'

end ConcM
end MiniMoka
