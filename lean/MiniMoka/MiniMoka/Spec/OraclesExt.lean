/-
  Oracles added after the first set (`Spec/Oracles.lean`); same conventions: executable `Bool`
  functions over `Trace`, mentioning only what exists on both sides, each backed by a theorem
  in `Props/` stating that it accepts every trace of the model.
-/
import MiniMoka.Spec.Oracles

namespace MiniMoka
namespace Spec

/-- C12, growth eviction with stale residents (single-threaded cache, white-box window
`snap(before), lookup, snap(after)`): some residents of `before` may already be past a
deadline when the lookup runs, and the cache may be over capacity (an in-place update made an
entry heavier).  The lookup first purges the stale residents — all of them, there being at most
one batch — and only then works off the excess that REMAINS: exactly the shortest prefix of the
remaining residents in recency order that covers `live weight - cap` leaves (nothing, if the
live residents fit).  `growthC12` is the special case without stale residents.  A purge in the
other order (size eviction while the stale residents still count) evicts live entries that did
not have to go. -/
def growthExpC12 (cap : Nat) (ttl tti : Option Nat) (batch : Nat) : Trace → Bool
  | (.snap, .snap before) :: (op, ob) :: (.snap, .snap after) :: rest =>
    (let lookup := match op with
       | .has _ => true
       | .get _ => true
       | _ => false
     let ok := before.entries.all (fun e => e.aoOk) && before.prob.all (·.current) &&
       decide (before.entries.length ≤ batch)
     let live := before.entries.filter (entryLiveAt ttl tti after.now none)
     let liveKeys := live.map (·.key)
     let liveWs := (live.map (·.weight)).sum
     let order := (lruOrder before).filter (liveKeys.contains ·)
     let victims := match shortestPrefix before (liveWs - cap) order 0 [] with
       | some pre => pre
       | none => order
     !(lookup && ok) || sameKeys (keysOf after) (liveKeys.filter (fun x => !victims.contains x))) &&
    (match ob with
     | .panic _ => true
     | _ => growthExpC12 cap ttl tti batch ((.snap, .snap after) :: rest))
  | _ :: rest => growthExpC12 cap ttl tti batch rest
  | [] => true

/-- Weight of key `x` in the growth window: the updated key weighs its NEW weight. -/
def growWeight (before : Snap) (k newW : Nat) (x : Nat) : Nat :=
  if x == k then newW else weightOfKey before x

/-- Shortest prefix of `order` whose weights (by `w`) reach `need` (`none` if even all of it does
not). -/
def shortestPrefixBy (w : Nat → Nat) (need : Nat) : List Nat → Nat → List Nat → Option (List Nat)
  | rest, got, acc =>
    if got ≥ need then some acc
    else match rest with
      | [] => none
      | x :: rest' => shortestPrefixBy w need rest' (got + w x) (acc ++ [x])

/-- The check of one growth window of the concurrent cache (see `growthC12Sync`). -/
def growthSyncOk (cap : Nat) (ttl tti : Option Nat) (wf : Nat → Nat → Nat) (batch : Nat)
    (before : Snap) (k v : Nat) (after : Snap) : Bool :=
  let quiet := before.rq == 0 && before.wq == 0 && after.rq == 0 && after.wq == 0
  let resident := (keysOf before).contains k
  let newW := wf k v
  let lives := !(ttl == some 0) && !(tti == some 0)
  let stillLive := before.entries.all (entryLiveAt ttl tti after.now after.va)
  let applies := quiet && calm cap ttl tti before && resident && lives && stillLive &&
    decide (newW ≤ cap) && decide (before.entries.length ≤ batch)
  !applies ||
    (let order := (lruOrder before).filter (fun x => x != k) ++ [k]
     let total := before.ws - weightOfKey before k + newW
     let victims := match shortestPrefixBy (growWeight before k newW) (total - cap) order 0 [] with
       | some pre => pre
       | none => order
     sameKeys (keysOf after) ((keysOf before).filter (fun x => !victims.contains x)))

/-- C12 on the concurrent cache with maintenance around the operation, growth eviction: windows
`sync, snap(before), [freq k,] ins k v, [snap,] sync, snap(after)` with empty queues in which `k`
is RESIDENT in a calm `before` (within capacity, nobody stale) and `v` is not heavier than the
capacity.  The update makes `k` the most recently used entry and changes the total weight to
`ws - old + new`; the maintenance run then removes exactly the shortest prefix of the recency
order (old order without `k`, then `k`) whose weights cover the excess over `cap` — nothing if
there is none — and nothing else.  (`admitC13Sync` speaks about fresh keys, `recencyC12` about
the order; no other rule spoke about WHO leaves after an entry of the concurrent cache grew.) -/
def growthC12Sync (cap : Nat) (ttl tti : Option Nat) (wf : Nat → Nat → Nat) (batch : Nat) :
    Trace → Bool
  | (.sync, .ok) :: (.snap, .snap before) :: (.ins k v, .ok) :: (.sync, .ok) ::
      (.snap, .snap after) :: rest =>
    growthSyncOk cap ttl tti wf batch before k v after &&
      growthC12Sync cap ttl tti wf batch ((.sync, .ok) :: (.snap, .snap after) :: rest)
  | (.sync, .ok) :: (.snap, .snap before) :: (.freq _, .freq _) :: (.ins k v, .ok) :: (.sync, .ok) ::
      (.snap, .snap after) :: rest =>
    growthSyncOk cap ttl tti wf batch before k v after &&
      growthC12Sync cap ttl tti wf batch ((.sync, .ok) :: (.snap, .snap after) :: rest)
  | (.sync, .ok) :: (.snap, .snap before) :: (.ins k v, .ok) :: (.snap, .snap mid) :: (.sync, .ok) ::
      (.snap, .snap after) :: rest =>
    growthSyncOk cap ttl tti wf batch before k v after &&
      growthC12Sync cap ttl tti wf batch ((.snap, .snap mid) :: (.sync, .ok) :: (.snap, .snap after) :: rest)
  | (.sync, .ok) :: (.snap, .snap before) :: (.freq _, .freq _) :: (.ins k v, .ok) :: (.snap, .snap mid) ::
      (.sync, .ok) :: (.snap, .snap after) :: rest =>
    growthSyncOk cap ttl tti wf batch before k v after &&
      growthC12Sync cap ttl tti wf batch ((.snap, .snap mid) :: (.sync, .ok) :: (.snap, .snap after) :: rest)
  | _ :: rest => growthC12Sync cap ttl tti wf batch rest
  | [] => true

/-! ### C13 on the concurrent cache: an admission that meets a node whose entry has left the map -/

/-- `before` without the resident `a` (its map entry, its access-order node, its estimate stay
where they are in the cache until the queued `Remove` is applied; the property speaks about
residents, and `a` is none any more). -/
def withoutKey (sn : Snap) (a : Nat) : Snap :=
  { sn with entries := sn.entries.filter (fun e => e.key != a),
            prob := sn.prob.filter (fun n => n.key != a) }

/-- The decision for a fresh key `k` inserted into a calm, quiescent, full cache whose resident
`a` is invalidated BEFORE the maintenance run that decides on `k`: `a`'s node is still in the
access-order queue when the victim scan runs, its weight is still accounted (so there is no room
although `a` has gone), but `a` is no resident: the candidate is compared with the shortest prefix
of the OTHER residents in LRU order whose weights reach its own, and `a`'s popularity does not
count. Afterwards the cache holds the residents of `before` without `a`, without the victims and
with `k` (admitted), or the residents of `before` without `a` (rejected). -/
def danglingOk (cap : Nat) (ttl tti : Option Nat) (wf : Nat → Nat → Nat)
    (before : Snap) (k v f a : Nat) (after : Snap) : Bool :=
  let w := wf k v
  let fresh := !(keysOf before).contains k
  let quiet := before.rq == 0 && before.wq == 0 && after.rq == 0 && after.wq == 0
  let applies := quiet && fresh && (keysOf before).contains a && calm cap ttl tti before &&
    decide (w ≤ cap) && decide (before.ws + w > cap) &&
    before.entries.all (entryLiveAt ttl tti after.now after.va)
  !applies ||
    (let rest := withoutKey before a
     match predictAdmission rest w f with
     | some victims =>
       sameKeys (keysOf after) (k :: (keysOf rest).filter (fun x => !victims.contains x))
     | none => sameKeys (keysOf after) (keysOf rest))

/-- Windows `sync, snap(before), freq k, ins k v, [snap,] inv a, [snap,] sync, snap(after)`. -/
def admitDanglingC13 (cap : Nat) (ttl tti : Option Nat) (wf : Nat → Nat → Nat) : Trace → Bool
  | (.sync, .ok) :: (.snap, .snap before) :: (.freq k, .freq f) :: (.ins k' v, .ok) ::
      (.inv a, .ok) :: (.sync, .ok) :: (.snap, .snap after) :: rest =>
    (k != k' || danglingOk cap ttl tti wf before k v f a after) &&
      admitDanglingC13 cap ttl tti wf ((.sync, .ok) :: (.snap, .snap after) :: rest)
  | (.sync, .ok) :: (.snap, .snap before) :: (.freq k, .freq f) :: (.ins k' v, .ok) :: (.snap, .snap m1) ::
      (.inv a, .ok) :: (.snap, .snap m2) :: (.sync, .ok) :: (.snap, .snap after) :: rest =>
    (k != k' || danglingOk cap ttl tti wf before k v f a after) &&
      admitDanglingC13 cap ttl tti wf
        ((.snap, .snap m1) :: (.inv a, .ok) :: (.snap, .snap m2) :: (.sync, .ok) :: (.snap, .snap after) :: rest)
  | _ :: rest => admitDanglingC13 cap ttl tti wf rest
  | [] => true

end Spec
end MiniMoka
