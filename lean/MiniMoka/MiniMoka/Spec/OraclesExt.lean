/-
  Oracles added after the first set (`Spec/Oracles.lean`); same conventions: executable `Bool`
  functions over `Trace`, mentioning only what exists on both sides, each backed by a theorem
  in `Props/` stating that it accepts every trace of the model.
-/
import MiniMoka.Spec.Oracles

namespace MiniMoka
namespace Spec

/-- C12, growth eviction with stale residents (single-threaded cache, white-box window
`snap(before), lookup, snap(after)`): some residents of `before` may already be past a
deadline when the lookup runs, and the cache may be over capacity (an in-place update made an
entry heavier).  The lookup first purges the stale residents — all of them, there being at most
one batch — and only then works off the excess that REMAINS: exactly the shortest prefix of the
remaining residents in recency order that covers `live weight - cap` leaves (nothing, if the
live residents fit).  `growthC12` is the special case without stale residents.  A purge in the
other order (size eviction while the stale residents still count) evicts live entries that did
not have to go. -/
def growthExpC12 (cap : Nat) (ttl tti : Option Nat) (batch : Nat) : Trace → Bool
  | (.snap, .snap before) :: (op, ob) :: (.snap, .snap after) :: rest =>
    (let lookup := match op with
       | .has _ => true
       | .get _ => true
       | _ => false
     let ok := before.entries.all (fun e => e.aoOk) && before.prob.all (·.current) &&
       decide (before.entries.length ≤ batch)
     let live := before.entries.filter (entryLiveAt ttl tti after.now none)
     let liveKeys := live.map (·.key)
     let liveWs := (live.map (·.weight)).sum
     let order := (lruOrder before).filter (liveKeys.contains ·)
     let victims := match shortestPrefix before (liveWs - cap) order 0 [] with
       | some pre => pre
       | none => order
     !(lookup && ok) || sameKeys (keysOf after) (liveKeys.filter (fun x => !victims.contains x))) &&
    (match ob with
     | .panic _ => true
     | _ => growthExpC12 cap ttl tti batch ((.snap, .snap after) :: rest))
  | _ :: rest => growthExpC12 cap ttl tti batch rest
  | [] => true

end Spec
end MiniMoka
