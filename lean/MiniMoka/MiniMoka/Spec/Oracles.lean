/-
  One executable Boolean oracle per property, over a trace of (operation, observation)
  pairs.  The oracles mention only what exists both in the models and (through the
  hooks) in the implementation, so the same function judges model traces (in the
  theorems of `Props/`) and implementation traces (at run time, `mmdriver oracle`).
-/
import MiniMoka.Types

namespace MiniMoka
namespace Spec

abbrev Trace := List (Op × Obs)

inductive Kind where
  | unsync | sync
  deriving Repr, DecidableEq, Inhabited

/-- No observation is an internal panic (C08, black-box part). -/
def noPanic (t : Trace) : Bool :=
  t.all fun oo => match oo.2 with
    | .panic _ => false
    | _ => true

/-! ### C10: counters equal physical holdings -/

def snapCountersOk (sn : Snap) : Bool :=
  sn.ec == sn.entries.length && sn.ws == (sn.entries.map (·.weight)).sum

/-- Unsync: after every operation. Sync: at every snapshot taken with both queues empty
right after a maintenance run (`sync`), the published counters equal what the map holds. -/
def oracleC10 (kind : Kind) (t : Trace) : Bool :=
  match kind with
  | .unsync => t.all fun oo => match oo.2 with
      | .snap sn => snapCountersOk sn
      | _ => true
  | .sync =>
    let rec go : Trace → Bool
      | (.sync, _) :: (.snap, .snap sn) :: rest =>
        (if sn.rq == 0 && sn.wq == 0 then snapCountersOk sn else true) && go rest
      | _ :: rest => go rest
      | [] => true
    go t

end Spec
end MiniMoka
