/-
  One executable Boolean oracle per property, over a trace of (operation, observation)
  pairs.  The oracles mention only what exists both in the models and (through the
  hooks) in the implementation, so the same function judges model traces (in the
  theorems of `Props/`) and implementation traces (at run time, `mmdriver oracle`).
-/
import MiniMoka.Types

namespace MiniMoka
namespace Spec

abbrev Trace := List (Op × Obs)

inductive Kind where
  | unsync | sync
  deriving Repr, DecidableEq, Inhabited

/-- No observation is an internal panic (C08, black-box part). -/
def noPanic (t : Trace) : Bool :=
  t.all fun oo => match oo.2 with
    | .panic _ => false
    | _ => true

/-- The popularity readings `freq k` that white-box histories issue before every insert are
hook reads that change nothing (`C15_sync_step`, `C15_unsync_iter_step`: they are pure); the
window rules that look at `snapshot, operation, snapshot` judge the trace without them. For
model traces this is the trace of the history without those reads. -/
def noFreq (t : Trace) : Trace :=
  t.filter fun oo => match oo.1 with
    | .freq _ => false
    | _ => true

/-! ### C10: counters equal physical holdings -/

def snapCountersOk (w : Nat → Nat → Nat) (sn : Snap) : Bool :=
  sn.ec == sn.entries.length && sn.ws == (sn.entries.map (·.weight)).sum &&
  sn.ws == (sn.entries.map (fun e => w e.key e.val)).sum

/-- `w` is the configured weigher (constantly 1 without one): the counters must agree with
the weights stored per entry *and* with the weigher applied to the resident key/value.
Unsync: after every operation. Sync: at every snapshot taken with both queues empty
right after a maintenance run (`sync`), the published counters equal what the map holds. -/
def oracleC10 (kind : Kind) (w : Nat → Nat → Nat) (t : Trace) : Bool :=
  match kind with
  | .unsync => t.all fun oo => match oo.2 with
      | .snap sn => snapCountersOk w sn
      | _ => true
  | .sync =>
    let rec go : Trace → Bool
      | (.sync, _) :: (.snap, .snap sn) :: rest =>
        (if sn.rq == 0 && sn.wq == 0 then snapCountersOk w sn else true) && go rest
      | _ :: rest => go rest
      | [] => true
    go t

/-! ### C11: live key / value objects

The harness uses instrumented key and value types that count constructions, clones and
drops; the models track object identities. Whenever nothing is queued (always, on the
single-threaded cache; after `sync()` on the concurrent one) the number of live key objects
and the number of live value objects both equal the number of entries the map holds. The
observation of `drop` (the last handle to the cache goes, operations possibly still
queued) is represented as a snapshot of an empty cache carrying the live counts, so the
same rule demands that everything is released. -/

def liveOk (sn : Snap) : Bool :=
  !(sn.rq == 0 && sn.wq == 0) ||
    (sn.liveK == sn.entries.length && sn.liveV == sn.entries.length)

/-- Between maintenance runs of the concurrent cache the extra live objects are bounded by
what the queues hold: each queued write pins at most one key and one value object, each
queued read at most one value object. -/
def liveBounded (sn : Snap) : Bool :=
  decide (sn.liveK ≤ sn.entries.length + sn.prob.length + sn.wo.length + sn.wq) &&
  decide (sn.liveV ≤ sn.entries.length + sn.wq + sn.rq)

def oracleC11 : Trace → Bool
  | [] => true
  | (_, .panic _) :: _ => true
  | (_, .badOp) :: _ => true
  | (_, .snap sn) :: rest => liveOk sn && liveBounded sn && oracleC11 rest
  | _ :: rest => oracleC11 rest

/-! ### C14 on the caches: only lookups feed the estimator

White-box: across an operation that is not a `get` (and, on the concurrent cache, with no
recorded read waiting to be applied) the popularity estimate of every key that is resident
before and after stays what it was, unless the sketch was switched on in between (it starts
empty, so every estimate is then 0). -/

def freqsKept (before after : Snap) : Bool :=
  before.freqs.all fun kf =>
    match after.freqs.find? (fun kf' => kf'.1 == kf.1) with
    | some kf' => kf'.2 == kf.2 || (!before.skOn && after.skOn && kf'.2 == 0)
    | none => true

def onlyGetC14 : Trace → Bool
  | (.snap, .snap before) :: (op, ob) :: (.snap, .snap after) :: rest =>
    (let isGet := match op with
       | .get _ => true
       | _ => false
     isGet || !(before.rq == 0) || freqsKept before after) &&
    (match ob with
     | .panic _ => true
     | _ => onlyGetC14 ((.snap, .snap after) :: rest))
  | _ :: rest => onlyGetC14 rest
  | [] => true

/-! ### Reference bookkeeping for the lookup properties (C01, C05, C06, C07, C16)

The oracle walks the trace keeping, per key, the value and clock reading of the most recent
`insert`, the clock reading of the most recent insert/update/successful `get`, and whether
that insert has since been invalidated. -/

structure GEntry where
  val : Nat
  tIns : Nat
  tAcc : Nat
  alive : Bool
  deriving Repr, DecidableEq, Inhabited

structure Ghost where
  now : Nat := 0
  ents : List (Nat × GEntry) := []
  deriving Repr, Inhabited

/-- Keys (with the value when the lookup shows one) that an observation yields. -/
def yields : Op → Obs → List (Nat × Option Nat)
  | .get k, .val (some v) => [(k, some v)]
  | .has k, .bool true => [(k, none)]
  | .iter, .iter l => l.map fun kv => (kv.1, some kv.2)
  | _, _ => []

def killIf (f : Nat → GEntry → Bool) : List (Nat × GEntry) → List (Nat × GEntry)
  | [] => []
  | (k, ge) :: rest => (k, if f k ge then { ge with alive := false } else ge) :: killIf f rest

def ghostStep (kind : Kind) (g : Ghost) (op : Op) (obs : Obs) : Ghost :=
  match op, obs with
  | .ins k v, _ => { g with ents := AL.put g.ents k { val := v, tIns := g.now, tAcc := g.now, alive := true } }
  | .get k, .val (some _) =>
    match AL.get? g.ents k with
    | some ge => { g with ents := AL.put g.ents k { ge with tAcc := g.now } }
    | none => g
  | .inv k, _ => { g with ents := killIf (fun k' _ => k' == k) g.ents }
  | .invAll, _ =>
    match kind with
    | .unsync => { g with ents := killIf (fun _ _ => true) g.ents }
    | .sync => { g with ents := killIf (fun _ ge => ge.tIns < g.now) g.ents }
  | .invIf p, _ => { g with ents := killIf (fun k ge => p.eval k ge.val) g.ents }
  | .adv d, _ => { g with now := g.now + d }
  | _, _ => g

/-- C01: a yielded key has a most recent insert that is not invalidated, and a yielded
value is exactly the value of that insert. -/
def checkC01 (g : Ghost) (kv : Nat × Option Nat) : Bool :=
  match AL.get? g.ents kv.1 with
  | some ge => ge.alive && (match kv.2 with
      | some v => v == ge.val
      | none => true)
  | none => false

/-- C05: a yielded key was inserted/updated less than `ttl` ago. -/
def checkC05 (ttl : Option Nat) (g : Ghost) (kv : Nat × Option Nat) : Bool :=
  match ttl with
  | none => true
  | some d =>
    match AL.get? g.ents kv.1 with
    | some ge => decide (g.now < ge.tIns + d)
    | none => false

/-- C06: a yielded key was inserted, updated or successfully read less than `tti` ago. -/
def checkC06 (tti : Option Nat) (g : Ghost) (kv : Nat × Option Nat) : Bool :=
  match tti with
  | none => true
  | some d =>
    match AL.get? g.ents kv.1 with
    | some ge => decide (g.now < ge.tAcc + d)
    | none => false

/-- Observations after which a case is not judged any further by the lookup oracles: an
internal panic (that is C08's business; the harness ends the case there) and operations
the cache kind does not have. -/
def stops : Obs → Bool
  | .panic _ => true
  | .badOp => true
  | _ => false

def lookupOracle (kind : Kind) (check : Ghost → Nat × Option Nat → Bool) : Ghost → Trace → Bool
  | _, [] => true
  | g, (op, obs) :: rest =>
    if stops obs then true
    else (yields op obs).all (check g) && lookupOracle kind check (ghostStep kind g op obs) rest

def oracleC01 (kind : Kind) (t : Trace) : Bool := lookupOracle kind checkC01 {} t
def oracleC05 (kind : Kind) (ttl : Option Nat) (t : Trace) : Bool :=
  lookupOracle kind (checkC05 ttl) {} t
def oracleC06 (kind : Kind) (tti : Option Nat) (t : Trace) : Bool :=
  lookupOracle kind (checkC06 tti) {} t

/-! ### C07: invalidation is immediate, permanent and precise -/

/-- Immediate and permanent: a yielded key is not one whose most recent insert has been
invalidated (same bookkeeping as C01). -/
def checkC07 (g : Ghost) (kv : Nat × Option Nat) : Bool :=
  match AL.get? g.ents kv.1 with
  | some ge => ge.alive
  | none => false

def residentKeys (sn : Snap) : List (Nat × Nat) := sn.entries.map fun e => (e.key, e.val)

/-- Precise (white-box, on consecutive snapshots around an invalidation call of the
single-threaded cache, which performs no other maintenance in `invalidate_all` and
`invalidate_entries_if`): exactly the targeted entries leave the map. -/
def preciseC07 : Trace → Bool
  | (.snap, .snap before) :: (.invIf pr, .ok) :: (.snap, .snap after) :: rest =>
    (residentKeys after == (residentKeys before).filter (fun kv => !pr.eval kv.1 kv.2)) &&
      preciseC07 ((.snap, .snap after) :: rest)
  | (.snap, .snap _) :: (.invAll, .ok) :: (.snap, .snap after) :: rest =>
    (residentKeys after == []) && preciseC07 ((.snap, .snap after) :: rest)
  | _ :: rest => preciseC07 rest
  | [] => true

def oracleC07 (kind : Kind) (t : Trace) : Bool :=
  lookupOracle kind checkC07 {} t &&
  (match kind with
   | .unsync => preciseC07 t
   | .sync => true)

/-! ### C16: iteration yields every live entry exactly once -/

def nodupKeys : List (Nat × Nat) → Bool
  | [] => true
  | (k, _) :: rest => !(rest.any (fun kv => kv.1 == k)) && nodupKeys rest

/-- An entry of a snapshot that iteration must yield at clock reading `now`. -/
def liveInSnap (ttl tti : Option Nat) (sn : Snap) (e : EntryView) : Bool :=
  !(expiredAt ttl e.lm sn.now) && !(expiredAt tti e.la sn.now) &&
  (match sn.va, e.lm, e.la with
   | some v, some lm, some la => !(decide (lm < v)) && !(decide (la < v))
   | _, _, _ => true)

/-- White-box: an `iter` observation immediately followed by a snapshot (neither changes the
state) yields exactly the unexpired residents of that snapshot, each once. -/
def exactC16 (ttl tti : Option Nat) : Trace → Bool
  | (.iter, .iter l) :: (.snap, .snap sn) :: rest =>
    nodupKeys l &&
    (l == ((sn.entries.filter (liveInSnap ttl tti sn)).map fun e => (e.key, e.val))) &&
    exactC16 ttl tti rest
  | (.iter, .iter l) :: rest => nodupKeys l && exactC16 ttl tti rest
  | _ :: rest => exactC16 ttl tti rest
  | [] => true

def oracleC16 (kind : Kind) (ttl tti : Option Nat) (t : Trace) : Bool :=
  lookupOracle kind checkC01 {} t && exactC16 ttl tti t

/-! ### C04: capacity bound -/

def snapWeight (sn : Snap) : Nat := (sn.entries.map (·.weight)).sum

/-- Single-threaded cache, white-box on consecutive snapshots `before, op, after`:
if the residents weighed at most `cap` before and the operation is not an in-place update
that makes an entry heavier, they weigh at most `cap` after; a fresh key heavier than `cap`
is never resident afterwards. -/
def boundC04 (cap : Nat) : Trace → Bool
  | (.snap, .snap before) :: (op, ob) :: (.snap, .snap after) :: rest =>
    (match op with
     | .ins k _ =>
       let wasThere := before.entries.any (fun e => e.key == k)
       let grew := match before.entries.find? (fun e => e.key == k), after.entries.find? (fun e => e.key == k) with
         | some b, some a => decide (b.weight < a.weight)
         | _, _ => false
       (grew || decide (snapWeight before > cap) || decide (snapWeight after ≤ cap)) &&
       (wasThere || (match after.entries.find? (fun e => e.key == k) with
                     | some a => decide (a.weight ≤ cap)
                     | none => true))
     | _ => decide (snapWeight before > cap) || decide (snapWeight after ≤ cap)) &&
    (match ob with
     | .panic _ => true
     | _ => boundC04 cap ((.snap, .snap after) :: rest))
  | _ :: rest => boundC04 cap rest
  | [] => true

/-- Single-threaded cache: excess (which only an update that made an entry heavier can
create) is worked off by every lookup that follows: after a `get` / `contains_key` issued
over capacity the residents are within capacity again, or a full eviction batch has left. -/
def workedOffC04 (cap batch : Nat) : Trace → Bool
  | (.snap, .snap before) :: (op, ob) :: (.snap, .snap after) :: rest =>
    (let lookup := match op with
       | .has _ => true
       | .get _ => true
       | _ => false
     !(lookup && decide (snapWeight before > cap)) || decide (snapWeight after ≤ cap) ||
       decide (after.entries.length + batch ≤ before.entries.length)) &&
    (match ob with
     | .panic _ => true
     | _ => workedOffC04 cap batch ((.snap, .snap after) :: rest))
  | _ :: rest => workedOffC04 cap batch rest
  | [] => true

/-- `boundC04Sync` with the number `n` of `insert` calls seen so far (an upper bound of the
number of entries the map holds). -/
def boundC04SyncGo (cap : Nat) : Nat → Trace → Bool
  | n, (.snap, .snap mid) :: (.sync, .ok) :: (.snap, .snap after) :: rest =>
    decide (mid.entries.length ≤ mid.ec + mid.wq + 1) &&
    (!(after.rq == 0 && after.wq == 0) || decide (snapWeight after ≤ cap) ||
      decide (after.entries.length + Gen.SYNC_EVICTION_BATCH_SIZE ≤ mid.entries.length)) &&
    boundC04SyncGo cap n ((.snap, .snap after) :: rest)
  | n, (.sync, .ok) :: (.snap, .snap after) :: rest =>
    (!(after.rq == 0 && after.wq == 0) || decide (snapWeight after ≤ cap) ||
      decide (after.entries.length + Gen.SYNC_EVICTION_BATCH_SIZE ≤ n)) &&
    boundC04SyncGo cap n ((.snap, .snap after) :: rest)
  | n, (.snap, .snap sn) :: rest =>
    decide (sn.entries.length ≤ sn.ec + sn.wq + 1) && boundC04SyncGo cap n rest
  | n, (.ins _ _, _) :: rest => boundC04SyncGo cap (n + 1) rest
  | n, _ :: rest => boundC04SyncGo cap n rest
  | _, [] => true

/-- Concurrent cache: at every snapshot the map holds at most
`entry_count + |write queue| + 1` entries; at every snapshot taken right after `sync` with
both queues empty the residents weigh at most `cap`, unless that maintenance run has
removed a full eviction batch (`SYNC_EVICTION_BATCH_SIZE` entries): compared with the snapshot
taken right before the `sync` if there is one, otherwise with the number of `insert` calls so
far (an upper bound of the number of entries). Excess can only come from updates that make an
entry heavier; each maintenance run works it off one batch at a time. (An earlier version
tolerated excess only above 400 residents; the prover of `C04_sync` showed a history of the
current code on which that is false: 501 zero-weight residents and one growing update.) -/
def boundC04Sync (cap : Nat) (t : Trace) : Bool := boundC04SyncGo cap 0 t

def oracleC04 (kind : Kind) (cap : Option Nat) (t : Trace) : Bool :=
  match cap, kind with
  | none, _ => true
  | some c, .unsync => boundC04 c t && workedOffC04 c Gen.UNSYNC_EVICTION_BATCH_SIZE t
  | some c, .sync => boundC04Sync c t

/-! ### C03: no spurious loss -/

/-- Reference entry for C03: besides the bookkeeping of `GEntry`, `tSure` is the latest access
time the idle timer is *guaranteed* to have seen (on the concurrent cache a get extends it
only once maintenance has applied the read) and `maybeDead` marks entries inserted at the
very clock reading of an `invalidate_all` (the property only speaks about strictly earlier
ones). -/
structure REntry where
  val : Nat
  tIns : Nat
  tAcc : Nat
  tSure : Nat
  alive : Bool
  maybeDead : Bool := false
  deriving Repr, DecidableEq, Inhabited

structure Ref where
  now : Nat := 0
  ents : List (Nat × REntry) := []
  deriving Repr, Inhabited

def mapEnts (f : Nat → REntry → REntry) : List (Nat × REntry) → List (Nat × REntry)
  | [] => []
  | (k, e) :: rest => (k, f k e) :: mapEnts f rest

def refStep (kind : Kind) (r : Ref) (op : Op) (obs : Obs) : Ref :=
  match op, obs with
  | .ins k v, _ =>
    let e : REntry := { val := v, tIns := r.now, tAcc := r.now, tSure := r.now, alive := true }
    { r with ents := AL.put r.ents k e }
  | .get k, .val (some _) =>
    match AL.get? r.ents k with
    | some e =>
      let e' : REntry := { e with tAcc := r.now, tSure := if kind == .unsync then r.now else e.tSure }
      { r with ents := AL.put r.ents k e' }
    | none => r
  | .sync, _ => { r with ents := mapEnts (fun _ e => { e with tSure := e.tAcc }) r.ents }
  | .inv k, _ => { r with ents := mapEnts (fun k' e => if k' == k then { e with alive := false } else e) r.ents }
  | .invAll, _ =>
    match kind with
    | .unsync => { r with ents := mapEnts (fun _ e => { e with alive := false }) r.ents }
    | .sync => { r with ents := mapEnts (fun _ e =>
        if e.tIns < r.now then { e with alive := false }
        else if e.tIns == r.now then { e with maybeDead := true } else e) r.ents }
  | .invIf p, _ => { r with ents := mapEnts (fun k e => if p.eval k e.val then { e with alive := false } else e) r.ents }
  | .adv d, _ => { r with now := r.now + d }
  | _, _ => r

/-- The entry must be observable at `r.now`: inserted, not invalidated, neither expiry
deadline reached (with the guaranteed access time). -/
def mustLive (ttl tti : Option Nat) (r : Ref) (e : REntry) : Bool :=
  e.alive && !e.maybeDead &&
  (match ttl with
   | some d => decide (r.now < e.tIns + d)
   | none => true) &&
  (match tti with
   | some d => decide (r.now < e.tSure + d)
   | none => true)

/-- Part A (capacity none, or never reached): every lookup returns exactly what the
map-with-expiry reference requires. -/
def exactC03 (kind : Kind) (ttl tti : Option Nat) : Ref → Trace → Bool
  | _, [] => true
  | r, (op, obs) :: rest =>
    if stops obs then true
    else
      (match op, obs with
       | .get k, .val res =>
         (match AL.get? r.ents k with
          | some e => !(mustLive ttl tti r e) || res == some e.val
          | none => true)
       | .has k, .bool b =>
         (match AL.get? r.ents k with
          | some e => !(mustLive ttl tti r e) || b
          | none => true)
       | .iter, .iter l =>
         r.ents.all fun ke => !(mustLive ttl tti r ke.2) || l.contains (ke.1, ke.2.val)
       | _, _ => true) &&
      exactC03 kind ttl tti (refStep kind r op obs) rest

/-- Total weight ever inserted, an upper bound for what can be resident at once. -/
def totalInserted (w : Nat → Nat → Nat) : Trace → Nat
  | [] => 0
  | (.ins k v, _) :: rest => w k v + totalInserted w rest
  | _ :: rest => totalInserted w rest

def entryLiveAt (ttl tti : Option Nat) (now : Nat) (va : Option Nat) (e : EntryView) : Bool :=
  !(expiredAt ttl e.lm now) && !(expiredAt tti e.la now) &&
  (match va, e.lm, e.la with
   | some v, some lm, some la => !(decide (lm < v)) && !(decide (la < v))
   | _, _, _ => true)

/-- Part B on the single-threaded cache (white-box, consecutive snapshots around an insert of
a key that is not resident): if its weight fits in the room the residents leave, it is
resident afterwards and no resident that is still unexpired has left. -/
def fitsC03 (cap : Nat) (ttl tti : Option Nat) (w : Nat → Nat → Nat) : Trace → Bool
  | (.snap, .snap before) :: (.freq _, .freq _) :: (.ins k v, .ok) :: (.snap, .snap after) :: rest =>
    (let fresh := !(before.entries.any (fun e => e.key == k))
     let fits := decide (snapWeight before + w k v ≤ cap)
     !(fresh && fits) ||
       (after.entries.any (fun e => e.key == k && e.val == v) &&
        before.entries.all (fun e => !(entryLiveAt ttl tti after.now none e) ||
          after.entries.any (fun e' => e'.key == e.key)))) &&
    fitsC03 cap ttl tti w ((.snap, .snap after) :: rest)
  | (.snap, .snap before) :: (.ins k v, .ok) :: (.snap, .snap after) :: rest =>
    (let fresh := !(before.entries.any (fun e => e.key == k))
     let fits := decide (snapWeight before + w k v ≤ cap)
     !(fresh && fits) ||
       (after.entries.any (fun e => e.key == k && e.val == v) &&
        before.entries.all (fun e => !(entryLiveAt ttl tti after.now none e) ||
          after.entries.any (fun e' => e'.key == e.key)))) &&
    fitsC03 cap ttl tti w ((.snap, .snap after) :: rest)
  | _ :: rest => fitsC03 cap ttl tti w rest
  | [] => true

/-- Part B on the concurrent cache: `sync, snap, ins k v, sync, snap` with empty queues. -/
def fitsCheckSync (cap : Nat) (ttl tti : Option Nat) (w : Nat → Nat → Nat) (before : Snap)
    (k v : Nat) (after : Snap) : Bool :=
  let fresh := !(before.entries.any (fun e => e.key == k))
  let quiet := before.rq == 0 && before.wq == 0 && after.rq == 0 && after.wq == 0
  let fits := decide (snapWeight before + w k v ≤ cap)
  let lives := !(ttl == some 0) && !(tti == some 0)      -- not expired the moment it is inserted
  !(fresh && quiet && fits && lives) ||
    (after.entries.any (fun e => e.key == k && e.val == v) &&
     before.entries.all (fun e => !(entryLiveAt ttl tti after.now after.va e) ||
       after.entries.any (fun e' => e'.key == e.key)))

/-- The inserts of a segment that ends with `sync, snap`: `some (k, last value, heaviest
value's weight, after)` if the segment consists of inserts of one key only (snapshots and
popularity readings in between are allowed), `none` otherwise. -/
def collectInserts (w : Nat → Nat → Nat) : Trace → Option (Nat × Nat × Nat) → Option (Nat × Nat × Nat × Snap)
  | (.sync, .ok) :: (.snap, .snap after) :: _, some (k, v, mw) => some (k, v, mw, after)
  | (.ins k v, .ok) :: rest, none => collectInserts w rest (some (k, v, w k v))
  | (.ins k v, .ok) :: rest, some (k0, _, mw) =>
    if k == k0 then collectInserts w rest (some (k, v, max mw (w k v))) else none
  | (.snap, .snap _) :: rest, acc => collectInserts w rest acc
  | (.freq _, .freq _) :: rest, acc => collectInserts w rest acc
  | _, _ => none

/-- Part B on the concurrent cache: between two snapshots taken right after `sync()` with
empty queues, one fresh key is inserted (possibly several times, the later inserts being
updates of a value whose first insert is still queued). If its latest value fits in the
room the residents leave, it is retained; if every inserted value fits, nothing unexpired is
evicted either. -/
def fitsC03Sync (cap : Nat) (ttl tti : Option Nat) (w : Nat → Nat → Nat) : Trace → Bool
  | [] => true
  | (.sync, .ok) :: (.snap, .snap before) :: rest =>
    (match collectInserts w rest none with
     | some (k, v, mw, after) =>
       let fresh := !(before.entries.any (fun e => e.key == k))
       let quiet := before.rq == 0 && before.wq == 0 && after.rq == 0 && after.wq == 0
       let lives := !(ttl == some 0) && !(tti == some 0)
       !(fresh && quiet && lives && decide (snapWeight before + w k v ≤ cap)) ||
         (after.entries.any (fun e => e.key == k && e.val == v) &&
          (!(decide (snapWeight before + mw ≤ cap)) ||
            before.entries.all (fun e => !(entryLiveAt ttl tti after.now after.va e) ||
              after.entries.any (fun e' => e'.key == e.key))))
     | none => true) && fitsC03Sync cap ttl tti w ((.snap, .snap before) :: rest)
  | _ :: rest => fitsC03Sync cap ttl tti w rest

def oracleC03 (kind : Kind) (cap ttl tti : Option Nat) (w : Nat → Nat → Nat) (t : Trace) : Bool :=
  (match cap with
   | none => exactC03 kind ttl tti {} t
   | some c => if totalInserted w t ≤ c then exactC03 kind ttl tti {} t else true) &&
  (match cap, kind with
   | some c, .unsync => fitsC03 c ttl tti w t
   | some c, .sync => fitsC03Sync c ttl tti w t
   | none, _ => true)

/-! ### C12 / C13: LRU victims and TinyLFU admission (white-box) -/

def weightOfKey (sn : Snap) (k : Nat) : Nat :=
  match sn.entries.find? (fun e => e.key == k) with
  | some e => e.weight
  | none => 0

def freqOfKey (sn : Snap) (k : Nat) : Nat :=
  match sn.freqs.find? (fun kf => kf.1 == k) with
  | some kf => kf.2
  | none => 0

/-- Shortest prefix of the recency order whose combined weight reaches `need`
(`none` if even the whole list does not). -/
def shortestPrefix (sn : Snap) (need : Nat) : List Nat → Nat → List Nat → Option (List Nat)
  | rest, got, acc =>
    if got ≥ need then some acc
    else match rest with
      | [] => none
      | k :: rest' => shortestPrefix sn need rest' (got + weightOfKey sn k) (acc ++ [k])

def lruOrder (sn : Snap) : List Nat := sn.prob.map (·.key)

def keysOf (sn : Snap) : List Nat := sn.entries.map (·.key)

def sameKeys (a b : List Nat) : Bool := a.all (b.contains ·) && b.all (a.contains ·)

/-- No resident is past an expiry deadline and the cache is not over capacity: the only thing
the next operation's maintenance could do is nothing. -/
def calm (cap : Nat) (ttl tti : Option Nat) (sn : Snap) : Bool :=
  decide (sn.ws ≤ cap) && sn.entries.all (entryLiveAt ttl tti sn.now sn.va) &&
  sn.entries.all (fun e => e.aoOk) && sn.prob.all (·.current)

/-- The admission decision for candidate `k` of weight `w` and popularity `f` against the
residents of `before`, by the closed formula of the property. `some victims` = admitted. -/
def predictAdmission (before : Snap) (w f : Nat) : Option (List Nat) :=
  match shortestPrefix before w (lruOrder before) 0 [] with
  | none => none
  | some pre => if f > (pre.map (freqOfKey before)).sum then some pre else none

def admissionOk (cap : Nat) (ttl tti : Option Nat) (wf : Nat → Nat → Nat)
    (before : Snap) (k v f : Nat) (after : Snap) : Bool :=
  let w := wf k v
  let fresh := !(keysOf before).contains k
  let applies := fresh && calm cap ttl tti before && decide (w ≤ cap) && decide (before.ws + w > cap)
  !applies ||
    (match predictAdmission before w f with
     | some victims =>
       sameKeys (keysOf after) (k :: (keysOf before).filter (fun x => !victims.contains x))
     | none => sameKeys (keysOf after) (keysOf before))

/-- Single-threaded cache: `snap, freq k, ins k v, snap`. -/
def admitC13 (cap : Nat) (ttl tti : Option Nat) (wf : Nat → Nat → Nat) : Trace → Bool
  | (.snap, .snap before) :: (.freq k, .freq f) :: (.ins k' v, .ok) :: (.snap, .snap after) :: rest =>
    (k != k' || admissionOk cap ttl tti wf before k v f after) &&
      admitC13 cap ttl tti wf ((.snap, .snap after) :: rest)
  | _ :: rest => admitC13 cap ttl tti wf rest
  | [] => true

/-- Concurrent cache with maintenance after every operation:
`sync, snap, freq k, ins k v, sync, snap` with empty queues. -/
def admitC13Sync (cap : Nat) (ttl tti : Option Nat) (wf : Nat → Nat → Nat) : Trace → Bool
  | (.sync, .ok) :: (.snap, .snap before) :: (.freq k, .freq f) :: (.ins k' v, .ok) :: (.sync, .ok) ::
      (.snap, .snap after) :: rest =>
    (k != k' || !(before.rq == 0 && before.wq == 0 && after.rq == 0 && after.wq == 0) ||
      admissionOk cap ttl tti wf before k v f after) &&
      admitC13Sync cap ttl tti wf ((.sync, .ok) :: (.snap, .snap after) :: rest)
  | (.sync, .ok) :: (.snap, .snap before) :: (.freq k, .freq f) :: (.ins k' v, .ok) :: (.snap, .snap mid) ::
      (.sync, .ok) :: (.snap, .snap after) :: rest =>
    (k != k' || !(before.rq == 0 && before.wq == 0 && after.rq == 0 && after.wq == 0) ||
      admissionOk cap ttl tti wf before k v f after) &&
      admitC13Sync cap ttl tti wf ((.snap, .snap mid) :: (.sync, .ok) :: (.snap, .snap after) :: rest)
  | _ :: rest => admitC13Sync cap ttl tti wf rest
  | [] => true

def oracleC13 (kind : Kind) (cap ttl tti : Option Nat) (wf : Nat → Nat → Nat) (t : Trace) : Bool :=
  match cap, kind with
  | none, _ => true
  | some c, .unsync => admitC13 c ttl tti wf t
  | some c, .sync => admitC13Sync c ttl tti wf t

/-- Growth eviction on the single-threaded cache: a snapshot over capacity (all residents
unexpired), then a lookup: exactly the shortest LRU prefix covering the excess leaves
(everything, if even that does not suffice; at most one batch). -/
def growthC12 (cap : Nat) (ttl tti : Option Nat) (batch : Nat) : Trace → Bool
  | (.snap, .snap before) :: (op, ob) :: (.snap, .snap after) :: rest =>
    (let lookup := match op with
       | .has _ => true
       | .get _ => true
       | _ => false
     let settled := before.entries.all (entryLiveAt ttl tti after.now none) &&
       before.entries.all (fun e => e.aoOk) && before.prob.all (·.current)
     let over := decide (before.ws > cap)
     !(lookup && settled && over && decide (before.entries.length ≤ batch)) ||
       (let victims := match shortestPrefix before (before.ws - cap) (lruOrder before) 0 [] with
          | some pre => pre
          | none => lruOrder before
        sameKeys (keysOf after) ((keysOf before).filter (fun x => !victims.contains x)))) &&
    (match ob with
     | .panic _ => true
     | _ => growthC12 cap ttl tti batch ((.snap, .snap after) :: rest))
  | _ :: rest => growthC12 cap ttl tti batch rest
  | [] => true

/-- State of the recency walk: the last quiescent snapshot, the keys used since (in order of
use) and whether the segment is one the rule speaks about. -/
structure RecSt where
  prev : Option Snap := none
  moved : List Nat := []
  valid : Bool := true

def quiescent (sn : Snap) : Bool := sn.rq == 0 && sn.wq == 0 && sn.prob.all (·.current)

/-- The recency order after a segment: the survivors in their old relative order, then the
keys used in the segment (insert, update, successful get) in order of use. -/
def expectedOrder (before after : Snap) (moved : List Nat) : List Nat :=
  let stay := lruOrder after
  (lruOrder before).filter (fun k => stay.contains k && !moved.contains k) ++
    moved.filter (stay.contains ·)

/-- "Recency is order of use": the access-order list seen in a quiescent snapshot is the one
of the previous quiescent snapshot with the key used in between moved to the most recently
used end and the departed keys removed. `multi` = the single-threaded cache, where any
number of uses between two snapshots is applied in program order; on the concurrent cache
the rule is applied to segments with at most one use (maintenance applies recorded reads
before recorded writes, so longer segments have their own order). -/
def recencyWalk (multi : Bool) : RecSt → Trace → Bool
  | _, [] => true
  | st, (op, ob) :: rest =>
    match ob with
    | .panic _ => true
    | .badOp => true
    | _ =>
    let use (k : Nat) : RecSt :=
      { st with moved := st.moved.filter (· != k) ++ [k], valid := st.valid && (multi || st.moved.isEmpty) }
    match op, ob with
    | .snap, .snap sn =>
      if quiescent sn then
        (match st.prev with
         | some b => !st.valid || lruOrder sn == expectedOrder b sn st.moved
         | none => true) && recencyWalk multi { prev := some sn } rest
      else recencyWalk multi st rest
    | .get k, .val (some _) => recencyWalk multi (use k) rest
    | .ins k _, _ => recencyWalk multi (use k) rest
    | _, _ => recencyWalk multi st rest

def recencyC12 (kind : Kind) (t : Trace) : Bool :=
  recencyWalk (kind == .unsync) {} t

/-- C12: whenever residents leave for size — at an admission (same patterns as C13) or to
work off an excess — they are the shortest sufficient prefix of the recency order, and the
recency order is the order of use. -/
def oracleC12 (kind : Kind) (cap ttl tti : Option Nat) (wf : Nat → Nat → Nat) (batch : Nat)
    (t : Trace) : Bool :=
  match cap, kind with
  | none, k => recencyC12 k t
  | some c, .unsync => admitC13 c ttl tti wf t && growthC12 c ttl tti batch t && recencyC12 .unsync t
  | some c, .sync => admitC13Sync c ttl tti wf t && recencyC12 .sync t

end Spec
end MiniMoka
