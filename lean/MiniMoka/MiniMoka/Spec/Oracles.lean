/-
  One executable Boolean oracle per property, over a trace of (operation, observation)
  pairs.  The oracles mention only what exists both in the models and (through the
  hooks) in the implementation, so the same function judges model traces (in the
  theorems of `Props/`) and implementation traces (at run time, `mmdriver oracle`).
-/
import MiniMoka.Types

namespace MiniMoka
namespace Spec

abbrev Trace := List (Op × Obs)

inductive Kind where
  | unsync | sync
  deriving Repr, DecidableEq, Inhabited

/-- No observation is an internal panic (C08, black-box part). -/
def noPanic (t : Trace) : Bool :=
  t.all fun oo => match oo.2 with
    | .panic _ => false
    | _ => true

/-! ### C10: counters equal physical holdings -/

def snapCountersOk (sn : Snap) : Bool :=
  sn.ec == sn.entries.length && sn.ws == (sn.entries.map (·.weight)).sum

/-- Unsync: after every operation. Sync: at every snapshot taken with both queues empty
right after a maintenance run (`sync`), the published counters equal what the map holds. -/
def oracleC10 (kind : Kind) (t : Trace) : Bool :=
  match kind with
  | .unsync => t.all fun oo => match oo.2 with
      | .snap sn => snapCountersOk sn
      | _ => true
  | .sync =>
    let rec go : Trace → Bool
      | (.sync, _) :: (.snap, .snap sn) :: rest =>
        (if sn.rq == 0 && sn.wq == 0 then snapCountersOk sn else true) && go rest
      | _ :: rest => go rest
      | [] => true
    go t

/-! ### Reference bookkeeping for the lookup properties (C01, C05, C06, C07, C16)

The oracle walks the trace keeping, per key, the value and clock reading of the most recent
`insert`, the clock reading of the most recent insert/update/successful `get`, and whether
that insert has since been invalidated. -/

structure GEntry where
  val : Nat
  tIns : Nat
  tAcc : Nat
  alive : Bool
  deriving Repr, DecidableEq, Inhabited

structure Ghost where
  now : Nat := 0
  ents : List (Nat × GEntry) := []
  deriving Repr, Inhabited

/-- Keys (with the value when the lookup shows one) that an observation yields. -/
def yields : Op → Obs → List (Nat × Option Nat)
  | .get k, .val (some v) => [(k, some v)]
  | .has k, .bool true => [(k, none)]
  | .iter, .iter l => l.map fun kv => (kv.1, some kv.2)
  | _, _ => []

def killIf (f : Nat → GEntry → Bool) : List (Nat × GEntry) → List (Nat × GEntry)
  | [] => []
  | (k, ge) :: rest => (k, if f k ge then { ge with alive := false } else ge) :: killIf f rest

def ghostStep (kind : Kind) (g : Ghost) (op : Op) (obs : Obs) : Ghost :=
  match op, obs with
  | .ins k v, _ => { g with ents := AL.put g.ents k { val := v, tIns := g.now, tAcc := g.now, alive := true } }
  | .get k, .val (some _) =>
    match AL.get? g.ents k with
    | some ge => { g with ents := AL.put g.ents k { ge with tAcc := g.now } }
    | none => g
  | .inv k, _ => { g with ents := killIf (fun k' _ => k' == k) g.ents }
  | .invAll, _ =>
    match kind with
    | .unsync => { g with ents := killIf (fun _ _ => true) g.ents }
    | .sync => { g with ents := killIf (fun _ ge => ge.tIns < g.now) g.ents }
  | .invIf p, _ => { g with ents := killIf (fun k ge => p.eval k ge.val) g.ents }
  | .adv d, _ => { g with now := g.now + d }
  | _, _ => g

/-- C01: a yielded key has a most recent insert that is not invalidated, and a yielded
value is exactly the value of that insert. -/
def checkC01 (g : Ghost) (kv : Nat × Option Nat) : Bool :=
  match AL.get? g.ents kv.1 with
  | some ge => ge.alive && (match kv.2 with
      | some v => v == ge.val
      | none => true)
  | none => false

/-- C05: a yielded key was inserted/updated less than `ttl` ago. -/
def checkC05 (ttl : Option Nat) (g : Ghost) (kv : Nat × Option Nat) : Bool :=
  match ttl with
  | none => true
  | some d =>
    match AL.get? g.ents kv.1 with
    | some ge => decide (g.now < ge.tIns + d)
    | none => false

/-- C06: a yielded key was inserted, updated or successfully read less than `tti` ago. -/
def checkC06 (tti : Option Nat) (g : Ghost) (kv : Nat × Option Nat) : Bool :=
  match tti with
  | none => true
  | some d =>
    match AL.get? g.ents kv.1 with
    | some ge => decide (g.now < ge.tAcc + d)
    | none => false

/-- Observations after which a case is not judged any further by the lookup oracles: an
internal panic (that is C08's business; the harness ends the case there) and operations
the cache kind does not have. -/
def stops : Obs → Bool
  | .panic _ => true
  | .badOp => true
  | _ => false

def lookupOracle (kind : Kind) (check : Ghost → Nat × Option Nat → Bool) : Ghost → Trace → Bool
  | _, [] => true
  | g, (op, obs) :: rest =>
    if stops obs then true
    else (yields op obs).all (check g) && lookupOracle kind check (ghostStep kind g op obs) rest

def oracleC01 (kind : Kind) (t : Trace) : Bool := lookupOracle kind checkC01 {} t
def oracleC05 (kind : Kind) (ttl : Option Nat) (t : Trace) : Bool :=
  lookupOracle kind (checkC05 ttl) {} t
def oracleC06 (kind : Kind) (tti : Option Nat) (t : Trace) : Bool :=
  lookupOracle kind (checkC06 tti) {} t

end Spec
end MiniMoka
