/-
  C03 part B on the concurrent cache, with the room computed from what the residents WEIGH
  rather than from the weight the cache has stored for them.

  `Spec.fitsC03Sync` takes "the room the residents leave" from the per-entry weights of the
  white-box snapshot, i.e. from the implementation's own record. The seeded change `C03i`
  (round 9) made that record wrong (a key written twice before its first write was applied stayed
  accounted with the first weight): fresh keys that fit beside the real residents were rejected,
  and the oracle agreed with the implementation because it trusted the stored weights. The
  property speaks about the weight of the live entries, so the variant below applies the configured
  weigher to the resident key/value pairs of the quiescent `before` snapshot.

  For model traces the two coincide: at a snapshot taken right after `sync()` with empty queues
  the stored weights sum to what the weigher gives (`C10_sync`), so `C03B_sync` carries over
  (`Props/C03W.lean`).
-/
import MiniMoka.Spec.Oracles

namespace MiniMoka
namespace Spec

/-- The configured weigher applied to the residents of a snapshot. -/
def snapWeightW (w : Nat → Nat → Nat) (sn : Snap) : Nat :=
  (sn.entries.map (fun e => w e.key e.val)).sum

/-- `fitsC03Sync` with `snapWeightW w before` in the place of `snapWeight before`. -/
def fitsC03SyncW (cap : Nat) (ttl tti : Option Nat) (w : Nat → Nat → Nat) : Trace → Bool
  | [] => true
  | (.sync, .ok) :: (.snap, .snap before) :: rest =>
    (match collectInserts w rest none with
     | some (k, v, mw, after) =>
       let fresh := !(before.entries.any (fun e => e.key == k))
       let quiet := before.rq == 0 && before.wq == 0 && after.rq == 0 && after.wq == 0
       let lives := !(ttl == some 0) && !(tti == some 0)
       !(fresh && quiet && lives && decide (snapWeightW w before + w k v ≤ cap)) ||
         (after.entries.any (fun e => e.key == k && e.val == v) &&
          (!(decide (snapWeightW w before + mw ≤ cap)) ||
            before.entries.all (fun e => !(entryLiveAt ttl tti after.now after.va e) ||
              after.entries.any (fun e' => e'.key == e.key))))
     | none => true) && fitsC03SyncW cap ttl tti w ((.snap, .snap before) :: rest)
  | _ :: rest => fitsC03SyncW cap ttl tti w rest

end Spec
end MiniMoka
