/-
  Model **T**: the two accesses of an UPDATE `insert(k, v)` of `mini_moka::sync::Cache` — ONE key,
  any number of threads — namely *read the clock* and, later, *write the map entry with that
  reading as its timestamp*.

  What is modelled.  `do_insert_with_hash` reads the expiration clock (`ts`), calls the user's
  weigher, and only then takes the shard's write guard and, for a resident key, builds the new
  value entry with `new_value_entry_from`, which stores `ts` into the `EntryInfo` the old and the
  new value share: `set_last_accessed(ts)`, `set_last_modified(ts)` — PLAIN stores.  Between the
  clock reading and the store other threads may advance the clock, update the same key with a later
  reading, and complete an `invalidate_all`.  The detailed models (`Sync`, `ConcS`, `ConcM`, `ConcF`)
  make reading and store one atomic step; this model splits them.

  `mono` selects how the shared timestamp is written:
    * `mono = false` : the code: a plain store, the timestamp of the key is the reading of the
                       insert whose value the map holds;
    * `mono = true`  : the seeded changes `C01h` / `C05i` ("timestamps only move forward"): the
                       store is `max old ts`: a writer that read the clock first but wrote last
                       leaves ITS value with the OTHER writer's later timestamp.

  State: the clock `now`; the watermark `va` (`invalidate_all`, atomic here — its own two steps
  are model `ConcV`); the slot `cur = some (v, r)`: the value the map holds and, GHOST, the clock
  reading of the insert that wrote it; `lm`: the `last_modified` of the key's `EntryInfo`, the only
  timestamp a lookup tests; `pend`: the inserts that have read the clock and not yet written,
  `(thread, value, reading)`.

  Events (`step mono ttl s ev : Option State`, `none` = not enabled):
   * `tick d`     : the clock advances by `d`;
   * `read t v`   : thread `t` (holding nothing) reads the clock for `insert(k, v)`;
   * `write t`    : thread `t` writes: `cur := (v, r)`, `lm := r` (or `max lm r`);
   * `invAll`     : `va := max va now`;
   * `get`        : returns `(v, r)` iff `cur = some (v, r)`, `¬ lm < va` and `¬ lm + ttl ≤ now`
                    (`expiredTs`, the test of `Sync`).

  NOT modelled: other keys, removal (an `invalidate(k)` or an eviction between the two steps makes
  the insert a fresh one with its own `EntryInfo`: nothing is shared), time-to-idle (same shape),
  capacity, queues, maintenance, memory ordering.

  Core Lean only.
-/

namespace MiniMoka
namespace ConcT

structure State where
  now : Nat := 0
  va : Option Nat := none
  cur : Option (Nat × Nat) := none
  lm : Nat := 0
  pend : List (Nat × Nat × Nat) := []
  deriving Repr, DecidableEq

inductive Ev where
  | tick (d : Nat)
  | read (t v : Nat)
  | write (t : Nat)
  | invAll
  | get
  deriving Repr, DecidableEq

def holds (s : State) (t : Nat) : Option (Nat × Nat) :=
  (s.pend.find? (fun p => p.1 == t)).map (fun p => p.2)

/-- The lookup's test of the shared timestamp (`Sync.expiredTs` for time-to-live). -/
def hidden (ttl : Option Nat) (s : State) : Bool :=
  (match s.va with
   | some v => decide (s.lm < v)
   | none => false) ||
  (match ttl with
   | some d => decide (s.lm + d ≤ s.now)
   | none => false)

def lookup (ttl : Option Nat) (s : State) : Option (Nat × Nat) :=
  match s.cur with
  | some vr => if hidden ttl s then none else some vr
  | none => none

def step (mono : Bool) (_ttl : Option Nat) (s : State) : Ev → Option State
  | .tick d => some { s with now := s.now + d }
  | .read t v =>
    match holds s t with
    | some _ => none
    | none => some { s with pend := s.pend ++ [(t, v, s.now)] }
  | .write t =>
    match holds s t with
    | none => none
    | some (v, r) =>
      some { s with cur := some (v, r),
                    lm := if mono then max s.lm r else r,
                    pend := s.pend.filter (fun p => p.1 != t) }
  | .invAll => some { s with va := some (match s.va with | some v => max v s.now | none => s.now) }
  | .get => some s

/-- Run a schedule; `none` if some event was not enabled. Observations: one per `get`, with the
clock and the watermark at that moment. -/
def run (mono : Bool) (ttl : Option Nat) :
    State → List Ev → Option (State × List (Option (Nat × Nat) × Nat × Option Nat))
  | s, [] => some (s, [])
  | s, ev :: rest =>
    match step mono ttl s ev with
    | none => none
    | some s' =>
      match run mono ttl s' rest with
      | none => none
      | some (sf, obs) =>
        match ev with
        | .get => some (sf, (lookup ttl s, s.now, s.va) :: obs)
        | _ => some (sf, obs)

end ConcT
end MiniMoka
