/-
  Model of `src/common/frequency_sketch.rs` (the 4-bit count-min sketch) and of
  `common::sketch_capacity`.

  The table is an array of 64-bit words as in the code; a word is read as sixteen
  4-bit counters by *arithmetic* (`w / 16^j % 16`).  The code's bit tricks
  (`+= 1 << off`, `(w >> 1) & RESET_MASK`, `(w & ONE_MASK).count_ones()`) are
  modelled by their arithmetic meaning on the counters; that they implement that
  meaning is checked word-for-word by the correspondence check (component `sketch`).
  The index computation mirrors the code's wrapping `u64` arithmetic exactly.
-/
import MiniMoka.Basic
import MiniMoka.Gen.Constants

namespace MiniMoka

structure Sketch where
  sampleSize : Nat := 0
  mask : Nat := 0
  table : Array Nat := #[]
  size : Nat := 0
  deriving Repr, Inhabited

namespace Sketch

def SEED : Nat → UInt64
  | 0 => Gen.SEED0.toUInt64
  | 1 => Gen.SEED1.toUInt64
  | 2 => Gen.SEED2.toUInt64
  | _ => Gen.SEED3.toUInt64

/-- `u32::next_power_of_two` for arguments up to 2^30 (fuel 32 suffices). -/
def nextPow2Go (n : Nat) : Nat → Nat → Nat
  | 0, p => p
  | fuel + 1, p => if n ≤ p then p else nextPow2Go n fuel (2 * p)

def nextPow2 (n : Nat) : Nat := nextPow2Go n 32 1

/-- `common::sketch_capacity`: `max_capacity.try_into().unwrap_or(u32::MAX).max(128)`. -/
def sketchCapacity (maxCapacity : Nat) : Nat :=
  max (min maxCapacity U32_MAX) Gen.SKETCH_MIN_CAPACITY

/-- `ensure_capacity` on a 64-bit target. `cap` is a `u32`. -/
def ensureCapacity (s : Sketch) (cap : Nat) : Sketch :=
  let maximum := min cap (2 ^ Gen.SKETCH_MAX_TABLE_POW)
  let tableSize := if maximum = 0 then 1 else nextPow2 maximum
  if s.table.size ≥ tableSize then s
  else
    { s with
      table := Array.replicate tableSize 0
      mask := tableSize - 1
      sampleSize := if cap = 0 then Gen.SKETCH_ZERO_CAP_SAMPLE
                    else min (min (maximum * Gen.SKETCH_SAMPLE_FACTOR) U32_MAX) 2147483647 }

/-- Counter `j` (0..15) of word `w`. -/
def nib (w j : Nat) : Nat := w / 16 ^ j % 16

/-- `index_of(hash, depth)` with the code's wrapping arithmetic. -/
def indexOf (s : Sketch) (hash : UInt64) (i : Nat) : Nat :=
  let seed := SEED i
  let h := (hash + seed) * seed
  let h := h + (h >>> 32)
  (h &&& s.mask.toUInt64).toNat

/-- `((hash & 3) << 2)`: the first of the four counter positions used by `hash`. -/
def start (hash : UInt64) : Nat := (hash.toNat % 4) * 4

def counterAt (s : Sketch) (hash : UInt64) (i : Nat) : Nat :=
  nib (s.table.getD (s.indexOf hash i) 0) (start hash + i)

/-- `frequency(hash)`: minimum of the four counters (0 for an empty table). -/
def frequency (s : Sketch) (hash : UInt64) : Nat :=
  if s.table.size = 0 then 0
  else
    min (min (s.counterAt hash 0) (s.counterAt hash 1))
        (min (s.counterAt hash 2) (s.counterAt hash 3))

/-- `increment_at`: add one to counter `j` of word `idx` unless it is 15. -/
def incrementAt (t : Array Nat) (idx j : Nat) : Array Nat × Bool :=
  let w := t.getD idx 0
  if nib w j ≠ 15 then (t.setIfInBounds idx (w + 16 ^ j), true) else (t, false)

def halveFrom (w : Nat) : Nat → Nat
  | 0 => 0
  | j + 1 => halveFrom w j + (nib w j / 2) * 16 ^ j

/-- `(w >> 1) & RESET_MASK`: every counter floor-halved. -/
def halveWord (w : Nat) : Nat := halveFrom w 16

def oddFrom (w : Nat) : Nat → Nat
  | 0 => 0
  | j + 1 => oddFrom w j + nib w j % 2

/-- `(w & ONE_MASK).count_ones()`: number of odd counters in the word. -/
def oddCount (w : Nat) : Nat := oddFrom w 16

/-- `reset()`. `legacy = true` is the formula of the unrepaired tree (defect D5). -/
def reset (legacy : Bool) (s : Sketch) : Except Fault Sketch :=
  let count := s.table.foldl (fun c w => c + oddCount w) 0
  if count > U32_MAX then .error .overflow
  else
    let table := s.table.map halveWord
    if legacy then
      if s.size / 2 < count / 4 then .error .overflow
      else .ok { s with table := table, size := s.size / 2 - count / 4 }
    else
      if s.size < count / 4 then .error .overflow
      else .ok { s with table := table, size := (s.size - count / 4) / 2 }

/-- `increment(hash)`. -/
def increment (legacy : Bool) (s : Sketch) (hash : UInt64) : Except Fault Sketch :=
  if s.table.size = 0 then .ok s
  else
    let st := start hash
    let (t, a0) := incrementAt s.table (s.indexOf hash 0) (st + 0)
    let (t, a1) := incrementAt t (s.indexOf hash 1) (st + 1)
    let (t, a2) := incrementAt t (s.indexOf hash 2) (st + 2)
    let (t, a3) := incrementAt t (s.indexOf hash 3) (st + 3)
    if a0 || a1 || a2 || a3 then
      if s.size + 1 > U32_MAX then .error .overflow
      else
        let s' := { s with table := t, size := s.size + 1 }
        if s'.size ≥ s'.sampleSize then reset legacy s' else .ok s'
    else .ok { s with table := t }

/-- FNV-1a style digest of the table words, for compact comparison with the
implementation's table. -/
def crc (s : Sketch) : UInt64 :=
  s.table.foldl (fun h w => (h ^^^ w.toUInt64) * 0x100000001b3) 0xcbf29ce484222325

end Sketch
end MiniMoka
