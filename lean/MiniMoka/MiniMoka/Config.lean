/-
  Model of the two cache builders, `Cache::new` and `Policy` (src/*/builder.rs,
  src/common/builder_utils.rs, src/policy.rs).  Durations are nanoseconds.
-/
import MiniMoka.Types

namespace MiniMoka
namespace Config

/-- The builder knobs as set by the caller (`None` = the method was not called). -/
structure Knobs where
  maxCapacity : Option Nat := none
  initialCapacity : Option Nat := none
  hasWeigher : Bool := false
  timeToLive : Option Nat := none
  timeToIdle : Option Nat := none
  deriving Repr, DecidableEq, Inhabited

/-- What `policy()` reports. -/
structure Policy where
  maxCapacity : Option Nat
  timeToLive : Option Nat
  timeToIdle : Option Nat
  deriving Repr, DecidableEq, Inhabited

/-- `Duration::from_secs(1_000 * YEAR_SECONDS)` in nanoseconds. -/
def maxDuration : Nat := Gen.MAX_DURATION_YEARS * Gen.YEAR_SECONDS * 1000000000

def tooLong : Option Nat → Bool
  | some d => decide (d > maxDuration)
  | none => false

/-- `CacheBuilder::build` / `build_with_hasher`: `ensure_expirations_or_panic`, then
`with_everything` copies the knobs. `initial_capacity` only sizes the hash table. -/
def build (k : Knobs) : Except Fault Policy :=
  if tooLong k.timeToLive then .error .builderTtl
  else if tooLong k.timeToIdle then .error .builderTti
  else .ok { maxCapacity := k.maxCapacity, timeToLive := k.timeToLive, timeToIdle := k.timeToIdle }

/-- `Cache::new(n)`: `with_everything(Some(n), None, hasher, None, None, None)`. -/
def new (n : Nat) : Policy := { maxCapacity := some n, timeToLive := none, timeToIdle := none }

/-- The parameters the cache models run with. -/
def params (k : Knobs) (w : Nat → Nat → Nat) (hash : Nat → UInt64) (capF : Nat → Nat → Nat → Nat) :
    Params :=
  { cap := k.maxCapacity, ttl := k.timeToLive, tti := k.timeToIdle, hasWeigher := k.hasWeigher,
    w := w, hash := hash, capF := capF }

end Config
end MiniMoka
