/-
  Model **R**: per-key coherence of the concurrent cache (`mini_moka::sync::Cache`)
  under every interleaving, any number of threads and operations.

  What is modelled.  Every public call touches the central `DashMap` in exactly one
  atomic per-key step:
    * `insert`      : `cache.entry(k).and_modify(..).or_insert_with(..)`  (writes the value)
    * `invalidate`  : `cache.remove(k)`
    * `get`         : `cache.get(k)`                                        (reads)
  and everything else a call does (queueing read/write ops, running maintenance) happens
  before or after that step.  Maintenance (`handle_upsert` rejection, `evict_lru_entries`,
  `remove_expired_ao/wo`), which any thread may run at any time, only ever *removes* keys
  (`remove` / `remove_if`) and never writes a value: it is the `daemon k` event.
  That DashMap's per-key operations are atomic is the trusted assumption; here it is the
  definition of a step.

  Remarks.
  * `invalidate_all` is outside R: it only moves a watermark that makes lookups ignore
    older entries (treated with C07 on the sequential models).
  * Filtered lookups.  `get_with_hash` reads the entry in its map step and then returns
    `None` if the entry is expired or older than the `invalidate_all` watermark, without
    touching the map.  With time-to-idle such an entry can become visible again (a queued
    read that is applied later moves `last_accessed` forward), so this is *not* a deletion.
    R therefore lets a `get` respond `none` whatever its map step read: `respond g none` is
    always allowed.  This makes R strictly more permissive than "respond with the value
    read"; every theorem below holds for the larger set of executions.

  This file is import-free (core Lean) apart from `MiniMoka.Basic`; it is linked into the
  native driver.  It contains (1) the model, (2) the trace vocabulary used by the theorems
  of `Props/C02.lean`, (3) the executable acceptor `acceptR` for recorded histories.
-/
import MiniMoka.Basic

namespace MiniMoka
namespace ConcR

abbrev Key := Nat
abbrev Val := Nat
abbrev Tid := Nat
abbrev Oid := Nat

/-! ## 1. The model -/

/-- Public operations of R. -/
inductive Op where
  | ins (k : Key) (v : Val)
  | del (k : Key)
  | get (k : Key)
  deriving DecidableEq, Repr, Inhabited

def Op.key : Op → Key
  | .ins k _ => k
  | .del k => k
  | .get k => k

/-- `ins` and `del` write the map, `get` only reads. -/
def Op.isWrite : Op → Bool
  | .get _ => false
  | _ => true

/-- Events of an execution.  `respond o r` carries the returned value `r` so that a trace
is self-describing; `step` rejects a response whose value is neither the one fixed at the
operation's map step (`none` for `ins`/`del`) nor `none` (see the remark on filtered
lookups at the top of this file). -/
inductive Ev where
  | invoke (t : Tid) (o : Oid) (op : Op)
  | mapStep (o : Oid)
  | respond (o : Oid) (r : Option Val)
  | daemon (k : Key)
  deriving DecidableEq, Repr, Inhabited

inductive Phase where
  | invoked | stepped | done
  deriving DecidableEq, Repr, Inhabited

/-- Bookkeeping for one operation instance. -/
structure OpRec where
  tid : Tid
  op : Op
  phase : Phase
  ret : Option Val
  deriving DecidableEq, Repr, Inhabited

/-- Shared map as an association list with at most one binding per key. -/
abbrev KV := List (Nat × Val)

def lookup (m : KV) (k : Key) : Option Val := AL.get? m k

def remove (m : KV) (k : Key) : KV := m.filter (fun p => p.1 ≠ k)

def store (m : KV) (k : Key) (v : Val) : KV := (k, v) :: remove m k

structure State where
  map : KV
  ops : List (Nat × OpRec)
  deriving Repr, Inhabited

def State.init : State := ⟨[], []⟩

/-- Thread `t` has no operation in flight. -/
def threadIdle (s : State) (t : Tid) : Bool :=
  s.ops.all (fun p => decide (p.2.tid ≠ t ∨ p.2.phase = Phase.done))

/-- One event.  `none` = the event is not allowed here (ill-formed execution). -/
def step (s : State) : Ev → Option State
  | .invoke t o op =>
    if (AL.get? s.ops o).isNone ∧ threadIdle s t = true then
      some { s with ops := AL.put s.ops o ⟨t, op, .invoked, none⟩ }
    else none
  | .mapStep o =>
    match AL.get? s.ops o with
    | none => none
    | some r =>
      if r.phase = .invoked then
        match r.op with
        | .ins k v =>
          some { map := store s.map k v, ops := AL.put s.ops o { r with phase := .stepped } }
        | .del k =>
          some { map := remove s.map k, ops := AL.put s.ops o { r with phase := .stepped } }
        | .get k =>
          some { map := s.map,
                 ops := AL.put s.ops o { r with phase := .stepped, ret := lookup s.map k } }
      else none
  | .respond o x =>
    match AL.get? s.ops o with
    | none => none
    | some r =>
      if r.phase = .stepped ∧ (x = r.ret ∨ x = none) then
        some { s with ops := AL.put s.ops o { r with phase := .done } }
      else none
  | .daemon k => some { s with map := remove s.map k }

/-- The semantics: a fold of `step` over the event list. -/
def runFrom (s : State) : List Ev → Option State
  | [] => some s
  | e :: es =>
    match step s e with
    | some s' => runFrom s' es
    | none => none

def run (evs : List Ev) : Option State := runFrom State.init evs

/-- Well-formed executions: per operation `invoke < mapStep < respond`, each at most once,
a thread has at most one operation in flight, responses carry the fixed value (or `none`). -/
def WF (evs : List Ev) : Prop := (run evs).isSome = true

instance (evs : List Ev) : Decidable (WF evs) := by unfold WF; infer_instance

/-! ## 2. Trace vocabulary (pure functions of the event list) -/

/-- Owner and operation of instance `o`: its (first) invocation in the trace. -/
def opOf : List Ev → Oid → Option (Tid × Op)
  | [], _ => none
  | .invoke t o' op :: es, o => if o' = o then some (t, op) else opOf es o
  | _ :: es, o => opOf es o

/-- The write an event performs on the map: `(k, some v)` stores, `(k, none)` deletes. -/
def effect (evs : List Ev) : Ev → Option (Key × Option Val)
  | .daemon k => some (k, none)
  | .mapStep o =>
    match opOf evs o with
    | some (_, .ins k v) => some (k, some v)
    | some (_, .del k) => some (k, none)
    | _ => none
  | _ => none

/-- Event `e` writes key `k` (map step of an `ins k _` / `del k`, or `daemon k`). -/
def writesKey (evs : List Ev) (e : Ev) (k : Key) : Bool :=
  match effect evs e with
  | some (k', _) => k' == k
  | none => false

/-- No event at a position in `[lo, hi)` writes key `k`. -/
def NoWriteIn (evs : List Ev) (k : Key) (lo hi : Nat) : Prop :=
  ∀ m, lo ≤ m → m < hi → ∀ e, evs[m]? = some e → writesKey evs e k = false

/-- Every invoked operation has responded (quiescence). -/
def complete (evs : List Ev) : Bool :=
  evs.all fun e =>
    match e with
    | .invoke _ o _ =>
      evs.any fun e' => match e' with
        | .respond o' _ => o' == o
        | _ => false
    | _ => true

/-! ## 3. Executable acceptor for recorded concurrent histories

A recorded history is a list of *completed* operations.  The two stamps of an operation are
values of one global counter that is incremented at every reading, taken at invocation and
at response, so `a.resStamp < b.invStamp` means "`a` completed before `b` began".

`acceptR h` decides whether some well-formed R-execution explains `h`: whether the map
step of every operation can be placed between its stamps (plus `daemon` steps anywhere) so
that every `get` returning a value returns what the map holds at its step.  Keys are
independent, so the question is decided per key.  For one key, a placement exists iff there
is a linear order `L` of that key's operations such that
  * `L` respects real time: if `a` is before `b` in `L` then `a.invStamp < b.resStamp`;
  * replaying `L` on a single cell (`ins` stores, `del` clears), every `get` returning
    `some v` finds `some v`.
A `get` returning `none` imposes no constraint and does not change the cell (filtered
lookup: R lets any get respond `none`); `daemon` steps only ever remove values and so
never help to explain a history, hence the replay uses none.

Soundness does not depend on the search: `acceptR` re-checks the order found by the search
with the independent checker `checkLin`. -/

/-- One completed operation of a recorded history. -/
structure HOp where
  thread : Tid
  invStamp : Nat
  resStamp : Nat
  op : Op
  /-- value returned by a `get`; ignored for `ins`/`del` -/
  result : Option Val
  deriving DecidableEq, Repr, Inhabited

/-- Effect of linearizing `a` on the single cell of its key: `none` = not allowed here. -/
def applyOp (cur : Option Val) (a : HOp) : Option (Option Val) :=
  match a.op, a.result with
  | .ins _ v, _ => some (some v)
  | .del _, _ => some none
  | .get _, none => some cur
  | .get _, some v => if cur = some v then some cur else none

/-- Replay a linear order of one key's operations on the cell. -/
def replay (cur : Option Val) : List HOp → Bool
  | [] => true
  | a :: l =>
    match applyOp cur a with
    | some c => replay c l
    | none => false

/-- `L` respects real time: whoever comes first was invoked before the other responded. -/
def orderOk : List HOp → Bool
  | [] => true
  | a :: l => l.all (fun b => decide (a.invStamp < b.resStamp)) && orderOk l

/-- Independent certificate checker: `L` is a linearization of `ops` (all on one key). -/
def checkLin (ops L : List HOp) : Bool :=
  L.isPerm ops && orderOk L && replay none L

/-- Search node: operations not yet linearized (a sublist of the key's operations, in the
original order, hence canonical), the cell, and the order chosen so far (reversed). -/
structure Node where
  rem : List HOp
  cur : Option Val
  path : List HOp
  deriving Repr

/-- Every way of picking one element, with the rest in the original order. -/
def picks {α : Type} : List α → List (α × List α)
  | [] => []
  | a :: r => (a, r) :: (picks r).map (fun p => (p.1, a :: p.2))

/-- `a` may be linearized next: everything still pending responds after `a`'s invocation. -/
def enabled (a : HOp) (rest : List HOp) : Bool :=
  rest.all (fun b => decide (a.invStamp < b.resStamp))

def expand (nd : Node) : List Node :=
  (picks nd.rem).filterMap fun p =>
    if enabled p.1 p.2 then
      (applyOp nd.cur p.1).map (fun c => ⟨p.2, c, p.1 :: nd.path⟩)
    else none

def sameState (x y : Node) : Bool := x.cur == y.cur && x.rem == y.rem

def insertNode (acc : List Node) (x : Node) : List Node :=
  if acc.any (sameState x) then acc else x :: acc

def dedupNodes (l : List Node) : List Node := l.foldl insertNode []

/-- Breadth-first, one linearized operation per level, states merged per level. -/
def levels : Nat → List Node → List Node
  | 0, l => l
  | d + 1, l => levels d (dedupNodes (l.flatMap expand))

def searchKey (ops : List HOp) : Option (List HOp) :=
  match levels ops.length [⟨ops, none, []⟩] with
  | nd :: _ => some nd.path.reverse
  | [] => none

def acceptKey (ops : List HOp) : Bool :=
  match searchKey ops with
  | some L => checkLin ops L
  | none => false

def dedupKeys : List Key → List Key
  | [] => []
  | k :: r => if r.contains k then dedupKeys r else k :: dedupKeys r

def keysOf (h : List HOp) : List Key := dedupKeys (h.map (fun a => a.op.key))

/-- Operations of one thread do not overlap. -/
def threadsOk : List HOp → Bool
  | [] => true
  | a :: r =>
    r.all (fun b => a.thread != b.thread || decide (a.resStamp < b.invStamp)
      || decide (b.resStamp < a.invStamp)) && threadsOk r

/-- Well-formed record: every operation is invoked before it responds; threads are
sequential. -/
def wfHistory (h : List HOp) : Bool :=
  h.all (fun a => decide (a.invStamp < a.resStamp)) && threadsOk h

/-- The acceptor. -/
def acceptR (h : List HOp) : Bool :=
  wfHistory h && (keysOf h).all (fun k => acceptKey (h.filter (fun a => a.op.key == k)))

/-! ## 4. The history recorded from an execution (used to state `acceptR_complete`)

Stamps are event positions: the global stamp counter of the recorder ticks once per
invocation / response, and positions are a strictly monotone image of it; `acceptR` only
compares stamps. -/

/-- First position at which `p` yields a value, with that value. -/
def firstPos {β : Type} (p : Ev → Option β) : List Ev → Option (Nat × β)
  | [] => none
  | e :: es =>
    match p e with
    | some b => some (0, b)
    | none => (firstPos p es).map (fun x => (x.1 + 1, x.2))

/-- Position, thread and operation of the invocation of `o`. -/
def invOf (evs : List Ev) (o : Oid) : Option (Nat × (Tid × Op)) :=
  firstPos (fun e => match e with
    | .invoke t o' op => if o' = o then some (t, op) else none
    | _ => none) evs

/-- Position and value of the response of `o`. -/
def resOf (evs : List Ev) (o : Oid) : Option (Nat × Option Val) :=
  firstPos (fun e => match e with
    | .respond o' r => if o' = o then some r else none
    | _ => none) evs

/-- The record of the completed operation `o`. -/
def hopOf (evs : List Ev) (o : Oid) : Option HOp :=
  match invOf evs o, resOf evs o with
  | some (q, t, op), some (a, r) => some ⟨t, q, a, op, r⟩
  | _, _ => none

/-- Instances in the order of their responses / of their map steps. -/
def respOids : List Ev → List Oid
  | [] => []
  | .respond o _ :: es => o :: respOids es
  | _ :: es => respOids es

def stepOids : List Ev → List Oid
  | [] => []
  | .mapStep o :: es => o :: stepOids es
  | _ :: es => stepOids es

/-- The recorded history of an execution: its completed operations, in response order. -/
def historyOf (evs : List Ev) : List HOp := (respOids evs).filterMap (hopOf evs)

end ConcR
end MiniMoka
