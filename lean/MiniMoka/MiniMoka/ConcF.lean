/-
  `sync::Cache` used by any number of threads, at the finest granularity: every access of a
  maintenance run to the concurrent map while it applies a queued `Upsert` is its own atomic
  step.

  `MiniMoka/ConcM.lean` splits a maintenance run into micro-steps but applies a whole queued
  write operation (`Inner::handle_upsert` with its admission scan and the eviction of the
  victims) in one step.  In the code that function reads and writes the concurrent map several
  times, and other threads' `insert` / `invalidate` / `get` interleave between those accesses.
  Here the application of an `Upsert` is a little program (`WPc`) that follows
  `Inner::handle_upsert` / `Inner::admit` (src/sync/base_cache.rs) statement by statement;
  between any two of its steps every other thread may take its `ConcS` steps:

     (pop)         the operation is received from the channel;
     clearDirty    (a) `entry.set_dirty(false)`;
     readCurrent   (b) `current := cache.get(key)` filtered by info identity, the weight of the
                       value the map holds now (`Sync.currentWeight`, the weigher call);
     dispatch      (c) already admitted: the update bookkeeping (counters, policy weight, move
                       to back), no map access; (d) not current: the operation is dropped;
                   (e) room: `handle_admit`; (f) too big: `remove_if(key, same value entry)`;
                       otherwise the admission scan starts (candidate frequency read);
     scan          (g) ONE step per node the scan of `Inner::admit` looks at (one
                       `cache.get(victim key)` each: `Sync.entryOfNode`); the sums and the
                       victim / skipped lists are local to the run; the step that ends the scan
                       also takes the decision (no further map access);
     victims       (h) ONE step per selected victim: `cache.remove_if(victim key, same info)` and,
                       if it succeeded, the `handle_remove` bookkeeping; a victim whose removal
                       fails (invalidated or replaced meanwhile) joins the skipped list; after
                       the last victim `handle_admit` and the skipped nodes move to the back;
     reject        (i) `remove_if(key, same value entry)` and the skipped nodes move to the back.

  A queued `Remove` is applied in one step (`handle_remove` accesses no map), and so is each
  read operation; the `while should_sync` loop, the sketch check and the final publication
  are the micro-steps of `ConcM`.  An iteration of an expiry / LRU eviction loop stays ONE step
  as in `ConcM`: it is one `remove_if` with a predicate, followed — only when that fails — by
  the `cache.get` of `try_skip_updated_entry`; these two accesses of a failed iteration are not
  separated here.

  `Variant` selects the code: `.good` is the current code; `.dirtyOrder` and `.putBack` are the
  two seeded concurrency-only changes (see `Props/ConcF.lean`), for counterexamples only.

  Executed back to back the steps of one operation are `Sync.applyWrite`
  (`Lemmas/ConcF.lean`), so every `ConcM` execution is a `ConcF` execution.

  Still NOT modelled: memory ordering (all steps sequentially consistent); the internals of
  DashMap and of the crossbeam channels; the two map accesses of a *failed* eviction-loop
  iteration; the individual atomic fields of an `EntryInfo` read inside one step (`is_admitted`,
  `policy_weight`, the deque node pointers: written by maintenance only).
-/
import MiniMoka.Sync
import MiniMoka.ConcS
import MiniMoka.ConcM

namespace MiniMoka
namespace ConcF

open Sync ConcS ConcM

/-- Which code is run: the current one, or one of the two seeded changes. -/
inductive Variant where
  | good
  /-- `set_dirty(false)` moved after the lookup of the current entry, and an admitted,
  not-dirty entry's accounted weight reused instead of re-weighing (seeded change C10c) -/
  | dirtyOrder
  /-- victims evicted all-or-nothing, with an unconditional put-back (`cache.insert`) of the
  ones already taken out when a later removal fails (seeded change C01c) -/
  | putBack
  deriving Repr, DecidableEq, Inhabited

/-- A queued `Upsert`. -/
structure UOp where
  key : Nat
  hash : UInt64
  ve : VE
  oldW : Nat
  newW : Nat
  deriving Repr, Inhabited

/-- Program counter inside the application of one `Upsert`. -/
inductive WPc where
  | clearDirty (u : UOp)
  | readCurrent (u : UOp)
  | dispatch (u : UOp) (nw : Nat) (cur : Bool)
  | scan (u : UOp) (nw cf : Nat) (rest : List AoNode) (acc : Admission)
  | victims (u : UOp) (nw : Nat) (vs sk : List AoNode)
  | reject (u : UOp) (sk : List AoNode)
  -- the seeded variants only
  | readCurrentB1 (u : UOp)
  | clearDirtyB1 (u : UOp) (nw : Nat) (cur : Bool)
  | victimsB2 (u : UOp) (nw : Nat) (vs sk : List AoNode) (evicted : List (Nat × VE)) (all : Bool)
  | putBackB2 (u : UOp) (evicted : List (Nat × VE)) (sk : List AoNode)
  deriving Repr, Inhabited

/-- The end of the admission scan: the decision of `Inner::admit`. -/
def finishScan (v : Variant) (s : SState) (u : UOp) (nw cf : Nat) (acc : Admission) :
    SState × Option WPc :=
  if acc.vw ≥ nw ∧ cf > acc.vf then
    (match v with
     | .putBack => (s, some (.victimsB2 u nw acc.victims acc.skipped [] true))
     | _ => (s, some (.victims u nw acc.victims acc.skipped)))
  else (s, some (.reject u acc.skipped))

/-- The weight the seeded change `dirtyOrder` accounts. -/
def weightB1 (p : Params) (s : SState) (u : UOp) : Nat :=
  match AL.get? s.map u.key with
  | some c =>
    if c.info == u.ve.info then
      (if (getInfo s u.ve.info).admitted && !(getInfo s u.ve.info).dirty
        then (getInfo s u.ve.info).weight else p.weigh u.key c.val)
    else u.newW
  | none => u.newW

/-- One step of the application of an `Upsert`; `none`: the operation is done. -/
def wstep (p : Params) (v : Variant) (s : SState) : WPc → SState × Option WPc
  | .clearDirty u =>
    (withInfo s u.ve.info (fun i => { i with dirty := false }), some (.readCurrent u))
  | .readCurrent u =>
    (s, some (.dispatch u (currentWeight p s u.key u.ve u.newW) (isCurrentEntry s u.key u.ve)))
  | .dispatch u nw cur =>
    if (getInfo s u.ve.info).admitted then (applyUpdate p s u.ve u.oldW nw, none)
    else if !p.q.d7 && !cur then (s, none)
    else if hasEnoughCapacity p nw s then (handleAdmit p s u.key u.hash u.ve nw, none)
    else if tooBig p nw then (removeCandidate p s u.key u.ve, none)
    else (s, some (.scan u nw (s.sk.frequency u.hash) s.prob {}))
  | .scan u nw cf [] acc => finishScan v s u nw cf acc
  | .scan u nw cf (n :: rest) acc =>
    if acc.vw < nw ∧ ¬ cf < acc.vf then
      match entryOfNode p s n.key n.info with
      | some ve =>
        (s, some (.scan u nw cf rest
          { acc with vw := acc.vw + (getInfo s ve.info).weight,
                     vf := acc.vf + s.sk.frequency n.hash,
                     victims := acc.victims ++ [n],
                     retries := 0 }))
      | none =>
        if acc.retries + 1 > Gen.MAX_CONSECUTIVE_RETRIES then
          finishScan v s u nw cf { acc with skipped := acc.skipped ++ [n], retries := acc.retries + 1 }
        else
          (s, some (.scan u nw cf rest
            { acc with skipped := acc.skipped ++ [n], retries := acc.retries + 1 }))
    else finishScan v s u nw cf acc
  | .victims u nw [] sk => (moveSkipped sk (handleAdmit p s u.key u.hash u.ve nw), none)
  | .victims u nw (n :: vs) sk =>
    match findAo s.prob n.id with
    | none => (s.fail .useAfterFree, some (.victims u nw vs sk))
    | some _ =>
      match entryOfNode p s n.key n.info with
      | some ve =>
        (handleRemove { s with map := AL.erase s.map n.key } ve, some (.victims u nw vs sk))
      | none => (s, some (.victims u nw vs (sk ++ [n])))
  | .reject u sk => (moveSkipped sk (removeCandidate p s u.key u.ve), none)
  -- seeded change `dirtyOrder`
  | .readCurrentB1 u =>
    (s, some (.clearDirtyB1 u (weightB1 p s u) (isCurrentEntry s u.key u.ve)))
  | .clearDirtyB1 u nw cur =>
    (withInfo s u.ve.info (fun i => { i with dirty := false }), some (.dispatch u nw cur))
  -- seeded change `putBack`
  | .victimsB2 u nw [] sk evicted all =>
    if all then
      (moveSkipped sk (handleAdmit p (evicted.foldl (fun s kv => handleRemove s kv.2) s)
        u.key u.hash u.ve nw), none)
    else (s, some (.putBackB2 u evicted sk))
  | .victimsB2 u nw (n :: vs) sk evicted all =>
    match findAo s.prob n.id with
    | none => (s.fail .useAfterFree, some (.victimsB2 u nw vs sk evicted all))
    | some _ =>
      match entryOfNode p s n.key n.info with
      | some ve =>
        ({ s with map := AL.erase s.map n.key },
         some (.victimsB2 u nw vs sk (evicted ++ [(n.key, ve)]) all))
      | none => (s, some (.victimsB2 u nw vs (sk ++ [n]) evicted false))
  | .putBackB2 u [] sk => (moveSkipped sk (removeCandidate p s u.key u.ve), none)
  | .putBackB2 u (kv :: rest) sk =>
    ({ s with map := AL.put s.map kv.1 kv.2 }, some (.putBackB2 u rest sk))

/-- The first program counter of an `Upsert`, by variant. -/
def firstPc (v : Variant) (u : UOp) : WPc :=
  match v with
  | .dirtyOrder => .readCurrentB1 u
  | _ => .clearDirty u

structure FRun where
  tid : Tid
  explicit : Bool
  phase : Phase
  /-- `some pc`: in the middle of the application of an `Upsert`; `phase` is then the phase
  the run continues with afterwards -/
  w : Option WPc
  deriving Repr, Inhabited

structure FState where
  s : SState := {}
  pending : List (Tid × Pend) := []
  run : Option FRun := none
  deriving Repr, Inhabited

/-- One micro-step of a run: new state, next phase (`none`: the run is over), and the program
counter of the `Upsert` being applied, if any. -/
def fmicro (p : Params) (v : Variant) (explicit : Bool) (s : SState) (ph : Phase) :
    Option WPc → SState × Option Phase × Option WPc
  | some pc => ((wstep p v s pc).1, some ph, (wstep p v s pc).2)
  | none =>
    match ph with
    | .writes f (n + 1) =>
      match s.writeQ with
      | .upsert key hash ve oldW newW :: rest =>
        ({ s with writeQ := rest }, some (.writes f n),
         some (firstPc v { key := key, hash := hash, ve := ve, oldW := oldW, newW := newW }))
      | _ => ((micro p explicit s ph).1, (micro p explicit s ph).2, none)
    | _ => ((micro p explicit s ph).1, (micro p explicit s ph).2, none)

def step (p : Params) (v : Variant) (c : FState) : ConcM.Ev → Option FState
  | .other e =>
    if isPlain e then
      (ConcS.step p ⟨c.s, c.pending⟩ e).map fun c' => { c with s := c'.s, pending := c'.pending }
    else none
  | .mBegin t explicit =>
    match c.run with
    | some _ => if explicit then none else if c.s.running then some c else none
    | none =>
      some { c with s := beginRun c.s explicit,
                    run := some { tid := t, explicit := explicit,
                                  phase := passStart p (Gen.MAX_SYNC_REPEATS + 1)
                                    (beginRun c.s explicit),
                                  w := none } }
  | .mStep t =>
    match c.run with
    | none => none
    | some r =>
      if r.tid = t then
        some { c with s := (fmicro p v r.explicit c.s r.phase r.w).1,
                      run := (fmicro p v r.explicit c.s r.phase r.w).2.1.map
                        fun ph => { r with phase := ph, w := (fmicro p v r.explicit c.s r.phase r.w).2.2 } }
      else none

def runEvs (p : Params) (v : Variant) : FState → List ConcM.Ev → Option FState
  | c, [] => some c
  | c, e :: rest =>
    match step p v c e with
    | some c' => runEvs p v c' rest
    | none => none

inductive Reach (p : Params) : FState → Prop where
  | init : Reach p {}
  | step {c c' : FState} (e : ConcM.Ev) : Reach p c → step p .good c e = some c' → Reach p c'

end ConcF
end MiniMoka
