/-
  Line-protocol driver: reads operation lines, runs the executable models and prints
  one observation line per operation (DESIGN.md Appendix B).
-/
import MiniMoka.Wire
import MiniMoka.Unsync
import MiniMoka.Sync
import MiniMoka.Spec.Oracles
import MiniMoka.Spec.OraclesExt
import MiniMoka.Spec.OraclesC03W
import MiniMoka.DequeHeap
import MiniMoka.Config
import MiniMoka.ConcR
import MiniMoka.ConcS

namespace MiniMoka
namespace Driver

open Wire

inductive Machine where
  | idle
  | dead                                   -- after a panic: skip to the next case
  | unsync (p : Params) (s : Unsync.UState)
  | sync (p : Params) (s : Sync.SState)
  | sketch (s : Sketch)
  | deque (s : DequeHeap.FState)
  | concs (p : Params) (c : ConcS.CState)

/-- The operation part of a trace line (`op` or `op -> observation`). -/
def opPart (line : String) : String :=
  match line.splitOn " -> " with
  | a :: _ => a
  | [] => line

/-! ### facade components -/

def optS (o : Option Nat) : String :=
  match o with
  | some v => s!"some {v}"
  | none => "none"

def sketchLine (s : Sketch) (op : String) : Sketch × String × Bool :=
  match op.splitOn " " with
  | ["skt.ensure", c] =>
    match c.toNat? with
    | some c => (s.ensureCapacity c, "ok", false)
    | none => (s, "bad-op", false)
  | ["skt.cap", c] =>
    match c.toNat? with
    | some c => (s, s!"cap {Sketch.sketchCapacity c}", false)
    | none => (s, "bad-op", false)
  | ["skt.inc", h] =>
    match h.toNat? with
    | some h =>
      match s.increment false h.toUInt64 with
      | .ok s' => (s', s!"ok size={s'.size}", false)
      | .error f => (s, s!"panic {f.toString}", true)
    | none => (s, "bad-op", false)
  | ["skt.freq", h] =>
    match h.toNat? with
    | some h => (s, s!"freq {s.frequency h.toUInt64}", false)
    | none => (s, "bad-op", false)
  | ["skt.dump"] => (s, s!"skt {s.size},{s.sampleSize},{s.table.size},{hex64 s.crc}", false)
  | _ => (s, "bad-op", false)

def fobs : DequeHeap.FObs → String
  | .unit => "ok"
  | .optNat o => optS o
  | .bool b => if b then "true" else "false"
  | .optBool none => "none"
  | .optBool (some b) => if b then "some true" else "some false"
  | .optOptNat none => "none"
  | .optOptNat (some none) => "some none"
  | .optOptNat (some (some v)) => s!"some some:{v}"
  | .nat n => s!"len {n}"
  | .dump elems cs cur =>
    let e := ",".intercalate (elems.map toString)
    let c := match cur with
      | some c => toString c
      | none => "-"
    s!"dump [{e}] {cs} {c}"
  | .dumpErr m => s!"dump-error {m}"
  | .fault f => s!"panic {f.toString}"

def dequeOp (op : String) : Option DequeHeap.FOp :=
  match op.splitOn " " with
  | ["dq.push", i] => i.toNat?.map .pushBack
  | ["dq.pop"] => some .popFront
  | ["dq.peek"] => some .peekFront
  | ["dq.contains", i] => i.toNat?.map .contains
  | ["dq.mtb", i] => i.toNat?.map .moveToBack
  | ["dq.mftb"] => some .moveFrontToBack
  | ["dq.unlink", i] => i.toNat?.map .unlink
  | ["dq.relink", i] => i.toNat?.map .relinkBack
  | ["dq.uad", i] => i.toNat?.map .unlinkAndDrop
  | ["dq.next", i] => i.toNat?.map .nextOf
  | ["dq.iter"] => some .iterNext
  | ["dq.len"] => some .len
  | ["dq.dump"] => some .dump
  | _ => none

def facadeLine (m : Machine) (op : String) : Machine × Option String :=
  match m with
  | .sketch s =>
    let (s', out, dead) := sketchLine s op
    (if dead then .dead else .sketch s', some s!"{op} -> {out}")
  | .deque st =>
    match dequeOp op with
    | none => (m, some s!"{op} -> bad-op")
    | some (.pushBack id) =>
      if (AL.get? st.nodes id).isSome then (m, some s!"{op} -> bad-op")
      else
        let (st', ob) := DequeHeap.fstep st (.pushBack id)
        (match ob with
         | .fault _ => .dead
         | _ => .deque st', some s!"{op} -> {fobs ob}")
    | some fo =>
      let (st', ob) := DequeHeap.fstep st fo
      (match ob with
       | .fault _ => .dead
       | _ => .deque st', some s!"{op} -> {fobs ob}")
  | _ => (m, none)

/-! ### the concurrent cache through its phase-split API (model `ConcS.lean`)

`pins t k v`, `pinv t k`, `pget t k`: the map step of an insert / invalidate / get by logical
thread `t`; `penq t`: `t` sends the operation it holds (`full` when the write channel is full);
`maint`: one housekeeping run; `sync`, `adv d`, `invall`, `snap`, `has k`, `iter` as usual. The
snapshot's live-object counts include what the threads hold. -/

def heldReadsOf : List (ConcS.Tid × ConcS.Pend) → List Sync.ROp
  | [] => []
  | (_, .read op) :: rest => op :: heldReadsOf rest
  | (_, .write _) :: rest => heldReadsOf rest

def concsSnapshot (p : Params) (c : ConcS.CState) : Snap :=
  let virt : Sync.SState :=
    { c.s with writeQ := c.s.writeQ ++ ConcS.pendWrites c.pending,
               readQ := c.s.readQ ++ heldReadsOf c.pending }
  { Sync.snapshot p virt with rq := c.s.readQ.length, wq := c.s.writeQ.length }

def concsAfter (p : Params) (op : String) (c' : ConcS.CState) (out : String) : Machine × Option String :=
  match c'.s.fault with
  | some f => (.dead, some s!"{op} -> panic {f.toString}")
  | none => (.concs p c', some s!"{op} -> {out}")

def concsLine (p : Params) (c : ConcS.CState) (op : String) : Machine × Option String :=
  let bad : Machine × Option String := (.concs p c, some s!"{op} -> bad-op")
  let ev (e : ConcS.Ev) (out : String) : Machine × Option String :=
    match ConcS.step p c e with
    | some c' => concsAfter p op c' out
    | none => bad
  match op.splitOn " " with
  | ["pins", t, k, v] =>
    (match t.toNat?, k.toNat?, v.toNat? with
     | some t, some k, some v => ev (.insMap t k v) "ok"
     | _, _, _ => bad)
  | ["pinv", t, k] =>
    (match t.toNat?, k.toNat? with
     | some t, some k => ev (.invMap t k) (if (ConcS.invalidateMap c.s k).2.isSome then "held" else "none")
     | _, _ => bad)
  | ["pget", t, k] =>
    (match t.toNat?, k.toNat? with
     | some t, some k => ev (.getMap t k) (obs (.val (ConcS.lookup p c.s k).2))
     | _, _ => bad)
  | ["penq", t] =>
    (match t.toNat? with
     | some t =>
       (match ConcS.pendOf c.pending t, ConcS.step p c (.enq t) with
        | some _, some c' => concsAfter p op c' "ok"
        | some _, none => (.concs p c, some s!"{op} -> full")
        | none, _ => bad)
     | none => bad)
  | ["maint"] => ev (.maint 0) "ok"
  | ["sync"] => ev (.sync 0) "ok"
  | ["invall"] => ev (.invAll 0) "ok"
  | ["adv", d] =>
    (match d.toNat? with
     | some d => ev (.tick d) "ok"
     | none => bad)
  | ["snap"] => (.concs p c, some s!"{op} -> {obs (.snap (concsSnapshot p c))}")
  | ["has", k] =>
    (match k.toNat? with
     | some k => (.concs p c, some s!"{op} -> {obs (.bool (Sync.containsKey p c.s k))}")
     | none => bad)
  | ["iter"] => (.concs p c, some s!"{op} -> {obs (.iter (sortBy (·.1) (Sync.iter p c.s)))}")
  | ["drop"] => (.dead, some "drop -> dropped k=0 v=0")
  | _ => bad

def cacheLine (m : Machine) (op : String) : Machine × Option String :=
  match m with
  | .unsync p s =>
      if op == "policy" then
        (m, some s!"{op} -> policy cap={optNat p.cap} ttl={optNat p.ttl} tti={optNat p.tti}")
      else
      match parseOp op with
      | none => (m, some s!"{op} -> bad-op")
      | some o =>
        let (s', ob) := Unsync.step p s o
        let m' := match ob with
          | .panic _ => Machine.dead
          | _ => Machine.unsync p s'
        (m', some s!"{op} -> {obs ob}")
  | .sync p s =>
      if op == "policy" then
        (m, some s!"{op} -> policy cap={optNat p.cap} ttl={optNat p.ttl} tti={optNat p.tti}")
      else
      match parseOp op with
      | none => (m, some s!"{op} -> bad-op")
      | some o =>
        let (s', ob) := Sync.step p s o
        let m' := match ob with
          | .panic _ => Machine.dead
          | _ => Machine.sync p s'
        (m', some s!"{op} -> {obs ob}")

  | _ => (m, none)

/-- Operations that may run between the creation and the consumption of an iterator in an
`iterover` line: those whose observation is always `ok`. -/
def iterInnerOk : Op → Bool
  | .ins _ _ | .inv _ | .invAll | .sync | .adv _ => true
  | _ => false

def stepLine (m : Machine) (line : String) : Machine × Option String :=
  let op := (opPart line).trimAscii.toString
  if op.isEmpty || op.startsWith "#" then (m, none)
  else if op.startsWith "cfg" then
    match parseCfg op with
    | none => (.dead, some s!"{op} -> bad-op")
    | some c =>
      let knobs : Config.Knobs :=
        { maxCapacity := c.cap, hasWeigher := c.weigher != .none, timeToLive := c.ttl, timeToIdle := c.tti }
      match (if c.kind == .unsync || c.kind == .sync || c.kind == .concs then Config.build knobs
             else .ok { maxCapacity := none, timeToLive := none, timeToIdle := none }) with
      | .error f => (.dead, some s!"{op} -> panic {f.toString}")
      | .ok _ =>
      match c.kind with
      | .unsync => (.unsync c.params {}, some s!"{op} -> ok")
      | .sync => (.sync c.params {}, some s!"{op} -> ok")
      | .sketch => (.sketch {}, some s!"{op} -> ok")
      | .deque => (.deque {}, some s!"{op} -> ok")
      | .concs => (.concs c.params {}, some s!"{op} -> ok")
  else
    match m with
    | .idle => (m, some s!"{op} -> bad-op")
    | .dead => (m, none)
    | .unsync _ _ | .sync _ _ =>
      if op == "drop" then
        -- dropping the last handle releases every key and value (Rust runs the destructors
        -- when the last `Rc`/`Arc` goes: trusted)
        (.dead, some "drop -> dropped k=0 v=0")
      else if op.startsWith "iterlag " || op.startsWith "iterover " then
        -- `iterlag d` = `iterover adv d`.  `iterover X`: an iterator is created, the operation
        -- `X` is executed, then the iterator is consumed.  Creating an iterator reads nothing
        -- (`Cache::iter` only wraps the map's iterator, which takes its first shard lock at the
        -- first `next`); expiry and the invalidation watermark are judged when an entry is
        -- yielded.  So the composite is `X` followed by an iteration, and it prints the
        -- iteration's observation.
        let inner :=
          if op.startsWith "iterlag " then s!"adv {(op.drop 8).toString.trimAscii.toString}"
          else (op.drop 9).toString.trimAscii.toString
        if !((parseOp inner).map iterInnerOk).getD false then (m, some s!"{op} -> bad-op") else
          let (m1, o1) := cacheLine m inner
          match m1 with
          | .dead => (m1, o1.map (fun s => s!"{op} -> {((s.splitOn " -> ").getD 1 "")}"))
          | _ =>
            let (m2, o2) := cacheLine m1 "iter"
            (m2, o2.map (fun s => s!"{op} -> {((s.splitOn " -> ").getD 1 "")}"))
      else cacheLine m op
    | .sketch _ => facadeLine m op
    | .deque _ => facadeLine m op
    | .concs p c => concsLine p c op

partial def loop (h : IO.FS.Stream) (out : IO.FS.Stream) (m : Machine) : IO Unit := do
  let line ← h.getLine
  if line.isEmpty then return ()
  let (m', o) := stepLine m line
  match o with
  | some s => out.putStrLn s
  | none => pure ()
  loop h out m'
/-! ### oracle mode: judge recorded traces -/

def kindOf (c : Cfg) : Spec.Kind :=
  match c.kind with
  | .sync => .sync
  | .concs => .sync
  | _ => .unsync

/-- The oracle of a property, by its id. `none` = no such oracle. -/
def oracleFor (prop : String) (c : Cfg) (t : Spec.Trace) : Option Bool :=
  match prop with
  | "C08" => some (Spec.noPanic t)
  | "C10" => some (Spec.oracleC10 (kindOf c) c.params.weigh t)
  | "C01" => some (Spec.oracleC01 (kindOf c) t)
  | "C05" => some (Spec.oracleC05 (kindOf c) c.ttl t)
  | "C06" => some (Spec.oracleC06 (kindOf c) c.tti t)
  | "C07" => some (Spec.oracleC07 (kindOf c) t)
  | "C16" => some (Spec.oracleC16 (kindOf c) c.ttl c.tti t)
  | "C04" => some (Spec.oracleC04 (kindOf c) c.cap (Spec.noFreq t))
  | "C13" => some (Spec.oracleC13 (kindOf c) c.cap c.ttl c.tti c.params.weigh t &&
      (match kindOf c, c.cap with
       | .sync, some cap => Spec.admitDanglingC13 cap c.ttl c.tti c.params.weigh t
       | _, _ => true))
  | "C12" => some (Spec.oracleC12 (kindOf c) c.cap c.ttl c.tti c.params.weigh Gen.UNSYNC_EVICTION_BATCH_SIZE t &&
      (match kindOf c, c.cap with
       | .unsync, some cap => Spec.growthExpC12 cap c.ttl c.tti Gen.UNSYNC_EVICTION_BATCH_SIZE t
       | .sync, some cap => Spec.growthC12Sync cap c.ttl c.tti c.params.weigh Gen.SYNC_EVICTION_BATCH_SIZE t
       | _, _ => true))
  | "C11" => some (Spec.oracleC11 t)
  | "C14" => some (Spec.onlyGetC14 (Spec.noFreq t))
  | "C03" =>
    -- Not on phase-split traces: the reference of C03 credits the idle extension of a `get` at the
    -- next maintenance run, which presumes the read was queued by the get itself; a logical thread
    -- may still hold it then (ConcS_no_spurious_removal is the statement for those models).
    if c.kind == .concs then some true
    else some (Spec.oracleC03 (kindOf c) c.cap c.ttl c.tti c.params.weigh (Spec.noFreq t) &&
      (match kindOf c, c.cap with
       | .sync, some cap => Spec.fitsC03SyncW cap c.ttl c.tti c.params.weigh (Spec.noFreq t)
       | _, _ => true))
  | _ => none

structure Case where
  idx : Nat
  cfgLine : String
  cfg : Option Cfg
  trace : List (Op × Obs) := []      -- reversed
  parseError : Option String := none
  held : List (Nat × Bool) := []     -- kind=concs: logical threads holding a (write? / read) op

/-- kind=concs: one line of a phase-split run as a step of the *linearised* trace (operations
ordered by their map steps, as in `ConcS.lin`): `pins`/`pinv`/`pget` are the insert, the
invalidate and the get with its result; `penq` contributes nothing; `maint` counts as a
maintenance run (`sync`); steps that were not enabled (`bad-op`, `full`) contribute nothing.
Snapshots report the *logical* queue lengths: what is queued plus what threads still hold. -/
def concsLineToTrace (held : List (Nat × Bool)) (opS obS : String) :
    Option (List (Nat × Bool) × Option (Op × Obs)) :=
  if obS == "bad-op" || obS == "full" then some (held, none) else
  match opS.splitOn " " with
  | ["pins", t, k, v] => do
    some ((← t.toNat?, true) :: held, some (.ins (← k.toNat?) (← v.toNat?), .ok))
  | ["pinv", t, k] => do
    let t ← t.toNat?
    let k ← k.toNat?
    if obS == "held" then some ((t, true) :: held, some (.inv k, .ok))
    else if obS == "none" then some (held, some (.inv k, .ok)) else none
  | ["pget", t, k] => do
    let ob ← parseObs obS
    some ((← t.toNat?, false) :: held, some (.get (← k.toNat?), ob))
  | ["penq", t] => do
    let t ← t.toNat?
    some (held.filter (fun x => x.1 != t), none)
  | ["maint"] => some (held, some (.sync, .ok))
  | ["noinject"] => some (held, none)     -- harness directive (kind=inject): not an operation
  | _ => do
    let op ← parseOp opS
    let ob ← parseObs obS
    match ob with
    | .snap sn =>
      let hw := (held.filter (·.2)).length
      let hr := (held.filter (fun x => !x.2)).length
      some (held, some (op, .snap { sn with wq := sn.wq + hw, rq := sn.rq + hr }))
    | _ => some (held, some (op, ob))

def finishCase (prop : String) (out : IO.FS.Stream) (c : Case) : IO Unit := do
  match c.parseError, c.cfg with
  | some e, _ => out.putStrLn s!"case {c.idx} PARSE-ERROR {e}"
  | none, none => out.putStrLn s!"case {c.idx} SKIP {c.cfgLine}"
  | none, some cfg =>
    if (cfg.kind == .sketch || cfg.kind == .deque) && prop != "C08" then
      out.putStrLn s!"case {c.idx} SKIP facade"
    else
    match oracleFor prop cfg c.trace.reverse with
    | none => out.putStrLn s!"case {c.idx} NO-ORACLE {prop}"
    | some true => out.putStrLn s!"case {c.idx} ok"
    | some false => out.putStrLn s!"case {c.idx} FAIL {c.cfgLine}"

partial def oracleLoop (prop : String) (h : IO.FS.Stream) (out : IO.FS.Stream)
    (cur : Option Case) (n : Nat) : IO Unit := do
  let line ← h.getLine
  if line.isEmpty then
    match cur with
    | some c => finishCase prop out c
    | none => pure ()
    return ()
  let l := line.trimAscii.toString
  if l.isEmpty || l.startsWith "#" then oracleLoop prop h out cur n
  else if l.startsWith "cfg" then
    match cur with
    | some c => finishCase prop out c
    | none => pure ()
    let opS := opPart l
    let built := (l.splitOn " -> ").getD 1 "" == "ok"
    let cfg := if built then parseCfg opS else none
    oracleLoop prop h out (some { idx := n, cfgLine := opS, cfg := cfg }) (n + 1)
  else
    match cur with
    | none => oracleLoop prop h out cur n
    | some c =>
      match l.splitOn " -> " with
      | [opS, obS] =>
        if (c.cfg.map (·.kind)) == some Kind.concs then
          match concsLineToTrace c.held opS.trimAscii.toString obS.trimAscii.toString with
          | some (held', some oo) => oracleLoop prop h out (some { c with trace := oo :: c.trace, held := held' }) n
          | some (held', none) => oracleLoop prop h out (some { c with held := held' }) n
          | none =>
            let c' := if c.parseError.isSome then c else { c with parseError := some l }
            oracleLoop prop h out (some c') n
        else
        if opS.trimAscii.toString.startsWith "iterlag " || opS.trimAscii.toString.startsWith "iterover " then
          -- composite of an operation and an iteration (see `stepLine`)
          let o := opS.trimAscii.toString
          let inner :=
            if o.startsWith "iterlag " then s!"adv {(o.drop 8).toString.trimAscii.toString}"
            else (o.drop 9).toString.trimAscii.toString
          match (parseOp inner).filter iterInnerOk, parseObs obS with
          | some iop, some ob =>
            oracleLoop prop h out (some { c with trace := (.iter, ob) :: (iop, .ok) :: c.trace }) n
          | _, _ =>
            let c' := if c.parseError.isSome then c else { c with parseError := some l }
            oracleLoop prop h out (some c') n
        else
        match parseOp opS, parseObs obS with
        | some op, some ob => oracleLoop prop h out (some { c with trace := (op, ob) :: c.trace }) n
        | _, _ =>
          let c' := if c.parseError.isSome then c else { c with parseError := some l }
          oracleLoop prop h out (some c') n
      | _ =>
        let c' := if c.parseError.isSome then c else { c with parseError := some l }
        oracleLoop prop h out (some c') n

/-! ### accept mode: recorded real-thread histories judged by the acceptor of model R -/

def parseHOp (line : String) : Option ConcR.HOp :=
  match line.splitOn " -> " with
  | [lhs, res] =>
    match lhs.trimAscii.toString.splitOn " " with
    | who :: inv :: rs :: opWords => do
      let t ← (if who == "final" then some 999 else (who.drop 1).toString.toNat?)
      let i ← inv.toNat?
      let r ← rs.toNat?
      let result : Option Nat := match res.trimAscii.toString.splitOn " " with
        | ["some", v] => v.toNat?
        | _ => none
      match opWords with
      | ["ins", k, v] => do
        some { thread := t, invStamp := i, resStamp := r, op := .ins (← k.toNat?) (← v.toNat?), result := none }
      | ["inv", k] => do
        some { thread := t, invStamp := i, resStamp := r, op := .del (← k.toNat?), result := none }
      | ["get", k] => do
        some { thread := t, invStamp := i, resStamp := r, op := .get (← k.toNat?), result := result }
      | _ => none
    | _ => none
  | _ => none

partial def acceptLoop (h : IO.FS.Stream) (out : IO.FS.Stream) (cur : Option (String × List ConcR.HOp)) :
    IO Unit := do
  let flush (c : Option (String × List ConcR.HOp)) : IO Unit :=
    match c with
    | some (name, ops) =>
      out.putStrLn s!"{name} {if ConcR.acceptR ops.reverse then "ok" else "REJECT"} ops={ops.length}"
    | none => pure ()
  let line ← h.getLine
  if line.isEmpty then
    flush cur
    return ()
  let l := line.trimAscii.toString
  if l.startsWith "prog " then
    flush cur
    acceptLoop h out (some (((l.splitOn " ").take 2 |> " ".intercalate), []))
  else if l.startsWith "t" || l.startsWith "final" then
    match cur, parseHOp l with
    | some (n, ops), some o => acceptLoop h out (some (n, o :: ops))
    | _, _ => acceptLoop h out cur       -- `sync` lines and the like are not part of model R
  else acceptLoop h out cur

def main (args : List String) : IO UInt32 := do
  match args with
  | ["accept"] =>
    let stdin ← IO.getStdin
    let stdout ← IO.getStdout
    acceptLoop stdin stdout none
    return 0
  | ["oracle", prop] =>
    let stdin ← IO.getStdin
    let stdout ← IO.getStdout
    oracleLoop prop stdin stdout none 0
    return 0
  | ["model"] =>
    let stdin ← IO.getStdin
    let stdout ← IO.getStdout
    loop stdin stdout .idle
    return 0
  | _ =>
    IO.eprintln "usage: mmdriver model < ops | mmdriver oracle <Cxx> < trace"
    return 2

end Driver
end MiniMoka
