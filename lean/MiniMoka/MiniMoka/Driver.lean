/-
  Line-protocol driver: reads operation lines, runs the executable models and prints
  one observation line per operation (DESIGN.md Appendix B).
-/
import MiniMoka.Wire
import MiniMoka.Unsync
import MiniMoka.Sync

namespace MiniMoka
namespace Driver

open Wire

inductive Machine where
  | idle
  | dead                                   -- after a panic: skip to the next case
  | unsync (p : Params) (s : Unsync.UState)
  | sync (p : Params) (s : Sync.SState)

/-- The operation part of a trace line (`op` or `op -> observation`). -/
def opPart (line : String) : String :=
  match line.splitOn " -> " with
  | a :: _ => a
  | [] => line

def stepLine (m : Machine) (line : String) : Machine × Option String :=
  let op := (opPart line).trimAscii.toString
  if op.isEmpty || op.startsWith "#" then (m, none)
  else if op.startsWith "cfg" then
    match parseCfg op with
    | none => (.dead, some s!"{op} -> bad-op")
    | some c =>
      match c.kind with
      | .unsync => (.unsync c.params {}, some s!"{op} -> ok")
      | .sync => (.sync c.params {}, some s!"{op} -> ok")
  else
    match m with
    | .idle => (m, some s!"{op} -> bad-op")
    | .dead => (m, none)
    | .unsync p s =>
      match parseOp op with
      | none => (m, some s!"{op} -> bad-op")
      | some o =>
        let (s', ob) := Unsync.step p s o
        let m' := match ob with
          | .panic _ => Machine.dead
          | _ => Machine.unsync p s'
        (m', some s!"{op} -> {obs ob}")
    | .sync p s =>
      match parseOp op with
      | none => (m, some s!"{op} -> bad-op")
      | some o =>
        let (s', ob) := Sync.step p s o
        let m' := match ob with
          | .panic _ => Machine.dead
          | _ => Machine.sync p s'
        (m', some s!"{op} -> {obs ob}")

partial def loop (h : IO.FS.Stream) (out : IO.FS.Stream) (m : Machine) : IO Unit := do
  let line ← h.getLine
  if line.isEmpty then return ()
  let (m', o) := stepLine m line
  match o with
  | some s => out.putStrLn s
  | none => pure ()
  loop h out m'

def main (args : List String) : IO UInt32 := do
  match args with
  | ["model"] =>
    let stdin ← IO.getStdin
    let stdout ← IO.getStdout
    loop stdin stdout .idle
    return 0
  | _ =>
    IO.eprintln "usage: mmdriver model < ops"
    return 2

end Driver
end MiniMoka
