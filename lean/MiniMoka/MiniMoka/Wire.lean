/-
  Wire format shared with the Rust harness: parsing of configuration and operation
  lines, rendering of observations (DESIGN.md Appendix B).
-/
import MiniMoka.Types

namespace MiniMoka
namespace Wire

def optNat (o : Option Nat) : String :=
  match o with
  | some n => toString n
  | none => "-"

def parseOptNat (s : String) : Option (Option Nat) :=
  if s == "none" || s == "-" then some none else s.toNat?.map some

def hex64 (x : UInt64) : String :=
  let digits := (Nat.toDigits 16 x.toNat)
  String.ofList (List.replicate (16 - digits.length) '0' ++ digits)

def joinWith (sep : String) (l : List String) : String := sep.intercalate l

def entryView (e : EntryView) : String :=
  s!"{e.key}:{e.val}:{e.weight}:{optNat e.la}:{optNat e.lm}:" ++
    (if e.aoOk then "a" else "-") ++ (if e.woOk then "w" else "-") ++
    (if e.admitted then "A" else "-") ++ (if e.dirty then "D" else "-")

def nodeView (n : NodeView) : String :=
  s!"{n.key}@{optNat n.ts}" ++ (if n.current then "" else "!")

def snap (s : Snap) : String :=
  s!"snap ec={s.ec} ws={s.ws} now={s.now} va={optNat s.va} rq={s.rq} wq={s.wq} " ++
  s!"hk={if s.hkRunning then 1 else 0},{s.hkAfter} " ++
  s!"map={joinWith "," (s.entries.map entryView)} " ++
  s!"prob={joinWith "," (s.prob.map nodeView)} " ++
  s!"wo={joinWith "," (s.wo.map nodeView)} " ++
  s!"skt={if s.skOn then "on" else "off"},{s.skSize},{s.skSample},{s.skLen},{hex64 s.skCrc} " ++
  s!"freq={joinWith "," (s.freqs.map (fun kf => s!"{kf.1}:{kf.2}"))} " ++
  s!"live={s.liveK},{s.liveV}"

def obs : Obs → String
  | .ok => "ok"
  | .val (some v) => s!"some {v}"
  | .val none => "none"
  | .bool b => if b then "true" else "false"
  | .iter l => "iter " ++ joinWith "," (l.map (fun kv => s!"{kv.1}:{kv.2}"))
  | .snap s => snap s
  | .freq f => s!"freq {f}"
  | .panic f => s!"panic {f.toString}"
  | .badOp => "bad-op"

def parsePred (ws : List String) : Option Pred :=
  match ws with
  | ["true"] => some .all
  | ["false"] => some .nothing
  | ["kmod", m, r] => do some (.kmod (← m.toNat?) (← r.toNat?))
  | ["vlt", c] => do some (.vlt (← c.toNat?))
  | _ => none

def parseOp (line : String) : Option Op :=
  match line.trimAscii.toString.splitOn " " with
  | ["ins", k, v] => do some (.ins (← k.toNat?) (← v.toNat?))
  | ["get", k] => do some (.get (← k.toNat?))
  | ["has", k] => do some (.has (← k.toNat?))
  | ["xhas", k] => do some (.has (← k.toNat?))      -- extra call of a metamorphic pair (C15)
  | ["xiter"] => some .iter
  | ["xsnap"] => some .snap
  | ["iter"] => some .iter
  | ["inv", k] => do some (.inv (← k.toNat?))
  | ["invall"] => some .invAll
  | "invif" :: rest => (parsePred rest).map .invIf
  | ["sync"] => some .sync
  | ["adv", d] => do some (.adv (← d.toNat?))
  | ["snap"] => some .snap
  | ["freq", k] => do some (.freq (← k.toNat?))
  | ["policy"] => some .snap
  -- `drop` ends a case; its observation carries the live-object counts as an empty snapshot.
  -- On a trace it is a clock step of 0 (so that no window rule about `snap` sees it).
  | ["drop"] => some (.adv 0)
  | w :: _ => if w.startsWith "skt." || w.startsWith "dq." then some .snap else none
  | _ => none

def renderPred : Pred → String
  | .all => "true"
  | .nothing => "false"
  | .kmod m r => s!"kmod {m} {r}"
  | .vlt c => s!"vlt {c}"

def renderOp : Op → String
  | .ins k v => s!"ins {k} {v}"
  | .get k => s!"get {k}"
  | .has k => s!"has {k}"
  | .iter => "iter"
  | .inv k => s!"inv {k}"
  | .invAll => "invall"
  | .invIf p => s!"invif {renderPred p}"
  | .sync => "sync"
  | .adv d => s!"adv {d}"
  | .snap => "snap"
  | .freq k => s!"freq {k}"

/-! ### configuration line -/

inductive Kind where
  | unsync | sync | sketch | deque
  | concs      -- the concurrent cache driven through its phase-split API (model ConcS.lean)
  deriving Repr, DecidableEq, Inhabited

inductive WeigherKind where
  | none
  | const (c : Nat)
  | vmod (m : Nat)        -- value % m
  | kmod (m : Nat)        -- key % m
  | val                   -- the value itself (capped at u32::MAX by the harness)
  deriving Repr, DecidableEq, Inhabited

inductive HashKind where
  | id | const | mod2 | mix | top
  deriving Repr, DecidableEq, Inhabited

structure Cfg where
  kind : Kind := .unsync
  cap : Option Nat := none
  weigher : WeigherKind := .none
  ttl : Option Nat := none
  tti : Option Nat := none
  hash : HashKind := .id
  quirks : Quirks := {}
  deriving Repr, Inhabited

def splitmix (k : Nat) : UInt64 :=
  let z : UInt64 := k.toUInt64 + 0x9e3779b97f4a7c15
  let z := (z ^^^ (z >>> 30)) * 0xbf58476d1ce4e5b9
  let z := (z ^^^ (z >>> 27)) * 0x94d049bb133111eb
  z ^^^ (z >>> 31)

def HashKind.fn : HashKind → Nat → UInt64
  | .id, k => k.toUInt64
  | .const, _ => 0
  | .mod2, k => (k % 2).toUInt64
  | .mix, k => splitmix k
  | .top, k => k.toUInt64 <<< 32     -- keys differ only in the high half

def WeigherKind.fn : WeigherKind → Nat → Nat → Nat
  | .none, _, _ => 1
  | .const c, _, _ => c
  | .vmod m, _, v => v % m
  | .kmod m, k, _ => k % m
  | .val, _, v => min v U32_MAX

/-- The float expression of `enable_frequency_sketch` with IEEE doubles and Rust's `as u64`
conventions (NaN → 0, saturating). -/
def capFloat (ec ws maxCap : Nat) : Nat :=
  (Float.ofNat ec * (Float.ofNat ws / Float.ofNat maxCap)).toUInt64.toNat

def Cfg.params (c : Cfg) : Params :=
  { cap := c.cap, ttl := c.ttl, tti := c.tti,
    hasWeigher := c.weigher != .none,
    w := c.weigher.fn, hash := c.hash.fn, capF := capFloat, q := c.quirks }

def parseWeigher (s : String) : Option WeigherKind :=
  if s == "none" then some .none
  else if s == "val" then some .val
  else if s.startsWith "c" then (s.drop 1).toString.toNat?.map .const
  else if s.startsWith "vmod" then (s.drop 4).toString.toNat?.map .vmod
  else if s.startsWith "kmod" then (s.drop 4).toString.toNat?.map .kmod
  else none

def parseHash (s : String) : Option HashKind :=
  match s with
  | "id" => some .id
  | "const" => some .const
  | "mod2" => some .mod2
  | "mix" => some .mix
  | "top" => some .top
  | _ => none

def parseQuirks (s : String) : Quirks :=
  let has (c : Char) := s.toList.contains c
  { d1 := has '1', d2 := has '2', d3 := has '3', d4 := has '4',
    d5 := has '5', d6 := has '6', d7 := has '7', d8 := has '8', d10 := has 'a' }

def parseCfgField (c : Cfg) (kv : String) : Option Cfg :=
  match kv.splitOn "=" with
  | ["kind", "unsync"] => some { c with kind := .unsync }
  | ["kind", "sync"] => some { c with kind := .sync }
  | ["kind", "sketch"] => some { c with kind := .sketch }
  | ["kind", "deque"] => some { c with kind := .deque }
  | ["kind", "concs"] => some { c with kind := .concs }
  | ["kind", "inject"] => some { c with kind := .concs }    -- traces of the inject component are judged like concs traces
  | ["cap", v] => (parseOptNat v).map fun x => { c with cap := x }
  | ["w", v] => (parseWeigher v).map fun x => { c with weigher := x }
  | ["ttl", v] => (parseOptNat v).map fun x => { c with ttl := x }
  | ["tti", v] => (parseOptNat v).map fun x => { c with tti := x }
  | ["hash", v] => (parseHash v).map fun x => { c with hash := x }
  | ["quirks", v] => some { c with quirks := parseQuirks v }
  | [_, _] => some c      -- fields the model does not depend on (seed, initcap, …)
  | _ => none

/-- `cfg kind=… cap=… w=… ttl=… tti=… hash=…` -/
def parseCfg (line : String) : Option Cfg :=
  match line.trimAscii.toString.splitOn " " with
  | "cfg" :: fields => fields.foldlM parseCfgField {}
  | _ => none

end Wire
end MiniMoka

namespace MiniMoka
namespace Wire

/-! ### parsing observations back (to judge implementation traces with the oracles) -/

def splitNonEmpty (s : String) (sep : String) : List String :=
  (s.splitOn sep).filter (fun x => !x.isEmpty)

def parseEntryView (s : String) : Option EntryView :=
  match s.splitOn ":" with
  | [k, v, w, la, lm, flags] => do
    let fl := flags.toList
    some { key := ← k.toNat?, val := ← v.toNat?, weight := ← w.toNat?,
           la := ← parseOptNat la, lm := ← parseOptNat lm,
           aoOk := fl.getD 0 '-' == 'a', woOk := fl.getD 1 '-' == 'w',
           admitted := fl.getD 2 '-' == 'A', dirty := fl.getD 3 '-' == 'D' }
  | _ => none

def parseNodeView (s : String) : Option NodeView :=
  let (body, cur) := if s.endsWith "!" then ((s.dropEnd 1).toString, false) else (s, true)
  match body.splitOn "@" with
  | [k, ts] => do some { key := ← k.toNat?, ts := ← parseOptNat ts, current := cur }
  | _ => none

def parsePair (s : String) : Option (Nat × Nat) :=
  match s.splitOn ":" with
  | [a, b] => do some (← a.toNat?, ← b.toNat?)
  | _ => none

def hexVal (s : String) : Option UInt64 :=
  s.toList.foldlM (fun (acc : Nat) (c : Char) =>
    if c.isDigit then some (acc * 16 + (c.toNat - '0'.toNat))
    else if 'a' ≤ c ∧ c ≤ 'f' then some (acc * 16 + (c.toNat - 'a'.toNat + 10))
    else none) 0 |>.map Nat.toUInt64

def parseSnapField (sn : Snap) (kv : String) : Option Snap :=
  match kv.splitOn "=" with
  | ["ec", v] => v.toNat?.map fun x => { sn with ec := x }
  | ["ws", v] => v.toNat?.map fun x => { sn with ws := x }
  | ["now", v] => v.toNat?.map fun x => { sn with now := x }
  | ["va", v] => (parseOptNat v).map fun x => { sn with va := x }
  | ["rq", v] => v.toNat?.map fun x => { sn with rq := x }
  | ["wq", v] => v.toNat?.map fun x => { sn with wq := x }
  | ["hk", v] =>
    match v.splitOn "," with
    | [r, a] => do some { sn with hkRunning := r == "1", hkAfter := ← a.toNat? }
    | _ => none
  | ["map", v] => ((splitNonEmpty v ",").mapM parseEntryView).map fun x => { sn with entries := x }
  | ["prob", v] => ((splitNonEmpty v ",").mapM parseNodeView).map fun x => { sn with prob := x }
  | ["wo", v] => ((splitNonEmpty v ",").mapM parseNodeView).map fun x => { sn with wo := x }
  | ["skt", v] =>
    match v.splitOn "," with
    | [on, size, sample, len, crc] => do
      some { sn with skOn := on == "on", skSize := ← size.toNat?, skSample := ← sample.toNat?,
                     skLen := ← len.toNat?, skCrc := ← hexVal crc }
    | _ => none
  | ["freq", v] => ((splitNonEmpty v ",").mapM parsePair).map fun x => { sn with freqs := x }
  | ["live", v] =>
    match v.splitOn "," with
    | [a, b] => do some { sn with liveK := ← a.toNat?, liveV := ← b.toNat? }
    | _ => none
  | _ => none

def emptySnap : Snap :=
  { ec := 0, ws := 0, entries := [], prob := [], wo := [], skOn := false, skSize := 0,
    skSample := 0, skLen := 0, skCrc := 0, freqs := [] }

def parseFault (s : String) : Fault :=
  match s with
  | "overflow" => .overflow
  | "unreachable" => .unreachable
  | "expect" => .expect
  | "notmember" => .notMember
  | "uaf" => .useAfterFree
  | "hang" => .hang
  | "builder-ttl" => .builderTtl
  | "builder-tti" => .builderTti
  | _ => .expect

def parseObs (s : String) : Option Obs :=
  match s.trimAscii.toString.splitOn " " with
  | ["ok"] => some .ok
  | ["none"] => some (.val none)
  | ["some", v] => some (match v.toNat? with
      | some x => .val (some x)
      | none => .ok)
  | ["true"] => some (.bool true)
  | ["false"] => some (.bool false)
  | ["iter"] => some (.iter [])
  | ["iter", l] => ((splitNonEmpty l ",").mapM parsePair).map .iter
  | ["freq", f] => f.toNat?.map .freq
  | ["panic", f] => some (.panic (parseFault f))
  | ["bad-op"] => some .badOp
  | "snap" :: fields => (fields.foldlM parseSnapField emptySnap).map .snap
  | "cap" :: _ => some .ok
  | "ok" :: _ => some .ok          -- `skt.inc h -> ok size=n`
  | "policy" :: _ => some .ok
  | ["dropped", k, v] =>
    -- `drop -> dropped k=<live keys> v=<live values>`: an empty cache and what is still alive
    match k.splitOn "=", v.splitOn "=" with
    | ["k", a], ["v", b] => do some (.snap { emptySnap with liveK := ← a.toNat?, liveV := ← b.toNat? })
    | _, _ => none
  | "skt" :: _ => some .ok
  | "len" :: _ => some .ok
  | "dump" :: _ => some .ok
  | "some" :: _ => some .ok
  | _ => none

end Wire
end MiniMoka
