/-
  Model L: the lock discipline of the concurrent cache (`mini_moka::sync::Cache`).

  WHAT IS MODELLED BY READING THE SOURCE (trusted transcription, to be tied to the
  source by the audit of lock sites): the *table* at the end of this file. For each
  public operation it gives the lock events (blocking acquire / try-acquire /
  release) the operation can perform, as a small regular structure (`Prog`:
  sequence, branch, bounded loop, finite-but-unbounded retry loop, try-block).
  Every row names the source sites (file:function) it transcribes.

  WHAT IS PROVED (files `Lemmas/ConcL.lean`, `Props/C09Conc.lean`):
   * a generic theorem over any lock type with ranks, any number of threads and all
     interleavings: threads whose code respects the rank order, whose try-acquires
     never block and who release everything they acquire never deadlock, and every
     run ends after a bounded number of lock steps with all threads finished;
   * the executable checker `check` is sound for that discipline;
   * `check` accepts every row of the table (`by decide`).

  The generic part (`Code`, `Thread`, `Step`) is independent of the cache.

  Modelling simplifications, all sound for deadlock-freedom of this discipline:
   * `RwLock`s are modelled as exclusive locks. With the real shared/exclusive (and
     possibly writer-preferring) semantics a thread waits on a lock only while some
     *other* thread holds it (directly, or a queued writer in front of it waits for
     such a holder); the maximal-rank argument only uses "the lock I wait for is
     held by somebody who, if blocked, is blocked on a strictly greater lock", and
     the discipline checked here forbids re-acquiring a lock class already held
     (the only extra hazard of reader/writer locks: recursive read acquisition).
   * All DashMap shard locks form one class `M` with instances; likewise the
     per-entry `nodes` mutexes (`N`) and all `AtomicInstant` locks (`T`: per-entry
     `last_accessed`/`last_modified`, per-cache `valid_after`, housekeeper
     `sync_after`). At an acquisition the model may pick ANY instance of the class.
   * Channels (`try_send`, `try_recv`, `len`) and atomics are not lock events (they
     never block). `std::thread::sleep` in the retry loop is the marker `sleep`,
     checked to happen with no lock held.
   * Only panic-free paths are modelled. (`try_sync` clears the flag with a plain store,
     not a drop guard: a panic inside `sync` would leave it set. Outside this model.)
   * Out of scope, as in the statement of C09: a thread that keeps a `sync::Iter` /
     `EntryRef` (which keeps a shard read lock across user code) while calling other
     cache operations; user callbacks (`Clone`/`Eq`/`Hash`/`Drop` of keys and values run
     under shard locks, values may be dropped under `D`/`S`) calling back into the cache.
   * The verification hooks (`verif_snapshot`: D, then shard by shard M with N/T inside,
     then S; `verif_frequency`: S; `verif_set_clock`: C) also respect the order; they are
     not rows of the table.
-/
import MiniMoka.Basic

namespace MiniMoka.ConcL

/-! ## Generic part: code trees, threads, interleaving semantics -/

/-- The lock events a thread will perform, as a tree: the only branching that is
resolved by the *state* is the outcome of a try-acquire; all other choices
(data-dependent branches, loop counts) are resolved arbitrarily when the tree is
produced (see `Unfolds`), and the theorems quantify over all trees. -/
inductive Code (L : Type) where
  | done
  | acq (l : L) (k : Code L)            -- blocking acquire
  | rel (l : L) (k : Code L)            -- release
  | tryL (l : L) (ok fail : Code L)     -- try-acquire: never blocks
  deriving Repr

def Code.size {L : Type} : Code L → Nat
  | .done => 0
  | .acq _ k => k.size + 1
  | .rel _ k => k.size + 1
  | .tryL _ a b => a.size + b.size + 1

structure Thread (L : Type) where
  held : List L
  code : Code L

/-- A system state: thread `i` is `s i`. A system of `n` threads has `s i` idle
(`held = []`, `code = done`) for `i ≥ n`. -/
abbrev State (L : Type) := Nat → Thread L

def State.set {L : Type} (s : State L) (i : Nat) (t : Thread L) : State L :=
  fun j => if j = i then t else s j

/-- Lock `l` is held by some thread. -/
def Holds {L : Type} (s : State L) (l : L) : Prop := ∃ i, l ∈ (s i).held

/-- One step of one thread in the context of the whole state. Locks are exclusive. -/
inductive TStep {L : Type} [DecidableEq L] (s : State L) : Thread L → Thread L → Prop where
  | acq {h l k} : ¬ Holds s l → TStep s ⟨h, .acq l k⟩ ⟨l :: h, k⟩
  | rel {h l k} : TStep s ⟨h, .rel l k⟩ ⟨h.erase l, k⟩
  | tryOk {h l a b} : ¬ Holds s l → TStep s ⟨h, .tryL l a b⟩ ⟨l :: h, a⟩
  | tryFail {h l a b} : Holds s l → TStep s ⟨h, .tryL l a b⟩ ⟨h, b⟩

/-- Any thread may take the next step (all interleavings). -/
inductive Step {L : Type} [DecidableEq L] : State L → State L → Prop where
  | mk {s : State L} (i : Nat) {t' : Thread L} : TStep s (s i) t' → Step s (s.set i t')

inductive Reach {L : Type} [DecidableEq L] : State L → State L → Prop where
  | refl (s) : Reach s s
  | step {s s' s''} : Reach s s' → Step s' s'' → Reach s s''

/-- The discipline, on code trees. `h` is the list of locks the thread holds.
 (i)  a blocking acquire is of a lock whose rank is strictly greater than the rank
      of every lock held (however it was acquired) — hence two locks of the same
      rank ("two instances of one class") are never held together via blocking;
 (ii) a try-acquire is unconstrained (it never blocks);
 (iii) a release is of a held lock, and at the end nothing is held. -/
def CodeWf {L : Type} [DecidableEq L] (rank : L → Nat) : List L → Code L → Prop
  | h, .done => h = []
  | h, .acq l k => (∀ x ∈ h, rank x < rank l) ∧ CodeWf rank (l :: h) k
  | h, .rel l k => l ∈ h ∧ CodeWf rank (h.erase l) k
  | h, .tryL l a b => CodeWf rank (l :: h) a ∧ CodeWf rank h b

/-- Sum of the remaining code sizes of threads `0 … n-1`: every step decreases it. -/
def sumTo (f : Nat → Nat) : Nat → Nat
  | 0 => 0
  | n + 1 => sumTo f n + f n

def measure {L : Type} (n : Nat) (s : State L) : Nat := sumTo (fun i => (s i).code.size) n

/-! ## Regular structure of lock events over lock *classes* and its checker -/

/-- Lock events of an operation, over lock classes `κ`. -/
inductive Prog (κ : Type) where
  | skip
  | sleep                                  -- `std::thread::sleep`: must hold no lock
  | acq (c : κ)                            -- blocking acquire of some instance of class c
  | rel (c : κ)                            -- release the most recently acquired lock, of class c
  | seq (p q : Prog κ)
  | alt (p q : Prog κ)                     -- data-dependent branch
  | loop (n : Nat) (p : Prog κ)            -- at most n iterations
  | star (p : Prog κ)                      -- any finite number of iterations
  | tryL (c : κ) (ok fail : Prog κ)        -- try-acquire; `ok` runs holding the lock
  deriving Repr

/-- The checker. `h` is the stack of classes currently held (most recent first).
`check p h = some h'` means: on every path of `p` started with `h`, every blocking
acquire is of a class of rank strictly greater than all held classes, releases are
LIFO, `sleep` happens with nothing held, both arms of every branch and every loop
body agree on the resulting stack, which is `h'`. -/
def check {κ : Type} [DecidableEq κ] (rank : κ → Nat) : Prog κ → List κ → Option (List κ)
  | .skip, h => some h
  | .sleep, h => if h = [] then some h else none
  | .acq c, h => if h.all (fun x => decide (rank x < rank c)) then some (c :: h) else none
  | .rel c, h =>
      match h with
      | x :: r => if x = c then some r else none
      | [] => none
  | .seq p q, h =>
      match check rank p h with
      | some h1 => check rank q h1
      | none => none
  | .alt p q, h =>
      match check rank p h, check rank q h with
      | some a, some b => if a = b then some a else none
      | _, _ => none
  | .loop _ p, h =>
      match check rank p h with
      | some a => if a = h then some h else none
      | none => none
  | .star p, h =>
      match check rank p h with
      | some a => if a = h then some h else none
      | none => none
  | .tryL c ok fail, h =>
      match check rank ok (c :: h), check rank fail h with
      | some a, some b => if a = b then some a else none
      | _, _ => none

/-- `Unfolds cls h p h' k c`: started holding the locks `h`, one way of running `p`
(choice of branches, loop counts and lock *instances*) followed by the code `k` is
the code tree `c`, and `k` starts holding `h'`. At a try-acquire both outcomes are
kept. A release releases the lock on top of the stack (Rust guards of this code are
dropped in LIFO order). -/
inductive Unfolds {L κ : Type} (cls : L → κ) :
    List L → Prog κ → List L → Code L → Code L → Prop where
  | skip {h k} : Unfolds cls h .skip h k k
  | sleep {h k} : Unfolds cls h .sleep h k k
  | acq {h k c} (l : L) : cls l = c → Unfolds cls h (.acq c) (l :: h) k (.acq l k)
  | rel {h k c} (l : L) : cls l = c → Unfolds cls (l :: h) (.rel c) h k (.rel l k)
  | seq {h h1 h2 p q k c1 c} :
      Unfolds cls h p h1 c1 c → Unfolds cls h1 q h2 k c1 → Unfolds cls h (.seq p q) h2 k c
  | altL {h h' p q k c} : Unfolds cls h p h' k c → Unfolds cls h (.alt p q) h' k c
  | altR {h h' p q k c} : Unfolds cls h q h' k c → Unfolds cls h (.alt p q) h' k c
  | loopZ {h n p k} : Unfolds cls h (.loop n p) h k k
  | loopS {h h1 h2 n p k c1 c} :
      Unfolds cls h p h1 c1 c → Unfolds cls h1 (.loop n p) h2 k c1 →
      Unfolds cls h (.loop (n + 1) p) h2 k c
  | starZ {h p k} : Unfolds cls h (.star p) h k k
  | starS {h h1 h2 p k c1 c} :
      Unfolds cls h p h1 c1 c → Unfolds cls h1 (.star p) h2 k c1 →
      Unfolds cls h (.star p) h2 k c
  | tryL {h h' cl ok fail k c1 c2} (l : L) : cls l = cl →
      Unfolds cls (l :: h) ok h' k c1 → Unfolds cls h fail h' k c2 →
      Unfolds cls h (.tryL cl ok fail) h' k (.tryL l c1 c2)

/-! ## The lock classes of `sync::Cache` and the table -/

/-- Lock classes.
 * `F`  `Housekeeper::is_sync_running` (AtomicBool used as a try-lock; housekeeper.rs)
 * `D`  `Inner::deques : Mutex<Deques<K>>` (base_cache.rs)
 * `S`  `Inner::frequency_sketch : RwLock<FrequencySketch>` (base_cache.rs)
 * `M`  DashMap shard `RwLock`s of `Inner::cache` (one instance per shard)
 * `N`  `EntryInfo::nodes : Mutex<DeqNodes<K>>` (entry_info.rs; one per entry)
 * `T`  `AtomicInstant::instant : RwLock<Option<Instant>>` (atomic_time.rs; per entry
        `last_accessed`, `last_modified`; per cache `valid_after`; housekeeper `sync_after`)
 * `C`  `Inner::expiration_clock : RwLock<Option<Clock>>` (base_cache.rs; only taken when
        `has_expiration_clock`, i.e. in tests / under the verification hooks)
 * `K`  `Mock::now : RwLock<Instant>` (common/time/clock.rs; read inside `Clock::now`
        while the `C` read guard is alive; mock clock only) -/
inductive Cls where
  | F | D | S | M | N | T | C | K
  deriving DecidableEq, Repr

/-- The strict order  F < D < S < M < {N, T, C} < K.  `N`, `T`, `C` share a rank:
they are leaves that are never held together. (`F` is try-only; giving it the least
rank expresses that everything in `try_sync` happens while the flag is set.) -/
def Cls.rank : Cls → Nat
  | .F => 0 | .D => 1 | .S => 2 | .M => 3 | .N => 4 | .T => 4 | .C => 4 | .K => 5

/-- A concrete lock: class and instance (shard index, entry identity, …). -/
structure Lock where
  cls : Cls
  inst : Nat
  deriving DecidableEq, Repr

def Lock.rank (l : Lock) : Nat := l.cls.rank

open Prog Cls

def seqs {κ : Type} : List (Prog κ) → Prog κ
  | [] => .skip
  | p :: ps => .seq p (seqs ps)

/-- optional -/
def opt {κ : Type} (p : Prog κ) : Prog κ := .alt .skip p

/-- scoped lock: acquire, body, release -/
def withL {κ : Type} (c : κ) (body : Prog κ) : Prog κ := seqs [.acq c, body, .rel c]

/-- a leaf lock taken and released inside one accessor call -/
def leaf {κ : Type} (c : κ) : Prog κ := .seq (.acq c) (.rel c)

/-! ### Table rows. Each row lists the source sites it transcribes.
`src/` prefix omitted; bc = sync/base_cache.rs, ca = sync/cache.rs,
hk = common/concurrent/housekeeper.rs, ei = common/concurrent/entry_info.rs,
at = common/concurrent/atomic_time.rs, dq = common/concurrent/deques.rs,
ck = common/time/clock.rs. -/

/-- `AtomicInstant::{instant, set_instant, is_set}` (at): guard is a temporary of one
expression. Reached through `EntryInfo::{last_accessed, set_last_accessed, last_modified,
set_last_modified}` (ei), `Inner::{valid_after, set_valid_after, has_valid_after}` (bc),
`Housekeeper::should_apply`/`try_sync` (hk: `sync_after`). -/
def tAcc : Prog Cls := leaf T

/-- `EntryInfo::{access_order_q_node, set_…, take_…, write_order_q_node, set_…, take_…,
unset_q_nodes}` (ei): `nodes.lock()` guard is a temporary / local of the accessor. -/
def nAcc : Prog Cls := leaf N

/-- bc:`Inner::current_time_from_expiration_clock`: if `has_expiration_clock`,
`expiration_clock.read()` is held while ck:`Clock::now` reads `Mock::now`
(if the clock is a mock). -/
def clockNow : Prog Cls := opt (withL C (opt (leaf K)))

/-- bc:`is_expired_entry_wo` then bc:`is_expired_entry_ao` on an entry
(`last_modified()`, and — unless the first test already returned true at an `||` —
`last_accessed()`). -/
def expiredChecks : Prog Cls := seqs [opt tAcc, opt tAcc]

/-- bc:`Inner::handle_remove` and bc:`Inner::handle_remove_with_deques`:
admitted: dq:`unlink_ao`/`unlink_ao_from_deque` → `take_access_order_q_node` (N), then
dq:`unlink_wo` → `take_write_order_q_node` (N); else `unset_q_nodes` (N). -/
def handleRemove : Prog Cls := .alt (seqs [nAcc, nAcc]) nAcc

/-- bc:`Inner::handle_admit`: dq:`push_back_ao` → `set_access_order_q_node` (N); if the
write-order queue is enabled dq:`push_back_wo` → `set_write_order_q_node` (N). -/
def handleAdmit : Prog Cls := seqs [nAcc, opt nAcc]

/-- bc:`Inner::try_skip_updated_entry`: `cache.get(key)` (M; on `None` DashMap releases
the shard lock before returning); on `Some(entry)` the guard lives through the `if`:
dirty ⇒ dq:`move_to_back_ao_in_deque` → `access_order_q_node` (N) and
dq:`move_to_back_wo_in_deque` → `write_order_q_node` (N). -/
def trySkipUpdated : Prog Cls := withL M (opt (seqs [nAcc, nAcc]))

/-- The size-aware admission function of `Inner` in bc (the associated `fn` documented
"Performs size-aware admission"; called from `handle_upsert`): `while` over the
probation deque (finite, not constant-bounded):
`cache.get(vic_key)` (M) + `filter` (pointer comparison; no lock); the guard lives
through the `if let` body (`policy_weight` is an atomic; `freq` is the already held
`S` read guard passed by reference). -/
def victimScan : Prog Cls := .star (leaf M)

/-- bc:`Inner::handle_upsert`.
 * already admitted: dq:`move_to_back_ao` (N), dq:`move_to_back_wo` (N);
 * `cache.get(&kh.key).map_or(..ptr_eq..)` (M, no lock inside); not current ⇒ return;
 * enough capacity ⇒ `handle_admit`;
 * too big ⇒ `cache.remove_if` (M; closure is a pointer comparison);
 * the admission function (`victimScan`); result `Admitted` ⇒ for each victim
   `cache.remove_if` (M; pointer comparison) and, if removed, `handle_remove`; then
   `handle_admit`; result `Rejected` ⇒ `cache.remove_if` (M). -/
def handleUpsert : Prog Cls :=
  .alt (seqs [nAcc, nAcc])
    (seqs [leaf M,
      opt (.alt handleAdmit
        (.alt (leaf M)
          (seqs [victimScan,
            .alt (seqs [.star (seqs [leaf M, opt handleRemove]), handleAdmit])
                 (leaf M)])))])

/-- bc:`Inner::apply_reads`: `frequency_sketch.write()` (S) for the whole function;
per op (at most `READ_LOG_SIZE` = 384 of them; `try_recv` never blocks):
`entry.last_accessed()` (T), maybe `entry.set_last_accessed` (T), if admitted
dq:`move_to_back_ao` → `access_order_q_node` (N). -/
def applyReads : Prog Cls :=
  withL S (.loop 384 (opt (seqs [tAcc, opt tAcc, opt nAcc])))

/-- bc:`Inner::apply_writes`: `frequency_sketch.read()` (S) for the whole function; per
op (≤ `WRITE_LOG_SIZE` = 384): `handle_upsert` or `handle_remove`. -/
def applyWrites : Prog Cls :=
  withL S (.loop 384 (.alt handleUpsert handleRemove))

/-- bc:`Inner::enable_frequency_sketch` → bc:`do_enable_frequency_sketch`:
`frequency_sketch.write()` (S), a temporary of one statement. It runs after
`apply_writes` has returned (its `S` read guard is dropped), so `S` is never requested
while held. -/
def enableSketch : Prog Cls := leaf S

/-- bc:`Inner::remove_expired_wo`: `valid_after()` (T); ≤ 500 rounds: peek +
`is_expired_entry_wo(node)` (T); `cache.remove_if` (M) whose closure may call
`is_expired_entry_wo(v)` (T under M); removed ⇒ `handle_remove`; else `cache.get` (M),
dirty ⇒ dq:`move_to_back_ao`, dq:`move_to_back_wo` (N, N under M). -/
def removeExpiredWo : Prog Cls :=
  seqs [tAcc, .loop 500 (seqs [opt tAcc,
    opt (seqs [withL M (opt tAcc), .alt handleRemove trySkipUpdated])])]

/-- bc:`Inner::remove_expired_ao`: as above with `is_expired_entry_ao`,
`handle_remove_with_deques`, `try_skip_updated_entry`. -/
def removeExpiredAo : Prog Cls :=
  seqs [tAcc, .loop 500 (seqs [opt tAcc,
    opt (seqs [withL M (opt tAcc), .alt handleRemove trySkipUpdated])])]

/-- bc:`Inner::evict_expired`: `current_time_from_expiration_clock`; maybe
`remove_expired_wo`; `has_valid_after()` (T, may be short-circuited); maybe three times
`remove_expired_ao`. -/
def evictExpired : Prog Cls :=
  seqs [clockNow, opt removeExpiredWo, opt tAcc,
    opt (seqs [removeExpiredAo, removeExpiredAo, removeExpiredAo])]

/-- bc:`Inner::evict_lru_entries`: ≤ 500 rounds: peek (`is_dirty` atomic,
`last_modified()` T); either `try_skip_updated_entry`, or `cache.remove_if` (M) whose
closure calls `v.last_modified()` (T under M) then `handle_remove_with_deques` or
`try_skip_updated_entry`. -/
def evictLru : Prog Cls :=
  .loop 500 (opt (seqs [tAcc,
    .alt trySkipUpdated (seqs [withL M (opt tAcc), .alt handleRemove trySkipUpdated])]))

/-- bc:`<Inner as InnerSync>::sync`: `deques.lock()` (D) for the whole function;
≤ `MAX_SYNC_REPEATS + 1` = 5 rounds of maybe `apply_reads`, maybe `apply_writes`, maybe
`enable_frequency_sketch`; then `has_valid_after()` (T, may be short-circuited), maybe
`evict_expired`, maybe `evict_lru_entries`. Public entry: ca:`ConcurrentCacheExt::sync`
(called without the flag `F`). -/
def innerSync : Prog Cls :=
  withL D (seqs [.loop 5 (seqs [opt applyReads, opt applyWrites, opt enableSketch]),
    opt tAcc, opt evictExpired, opt evictLru])

/-- hk:`Housekeeper::try_sync`: `is_sync_running.compare_exchange(false, true)` (try F);
on success `cache.now()` (clock), `sync_after.set_instant` (T), `cache.sync(..)`,
`is_sync_running.store(false)` (release F); on failure nothing. -/
def trySync : Prog Cls :=
  .tryL F (seqs [clockNow, tAcc, innerSync, .rel F]) .skip

/-- bc:`BaseCache::record_read_op` → bc:`apply_reads_if_needed`:
hk:`should_apply_reads` (`sync_after.instant()` T, may be short-circuited), maybe
`try_sync`; then `try_send` (never blocks). -/
def recordReadOp : Prog Cls := seqs [opt tAcc, opt trySync]

/-- ca:`Cache::schedule_write_op`: retry loop; each round
bc:`apply_reads_writes_if_needed` (hk:`should_apply_writes`: T maybe; maybe `try_sync`),
`try_send`; if full, `std::thread::sleep` and retry. At least one round. -/
def scheduleWriteOp : Prog Cls :=
  seqs [.star (seqs [opt tAcc, opt trySync, .sleep]), opt tAcc, opt trySync]

/-- bc:`BaseCache::do_insert_with_hash`: clock; `cache.entry(key)` (M, write) — the
`RefMut` lives to the end of the statement; `and_modify` closure →
bc:`new_value_entry_from`: `set_last_accessed` (T), `set_last_modified` (T);
`or_insert_with` closure → bc:`new_value_entry` → `EntryInfo::new` → two
`AtomicInstant::new` → `set_instant` (T, T; fresh locks). -/
def doInsert : Prog Cls :=
  seqs [clockNow, withL M (.alt (seqs [tAcc, tAcc]) (seqs [tAcc, tAcc]))]

/-- The public operations. -/
inductive Op where
  | insert | get | invalidate | invalidateAll | sync | containsKey
  deriving DecidableEq, Repr

/-- THE TABLE.
 * `insert`: ca:`Cache::insert` → ca:`insert_with_hash` = `do_insert_with_hash`;
   `schedule_write_op`.
 * `get`: ca:`Cache::get` → bc:`get_with_hash`: clock; `cache.get(key)` (M); on
   `Some(entry)` under the guard: `valid_after()` (T), `is_expired_entry_wo/ao` (T, T),
   `value.clone()`; `drop(entry)` (release M) explicitly BEFORE `record_read_op`.
 * `invalidate`: ca:`Cache::invalidate`: bc:`remove_entry` → `cache.remove` (M); if
   something was removed: clock; `schedule_write_op`.
 * `invalidateAll`: bc:`BaseCache::invalidate_all`: clock; `set_valid_after` (T).
 * `sync`: ca:`ConcurrentCacheExt::sync` → `Inner::sync`.
 * `containsKey`: bc:`BaseCache::contains_key`: `cache.get` (M); under the guard
   `valid_after()` (T), clock (C, K), `is_expired_entry_wo/ao` (T, T). -/
def table : Op → Prog Cls
  | .insert => seqs [doInsert, scheduleWriteOp]
  | .get => seqs [clockNow, withL M (opt (seqs [tAcc, expiredChecks])), recordReadOp]
  | .invalidate => seqs [leaf M, opt (seqs [clockNow, scheduleWriteOp])]
  | .invalidateAll => seqs [clockNow, tAcc]
  | .sync => innerSync
  | .containsKey => withL M (opt (seqs [tAcc, clockNow, expiredChecks]))

def allOps : List Op := [.insert, .get, .invalidate, .invalidateAll, .sync, .containsKey]

/-- The lock events of a thread that performs the operations `ops` one after another. -/
def opsProg : List Op → Prog Cls
  | [] => .skip
  | o :: os => .seq (table o) (opsProg os)

/-- Decidable check of the table: started with no lock held, every path of every
operation respects  F < D < S < M < {N,T,C} < K  for blocking acquisitions, releases
everything it acquired (in LIFO order), and sleeps only with no lock held. -/
def tableOk : Bool := allOps.all (fun o => check Cls.rank (table o) [] == some [])

/-- A thread of the concrete system: it holds nothing and its code is an unfolding of a
sequence of table operations (any instances at every acquisition). -/
def IsCacheThread (t : Thread Lock) : Prop :=
  t.held = [] ∧ ∃ (ops : List Op) (h' : List Lock),
    Unfolds Lock.cls [] (opsProg ops) h' .done t.code

end MiniMoka.ConcL
