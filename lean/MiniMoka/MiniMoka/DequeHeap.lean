/-
  M3 `DequeHeap`: pointer-level model of the intrusive doubly linked list
  `src/common/deque.rs` (`DeqNode`, `Deque`, `DeqCursor`) and of the test facade
  `VerifDeque` of `src/verif.rs`.

  * Node addresses are natural numbers. The heap maps an address to `some node`
    (live allocation) or to nothing (`none`: never allocated, or freed).
  * `Box::into_raw`/`Box::new` = `alloc` (fresh address from the counter `next`; the
    counter only grows, so a freed address is never handed out again — lemma
    `alloc_fresh` in `Lemmas/DequeHeap.lean`). `Box::from_raw` + drop = `free`.
  * Every dereference (`as_ref`, `as_mut`, `(*p).field`) of an address that is not live
    raises `Fault.useAfterFree`; so does freeing it (double free). Nothing is ever
    silently defaulted. `unreachable!()` raises `Fault.unreachable`, `self.len -= 1`
    at zero raises `Fault.overflow` (debug build).
  * `self.len += 1` is modelled without the `usize` bound: 2^64 live nodes of at least
    24 bytes each do not fit into the address space.
  * `freed` is a ghost log of the addresses passed to `free`, newest first.

  The operations are written in a small exception/state monad `M` so that each Rust
  statement is one line of the model. `exec` turns them into total functions on
  `DState` with a sticky `fault` field.

  Core Lean only (this file is linked into the native driver).
-/
import MiniMoka.Basic

namespace MiniMoka
namespace DequeHeap

/-- `DeqNode<T>` with `T = u64`. -/
structure Node where
  next : Option Nat := none
  prev : Option Nat := none
  elem : Nat
  deriving Repr, DecidableEq, Inhabited

/-- The heap: an association list; the first binding of an address counts; a binding to
`none` is a tombstone for a freed node. -/
abbrev Heap := List (Nat × Option Node)

def hget : Heap → Nat → Option Node
  | [], _ => none
  | (k, v) :: r, a => if k = a then v else hget r a

/-- Overwrite the binding of `a` in place, or append one. -/
def hset : Heap → Nat → Option Node → Heap
  | [], a, v => [(a, v)]
  | (k, w) :: r, a, v => if k = a then (k, v) :: r else (k, w) :: hset r a v

/-- `DeqCursor<T>`. -/
inductive Cursor where
  | node (a : Nat)
  | done
  deriving Repr, DecidableEq, Inhabited

/-- `Deque<T>` together with the heap it points into. -/
structure DState where
  heap : Heap := []
  head : Option Nat := none
  tail : Option Nat := none
  len : Nat := 0
  cursor : Option Cursor := none
  /-- allocation counter: the next fresh address -/
  next : Nat := 0
  /-- ghost: addresses freed so far, newest first -/
  freed : List Nat := []
  fault : Option Fault := none
  deriving Repr, DecidableEq, Inhabited

/-! ## The monad -/

def M (α : Type) : Type := DState → Except Fault (α × DState)

instance : Monad M where
  pure a := fun s => .ok (a, s)
  bind m f := fun s =>
    match m s with
    | .error e => .error e
    | .ok (a, s') => f a s'

def fail {α : Type} (f : Fault) : M α := fun _ => .error f
def getS : M DState := fun s => .ok (s, s)
def modS (f : DState → DState) : M Unit := fun s => .ok ((), f s)

/-- Read a whole node through a raw pointer. -/
def load (a : Nat) : M Node := fun s =>
  match hget s.heap a with
  | some n => .ok (n, s)
  | none => .error .useAfterFree

/-- Write a whole node through a raw pointer. -/
def store (a : Nat) (n : Node) : M Unit := fun s =>
  match hget s.heap a with
  | some _ => .ok ((), { s with heap := hset s.heap a (some n) })
  | none => .error .useAfterFree

/-- `Box::new(node)` / `Box::into_raw`: a fresh address. -/
def alloc (n : Node) : M Nat := fun s =>
  .ok (s.next, { s with heap := hset s.heap s.next (some n), next := s.next + 1 })

/-- `drop(Box::from_raw(p))`. Returns the node that was stored there. -/
def free (a : Nat) : M Node := fun s =>
  match hget s.heap a with
  | some n => .ok (n, { s with heap := hset s.heap a none, freed := a :: s.freed })
  | none => .error .useAfterFree

/-- `p.as_ref()` / `p.as_mut()` / `&*p`: making a reference needs a live node. -/
def touch (a : Nat) : M Unit := do let _ ← load a; pure ()
def getNext (a : Nat) : M (Option Nat) := do let n ← load a; pure n.next
def getPrev (a : Nat) : M (Option Nat) := do let n ← load a; pure n.prev
def getElem (a : Nat) : M Nat := do let n ← load a; pure n.elem
def setNext (a : Nat) (v : Option Nat) : M Unit := do let n ← load a; store a { n with next := v }
def setPrev (a : Nat) (v : Option Nat) : M Unit := do let n ← load a; store a { n with prev := v }

/-! ## `impl Deque` — private methods -/

/-- `Deque::new` (the `region` tag plays no role in the list discipline). -/
def new : DState := {}

/-- `fn is_head(&self, node: &DeqNode<T>) -> bool` -/
def isHead (node : Nat) : M Bool := do
  match (← getS).head with
  | some head =>
    touch head                                  -- head.as_ref()
    pure (decide (head = node))                 -- std::ptr::eq
  | none => pure false

/-- `fn is_tail(&self, node: &DeqNode<T>) -> bool` -/
def isTail (node : Nat) : M Bool := do
  match (← getS).tail with
  | some tail =>
    touch tail                                  -- tail.as_ref()
    pure (decide (tail = node))
  | none => pure false

/-- `fn is_at_cursor(&self, node: &DeqNode<T>) -> bool` -/
def isAtCursor (node : Nat) : M Bool := do
  match (← getS).cursor with
  | some (.node cur) =>
    touch cur                                   -- cur_node.as_ref()
    pure (decide (cur = node))
  | _ => pure false

/-- `fn advance_cursor(&mut self)` -/
def advanceCursor : M Unit := do
  let c := (← getS).cursor
  modS fun s => { s with cursor := none }       -- self.cursor.take()
  match c with
  | none => pure ()
  | some (.node node) =>
    match (← getNext node) with                 -- (*node.as_ptr()).next
    | some next => modS fun s => { s with cursor := some (.node next) }
    | none => modS fun s => { s with cursor := some .done }
  | some .done => modS fun s => { s with cursor := none }

/-- The statement `if self.is_at_cursor(node.as_ref()) { self.advance_cursor(); }` that
opens `pop_front`, `move_to_back` (after the tail test) and `unlink`. -/
def leaveCursor (node : Nat) : M Unit := do
  touch node                                    -- node.as_ref()
  if (← isAtCursor node) then advanceCursor

/-- `self.len -= 1` -/
def decLen : M Unit := do
  let s ← getS
  if s.len = 0 then fail .overflow
  else modS fun s => { s with len := s.len - 1 }

/-! ## `impl Deque` — crate-public methods -/

/-- `DeqNode::next_node_ptr(this)` -/
def nextNodePtr (this : Nat) : M (Option Nat) := getNext this   -- this.as_ref().next

/-- `fn contains(&self, node: &DeqNode<T>) -> bool`. The caller made the reference. -/
def contains (node : Nat) : M Bool := do
  touch node                                    -- caller: p.as_ref()
  if (← getPrev node).isSome then pure true     -- node.prev.is_some() ||
  else isHead node                              --   self.is_head(node)

/-- `fn peek_front(&self) -> Option<&DeqNode<T>>` (the reference is the address). -/
def peekFront : M (Option Nat) := do
  match (← getS).head with
  | none => pure none
  | some node =>
    touch node                                  -- node.as_ref()
    pure (some node)

/-- `fn peek_front_ptr(&self)` -/
def peekFrontPtr : M (Option Nat) := do pure (← getS).head

/-- `fn pop_front(&mut self) -> Option<Box<DeqNode<T>>>`. The returned box is the
address of a live node that the caller now owns. -/
def popFrontBox : M (Option Nat) := do
  match (← getS).head with
  | none => pure none
  | some node =>
    leaveCursor node                            -- if self.is_at_cursor(node.as_ref()) {..}
    -- let mut node = Box::from_raw(node.as_ptr());
    let nx ← getNext node
    modS fun s => { s with head := nx }         -- self.head = node.next;
    match nx with                               -- match self.head
    | none => modS fun s => { s with tail := none }
    | some head => setPrev head none            -- (*head.as_ptr()).prev = None
    decLen                                      -- self.len -= 1;
    setPrev node none                           -- node.prev = None;
    setNext node none                           -- node.next = None;
    pure (some node)

/-- `pop_front` followed by the drop of the returned box (what every caller does).
Returns the address that was the head and the element it carried. -/
def popFront : M (Option (Nat × Nat)) := do
  match (← popFrontBox) with
  | none => pure none
  | some node =>
    let n ← free node
    pure (some (node, n.elem))

/-- `fn push_back(&mut self, mut node: Box<DeqNode<T>>) -> NonNull<DeqNode<T>>`;
`node` is the address of the box (live, owned by the caller). -/
def pushBackBox (node : Nat) : M Nat := do
  setNext node none                             -- node.next = None;
  setPrev node (← getS).tail                    -- node.prev = self.tail;
  -- let node = NonNull::new(Box::into_raw(node)).expect(..)   (same address)
  match (← getS).tail with
  | none => modS fun s => { s with head := some node }
  | some tail => setNext tail (some node)       -- (*tail.as_ptr()).next = Some(node)
  modS fun s => { s with tail := some node }    -- self.tail = Some(node);
  modS fun s => { s with len := s.len + 1 }     -- self.len += 1;
  pure node

/-- `push_back(Box::new(DeqNode::new(element)))` -/
def pushBack (element : Nat) : M Nat := do
  let node ← alloc { next := none, prev := none, elem := element }
  pushBackBox node

/-- `fn move_to_back(&mut self, mut node: NonNull<DeqNode<T>>)` -/
def moveToBack (node : Nat) : M Unit := do
  touch node                                    -- node.as_ref()
  if (← isTail node) then pure ()               -- already at the tail: return
  else
    leaveCursor node                            -- if self.is_at_cursor(node.as_ref()) {..}
    touch node                                  -- let node = node.as_mut();
    let nprev ← getPrev node
    let nnext ← getNext node
    match nprev with                            -- match node.prev
    | some prev =>
      if nnext.isSome then setNext prev nnext   -- (*prev.as_ptr()).next = node.next
      else pure ()
    | none => modS fun s => { s with head := nnext }  -- self.head = node.next
    let taken ← getNext node                    -- node.next.take()
    setNext node none
    match taken with
    | some next =>
      setPrev next (← getPrev node)             -- (*next.as_ptr()).prev = node.prev;
      match (← getS).tail with
      | some tail =>
        setPrev node (some tail)                -- node.as_mut().prev = Some(tail);
        setNext tail (some node)                -- (*tail.as_ptr()).next = Some(node)
      | none => fail .unreachable               -- unreachable!()
      modS fun s => { s with tail := some node }  -- self.tail = Some(node);
    | none => pure ()

/-- `fn move_front_to_back(&mut self)` -/
def moveFrontToBack : M Unit := do
  match (← getS).head with
  | some node => moveToBack node
  | none => pure ()

/-- `fn unlink(&mut self, mut node: NonNull<DeqNode<T>>)` -/
def unlink (node : Nat) : M Unit := do
  leaveCursor node                              -- if self.is_at_cursor(node.as_ref()) {..}
  touch node                                    -- let node = node.as_mut();
  match (← getPrev node) with                   -- match node.prev
  | some prev => setNext prev (← getNext node)  -- (*prev.as_ptr()).next = node.next
  | none => do
    let nx ← getNext node
    modS fun s => { s with head := nx }         -- self.head = node.next
  match (← getNext node) with                   -- match node.next
  | some next => setPrev next (← getPrev node)  -- (*next.as_ptr()).prev = node.prev
  | none => do
    let pv ← getPrev node
    modS fun s => { s with tail := pv }         -- self.tail = node.prev
  setPrev node none                             -- node.prev = None;
  setNext node none                             -- node.next = None;
  decLen                                        -- self.len -= 1;

/-- `fn unlink_and_drop(&mut self, node: NonNull<DeqNode<T>>)` -/
def unlinkAndDrop (node : Nat) : M Unit := do
  unlink node
  let _ ← free node                             -- drop(Box::from_raw(node.as_ptr()))

/-- `impl Iterator for &mut Deque<T>`: `fn next`. Returns the address of the node whose
element is yielded, and the element. -/
def iterNext : M (Option (Nat × Nat)) := do
  if (← getS).cursor.isNone then
    match (← getS).head with
    | some head => modS fun s => { s with cursor := some (.node head) }
    | none => pure ()
  let elem ← (do
    match (← getS).cursor with
    | some (.node node) => pure (some (node, ← getElem node))  -- &(*node.as_ptr()).element
    | _ => pure none : M (Option (Nat × Nat)))
  advanceCursor
  pure elem

/-- `impl Drop for Deque`: `while let Some(node) = self.pop_front() { drop(node) }`.
Every successful `pop_front` decrements `len` with an overflow check, so `len + 1`
rounds always suffice; the `hang` branch only makes the definition total. -/
def dropLoop : Nat → M Unit
  | 0 => fail .hang
  | fuel + 1 => do
    match (← popFront) with
    | some _ => dropLoop fuel
    | none => pure ()

def dropAll : M Unit := do dropLoop ((← getS).len + 1)

/-! ## Total functions on states with a sticky fault -/

/-- Run an operation. A state that already carries a fault is left alone; a fault raised
by the operation is recorded in the (otherwise unchanged) state. -/
def exec {α : Type} (m : M α) (s : DState) : DState × Option α :=
  match s.fault with
  | some _ => (s, none)
  | none =>
    match m s with
    | .ok (a, s') => (s', some a)
    | .error f => ({ s with fault := some f }, none)

/-! ## Facade: `VerifDeque` of `src/verif.rs` -/

structure FState where
  d : DState := {}
  /-- `nodes: HashMap<u64, NonNull<DeqNode<u64>>>` -/
  nodes : List (Nat × Nat) := []
  deriving Repr, DecidableEq, Inhabited

inductive FOp where
  | pushBack (id : Nat)
  | popFront
  | peekFront
  | contains (id : Nat)
  | moveToBack (id : Nat)
  | moveFrontToBack
  | unlink (id : Nat)
  | relinkBack (id : Nat)
  | unlinkAndDrop (id : Nat)
  | nextOf (id : Nat)
  | iterNext
  | len
  | dump
  deriving Repr, DecidableEq, Inhabited

inductive FObs where
  | unit
  | optNat (v : Option Nat)                 -- Option<u64>
  | bool (b : Bool)
  | optBool (b : Option Bool)
  | optOptNat (v : Option (Option Nat))     -- Option<Option<u64>>
  | nat (n : Nat)                           -- usize
  | dump (elems : List Nat) (cursorState : Nat) (cursorElem : Option Nat)
  | dumpErr (msg : String)
  | fault (f : Fault)
  deriving Repr, DecidableEq, Inhabited

/-- `Deque::verif_walk`: `(address, element)` front to back, or the structure error. -/
def walkLoop : Nat → Option Nat → Option Nat → List (Nat × Nat) → M (Except String (List (Nat × Nat)))
  | 0, _, _, _ => pure (.error "more nodes than len (cycle?)")
  | fuel + 1, prev, cur, out => do
    match cur with
    | none =>
      let s ← getS
      if s.tail ≠ prev then pure (.error "tail mismatch")
      else if out.length ≠ s.len then
        pure (.error s!"len {s.len} but {out.length} nodes")
      else pure (.ok out)
    | some node =>
      let n ← load node
      if n.prev ≠ prev then pure (.error s!"prev mismatch at position {out.length}")
      else
        let out := out ++ [(node, n.elem)]
        if out.length > (← getS).len then pure (.error "more nodes than len (cycle?)")
        else walkLoop fuel cur n.next out

def walk : M (Except String (List (Nat × Nat))) := do
  let s ← getS
  walkLoop (s.len + 2) none s.head []

/-- `VerifDeque::dump` -/
def dumpM : M FObs := do
  match (← walk) with
  | .error e => pure (.dumpErr e)
  | .ok v =>
    let elems := v.map (·.2)
    match (← getS).cursor with
    | none => pure (.dump elems 0 none)
    | some .done => pure (.dump elems 2 none)
    | some (.node c) =>
      match v.find? (fun p => p.1 == c) with
      | some p => pure (.dump elems 1 (some p.2))
      | none => pure (.dumpErr "cursor points outside the list")

/-- One facade call, in the monad (the `nodes` map is threaded explicitly). -/
def fstepM (nodes : List (Nat × Nat)) : FOp → M (List (Nat × Nat) × FObs)
  | .pushBack id => do
    let p ← pushBack id
    pure (AL.put nodes id p, .unit)
  | .popFront => do
    match (← popFront) with
    | none => pure (nodes, .optNat none)
    | some (_, e) => pure (AL.erase nodes e, .optNat (some e))
  | .peekFront => do
    match (← peekFront) with
    | none => pure (nodes, .optNat none)
    | some a => pure (nodes, .optNat (some (← getElem a)))
  | .contains id => do
    match AL.get? nodes id with
    | none => pure (nodes, .optBool none)
    | some p => pure (nodes, .optBool (some (← contains p)))
  | .moveToBack id => do
    match AL.get? nodes id with
    | none => pure (nodes, .bool false)
    | some p =>
      if (← contains p) then do moveToBack p; pure (nodes, .bool true)
      else pure (nodes, .bool false)
  | .moveFrontToBack => do
    moveFrontToBack
    pure (nodes, .unit)
  | .unlink id => do
    match AL.get? nodes id with
    | none => pure (nodes, .bool false)
    | some p =>
      if (← contains p) then do unlink p; pure (nodes, .bool true)
      else pure (nodes, .bool false)
  | .relinkBack id => do
    match AL.get? nodes id with
    | none => pure (nodes, .bool false)
    | some p =>
      if (← contains p) then pure (nodes, .bool false)
      else do
        touch p                                   -- Box::from_raw(p.as_ptr())
        let p2 ← pushBackBox p
        pure (AL.put nodes id p2, .bool true)
  | .unlinkAndDrop id => do
    match AL.get? nodes id with
    | none => pure (nodes, .bool false)
    | some p =>
      if (← contains p) then do
        unlinkAndDrop p
        pure (AL.erase nodes id, .bool true)
      else pure (nodes, .bool false)
  | .nextOf id => do
    match AL.get? nodes id with
    | none => pure (nodes, .optOptNat none)
    | some p =>
      match (← nextNodePtr p) with
      | none => pure (nodes, .optOptNat (some none))
      | some n => pure (nodes, .optOptNat (some (some (← getElem n))))
  | .iterNext => do
    match (← iterNext) with
    | none => pure (nodes, .optNat none)
    | some (_, e) => pure (nodes, .optNat (some e))
  | .len => do pure (nodes, .nat (← getS).len)
  | .dump => do pure (nodes, ← dumpM)

/-- One facade call as a total function. After a fault every call reports the fault. -/
def fstep (st : FState) (op : FOp) : FState × FObs :=
  match st.d.fault with
  | some f => (st, .fault f)
  | none =>
    match fstepM st.nodes op st.d with
    | .ok ((nodes, ob), d) => ({ d := d, nodes := nodes }, ob)
    | .error f => ({ st with d := { st.d with fault := some f } }, .fault f)

def frun (ops : List FOp) : FState × List FObs :=
  ops.foldl (fun (acc : FState × List FObs) op =>
    let (st, ob) := fstep acc.1 op
    (st, acc.2 ++ [ob])) ({}, [])

end DequeHeap
end MiniMoka
