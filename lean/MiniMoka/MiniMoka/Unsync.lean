/-
  Model of `unsync::Cache` (src/unsync/cache.rs, src/unsync/deques.rs, src/unsync.rs).

  One function per Rust method.  The two intrusive lists are lists of nodes with
  identities (`id`), entries hold node ids exactly like the `Option<NonNull<..>>`
  fields of `EntryInfo`; a node that is in neither list has been freed.  `expect`,
  `unwrap`, `unreachable!`, the "not a member" panics and overflow-checked counter
  arithmetic set the sticky `fault` field.
-/
import MiniMoka.Types

namespace MiniMoka
namespace Unsync

structure AoNode where
  id : Nat
  key : Nat
  hash : UInt64
  ts : Option Nat
  deriving Repr, Inhabited

structure WoNode where
  id : Nat
  key : Nat
  ts : Option Nat
  deriving Repr, Inhabited

structure UEntry where
  val : Nat
  weight : Nat
  ao : Option Nat := none
  wo : Option Nat := none
  deriving Repr, Inhabited

structure UState where
  map : List (Nat × UEntry) := []
  prob : List AoNode := []
  wo : List WoNode := []
  ec : Nat := 0
  ws : Nat := 0
  sk : Sketch := {}
  skOn : Bool := false
  now : Nat := 0
  nextId : Nat := 0
  fault : Option Fault := none
  deriving Repr, Inhabited

def UState.fail (s : UState) (f : Fault) : UState :=
  if s.fault.isSome then s else { s with fault := some f }

/-! ### list helpers (nodes addressed by id) -/

def findAo : List AoNode → Nat → Option AoNode
  | [], _ => none
  | n :: rest, id => if n.id = id then some n else findAo rest id

def eraseAo : List AoNode → Nat → List AoNode
  | [], _ => []
  | n :: rest, id => if n.id = id then rest else n :: eraseAo rest id

def findWo : List WoNode → Nat → Option WoNode
  | [], _ => none
  | n :: rest, id => if n.id = id then some n else findWo rest id

def eraseWo : List WoNode → Nat → List WoNode
  | [], _ => []
  | n :: rest, id => if n.id = id then rest else n :: eraseWo rest id

def setTsAo : List AoNode → Nat → Nat → List AoNode
  | [], _, _ => []
  | n :: rest, id, t => if n.id = id then { n with ts := some t } :: rest else n :: setTsAo rest id t

def setTsWo : List WoNode → Nat → Nat → List WoNode
  | [], _, _ => []
  | n :: rest, id, t => if n.id = id then { n with ts := some t } :: rest else n :: setTsWo rest id t

/-- `Deque::move_to_back` for a node that is in the list. -/
def moveToBackAo (l : List AoNode) (id : Nat) : List AoNode :=
  match findAo l id with
  | none => l
  | some n => eraseAo l id ++ [n]

def moveToBackWo (l : List WoNode) (id : Nat) : List WoNode :=
  match findWo l id with
  | none => l
  | some n => eraseWo l id ++ [n]

/-! ### deques.rs -/

/-- `Deques::unlink_ao(&mut entry)` for an entry already taken out of the map:
`unlink_node_ao_from_deque` frees the node, or panics if it is not a member. -/
def unlinkAo (s : UState) (e : UEntry) : UState :=
  match e.ao with
  | none => s
  | some id =>
    match findAo s.prob id with
    | some _ => { s with prob := eraseAo s.prob id }
    | none => s.fail .notMember

/-- `Deques::unlink_wo(deq, &mut entry)`. -/
def unlinkWo (s : UState) (e : UEntry) : UState :=
  match e.wo with
  | none => s
  | some id =>
    match findWo s.wo id with
    | some _ => { s with wo := eraseWo s.wo id }
    | none => s.fail .notMember

/-- `Deques::move_to_back_ao(&entry)`: `unreachable!()` when the node is not in its list. -/
def moveToBackAoE (s : UState) (e : UEntry) : UState :=
  match e.ao with
  | none => s
  | some id =>
    match findAo s.prob id with
    | some _ => { s with prob := moveToBackAo s.prob id }
    | none => s.fail .unreachable

/-- `Deques::move_to_back_wo(&entry)`: `unwrap()` on the node pointer. -/
def moveToBackWoE (s : UState) (e : UEntry) : UState :=
  match e.wo with
  | none => s.fail .expect
  | some id =>
    match findWo s.wo id with
    | some _ => { s with wo := moveToBackWo s.wo id }
    | none => s

/-! ### AccessTime of an entry: the timestamps live in the entry's list nodes -/

def entryLa (s : UState) (e : UEntry) : Option Nat :=
  match e.ao with
  | none => none
  | some id => (findAo s.prob id).bind (·.ts)

def entryLm (s : UState) (e : UEntry) : Option Nat :=
  match e.wo with
  | none => none
  | some id => (findWo s.wo id).bind (·.ts)

def isExpiredEntry (p : Params) (s : UState) (e : UEntry) (now : Nat) : Bool :=
  expiredAt p.ttl (entryLm s e) now || expiredAt p.tti (entryLa s e) now

/-- Take the entry `e` of key `k` out of the cache: `cache.remove(k)` followed by
`unlink_ao` and `unlink_wo` on the removed entry. -/
def takeOut (s : UState) (k : Nat) (e : UEntry) : UState :=
  unlinkWo (unlinkAo { s with map := AL.erase s.map k } e) e

/-! ### counters -/

/-- `self.entry_count -= n` (overflow-checked in a debug build). -/
def subEc (s : UState) (n : Nat) : UState :=
  if s.ec < n then s.fail .overflow else { s with ec := s.ec - n }

/-! ### eviction -/

/-- `remove_expired_wo(batch, now)`; returns the state and `(count, weight)`. -/
def removeExpiredWo (p : Params) : Nat → UState → Nat → Nat → UState × Nat × Nat
  | 0, s, c, w => (s, c, w)
  | fuel + 1, s, c, w =>
    match s.wo with
    | [] => (s, c, w)
    | n :: rest =>
      if expiredAt p.ttl n.ts s.now then
        match AL.get? s.map n.key with
        | some e =>
          removeExpiredWo p fuel (takeOut s n.key e) (c + 1) (if p.q.d4 then w - e.weight else w + e.weight)
        | none => removeExpiredWo p fuel { s with wo := rest } c w
      else (s, c, w)

/-- `remove_expired_ao("probation", …)`. -/
def removeExpiredAo (p : Params) : Nat → UState → Nat → Nat → UState × Nat × Nat
  | 0, s, c, w => (s, c, w)
  | fuel + 1, s, c, w =>
    match s.prob with
    | [] => (s, c, w)
    | n :: rest =>
      if expiredAt p.tti n.ts s.now then
        match AL.get? s.map n.key with
        | some e =>
          removeExpiredAo p fuel (takeOut s n.key e) (c + 1) (w + e.weight)
        | none => removeExpiredAo p fuel { s with prob := rest } c w
      else (s, c, w)

def EVICTION_BATCH_SIZE : Nat := Gen.UNSYNC_EVICTION_BATCH_SIZE

/-- `evict_expired(now)`. -/
def evictExpired (p : Params) (s : UState) : UState :=
  let s :=
    if p.ttl.isSome then
      let (s1, c, w) := removeExpiredWo p EVICTION_BATCH_SIZE s 0 0
      let s2 := subEc s1 c
      { s2 with ws := s2.ws - w }
    else s
  if p.tti.isSome then
    let (s1, c, w) := removeExpiredAo p EVICTION_BATCH_SIZE s 0 0
    let s2 := subEc s1 c
    { s2 with ws := s2.ws - w }
  else s

/-- `evict_expired_if_needed()`; the returned flag says whether a timestamp was taken. -/
def evictExpiredIfNeeded (p : Params) (s : UState) : UState :=
  if p.hasExpiry then evictExpired p s else s

def weightsToEvict (p : Params) (s : UState) : Nat :=
  match p.cap with
  | some limit => s.ws - limit
  | none => 0

def evictLruLoop : Nat → UState → Nat → Nat → Nat → UState × Nat × Nat
  | 0, s, _, c, w => (s, c, w)
  | fuel + 1, s, wte, c, w =>
    if w ≥ wte then (s, c, w)
    else
      match s.prob with
      | [] => (s, c, w)
      | n :: rest =>
        match AL.get? s.map n.key with
        | some e =>
          evictLruLoop fuel (takeOut s n.key e) wte (c + 1) (w + e.weight)
        | none => evictLruLoop fuel { s with prob := rest } wte c w

/-- `evict_lru_entries()`. -/
def evictLru (p : Params) (s : UState) : UState :=
  let (s1, c, w) := evictLruLoop EVICTION_BATCH_SIZE s (weightsToEvict p s) 0 0
  let s2 := subEc s1 c
  { s2 with ws := s2.ws - w }

/-- Maintenance performed at the start of `get`, `contains_key`, `insert`, `invalidate`. -/
def maintain (p : Params) (s : UState) : UState :=
  evictLru p (evictExpiredIfNeeded p s)

/-! ### sketch enabling -/

def shouldEnableSketch (p : Params) (s : UState) : Bool :=
  if s.skOn then false
  else match p.cap with
    | some maxCap => s.ws ≥ maxCap / 2
    | none => false

def enableSketch (p : Params) (s : UState) : UState :=
  match p.cap with
  | some maxCap =>
    let cap := if !p.hasWeigher then maxCap else p.capF s.ec s.ws maxCap
    { s with sk := s.sk.ensureCapacity (Sketch.sketchCapacity cap), skOn := true }
  | none => s

def maybeEnableSketch (p : Params) (s : UState) : UState :=
  if shouldEnableSketch p s then enableSketch p s else s

/-! ### insert -/

def hasEnoughCapacity (p : Params) (weight ws : Nat) : Bool :=
  match p.cap with
  | some limit => ws + weight ≤ limit
  | none => true

/-- Push the freshly inserted entry `k` at the back of the deque(s). `ts` is the
timestamp taken by the operation (`None` without expiry). -/
def pushCandidate (p : Params) (s : UState) (k : Nat) (hash : UInt64) (ts : Option Nat) : UState :=
  match AL.get? s.map k with
  | none => s.fail .expect
  | some e =>
    let aoId := s.nextId
    let e : UEntry := { e with ao := some aoId }
    let node : AoNode := { id := aoId, key := k, hash := hash, ts := ts }
    let s : UState := { s with prob := s.prob ++ [node], nextId := s.nextId + 1 }
    if p.ttl.isSome then
      let woId := s.nextId
      let wnode : WoNode := { id := woId, key := k, ts := ts }
      { s with wo := s.wo ++ [wnode], nextId := s.nextId + 1,
               map := AL.put s.map k { e with wo := some woId } }
    else { s with map := AL.put s.map k e }

structure Admission where
  fault : Bool := false
  vw : Nat := 0
  vf : Nat := 0
  victims : List AoNode := []
  deriving Repr, Inhabited

/-- The victim-aggregation loop of `admit`, walking the probation list from the LRU end. -/
def admitLoop (p : Params) (s : UState) (cw cf : Nat) : List AoNode → Admission → Admission
  | [], a => a
  | n :: rest, a =>
    if a.vw < cw ∧ ¬ cf < a.vf then
      match AL.get? s.map n.key with
      | none => { a with fault := true }
      | some e =>
        admitLoop p s cw cf rest
          { a with vw := a.vw + p.weigh n.key e.val,
                   vf := a.vf + s.sk.frequency n.hash,
                   victims := a.victims ++ [n] }
    else a

def removeVictims : List AoNode → UState → UState
  | [], s => s
  | v :: rest, s =>
    match AL.get? s.map v.key with
    | none => removeVictims rest (s.fail .expect)
    | some e =>
      removeVictims rest (subEc (takeOut s v.key e) 1)

/-- "The candidate is too big to fit in the cache." -/
def tooBig (p : Params) (weight : Nat) : Bool :=
  match p.cap with
  | some maxCap => decide (weight > maxCap)
  | none => false

/-- The `match Self::admit(..)` part of `handle_insert`: TinyLFU admission against the
LRU victims, or rejection of the candidate. -/
def admitOrReject (p : Params) (s : UState) (k : Nat) (hash : UInt64) (weight : Nat)
    (ts : Option Nat) : UState :=
  let cf := s.sk.frequency hash
  let a := admitLoop p s weight cf s.prob {}
  if a.fault then s.fail .expect
  else if a.vw ≥ weight ∧ cf > a.vf then
    let s := removeVictims a.victims s
    let s := pushCandidate p s k hash ts
    let s := { s with ec := s.ec + 1 }
    let s := { s with ws := s.ws - a.vw }
    let s := { s with ws := s.ws + weight }
    maybeEnableSketch p s
  else { s with map := AL.erase s.map k }

/-- `handle_insert(key, hash, policy_weight, timestamp)`. -/
def handleInsert (p : Params) (s : UState) (k : Nat) (hash : UInt64) (weight : Nat)
    (ts : Option Nat) : UState :=
  if hasEnoughCapacity p weight s.ws then
    let s := pushCandidate p s k hash ts
    let s := { s with ec := s.ec + 1, ws := s.ws + weight }
    maybeEnableSketch p s
  else if tooBig p weight then { s with map := AL.erase s.map k }
  else admitOrReject p s k hash weight ts

/-- `handle_update(key, timestamp, policy_weight, old_entry)`; the new entry is already
in the map. -/
def handleUpdate (p : Params) (s : UState) (k : Nat) (ts : Option Nat) (weight : Nat)
    (old : UEntry) : UState :=
  match AL.get? s.map k with
  | none => s.fail .expect
  | some e =>
    let e := { e with ao := old.ao, wo := old.wo, weight := weight }
    let s := { s with map := AL.put s.map k e }
    let s := match ts with
      | none => s
      | some t =>
        let s := match e.ao with
          | some id => { s with prob := setTsAo s.prob id t }
          | none => s
        match e.wo with
          | some id => { s with wo := setTsWo s.wo id t }
          | none => s
    let s := moveToBackAoE s e
    let s := if p.ttl.isSome then moveToBackWoE s e else s
    let s := { s with ws := s.ws - old.weight }
    { s with ws := s.ws + weight }

def opTs (p : Params) (s : UState) : Option Nat := if p.hasExpiry then some s.now else none

def insert (p : Params) (s : UState) (k v : Nat) : UState :=
  let s := maintain p s
  let ts := opTs p s
  let weight := p.weigh k v
  let entry : UEntry := { val := v, weight := weight }
  match AL.get? s.map k with
  | some old =>
    handleUpdate p { s with map := AL.put s.map k entry } k ts weight old
  | none =>
    handleInsert p { s with map := AL.put s.map k entry } k (p.hash k) weight ts

/-! ### lookups -/

def sketchIncrement (p : Params) (s : UState) (h : UInt64) : UState :=
  match s.sk.increment p.q.d5 h with
  | .ok sk => { s with sk := sk }
  | .error f => s.fail f

/-- `record_hit(deques, entry, ts)`. -/
def recordHit (s : UState) (e : UEntry) (ts : Option Nat) : UState :=
  let s := match ts, e.ao with
    | some t, some id => { s with prob := setTsAo s.prob id t }
    | _, _ => s
  moveToBackAoE s e

def get (p : Params) (s : UState) (k : Nat) : UState × Option Nat :=
  let s := maintain p s
  let ts := opTs p s
  let s := sketchIncrement p s (p.hash k)
  match AL.get? s.map k with
  | none => (s, none)
  | some e =>
    match ts with
    | none => (recordHit s e none, some e.val)
    | some t =>
      if isExpiredEntry p s e t then (s, none)
      else (recordHit s e ts, some e.val)

def containsKey (p : Params) (s : UState) (k : Nat) : UState × Bool :=
  let s := maintain p s
  match AL.get? s.map k with
  | none => (s, false)
  | some e =>
    if p.hasExpiry then (s, !isExpiredEntry p s e s.now) else (s, true)

/-- `iter()` (`&self`): every map entry that `is_expired_entry` does not filter out. -/
def iter (p : Params) (s : UState) : List (Nat × Nat) :=
  (s.map.filter (fun kv => !isExpiredEntry p s kv.2 s.now)).map (fun kv => (kv.1, kv.2.val))

/-! ### invalidation -/

def invalidate (p : Params) (s : UState) (k : Nat) : UState :=
  let s := maintain p s
  match AL.get? s.map k with
  | none => s
  | some e =>
    let s := takeOut s k e
    let s := if p.q.d1 then s else subEc s 1
    { s with ws := s.ws - e.weight }

def invalidateAll (p : Params) (s : UState) : UState :=
  { s with map := [], prob := [], wo := [], ws := 0, ec := if p.q.d2 then s.ec else 0 }

def invalidateKeys (p : Params) : List Nat → UState → Nat → Nat → UState × Nat × Nat
  | [], s, c, w => (s, c, w)
  | k :: rest, s, c, w =>
    match AL.get? s.map k with
    | none => invalidateKeys p rest s c w
    | some e =>
      invalidateKeys p rest (takeOut s k e) (c + 1) (if p.q.d3 then w - e.weight else w + e.weight)

def invalidateEntriesIf (p : Params) (s : UState) (pr : Pred) : UState :=
  let keys := (s.map.filter (fun kv => pr.eval kv.1 kv.2.val)).map (·.1)
  let (s, c, w) := invalidateKeys p keys s 0 0
  let s := if p.q.d3 then s else subEc s c
  { s with ws := s.ws - w }

/-! ### snapshot and step -/

def entryView (s : UState) (kv : Nat × UEntry) : EntryView :=
  let e := kv.2
  { key := kv.1, val := e.val, weight := e.weight,
    la := entryLa s e, lm := entryLm s e,
    aoOk := match e.ao with
      | some id => (match findAo s.prob id with | some n => n.key == kv.1 | none => false)
      | none => false,
    woOk := match e.wo with
      | some id => (match findWo s.wo id with | some n => n.key == kv.1 | none => false)
      | none => true }

def snapshot (p : Params) (s : UState) : Snap :=
  { ec := s.ec, ws := s.ws,
    entries := sortBy (·.key) (s.map.map (entryView s)),
    prob := s.prob.map (fun n =>
      { key := n.key, ts := n.ts,
        current := match AL.get? s.map n.key with
          | some e => e.ao == some n.id
          | none => false }),
    wo := s.wo.map (fun n =>
      { key := n.key, ts := n.ts,
        current := match AL.get? s.map n.key with
          | some e => e.wo == some n.id
          | none => false }),
    skOn := s.skOn, skSize := s.sk.size, skSample := s.sk.sampleSize,
    skLen := s.sk.table.size, skCrc := s.sk.crc,
    freqs := sortBy (·.1) (s.map.map (fun kv => (kv.1, s.sk.frequency (p.hash kv.1)))),
    now := s.now,
    -- one key object per key in use (the `Rc<K>` shared by the map key and both nodes), one
    -- value object per map entry
    liveK := countDistinct (AL.keys s.map ++ s.prob.map (·.key) ++ s.wo.map (·.key)),
    liveV := s.map.length }

def step (p : Params) (s : UState) (op : Op) : UState × Obs :=
  if s.fault.isSome then (s, .badOp)
  else
    let r : UState × Obs := match op with
      | .ins k v => (insert p s k v, .ok)
      | .get k => let (s', v) := get p s k; (s', .val v)
      | .has k => let (s', b) := containsKey p s k; (s', .bool b)
      | .iter => (s, .iter (sortBy (·.1) (iter p s)))
      | .inv k => (invalidate p s k, .ok)
      | .invAll => (invalidateAll p s, .ok)
      | .invIf pr => (invalidateEntriesIf p s pr, .ok)
      | .sync => (s, .badOp)
      | .adv d => ({ s with now := s.now + d }, .ok)
      | .snap => (s, .snap (snapshot p s))
      | .freq k => (s, .freq (s.sk.frequency (p.hash k)))
    match r.1.fault with
    | some f => (r.1, .panic f)
    | none => r

/-- Run a history from the initial state, collecting `(op, observation)` pairs. -/
def run (p : Params) : UState → List Op → List (Op × Obs)
  | _, [] => []
  | s, op :: rest =>
    let (s', o) := step p s op
    (op, o) :: run p s' rest

def trace (p : Params) (h : List Op) : List (Op × Obs) := run p {} h

end Unsync
end MiniMoka
