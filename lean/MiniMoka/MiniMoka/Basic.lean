/-
  Basic definitions shared by all models: association lists with recursively
  defined operations, the fault enumeration, small list helpers.

  Model files are import-free (core Lean only) so that the driver links as a
  native executable.
-/

namespace MiniMoka

/-- Classes of internal failure. Each `expect`/`unwrap`/`unreachable!`/`panic!`,
each overflow-checked arithmetic operation and each dereference of a freed list
node in the Rust code maps to one of these. A fault is sticky in the model state. -/
inductive Fault where
  | overflow      -- "attempt to add/subtract with overflow" (debug build)
  | unreachable   -- `unreachable!()`
  | expect        -- `expect(..)` / `unwrap()` on `None`
  | notMember     -- "unlink_node - node is not a member of … deque"
  | useAfterFree  -- dereference of a list node that has been freed
  | hang          -- an operation that does not return (retry loop never leaves)
  | builderTtl    -- documented panic: time_to_live longer than 1000 years
  | builderTti    -- documented panic: time_to_idle longer than 1000 years
  deriving DecidableEq, Repr, Inhabited

def Fault.toString : Fault → String
  | .overflow => "overflow"
  | .unreachable => "unreachable"
  | .expect => "expect"
  | .notMember => "notmember"
  | .useAfterFree => "uaf"
  | .hang => "hang"
  | .builderTtl => "builder-ttl"
  | .builderTti => "builder-tti"

/-- Switches that reproduce, in the model, the behaviour of the unrepaired tree for
the defects D1–D8 of DESIGN.md §2. All `false` = the current (repaired) code. They
exist so that each defect keeps a machine-checked witness (`…_counterexample`). -/
structure Quirks where
  d1 : Bool := false  -- unsync invalidate does not decrement entry_count
  d2 : Bool := false  -- unsync invalidate_all does not reset entry_count
  d3 : Bool := false  -- unsync invalidate_entries_if frees no weight / count
  d4 : Bool := false  -- unsync TTL purge frees no weight
  d5 : Bool := false  -- sketch reset: (size>>1) - (count>>2)
  d6 : Bool := false  -- sync apply_reads moves last_accessed backwards
  d7 : Bool := false  -- sync maintenance addresses map entries by key only
  d8 : Bool := false  -- sync weight drift (policy_weight written at insert time)
  d10 : Bool := false -- sync: queued op's own weight accounted instead of the current value's
  deriving Repr, Inhabited, DecidableEq

/-! ## Association lists keyed by `Nat` -/

namespace AL

variable {β : Type}

def get? : List (Nat × β) → Nat → Option β
  | [], _ => none
  | (k, v) :: rest, x => if k = x then some v else get? rest x

def erase : List (Nat × β) → Nat → List (Nat × β)
  | [], _ => []
  | (k, v) :: rest, x => if k = x then rest else (k, v) :: erase rest x

/-- Replace the binding of `x` in place if present, otherwise append at the end. -/
def put : List (Nat × β) → Nat → β → List (Nat × β)
  | [], x, b => [(x, b)]
  | (k, v) :: rest, x, b => if k = x then (k, b) :: rest else (k, v) :: put rest x b

def keys : List (Nat × β) → List Nat
  | [] => []
  | (k, _) :: rest => k :: keys rest

def contains (m : List (Nat × β)) (x : Nat) : Bool := (get? m x).isSome

end AL

/-- Insertion sort on naturals-keyed items (used only to canonicalise output). -/
def insertSorted {α : Type} (key : α → Nat) (a : α) : List α → List α
  | [] => [a]
  | b :: rest => if key a ≤ key b then a :: b :: rest else b :: insertSorted key a rest

def sortBy {α : Type} (key : α → Nat) (l : List α) : List α :=
  l.foldr (insertSorted key) []

/-- Number of distinct naturals in a list (object identities). -/
def countDistinct : List Nat → Nat
  | [] => 0
  | a :: rest => if rest.contains a then countDistinct rest else countDistinct rest + 1

/-- Saturating subtraction on `u64` counters is truncated subtraction on `Nat`. -/
abbrev satSub (a b : Nat) : Nat := a - b

def U64_MAX : Nat := 18446744073709551615
def U32_MAX : Nat := 4294967295

/-- Saturating addition on `u64`. -/
def satAdd64 (a b : Nat) : Nat := if a + b > U64_MAX then U64_MAX else a + b

end MiniMoka
