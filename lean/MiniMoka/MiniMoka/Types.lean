/-
  Operation alphabet, parameters and observation types shared by the two cache
  models, the oracles and the driver.
-/
import MiniMoka.Sketch

namespace MiniMoka

/-- Predicates for `invalidate_entries_if` (a small closed family so that the harness
and the model can name them on the wire). -/
inductive Pred where
  | all
  | nothing
  | kmod (m r : Nat)     -- key % m = r
  | vlt (c : Nat)        -- value < c
  deriving Repr, DecidableEq, Inhabited

def Pred.eval : Pred → Nat → Nat → Bool
  | .all, _, _ => true
  | .nothing, _, _ => false
  | .kmod m r, k, _ => k % m == r
  | .vlt c, _, v => v < c

/-- One public API call (or a clock step / snapshot request of the harness). -/
inductive Op where
  | ins (k v : Nat)
  | get (k : Nat)
  | has (k : Nat)
  | iter
  | inv (k : Nat)
  | invAll
  | invIf (p : Pred)      -- unsync only
  | sync                  -- sync only
  | adv (d : Nat)         -- advance the mock clock by `d` nanoseconds
  | snap                  -- white-box snapshot (hook)
  | freq (k : Nat)        -- popularity estimate of a key (hook)
  deriving Repr, DecidableEq, Inhabited

/-- Static configuration of a cache. `w`, `hash` are arbitrary functions: theorems
quantify over all of them (colliding hashers, weights 0 and above capacity). `capF`
stands for the floating-point expression that sizes the sketch when a weigher is
configured: `(entry_count as f64 * (weighted_size as f64 / max as f64)) as u64`. -/
structure Params where
  cap : Option Nat := none
  ttl : Option Nat := none
  tti : Option Nat := none
  hasWeigher : Bool := false
  w : Nat → Nat → Nat := fun _ _ => 1
  hash : Nat → UInt64 := fun k => k.toUInt64
  capF : Nat → Nat → Nat → Nat := fun _ _ _ => 0
  q : Quirks := {}

def Params.weigh (p : Params) (k v : Nat) : Nat := if p.hasWeigher then p.w k v else 1

def Params.hasExpiry (p : Params) : Bool := p.ttl.isSome || p.tti.isSome

/-- `ts + d <= now` for an optional timestamp and an optional duration; `false` when
either is absent (the `if let (Some(ts), Some(d))` of the code). -/
def expiredAt (d : Option Nat) (ts : Option Nat) (now : Nat) : Bool :=
  match ts, d with
  | some t, some d => t + d ≤ now
  | _, _ => false

/-- One resident entry as seen in a snapshot. -/
structure EntryView where
  key : Nat
  val : Nat
  weight : Nat
  la : Option Nat
  lm : Option Nat
  /-- the entry owns a node of the access-order list carrying this key -/
  aoOk : Bool
  /-- the entry owns a node of the write-order list carrying this key (or none is due) -/
  woOk : Bool
  admitted : Bool := true
  dirty : Bool := false
  deriving Repr, DecidableEq, Inhabited

/-- A node of one of the intrusive lists as seen in a snapshot: key, timestamp and
whether the node belongs to the entry currently in the map under its key. -/
structure NodeView where
  key : Nat
  ts : Option Nat
  current : Bool
  deriving Repr, DecidableEq, Inhabited

/-- White-box snapshot; every field exists both in the model and (through the hooks)
in the implementation. -/
structure Snap where
  ec : Nat
  ws : Nat
  entries : List EntryView          -- sorted by key
  prob : List NodeView              -- front (LRU) to back
  wo : List NodeView
  skOn : Bool
  skSize : Nat
  skSample : Nat
  skLen : Nat
  skCrc : UInt64
  freqs : List (Nat × Nat)          -- popularity estimate per resident key, sorted
  -- concurrent cache only (zero / none on unsync)
  rq : Nat := 0
  wq : Nat := 0
  va : Option Nat := none
  hkRunning : Bool := false
  hkAfter : Nat := 0
  now : Nat := 0
  /-- number of key objects / value objects alive (instrumented types in the harness; object
  identities tracked in the models) -/
  liveK : Nat := 0
  liveV : Nat := 0
  deriving Repr, Inhabited

inductive Obs where
  | ok
  | val (v : Option Nat)
  | bool (b : Bool)
  | iter (l : List (Nat × Nat))     -- sorted by key
  | snap (s : Snap)
  | freq (f : Nat)
  | panic (f : Fault)
  | badOp
  deriving Repr, Inhabited

end MiniMoka
