/-
  `ConcS` (any number of threads; map step / maintenance run / enqueue) extended with
  iterators, as `src/sync/iter.rs` does it: `Iter::next` walks DashMap's iterator, which visits
  the shards in index order holding the read lock of ONE shard at a time, and filters each entry
  with `BaseCache::is_expired_entry` (expired by ttl / tti, or hidden by the `invalidate_all`
  watermark), the clock being read at that moment.

  Parameters (`Cfg`): the number of shards `nshards` and the shard `shardOf k` of a key (a key
  never changes shard); both arbitrary.

  State: the state of `ConcS` plus, per thread that is iterating, the next shard to visit and
  what has been yielded so far; `done` keeps the results of finished iterations.

  Events: every event of `ConcS` (`cs e`; a thread with an iterator in progress takes no other
  step: a thread that holds an iterator and calls the cache can deadlock on the shard lock,
  which is an assumption of C09; all other threads step freely), and
   * `itBegin t` (thread idle, no iterator in progress): a new iterator at shard 0;
   * `itShard t`: the visit of shard `next`: ATOMICALLY appends `(key, value)` for every entry
     of the map whose key is in that shard and that is not expired / hidden at this moment
     (`Sync.isExpiredInfo` with the clock of this state); `next := next + 1`;
   * `itEnd t` (enabled when all shards have been visited): the yielded list is the result.
  Treating the visit of one shard as atomic is the shard-lock assumption (the same as in the
  abstract model `MiniMoka/ConcI.lean`): writers to the shard are excluded while the read guard
  is held, so the entries yielded for the shard are its content at one moment of that interval.
  NOT modelled: the order of the entries inside a shard (the map is one association list here;
  the shards are the classes of `shardOf`), memory ordering, DashMap internals.
-/
import MiniMoka.ConcS

namespace MiniMoka
namespace ConcSI

open Sync ConcS

structure Cfg where
  nshards : Nat := 1
  shardOf : Nat → Nat := fun _ => 0

structure ItSt where
  next : Nat := 0
  yielded : List (Nat × Nat) := []
  deriving Repr, Inhabited

structure IState where
  c : CState := {}
  iters : List (Tid × ItSt) := []
  done : List (Tid × List (Nat × Nat)) := []
  deriving Repr, Inhabited

inductive Ev where
  | cs (e : ConcS.Ev)
  | itBegin (t : Tid)
  | itShard (t : Tid)
  | itEnd (t : Tid)
  deriving Repr, Inhabited

/-- The thread that performs a `ConcS` event (`tick` is nobody's). -/
def threadOf : ConcS.Ev → Option Tid
  | .insMap t _ _ => some t
  | .invMap t _ => some t
  | .getMap t _ => some t
  | .maint t => some t
  | .sync t => some t
  | .enq t => some t
  | .tick _ => none
  | .invAll t => some t

def iterOf (l : List (Tid × ItSt)) (t : Tid) : Option ItSt :=
  match l with
  | [] => none
  | x :: rest => if x.1 = t then some x.2 else iterOf rest t

def setIter (l : List (Tid × ItSt)) (t : Tid) (it : ItSt) : List (Tid × ItSt) :=
  match l with
  | [] => [(t, it)]
  | x :: rest => if x.1 = t then (t, it) :: rest else x :: setIter rest t it

def dropIter (l : List (Tid × ItSt)) (t : Tid) : List (Tid × ItSt) :=
  match l with
  | [] => []
  | x :: rest => if x.1 = t then dropIter rest t else x :: dropIter rest t

/-- What the visit of shard `i` yields in state `s`. -/
def shardEntries (cfg : Cfg) (p : Params) (s : SState) (i : Nat) : List (Nat × Nat) :=
  (s.map.filter fun kv =>
    cfg.shardOf kv.1 == i && !isExpiredInfo p s (getInfo s kv.2.info) s.now).map
    fun kv => (kv.1, kv.2.val)

/-- The thread of this event has an iterator in progress. -/
def busy (iters : List (Tid × ItSt)) (e : ConcS.Ev) : Bool :=
  match threadOf e with
  | some t => (iterOf iters t).isSome
  | none => false

def step (p : Params) (cfg : Cfg) (c : IState) : Ev → Option IState
  | .cs e =>
    if busy c.iters e then none else (ConcS.step p c.c e).map fun c' => { c with c := c' }
  | .itBegin t =>
    match iterOf c.iters t, pendOf c.c.pending t with
    | none, none => some { c with iters := setIter c.iters t ({ } : ItSt) }
    | _, _ => none
  | .itShard t =>
    match iterOf c.iters t with
    | none => none
    | some it =>
      if it.next < cfg.nshards then
        let it' : ItSt := ⟨it.next + 1, it.yielded ++ shardEntries cfg p c.c.s it.next⟩
        some { c with iters := setIter c.iters t it' }
      else none
  | .itEnd t =>
    match iterOf c.iters t with
    | none => none
    | some it =>
      if it.next = cfg.nshards then
        some { c with iters := dropIter c.iters t, done := c.done ++ [(t, it.yielded)] }
      else none

def runEvs (p : Params) (cfg : Cfg) : IState → List Ev → Option IState
  | c, [] => some c
  | c, e :: rest =>
    match step p cfg c e with
    | some c' => runEvs p cfg c' rest
    | none => none

inductive Reach (p : Params) (cfg : Cfg) : IState → Prop where
  | init : Reach p cfg {}
  | step {c c' : IState} (e : Ev) : Reach p cfg c → step p cfg c e = some c' → Reach p cfg c'

end ConcSI
end MiniMoka
