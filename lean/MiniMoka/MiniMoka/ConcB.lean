/-
  Model **B**: the two flags `is_admitted` / `is_dirty` of ONE `EntryInfo` under any number of
  client threads and the maintenance role, with the representation of the flags as a parameter.

  What is modelled.  Every cache entry of `mini_moka::sync::Cache` owns an `EntryInfo` with two
  flags, each an `AtomicBool` of its own (`src/common/concurrent/entry_info.rs`):
    * `is_admitted`: written ONLY by the thread that runs maintenance: `set_admitted(true)` at the
      end of `handle_admit`, `set_admitted(false)` in `handle_remove…`;
    * `is_dirty`: `set_dirty(true)` by a CLIENT thread that overwrites the key
      (`new_value_entry_from`, inside the per-key critical section of the map),
      `set_dirty(false)` by maintenance at the head of `handle_upsert`.
  The detailed models (`Sync` / `ConcS` / `ConcM` / `ConcF`) treat each of these flag writes as
  one atomic step that leaves the other flag alone.  This model makes that assumption explicit.

  `Variant` selects how the two flags are stored and written:
    * `separate`     : the code as it is: two independent atomics; a write of one flag is a store
                       to that flag;
    * `packedAtomic` : both flags in one byte (bit 0 = admitted, bit 1 = dirty), a flag write is
                       ONE atomic read-modify-write of the byte (`fetch_or mask` /
                       `fetch_and !mask`): equivalent to `separate`
                       (`Props/ConcB.lean`, `ConcB_packedAtomic_refines_separate`);
    * `packedRacy`   : both flags in one byte, a flag write is `let b = load(); store(modify b)`
                       — two steps, and between them every other actor may run.  This is the
                       seeded faulty change: a client's `set_dirty(true)` that loaded the byte
                       before maintenance stored `admitted = true` and stores afterwards wipes the
                       admitted bit; the entry, counted and linked, looks un-admitted, and its next
                       write op admits it a second time (`ConcB_counterexample_packed_racy`).

  State: the two flags; ghost `count` = how many times the entry is counted in `entry_count`
  (`+1` with `set_admitted(true)`, `-1` with `set_admitted(false)`, both by the maintenance role,
  whose runs are serialised by the maintenance lock); ghost `queued` = write ops queued for the
  entry; `held` = the byte a client has loaded and not yet stored back (`packedRacy`); `mpc` =
  where the maintenance role stands inside `handle_upsert` / `handle_remove` (`packedRacy`).
  Initial state `init`: the entry as `insert` has just created it — `EntryInfo::new` (not
  admitted, dirty) with its insert op queued.

  Events (`step v s ev : Option State`, `none` = not enabled):
   clients, `separate` / `packedAtomic`
   * `overwrite t` : `set_dirty(true)`, one write op queued;
   clients, `packedRacy`
   * `owLoad t`    : `t` holds nothing: it holds the byte;
   * `owStore t`   : `t` holds `b`: the byte becomes `b | DIRTY`, one write op queued;
   maintenance, `separate` / `packedAtomic`
   * `applyWrite`  : `handle_upsert` for one queued op: `set_dirty(false)`; then, if
                     `is_admitted()`, update in place; otherwise admit: `set_admitted(true)`,
                     `count + 1`;
   * `remove`      : `handle_remove`: if `is_admitted()`: `set_admitted(false)`, `count - 1`;
   maintenance, `packedRacy` (the same two functions, every flag write a load / store pair)
   * `mLoad`       : idle and an op is queued: take it and load the byte for `set_dirty(false)`;
                     dirty cleared: load the byte (`is_admitted()`): admitted → update in place,
                     idle again; otherwise the byte is held for `set_admitted(true)`;
   * `mStore`      : store the modified copy of the byte held: `b & !DIRTY` (then: dirty cleared),
                     `b | ADMITTED` (`count + 1`, idle), `b & !ADMITTED` (`count - 1`, idle);
   * `remove`      : idle: load the byte; admitted → held for `set_admitted(false)`.

  Granularity.  In the two good variants `applyWrite` is one step although `handle_upsert` makes
  three accesses; this loses nothing: the only thing a client does is set `dirty` and push an op,
  which commutes with reading and writing `admitted` (`ConcB_applyWrite_granularity`), and other
  maintenance steps are excluded by the lock.  In `packedRacy` the split into load / store pairs is the whole point.

  NOT modelled: everything else (the map, the value, weights, deques, capacity, the check
  `current.is_none()` of `handle_upsert`).  Memory ordering: sequentially consistent.

  This file is import-free (core Lean) apart from `MiniMoka.Basic`.
-/
import MiniMoka.Basic

namespace MiniMoka
namespace ConcB

abbrev Tid := Nat

/-- How the two flags of an `EntryInfo` are stored and written. -/
inductive Variant where
  | separate
  | packedAtomic
  | packedRacy
  deriving DecidableEq, Repr, Inhabited

inductive Flag where
  | admitted
  | dirty
  deriving DecidableEq, Repr, Inhabited

/-! ### the packed byte: bit 0 = admitted, bit 1 = dirty -/

def Flag.mask : Flag → Nat
  | .admitted => 1
  | .dirty => 2

def pack (a d : Bool) : Nat := (if a then 1 else 0) ||| (if d then 2 else 0)

def unpack (b : Nat) : Bool × Bool := (b &&& 1 != 0, b &&& 2 != 0)

/-- `b | mask` to set, `b & !mask` (on a `u8`) to clear. -/
def setBit (b : Nat) (f : Flag) (x : Bool) : Nat :=
  if x then b ||| f.mask else b &&& (255 - f.mask)

/-- The byte `(a, d)` with flag `f` set to `x`, through the byte encoding. -/
def modify (a d : Bool) (f : Flag) (x : Bool) : Bool × Bool := unpack (setBit (pack a d) f x)

/-- ONE atomic write of flag `f` in the variants where a flag write is one step. -/
def writeFlag : Variant → Bool → Bool → Flag → Bool → Bool × Bool
  | .separate, _, d, .admitted, x => (x, d)
  | .separate, a, _, .dirty, x => (a, x)
  | _, a, d, f, x => modify a d f x

/-! ### state, events -/

/-- Where the maintenance role stands (`packedRacy`); `a d` = the byte it loaded. -/
inductive MPc where
  | idle
  /-- `handle_upsert`, `set_dirty(false)`: byte loaded, not yet stored -/
  | clrLoaded (a d : Bool)
  /-- `handle_upsert`: dirty cleared, about to test `is_admitted()` -/
  | cleared
  /-- `handle_admit`, `set_admitted(true)`: byte loaded, not yet stored -/
  | admLoaded (a d : Bool)
  /-- `handle_remove`, `set_admitted(false)`: byte loaded, not yet stored -/
  | remLoaded (a d : Bool)
  deriving DecidableEq, Repr, Inhabited

structure State where
  admitted : Bool := false
  dirty : Bool := false
  /-- ghost: how many times the entry is counted in `entry_count` -/
  count : Nat := 0
  /-- ghost: write ops queued for the entry -/
  queued : Nat := 0
  /-- client ↦ the byte it loaded in `set_dirty(true)` and has not stored back (`packedRacy`) -/
  held : List (Tid × Bool × Bool) := []
  mpc : MPc := .idle
  deriving DecidableEq, Repr, Inhabited

/-- The entry as `insert` has just created it: `EntryInfo::new`, its insert op queued. -/
def init : State := { dirty := true, queued := 1 }

inductive Ev where
  | overwrite (t : Tid)
  | owLoad (t : Tid)
  | owStore (t : Tid)
  | applyWrite
  | remove
  | mLoad
  | mStore
  deriving DecidableEq, Repr, Inhabited

/-- Steps of client threads (the others are steps of the maintenance role). -/
def Ev.client : Ev → Bool
  | .overwrite _ | .owLoad _ | .owStore _ => true
  | _ => false

/-- The observable part of a state. -/
def State.obs (s : State) : Bool × Bool × Nat × Nat := (s.admitted, s.dirty, s.count, s.queued)

/-! ### the steps -/

/-- `separate` / `packedAtomic`: every flag write is one atomic step (`writeFlag v`). -/
def stepAtomic (v : Variant) (s : State) : Ev → Option State
  | .overwrite _ =>
    let p := writeFlag v s.admitted s.dirty .dirty true
    some { s with admitted := p.1, dirty := p.2, queued := s.queued + 1 }
  | .applyWrite =>
    if s.queued = 0 then none
    else
      -- `entry.set_dirty(false)` …
      let p := writeFlag v s.admitted s.dirty .dirty false
      -- … `if entry.is_admitted()`: update in place …
      if p.1 then some { s with admitted := p.1, dirty := p.2, queued := s.queued - 1 }
      else
        -- … else `handle_admit`: counted, `set_admitted(true)`
        let q := writeFlag v p.1 p.2 .admitted true
        some { s with admitted := q.1, dirty := q.2, queued := s.queued - 1,
                      count := s.count + 1 }
  | .remove =>
    if s.admitted then
      let p := writeFlag v s.admitted s.dirty .admitted false
      some { s with admitted := p.1, dirty := p.2, count := s.count - 1 }
    else some s
  | .owLoad _ | .owStore _ | .mLoad | .mStore => none

/-- `packedRacy`: every flag write is a load and a later store of the modified copy. -/
def stepRacy (s : State) : Ev → Option State
  | .owLoad t =>
    match AL.get? s.held t with
    | some _ => none
    | none => some { s with held := AL.put s.held t (s.admitted, s.dirty) }
  | .owStore t =>
    match AL.get? s.held t with
    | none => none
    | some (a, d) =>
      let p := modify a d .dirty true
      some { s with admitted := p.1, dirty := p.2, queued := s.queued + 1,
                    held := AL.erase s.held t }
  | .mLoad =>
    match s.mpc with
    | .idle =>
      if s.queued = 0 then none
      else some { s with queued := s.queued - 1, mpc := .clrLoaded s.admitted s.dirty }
    | .cleared =>
      if s.admitted then some { s with mpc := .idle }
      else some { s with mpc := .admLoaded s.admitted s.dirty }
    | _ => none
  | .mStore =>
    match s.mpc with
    | .clrLoaded a d =>
      let p := modify a d .dirty false
      some { s with admitted := p.1, dirty := p.2, mpc := .cleared }
    | .admLoaded a d =>
      let p := modify a d .admitted true
      some { s with admitted := p.1, dirty := p.2, count := s.count + 1, mpc := .idle }
    | .remLoaded a d =>
      let p := modify a d .admitted false
      some { s with admitted := p.1, dirty := p.2, count := s.count - 1, mpc := .idle }
    | _ => none
  | .remove =>
    match s.mpc with
    | .idle => if s.admitted then some { s with mpc := .remLoaded s.admitted s.dirty } else some s
    | _ => none
  | .overwrite _ | .applyWrite => none

def step (v : Variant) (s : State) (e : Ev) : Option State :=
  match v with
  | .packedRacy => stepRacy s e
  | v => stepAtomic v s e

/-- A finite path; `none` if some step is not enabled. -/
def runEvs (v : Variant) : State → List Ev → Option State
  | s, [] => some s
  | s, e :: rest =>
    match step v s e with
    | some s' => runEvs v s' rest
    | none => none

/-- The states reachable from `init` by any interleaving of any number of client threads and the
maintenance role. -/
inductive Reach (v : Variant) : State → Prop where
  | init : Reach v init
  | step {s s' : State} (e : Ev) : Reach v s → step v s e = some s' → Reach v s'

end ConcB
end MiniMoka
