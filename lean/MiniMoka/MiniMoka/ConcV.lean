/-
  Model **V**: the `invalidate_all` watermark of `mini_moka::sync::Cache` used by any number
  of threads, with `invalidate_all` split into its two memory accesses.

  What is modelled.  `sync::Cache::invalidate_all()` is NOT one atomic step.  It
    (1) reads the clock                                   (`invRead t`),
    (2) stores the reading into the shared `valid_after`  (`invStore t`);
  a lookup hides every entry whose timestamp is `< valid_after`.  Between (1) and (2) a thread
  *holds* its reading (`held`), and every other thread may take any number of steps.

  The parameter `mono : Bool` selects the store of step (2):
    * `mono = true`  : the repaired code, `valid_after := max valid_after reading`;
    * `mono = false` : the code before the repair of defect D12, a plain store
                       `valid_after := reading`.
  With the plain store, of two racing calls the one that read the clock first can store last
  and move the watermark BACKWARDS, so that an entry hidden by a call that has already returned
  becomes readable again (`Props/ConcV.lean`, `ConcV_counterexample_D12`).

  State: the clock, the watermark, per key the value and the timestamp of its latest insert,
  the readings held by threads inside `invalidate_all`, and a ghost log `completed` of the
  readings of the calls that have returned (most recent first).

  Steps (`step mono s ev : Option State`, `none` = not enabled):
   * `tick d`       : the clock advances by `d`;
   * `insert t k v` : atomic, the entry of `k` becomes `(v, now)`;
   * `invRead t`    : thread `t` holds nothing: it holds `now`;
   * `invStore t`   : thread `t` holds `r`: the watermark is updated with `r` (see `mono`),
                      `r` is logged in `completed`, `t` holds nothing;
   * `get t k`      : no state change; what it returns is `visible s k`.

  NOT modelled: everything else of the cache (capacity, eviction, expiry, queues, maintenance):
  those are the subject of `Sync` / `ConcS`, where `invalidate_all` is one atomic step
  `va := some now`; `Props/ConcV.lean` shows that this atomic step is exactly `invRead t ;
  invStore t` run back to back.  Memory ordering: all steps are sequentially consistent.

  This file is import-free (core Lean) apart from `MiniMoka.Basic`.
-/
import MiniMoka.Basic

namespace MiniMoka
namespace ConcV

abbrev Tid := Nat

structure State where
  now : Nat := 0
  /-- the watermark `valid_after` (`none` = never set) -/
  va : Option Nat := none
  /-- key ↦ (value, write time); at most one binding per key (`AL.put`) -/
  entries : List (Nat × Nat × Nat) := []
  /-- thread ↦ the clock reading it took in `invalidate_all` and has not stored yet -/
  held : List (Tid × Nat) := []
  /-- ghost: the readings of the `invalidate_all` calls that have returned, latest first -/
  completed : List Nat := []
  deriving DecidableEq, Repr, Inhabited

inductive Ev where
  | tick (d : Nat)
  | insert (t : Tid) (k v : Nat)
  | invRead (t : Tid)
  | invStore (t : Tid)
  | get (t : Tid) (k : Nat)
  deriving DecidableEq, Repr, Inhabited

/-- The order on watermarks: `none` (never set) is the least element. -/
def vaLe : Option Nat → Option Nat → Prop
  | none, _ => True
  | some _, none => False
  | some a, some b => a ≤ b

instance : (a b : Option Nat) → Decidable (vaLe a b)
  | none, _ => isTrue trivial
  | some _, none => isFalse (fun h => h)
  | some a, some b => inferInstanceAs (Decidable (a ≤ b))

/-- The monotone store of the repaired code: `valid_after := max valid_after r`. -/
def maxVa (va : Option Nat) (r : Nat) : Option Nat :=
  match va with
  | none => some r
  | some w => some (max w r)

/-- Step (2) of `invalidate_all`. -/
def storeVa (mono : Bool) (va : Option Nat) (r : Nat) : Option Nat :=
  if mono then maxVa va r else some r

/-- A lookup ignores an entry written strictly before the watermark. -/
def hidden (va : Option Nat) (ts : Nat) : Bool :=
  match va with
  | none => false
  | some w => decide (ts < w)

/-- The entry of `k`: value and write time of its latest insert. -/
def entry (s : State) (k : Nat) : Option (Nat × Nat) := AL.get? s.entries k

/-- What `get k` returns. -/
def visible (s : State) (k : Nat) : Option Nat :=
  match entry s k with
  | none => none
  | some (v, ts) => if hidden s.va ts then none else some v

def step (mono : Bool) (s : State) : Ev → Option State
  | .tick d => some { s with now := s.now + d }
  | .insert _ k v => some { s with entries := AL.put s.entries k (v, s.now) }
  | .invRead t =>
    match AL.get? s.held t with
    | some _ => none
    | none => some { s with held := AL.put s.held t s.now }
  | .invStore t =>
    match AL.get? s.held t with
    | none => none
    | some r =>
      some { s with va := storeVa mono s.va r, completed := r :: s.completed,
                    held := AL.erase s.held t }
  | .get _ _ => some s

/-- A finite path; `none` if some step is not enabled. -/
def runEvs (mono : Bool) : State → List Ev → Option State
  | s, [] => some s
  | s, e :: rest =>
    match step mono s e with
    | some s' => runEvs mono s' rest
    | none => none

/-- The states reachable from the empty cache by any interleaving of any number of threads. -/
inductive Reach (mono : Bool) : State → Prop where
  | init : Reach mono {}
  | step {s s' : State} (e : Ev) : Reach mono s → step mono s e = some s' → Reach mono s'

end ConcV
end MiniMoka
