/-
  Model **G**: the granularity of a lookup of `mini_moka::sync::Cache` — ONE key, any number of
  threads, with the lookup either one atomic step or split into "fetch the value entry" and
  "test its timestamps".

  What is modelled.  `get(k)` does, while it holds the map's shard guard for `k`:
    (1) fetch the value entry of `k`,
    (2) test the entry's timestamps against time-to-live and the `invalidate_all` watermark
        `valid_after` (an entry whose timestamp is `< valid_after` is hidden),
    (3) clone the value.
  An UPDATE `insert(k, v2)` of a resident key, under the shard's WRITE guard, creates a new value
  entry that SHARES the timestamp record (`EntryInfo`: `last_modified`, …) with the old one and
  refreshes the shared timestamps to "now".  So the timestamps that (2) reads belong to the KEY,
  not to the value fetched in (1): if an update runs between (1) and (2), the OLD value is judged
  with the NEW value's timestamps.
  The detailed models (`Sync` / `ConcS` / …) make a lookup one atomic step.  This model makes
  that assumption explicit.

  `Cfg` selects the granularity:
    * `split = false`                : the lookup is ONE step `get t` (the detailed models);
    * `split = true, guard = true`   : the code as it is at its real granularity: `getFetch t`
                                       then later `getTest t`, and between the two the thread
                                       holds the shard guard — an `insert` is not enabled while
                                       some thread is between fetch and test; ticks of the
                                       clock, `invalidate_all` (a store to `valid_after`, no
                                       guard) and other lookups ARE enabled;
    * `split = true, guard = false`  : the seeded faulty change "release the guard early":
                                       `get` clones the entry out of the map, releases the
                                       guard and only then tests the timestamps; an `insert`
                                       may run in the window.
  `Props/ConcG.lean`: the lookup guarantee holds for the first two (all interleavings), the
  third has a machine-checked counterexample, and `getFetch t ; getTest t` back to back is
  exactly `get t`.

  State: the clock `now`; the watermark `va`; the map slot `cur` = the current value entry
  `(value, wr)` where `wr` is a GHOST: the clock reading at which this value entry was created;
  `lm` = `last_modified` of the key's `EntryInfo`, shared by the successive value entries of the
  key — the ONLY timestamp a lookup tests; `held` = the threads between fetch and test, each
  with the value entry it fetched (and, ghost, the reading and the completed `invalidate_all`
  calls at the moment its lookup began); ghost logs `written` (value ↦ reading at which it was
  written), `completedInv` (readings of the completed `invalidate_all` calls, latest first),
  `returned` (one record per value returned by a lookup).

  Events (`step cfg s ev : Option State`, `none` = not enabled):
   * `tick d`     : the clock advances by `d`;
   * `insert t v` : atomic (write guard): `cur := (v, now)`, `lm := now`, `(v, now)` logged;
                    with `guard`, enabled only if no thread is between fetch and test;
   * `invAll t`   : atomic here: `va := max va now`, `now` logged (that `invalidate_all` is
                    itself two accesses is the subject of `ConcV`);
   * `get t`      : (`split = false`) fetch, test, return in one step: returns `v` iff
                    `cur = some (v, _)` and the info is live: `¬ (lm < va)`, `¬ (lm + ttl ≤ now)`;
   * `getFetch t` : (`split = true`) `t` holds nothing: it holds the current value entry;
   * `getTest t`  : (`split = true`) `t` holds `p`: the test reads the info's CURRENT `lm`;
                    if live, the value REMEMBERED in `p` is returned; `t` holds nothing.

  NOT modelled: other keys, time-to-idle / `last_accessed` (the same shape as time-to-live),
  capacity, eviction, removal of the expired entry, queues, maintenance.  Memory ordering:
  sequentially consistent.

  This file is import-free (core Lean) apart from `MiniMoka.Basic`.
-/
import MiniMoka.Basic

namespace MiniMoka
namespace ConcG

abbrev Tid := Nat

structure Cfg where
  /-- `false`: a lookup is one step; `true`: fetch and test are two steps -/
  split : Bool := false
  /-- the shard guard is held from fetch to test (only matters with `split`) -/
  guard : Bool := true
  /-- time-to-live -/
  ttl : Option Nat := none
  deriving DecidableEq, Repr, Inhabited

/-- What a thread has in hand between fetch and test. -/
structure Pending where
  /-- the value entry fetched, `(value, ghost wr)`; `none` = the key was absent -/
  entry : Option (Nat × Nat)
  /-- ghost: the clock reading when the lookup began -/
  began : Nat
  /-- ghost: the readings of the `invalidate_all` calls completed when the lookup began -/
  invs : List Nat
  deriving DecidableEq, Repr, Inhabited

/-- Ghost: one value returned by a lookup. -/
structure Ret where
  tid : Tid
  value : Nat
  /-- the clock reading at which the returned value entry was written -/
  wr : Nat
  /-- the clock reading when the lookup began -/
  began : Nat
  /-- the clock reading when the lookup returned -/
  time : Nat
  /-- the readings of the `invalidate_all` calls completed when the lookup began -/
  invs : List Nat
  deriving DecidableEq, Repr, Inhabited

structure State where
  now : Nat := 0
  /-- the watermark `valid_after` (`none` = never set) -/
  va : Option Nat := none
  /-- the map slot: `(value, ghost: reading at which this value entry was created)` -/
  cur : Option (Nat × Nat) := none
  /-- `last_modified` of the key's `EntryInfo`, shared by successive value entries -/
  lm : Nat := 0
  /-- ghost: every `(value, reading at which it was written)`, latest first -/
  written : List (Nat × Nat) := []
  /-- thread ↦ what it fetched and has not tested yet (`split`) -/
  held : List (Tid × Pending) := []
  /-- ghost: the readings of the completed `invalidate_all` calls, latest first -/
  completedInv : List Nat := []
  /-- ghost: the values returned by lookups, latest first -/
  returned : List Ret := []
  deriving DecidableEq, Repr, Inhabited

def init : State := {}

inductive Ev where
  | tick (d : Nat)
  | insert (t : Tid) (v : Nat)
  | invAll (t : Tid)
  | get (t : Tid)
  | getFetch (t : Tid)
  | getTest (t : Tid)
  deriving DecidableEq, Repr, Inhabited

/-- `valid_after := max valid_after r`. -/
def maxVa (va : Option Nat) (r : Nat) : Option Nat :=
  match va with
  | none => some r
  | some w => some (max w r)

/-- A lookup ignores an info whose timestamp is strictly before the watermark. -/
def hidden (va : Option Nat) (ts : Nat) : Bool :=
  match va with
  | none => false
  | some w => decide (ts < w)

/-- `last_modified + ttl ≤ now`. -/
def expired (ttl : Option Nat) (ts now : Nat) : Bool :=
  match ttl with
  | none => false
  | some d => decide (ts + d ≤ now)

/-- Step (2) of a lookup: the test of the key's info AS IT IS NOW. -/
def live (ttl : Option Nat) (s : State) : Bool :=
  !hidden s.va s.lm && !expired ttl s.lm s.now

/-- Step (1) of a lookup: the value entry in the map slot (and the ghosts). -/
def fetch (s : State) : Pending := { entry := s.cur, began := s.now, invs := s.completedInv }

/-- Steps (2) and (3): test the info as it is now; if live, return the value of `p`. -/
def judge (ttl : Option Nat) (s : State) (t : Tid) (p : Pending) : State :=
  match p.entry with
  | none => s
  | some (v, wr) =>
    if live ttl s then
      { s with returned := { tid := t, value := v, wr := wr, began := p.began, time := s.now,
                             invs := p.invs } :: s.returned }
    else s

def step (cfg : Cfg) (s : State) : Ev → Option State
  | .tick d => some { s with now := s.now + d }
  | .insert _ v =>
    if cfg.guard && !s.held.isEmpty then none
    else some { s with cur := some (v, s.now), lm := s.now, written := (v, s.now) :: s.written }
  | .invAll _ => some { s with va := maxVa s.va s.now, completedInv := s.now :: s.completedInv }
  | .get t => if cfg.split then none else some (judge cfg.ttl s t (fetch s))
  | .getFetch t =>
    if cfg.split then
      match AL.get? s.held t with
      | some _ => none
      | none => some { s with held := AL.put s.held t (fetch s) }
    else none
  | .getTest t =>
    if cfg.split then
      match AL.get? s.held t with
      | none => none
      | some p => some (judge cfg.ttl { s with held := AL.erase s.held t } t p)
    else none

/-- A finite path; `none` if some step is not enabled. -/
def runEvs (cfg : Cfg) : State → List Ev → Option State
  | s, [] => some s
  | s, e :: rest =>
    match step cfg s e with
    | some s' => runEvs cfg s' rest
    | none => none

/-- The states reachable from the empty cache by any interleaving of any number of threads. -/
inductive Reach (cfg : Cfg) : State → Prop where
  | init : Reach cfg init
  | step {s s' : State} (e : Ev) : Reach cfg s → step cfg s e = some s' → Reach cfg s'

end ConcG
end MiniMoka
