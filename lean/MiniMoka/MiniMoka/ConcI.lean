/-
  Model I: iteration over a sharded map (DashMap) beside concurrent writers, and the
  executable acceptor `acceptI` for recorded real runs.

  What is modelled (by reading src/sync/iter.rs, src/sync/mapref.rs,
  src/sync/base_cache.rs `iter`/`is_expired_entry`/`do_insert_with_hash`, and DashMap's
  documented iteration):
   * the map is `n` shards; the shard of a key is a function `shardOf` of the key (its
     hash), so a key never changes shard;
   * every shard is an association list with unique keys; `write k v` replaces the value
     of `k` in place if `k` is present (DashMap `entry().and_modify`, base_cache.rs
     `do_insert_with_hash`) and inserts it otherwise; `remove k` deletes it
     (`cache.remove`, `remove_if`); each is atomic (done under the shard's write lock);
   * `sync::Iter` wraps `dashmap::iter::Iter`, which visits the shards in index order
     and, for each shard, takes the shard's read lock and yields the entries of that
     shard while holding it. ASSUMPTION ("shard snapshot"): the entries yielded for shard
     `i` are the content of shard `i` at one moment — modelled by the atomic event
     `visit i`, which appends the current content of shard `i` to the iterator's output.
     (Writers to shard `i` are excluded while the read guard is held, so the moment is
     any moment of that interval.)
   * an iteration is a trace whose `visit` events are `visit 0, …, visit (n-1)` in this
     order, with arbitrary `write`/`remove` events of any number of writer threads
     interleaved anywhere (`IsIteration`). All interleavings = all such traces.
   * the filter `!is_expired_entry` of `Iter::next` only drops entries; it is not
     modelled here (expiry is covered by the sequential models); dropping elements
     preserves "no duplicates", "value was current", "no phantom".

  Keys and values are `Nat` (identities of keys / of written values).
-/
import MiniMoka.Basic

namespace MiniMoka.ConcI

abbrev Key := Nat
abbrev Val := Nat
abbrev Shard := List (Key × Val)

inductive Ev where
  | write (k : Key) (v : Val)     -- insert or in-place update, atomic
  | remove (k : Key)              -- atomic
  | visit (i : Nat)               -- the iterator snapshots shard `i`
  deriving DecidableEq, Repr

structure St where
  map : Nat → Shard               -- shard index ↦ content
  out : List (Key × Val)          -- what the iterator has yielded so far

/-- Change shard `i` by `f`. -/
def upd (m : Nat → Shard) (i : Nat) (f : Shard → Shard) : Nat → Shard :=
  fun j => if j = i then f (m j) else m j

def step (shardOf : Key → Nat) (s : St) : Ev → St
  | .write k v => { s with map := upd s.map (shardOf k) (fun sh => AL.put sh k v) }
  | .remove k => { s with map := upd s.map (shardOf k) (fun sh => AL.erase sh k) }
  | .visit i => { s with out := s.out ++ s.map i }

def run (shardOf : Key → Nat) (s : St) (tr : List Ev) : St := tr.foldl (step shardOf) s

/-- The shard indices visited, in order. -/
def visits : List Ev → List Nat
  | [] => []
  | .visit i :: tr => i :: visits tr
  | _ :: tr => visits tr

/-- One iteration over `n` shards: the visits are `0, 1, …, n-1` in this order; anything
else (writer events) may be interleaved anywhere. -/
def IsIteration (n : Nat) (tr : List Ev) : Prop := visits tr = List.range n

instance (n : Nat) (tr : List Ev) : Decidable (IsIteration n tr) :=
  inferInstanceAs (Decidable (visits tr = List.range n))

/-- Well-formed map: unique keys per shard, every key in the shard `shardOf` assigns. -/
def WfMap (shardOf : Key → Nat) (m : Nat → Shard) : Prop :=
  ∀ i, (AL.keys (m i)).Nodup ∧ ∀ k ∈ AL.keys (m i), shardOf k = i

/-- The binding of `k` in the map. -/
def lookup (shardOf : Key → Nat) (m : Nat → Shard) (k : Key) : Option Val :=
  AL.get? (m (shardOf k)) k

/-- The map given as a list of shards. -/
def ofList (l : List Shard) : Nat → Shard := fun i => l.getD i []

/-- Content of shards `0 … n-1` in shard order. -/
def content (n : Nat) (m : Nat → Shard) : List (Key × Val) := (List.range n).flatMap m

/-- The trace of an iteration without writers. -/
def seqIteration (n : Nat) : List Ev := (List.range n).map Ev.visit

/-! ## Executable acceptor for recorded runs -/

def noDup : List Nat → Bool
  | [] => true
  | x :: xs => !xs.contains x && noDup xs

/-- Candidate values of key `k`: its value before the run and every value written to it
during the run (as recorded by the harness). -/
def candOf (cand : List (Key × List Val)) (k : Key) : List Val :=
  match AL.get? cand k with
  | some vs => vs
  | none => []

/-- `acceptI keys out cand`: `keys` is the fixed key set (resident throughout, only
updated), `out` the `(k, v)` pairs yielded by ONE iteration, `cand` the candidate values
per key. Accepts iff no key is repeated, every fixed key appears exactly once, and every
yielded value is a candidate value of its key. -/
def acceptI (keys : List Key) (out : List (Key × Val)) (cand : List (Key × List Val)) : Bool :=
  noDup (out.map Prod.fst)
    && keys.all (fun k => (out.map Prod.fst).count k == 1)
    && out.all (fun kv => (candOf cand kv.1).contains kv.2)

end MiniMoka.ConcI
