/-
  Lemmas about `MiniMoka/ConcSI.lean` (iterators beside the threads of `ConcS`).
-/
import MiniMoka.ConcSI
import MiniMoka.Lemmas.ConcS

namespace MiniMoka
namespace ConcSI

open Sync Sync.Nodes Sync.Counters ConcS

/-! ### the table of iterators -/

theorem iterOf_setIter (l : List (Tid × ItSt)) (t t' : Tid) (it : ItSt) :
    iterOf (setIter l t it) t' = if t = t' then some it else iterOf l t' := by
  induction l with
  | nil =>
    simp only [setIter, iterOf]
  | cons x l ih =>
    simp only [setIter]
    by_cases ex : x.1 = t
    · rw [if_pos ex]
      simp only [iterOf]
      by_cases e : t = t'
      · simp [e]
      · have : ¬ x.1 = t' := fun e' => e (ex.symm.trans e')
        simp [e, this]
    · rw [if_neg ex]
      simp only [iterOf]
      by_cases e' : x.1 = t'
      · have : ¬ t = t' := fun e => ex (e'.trans e.symm)
        simp [e', this]
      · simp only [if_neg e']; exact ih

theorem iterOf_dropIter (l : List (Tid × ItSt)) (t t' : Tid) :
    iterOf (dropIter l t) t' = if t = t' then none else iterOf l t' := by
  induction l with
  | nil => simp [dropIter, iterOf]
  | cons x l ih =>
    simp only [dropIter]
    by_cases ex : x.1 = t
    · rw [if_pos ex, ih]
      simp only [iterOf]
      by_cases e : t = t'
      · simp [e]
      · have : ¬ x.1 = t' := fun e' => e (ex.symm.trans e')
        simp [e, this]
    · rw [if_neg ex]
      simp only [iterOf]
      by_cases e' : x.1 = t'
      · have : ¬ t = t' := fun e => ex (e'.trans e.symm)
        simp [e', this]
      · simp only [if_neg e']; exact ih

theorem step_cs {p : Params} {cfg : Cfg} {c c' : IState} {e0 : ConcS.Ev}
    (hs : step p cfg c (.cs e0) = some c') :
    ∃ c1, ConcS.step p c.c e0 = some c1 ∧ c' = { c with c := c1 } := by
  simp only [step] at hs
  by_cases hb : busy c.iters e0 = true
  · rw [if_pos hb] at hs; cases hs
  · rw [if_neg hb] at hs
    cases h0 : ConcS.step p c.c e0 with
    | none => rw [h0] at hs; cases hs
    | some c1 =>
      rw [h0] at hs
      exact ⟨c1, rfl, (Option.some.inj hs).symm⟩

/-- What a step does to the iterator of thread `t`. -/
theorem step_iter {p : Params} {cfg : Cfg} {c c' : IState} {e : Ev}
    (hs : step p cfg c e = some c') (t : Tid) :
    (iterOf c'.iters t = iterOf c.iters t ∧ e ≠ .itShard t ∧ e ≠ .itEnd t ∧ e ≠ .itBegin t) ∨
    (e = .itBegin t ∧ iterOf c.iters t = none ∧ iterOf c'.iters t = some {}) ∨
    (e = .itShard t ∧ ∃ it, iterOf c.iters t = some it ∧ it.next < cfg.nshards ∧
      iterOf c'.iters t = some ⟨it.next + 1, it.yielded ++ shardEntries cfg p c.c.s it.next⟩) ∨
    (e = .itEnd t ∧ iterOf c'.iters t = none) := by
  cases e with
  | cs e0 =>
    obtain ⟨c1, _, e1⟩ := step_cs hs
    rw [e1]
    exact Or.inl ⟨rfl, (by intro h; cases h), (by intro h; cases h), (by intro h; cases h)⟩
  | itBegin t0 =>
    simp only [step] at hs
    cases hi : iterOf c.iters t0 with
    | some it => rw [hi] at hs; cases hs
    | none =>
      rw [hi] at hs
      cases hp : pendOf c.c.pending t0 with
      | some x => rw [hp] at hs; cases hs
      | none =>
        rw [hp] at hs
        rw [← Option.some.inj hs]
        by_cases e : t0 = t
        · subst e
          exact Or.inr (Or.inl ⟨rfl, hi, by simp only [iterOf_setIter, if_true]⟩)
        · refine Or.inl ⟨by simp only [iterOf_setIter, if_neg e], (by intro h; cases h),
            (by intro h; cases h), ?_⟩
          intro h; injection h with h; exact e h
  | itShard t0 =>
    simp only [step] at hs
    cases hi : iterOf c.iters t0 with
    | none => rw [hi] at hs; cases hs
    | some it =>
      rw [hi] at hs
      dsimp only at hs
      by_cases hl : it.next < cfg.nshards
      · rw [if_pos hl] at hs
        rw [← Option.some.inj hs]
        by_cases e : t0 = t
        · subst e
          exact Or.inr (Or.inr (Or.inl ⟨rfl, it, hi, hl, by simp only [iterOf_setIter, if_true]⟩))
        · refine Or.inl ⟨by simp only [iterOf_setIter, if_neg e], ?_, (by intro h; cases h),
            (by intro h; cases h)⟩
          intro h; injection h with h; exact e h
      · rw [if_neg hl] at hs; cases hs
  | itEnd t0 =>
    simp only [step] at hs
    cases hi : iterOf c.iters t0 with
    | none => rw [hi] at hs; cases hs
    | some it =>
      rw [hi] at hs
      dsimp only at hs
      by_cases hl : it.next = cfg.nshards
      · rw [if_pos hl] at hs
        rw [← Option.some.inj hs]
        by_cases e : t0 = t
        · subst e
          exact Or.inr (Or.inr (Or.inr ⟨rfl, by simp only [iterOf_dropIter, if_true]⟩))
        · refine Or.inl ⟨by simp only [iterOf_dropIter, if_neg e], (by intro h; cases h), ?_,
            (by intro h; cases h)⟩
          intro h; injection h with h; exact e h
      · rw [if_neg hl] at hs; cases hs

/-! ### the cache component is a `ConcS` execution -/

theorem step_concS {p : Params} {cfg : Cfg} {c c' : IState} {e : Ev}
    (hs : step p cfg c e = some c') : c'.c = c.c ∨ ∃ e0, ConcS.step p c.c e0 = some c'.c := by
  cases e with
  | cs e0 =>
    obtain ⟨c1, h0, e1⟩ := step_cs hs
    rw [e1]
    exact Or.inr ⟨e0, h0⟩
  | itBegin t0 =>
    simp only [step] at hs
    cases hi : iterOf c.iters t0 with
    | some it => rw [hi] at hs; cases hs
    | none =>
      rw [hi] at hs
      cases hp : pendOf c.c.pending t0 with
      | some x => rw [hp] at hs; cases hs
      | none => rw [hp] at hs; rw [← Option.some.inj hs]; exact Or.inl rfl
  | itShard t0 =>
    simp only [step] at hs
    cases hi : iterOf c.iters t0 with
    | none => rw [hi] at hs; cases hs
    | some it =>
      rw [hi] at hs
      by_cases hl : it.next < cfg.nshards
      · simp only [if_pos hl] at hs; rw [← Option.some.inj hs]; exact Or.inl rfl
      · simp only [if_neg hl] at hs; cases hs
  | itEnd t0 =>
    simp only [step] at hs
    cases hi : iterOf c.iters t0 with
    | none => rw [hi] at hs; cases hs
    | some it =>
      rw [hi] at hs
      by_cases hl : it.next = cfg.nshards
      · simp only [if_pos hl] at hs; rw [← Option.some.inj hs]; exact Or.inl rfl
      · simp only [if_neg hl] at hs; cases hs

theorem reach_concS {p : Params} {cfg : Cfg} {c : IState} (h : Reach p cfg c) :
    ConcS.Reach p c.c := by
  induction h with
  | init => exact ConcS.Reach.init
  | step e _ hs ih =>
    rcases step_concS hs with h1 | ⟨e0, h1⟩
    · rw [h1]; exact ih
    · exact ConcS.Reach.step e0 ih h1

theorem reach_of_runEvs {p : Params} {cfg : Cfg} : ∀ (evs : List Ev) (c c' : IState),
    Reach p cfg c → runEvs p cfg c evs = some c' → Reach p cfg c' := by
  intro evs
  induction evs with
  | nil => intro c c' hr h; simp only [runEvs] at h; rw [← Option.some.inj h]; exact hr
  | cons e rest ih =>
    intro c c' hr h
    simp only [runEvs] at h
    cases hs : step p cfg c e with
    | none => rw [hs] at h; cases h
    | some c1 => rw [hs] at h; exact ih c1 c' (Reach.step e hr hs) h

theorem runEvs_append (p : Params) (cfg : Cfg) (c : IState) (l1 l2 : List Ev) :
    runEvs p cfg c (l1 ++ l2) = match runEvs p cfg c l1 with
      | some c' => runEvs p cfg c' l2
      | none => none := by
  induction l1 generalizing c with
  | nil => rfl
  | cons e l1 ih =>
    simp only [List.cons_append, runEvs]
    cases step p cfg c e with
    | none => rfl
    | some c' => exact ih c'

/-! ### what a shard visit yields -/

theorem mem_shardEntries {cfg : Cfg} {p : Params} {s : SState} {i k v : Nat}
    (hkn : (AL.keys s.map).Nodup) :
    (k, v) ∈ shardEntries cfg p s i ↔ ∃ ve, AL.get? s.map k = some ve ∧ ve.val = v ∧
      cfg.shardOf k = i ∧ isExpiredInfo p s (getInfo s ve.info) s.now = false := by
  unfold shardEntries
  simp only [List.mem_map, List.mem_filter, Bool.and_eq_true, beq_iff_eq, Bool.not_eq_true']
  constructor
  · rintro ⟨kv, ⟨hm, h1, h2⟩, e⟩
    obtain ⟨k', ve⟩ := kv
    injection e with e1 e2
    subst e1
    exact ⟨ve, AL.get?_of_mem hkn hm, e2, h1, h2⟩
  · rintro ⟨ve, hg, e, h1, h2⟩
    exact ⟨(k, ve), ⟨AL.mem_of_get? hg, h1, h2⟩, by rw [← e]⟩

theorem shardEntries_keys_nodup (cfg : Cfg) (p : Params) (s : SState) (i : Nat)
    (hkn : (AL.keys s.map).Nodup) : ((shardEntries cfg p s i).map (·.1)).Nodup := by
  unfold shardEntries
  rw [List.map_map]
  have : ((fun x : Nat × Nat => x.1) ∘ fun kv : Nat × VE => (kv.1, kv.2.val))
      = fun kv : Nat × VE => kv.1 := rfl
  rw [this]
  rw [AL.keys_eq_map] at hkn
  exact List.Nodup.sublist (List.Sublist.map _ List.filter_sublist) hkn

theorem shardEntries_shard {cfg : Cfg} {p : Params} {s : SState} {i : Nat} {kv : Nat × Nat}
    (h : kv ∈ shardEntries cfg p s i) : cfg.shardOf kv.1 = i := by
  unfold shardEntries at h
  simp only [List.mem_map, List.mem_filter, Bool.and_eq_true, beq_iff_eq] at h
  obtain ⟨x, ⟨_, h1, _⟩, e⟩ := h
  rw [← e]; exact h1

/-! ### no duplicates -/

/-- Per iterator: the keys yielded so far are distinct and lie in shards already visited. -/
def ItOK (cfg : Cfg) (it : ItSt) : Prop :=
  (it.yielded.map (·.1)).Nodup ∧ ∀ kv, kv ∈ it.yielded → cfg.shardOf kv.1 < it.next

theorem reach_itOK {p : Params} {cfg : Cfg} (hq : NoQuirks p) (hsm : SmallSketch p) {c : IState}
    (h : Reach p cfg c) : ∀ t it, iterOf c.iters t = some it → ItOK cfg it := by
  induction h with
  | init => intro t it hi; cases hi
  | step e hr hs ih =>
    rename_i c c'
    intro t it hi
    rcases step_iter hs t with ⟨h1, _⟩ | ⟨_, _, h1⟩ | ⟨_, it0, h0, _, h1⟩ | ⟨_, h1⟩
    · rw [h1] at hi; exact ih t it hi
    · rw [h1] at hi
      rw [← Option.some.inj hi]
      exact ⟨List.nodup_nil, fun kv hkv => by cases hkv⟩
    · rw [h1] at hi
      rw [← Option.some.inj hi]
      obtain ⟨a1, a2⟩ := ih t it0 h0
      have hkn := (reach_csinv hq hsm (reach_concS hr)).top.map.kn
      refine ⟨?_, ?_⟩
      · show ((it0.yielded ++ shardEntries cfg p c.c.s it0.next).map (·.1)).Nodup
        rw [List.map_append, List.nodup_append]
        refine ⟨a1, shardEntries_keys_nodup cfg p c.c.s it0.next hkn, ?_⟩
        intro a ha b hb e
        obtain ⟨x, hx, ex⟩ := List.mem_map.mp ha
        obtain ⟨y, hy, ey⟩ := List.mem_map.mp hb
        have h2 := a2 x hx
        have h3 := shardEntries_shard hy
        rw [ex, e, ← ey, h3] at h2
        exact Nat.lt_irrefl _ h2
      · intro kv hkv
        show cfg.shardOf kv.1 < it0.next + 1
        rcases List.mem_append.mp hkv with h2 | h2
        · exact Nat.lt_succ_of_lt (a2 kv h2)
        · rw [shardEntries_shard h2]; exact Nat.lt_succ_self _
    · rw [h1] at hi; cases hi

/-! ### where yielded pairs come from -/

/-- What thread `t`'s iterator has yielded so far (nothing if it has none). -/
def yOf (c : IState) (t : Tid) : List (Nat × Nat) :=
  match iterOf c.iters t with
  | some it => it.yielded
  | none => []

theorem yOf_some {c : IState} {t : Tid} {it : ItSt} (h : iterOf c.iters t = some it) :
    yOf c t = it.yielded := by unfold yOf; rw [h]

theorem yOf_none {c : IState} {t : Tid} (h : iterOf c.iters t = none) : yOf c t = [] := by
  unfold yOf; rw [h]

/-- Every pair an iterator has yielded at the end of a path was already yielded at its start,
or was the map's binding of its key, not expired and not hidden, at the visit that yielded
it. -/
theorem yielded_origin {p : Params} {cfg : Cfg} (hq : NoQuirks p) (hsm : SmallSketch p)
    (t : Tid) : ∀ (evs : List Ev) (c0 c1 : IState), Reach p cfg c0 →
      runEvs p cfg c0 evs = some c1 → ∀ k v, (k, v) ∈ yOf c1 t →
      (k, v) ∈ yOf c0 t ∨
      ∃ pre post cpre it ve, evs = pre ++ Ev.itShard t :: post ∧
        runEvs p cfg c0 pre = some cpre ∧ iterOf cpre.iters t = some it ∧
        cfg.shardOf k = it.next ∧ AL.get? cpre.c.s.map k = some ve ∧ ve.val = v ∧
        isExpiredInfo p cpre.c.s (getInfo cpre.c.s ve.info) cpre.c.s.now = false := by
  intro evs
  induction evs with
  | nil =>
    intro c0 c1 _ hrun k v hm
    simp only [runEvs] at hrun
    rw [← Option.some.inj hrun] at hm
    exact Or.inl hm
  | cons e rest ih =>
    intro c0 c1 hr hrun k v hm
    simp only [runEvs] at hrun
    cases hs : step p cfg c0 e with
    | none => rw [hs] at hrun; cases hrun
    | some c' =>
      rw [hs] at hrun
      rcases ih c' c1 (Reach.step e hr hs) hrun k v hm with h1 | ⟨pre, post, cpre, it, ve, a1, a2, a3⟩
      · rcases step_iter hs t with ⟨g1, _⟩ | ⟨_, _, g1⟩ | ⟨ge, it0, g0, _, g1⟩ | ⟨_, g1⟩
        · left; unfold yOf at h1 ⊢; rw [g1] at h1; exact h1
        · rw [yOf_some g1] at h1; cases h1
        · rw [yOf_some g1] at h1
          rcases List.mem_append.mp h1 with h2 | h2
          · left; rw [yOf_some g0]; exact h2
          · right
            have hkn := (reach_csinv hq hsm (reach_concS hr)).top.map.kn
            obtain ⟨ve, b1, b2, b3, b4⟩ := (mem_shardEntries hkn).mp h2
            exact ⟨[], rest, c0, it0, ve, by rw [ge]; rfl, rfl, g0, b3, b1, b2, b4⟩
        · rw [yOf_none g1] at h1; cases h1
      · right
        refine ⟨e :: pre, post, cpre, it, ve, by rw [a1]; rfl, ?_, a3⟩
        simp only [runEvs, hs]
        exact a2

/-- While `k` stays bound to `ve`, unexpired and not hidden, until its shard is visited, the
iterator yields `(k, ve.val)` at that visit and keeps it. -/
theorem resident_inv {p : Params} {cfg : Cfg} (hq : NoQuirks p) (hsm : SmallSketch p)
    (t : Tid) (k : Nat) (ve : VE) : ∀ (evs : List Ev) (c0 c1 : IState), Reach p cfg c0 →
      runEvs p cfg c0 evs = some c1 → Ev.itEnd t ∉ evs →
      ∀ it0, iterOf c0.iters t = some it0 →
      ((k, ve.val) ∈ it0.yielded ∨ it0.next ≤ cfg.shardOf k) →
      (∀ pre post cpre it, evs = pre ++ post → runEvs p cfg c0 pre = some cpre →
        iterOf cpre.iters t = some it → it.next ≤ cfg.shardOf k →
        AL.get? cpre.c.s.map k = some ve ∧
          isExpiredInfo p cpre.c.s (getInfo cpre.c.s ve.info) cpre.c.s.now = false) →
      ∃ it1, iterOf c1.iters t = some it1 ∧
        ((k, ve.val) ∈ it1.yielded ∨ it1.next ≤ cfg.shardOf k) := by
  intro evs
  induction evs with
  | nil =>
    intro c0 c1 _ hrun _ it0 h0 hj _
    simp only [runEvs] at hrun
    rw [← Option.some.inj hrun]
    exact ⟨it0, h0, hj⟩
  | cons e rest ih =>
    intro c0 c1 hr hrun hne it0 h0 hj hres
    simp only [runEvs] at hrun
    cases hs : step p cfg c0 e with
    | none => rw [hs] at hrun; cases hrun
    | some c' =>
      rw [hs] at hrun
      have hne' : Ev.itEnd t ∉ rest := fun hx => hne (List.mem_cons_of_mem _ hx)
      have hres' : ∀ pre post cpre it, rest = pre ++ post → runEvs p cfg c' pre = some cpre →
          iterOf cpre.iters t = some it → it.next ≤ cfg.shardOf k →
          AL.get? cpre.c.s.map k = some ve ∧
            isExpiredInfo p cpre.c.s (getInfo cpre.c.s ve.info) cpre.c.s.now = false := by
        intro pre post cpre it e1 e2 e3 e4
        exact hres (e :: pre) post cpre it (by rw [e1]; rfl) (by simp only [runEvs, hs]; exact e2)
          e3 e4
      rcases step_iter hs t with ⟨g1, _⟩ | ⟨_, g0, _⟩ | ⟨_, it0', g0, _, g1⟩ | ⟨ge, _⟩
      · exact ih c' c1 (Reach.step e hr hs) hrun hne' it0 (by rw [g1]; exact h0) hj hres'
      · rw [g0] at h0; cases h0
      · rw [g0] at h0
        have e0 : it0' = it0 := Option.some.inj h0
        subst e0
        refine ih c' c1 (Reach.step e hr hs) hrun hne' _ g1 ?_ hres'
        rcases hj with hj | hj
        · exact Or.inl (List.mem_append_left _ hj)
        · by_cases heq : it0'.next = cfg.shardOf k
          · left
            obtain ⟨b1, b2⟩ := hres [] (e :: rest) c0 it0' rfl rfl g0 hj
            have hkn := (reach_csinv hq hsm (reach_concS hr)).top.map.kn
            exact List.mem_append_right _
              ((mem_shardEntries hkn).mpr ⟨ve, b1, rfl, heq.symm, b2⟩)
          · right
            show it0'.next + 1 ≤ cfg.shardOf k
            omega
      · exact absurd (by rw [ge]; exact List.mem_cons_self) hne

/-! ### an iteration with no other thread stepping -/

theorem filter_disj_perm {α : Type} (a b : α → Bool) (hd : ∀ x, ¬ (a x = true ∧ b x = true)) :
    ∀ l : List α, (l.filter a ++ l.filter b).Perm (l.filter fun x => a x || b x) := by
  intro l
  induction l with
  | nil => exact List.Perm.refl _
  | cons x l ih =>
    cases ha : a x <;> cases hb : b x
    · simp only [List.filter_cons, ha, hb, Bool.or_self, Bool.false_eq_true, if_false]
      exact ih
    · simp only [List.filter_cons, ha, hb, Bool.false_or, Bool.false_eq_true, if_false, if_true]
      exact List.perm_middle.trans (List.Perm.cons x ih)
    · simp only [List.filter_cons, ha, hb, Bool.or_false, Bool.false_eq_true, if_false, if_true,
        List.cons_append]
      exact List.Perm.cons x ih
    · exact absurd ⟨ha, hb⟩ (hd x)

/-- Visiting the shards `0 … n-1` of an unchanging list yields a permutation of the elements
whose shard is below `n`. -/
theorem shards_perm {α : Type} (f : α → Nat) (q : α → Bool) (l : List α) : ∀ n : Nat,
    ((List.range n).flatMap fun i => l.filter fun x => f x == i && q x).Perm
      (l.filter fun x => decide (f x < n) && q x) := by
  intro n
  induction n with
  | zero => simp
  | succ n ih =>
    rw [List.range_succ, List.flatMap_append]
    simp only [List.flatMap_cons, List.flatMap_nil, List.append_nil]
    refine (List.Perm.append_right _ ih).trans ?_
    refine (filter_disj_perm _ _ ?_ l).trans ?_
    · intro x ⟨h1, h2⟩
      simp only [Bool.and_eq_true, decide_eq_true_eq, beq_iff_eq] at h1 h2
      omega
    · have : (fun x => (decide (f x < n) && q x) || (f x == n && q x))
          = fun x => decide (f x < n + 1) && q x := by
        funext x
        cases hq' : q x
        · simp
        · simp only [Bool.and_true]
          by_cases h1 : f x < n
          · have : f x < n + 1 := by omega
            simp [h1, this]
          · by_cases h2 : f x = n
            · simp [h2]
            · have : ¬ f x < n + 1 := by omega
              simp [h1, h2, this]
      rw [this]

/-- `m` consecutive visits by `t`. -/
theorem run_visits {p : Params} {cfg : Cfg} (t : Tid) : ∀ (m : Nat) (c : IState) (j : Nat)
    (Y : List (Nat × Nat)), iterOf c.iters t = some ⟨j, Y⟩ → j + m ≤ cfg.nshards →
    ∃ c', runEvs p cfg c (List.replicate m (Ev.itShard t)) = some c' ∧ c'.c = c.c ∧
      c'.done = c.done ∧
      iterOf c'.iters t =
        some ⟨j + m, Y ++ (List.range' j m).flatMap (shardEntries cfg p c.c.s)⟩ := by
  intro m
  induction m with
  | zero =>
    intro c j Y h _
    exact ⟨c, rfl, rfl, rfl, by simpa using h⟩
  | succ m ih =>
    intro c j Y h hle
    have hs : step p cfg c (.itShard t) =
        some ⟨c.c, setIter c.iters t ⟨j + 1, Y ++ shardEntries cfg p c.c.s j⟩, c.done⟩ := by
      simp only [step, h]
      rw [if_pos (by show j < cfg.nshards; omega)]
    obtain ⟨c', r1, r2, r3, r4⟩ :=
      ih ⟨c.c, setIter c.iters t ⟨j + 1, Y ++ shardEntries cfg p c.c.s j⟩, c.done⟩ (j + 1)
        (Y ++ shardEntries cfg p c.c.s j) (by simp only [iterOf_setIter, if_true]) (by omega)
    refine ⟨c', ?_, r2, r3, ?_⟩
    · simp only [List.replicate_succ, runEvs, hs]
      exact r1
    · rw [r4]
      simp only [List.range'_succ, List.flatMap_cons, List.append_assoc]
      congr 2
      omega

end ConcSI
end MiniMoka
