/-
  Lemmas for C15: `contains_key` and iteration as pure observations.

  * concurrent cache (`Sync`): `has`, `iter`, `snap`, `freq` do not change the state at all;
    hence they can be added to / removed from a history without changing anything else;
  * single-threaded cache (`Unsync`): the same for `iter`, `snap`, `freq`; `contains_key`
    runs the start-of-operation maintenance and is pure exactly when that has nothing to do.
-/
import MiniMoka.Sync
import MiniMoka.Lemmas.UnsyncStruct

namespace MiniMoka

/-- The observations of the concurrent cache that C15 is about (plus the two harness hooks). -/
def isPure : Op → Bool
  | .has _ => true
  | .iter => true
  | .snap => true
  | .freq _ => true
  | _ => false

/-- The same for the single-threaded cache: `contains_key` is not one of them there. -/
def isPureU : Op → Bool
  | .iter => true
  | .snap => true
  | .freq _ => true
  | _ => false

/-! ### concurrent cache -/

namespace Sync

/-- A pure operation leaves the whole state alone (faulted or not). -/
theorem step_pure (p : Params) (s : SState) (op : Op) (h : isPure op = true) :
    (step p s op).1 = s := by
  unfold step
  split
  · rfl
  · cases op <;> first
      | (exact absurd h Bool.false_ne_true)
      | (dsimp only; split <;> rfl)

theorem run_cons (p : Params) (s : SState) (op : Op) (rest : List Op) :
    run p s (op :: rest) = (op, (step p s op).2) :: run p (step p s op).1 rest := rfl

/-- Dropping the pure operations of a history drops their observations and nothing else. -/
theorem run_filter_pure (p : Params) (h : List Op) : ∀ (s : SState),
    (run p s h).filter (fun oo => !isPure oo.1) = run p s (h.filter (fun op => !isPure op)) := by
  induction h with
  | nil => intro s; rfl
  | cons op rest ih =>
    intro s
    rw [run_cons, List.filter_cons, List.filter_cons]
    cases hx : isPure op with
    | true =>
      simp only [Bool.not_true, Bool.false_eq_true, if_false]
      rw [step_pure p s op hx]
      exact ih s
    | false =>
      simp only [Bool.not_false, if_true]
      rw [run_cons, ih]

end Sync

/-! ### single-threaded cache -/

namespace Unsync

theorem step_pureU (p : Params) (s : UState) (op : Op) (h : isPureU op = true) :
    (step p s op).1 = s := by
  unfold step
  split
  · rfl
  · cases op <;> first
      | (exact absurd h Bool.false_ne_true)
      | (dsimp only; split <;> rfl)

theorem run_cons (p : Params) (s : UState) (op : Op) (rest : List Op) :
    run p s (op :: rest) = (op, (step p s op).2) :: run p (step p s op).1 rest := rfl

theorem run_filter_pureU (p : Params) (h : List Op) : ∀ (s : UState),
    (run p s h).filter (fun oo => !isPureU oo.1) =
      run p s (h.filter (fun op => !isPureU op)) := by
  induction h with
  | nil => intro s; rfl
  | cons op rest ih =>
    intro s
    rw [run_cons, List.filter_cons, List.filter_cons]
    cases hx : isPureU op with
    | true =>
      simp only [Bool.not_true, Bool.false_eq_true, if_false]
      rw [step_pureU p s op hx]
      exact ih s
    | false =>
      simp only [Bool.not_false, if_true]
      rw [run_cons, ih]

/-! #### when the maintenance of `contains_key` has nothing to do -/

/-- "No resident entry is expired at the current clock reading." -/
def NoneExpired (p : Params) (s : UState) : Prop :=
  ∀ k e, AL.get? s.map k = some e → isExpiredEntry p s e s.now = false

theorem wo_fresh {p : Params} {s : UState} (hs : Struct p s) (hne : NoneExpired p s) :
    ∀ n ∈ s.wo, expiredAt p.ttl n.ts s.now = false := by
  intro n hn
  obtain ⟨e, he, hwo⟩ := hs.woBack n hn
  have hx := hne n.key e he
  have hfind := findWo_of_mem hs.woIds hn
  unfold isExpiredEntry at hx
  rw [Bool.or_eq_false_iff] at hx
  have hlm : entryLm s e = n.ts := by
    unfold entryLm
    rw [hwo]
    dsimp only
    rw [hfind]
    rfl
  rw [← hlm]
  exact hx.1

theorem ao_fresh {p : Params} {s : UState} (hs : Struct p s) (hne : NoneExpired p s) :
    ∀ n ∈ s.prob, expiredAt p.tti n.ts s.now = false := by
  intro n hn
  obtain ⟨e, he, hao⟩ := hs.aoBack n hn
  have hx := hne n.key e he
  have hfind := findAo_of_mem hs.probIds hn
  unfold isExpiredEntry at hx
  rw [Bool.or_eq_false_iff] at hx
  have hla : entryLa s e = n.ts := by
    unfold entryLa
    rw [hao]
    dsimp only
    rw [hfind]
    rfl
  rw [← hla]
  exact hx.2

/-- The write-order purge stops at once when the front node is not expired. -/
theorem removeExpiredWo_noop (p : Params) (fuel : Nat) (s : UState) (c w : Nat)
    (h : ∀ n ∈ s.wo, expiredAt p.ttl n.ts s.now = false) :
    removeExpiredWo p fuel s c w = (s, c, w) := by
  cases fuel with
  | zero => rfl
  | succ fuel =>
    unfold removeExpiredWo
    split
    · rfl
    · rename_i n rest hq
      have := h n (by rw [hq]; exact List.mem_cons_self)
      rw [if_neg (by rw [this]; exact Bool.false_ne_true)]

theorem removeExpiredAo_noop (p : Params) (fuel : Nat) (s : UState) (c w : Nat)
    (h : ∀ n ∈ s.prob, expiredAt p.tti n.ts s.now = false) :
    removeExpiredAo p fuel s c w = (s, c, w) := by
  cases fuel with
  | zero => rfl
  | succ fuel =>
    unfold removeExpiredAo
    split
    · rfl
    · rename_i n rest hq
      have := h n (by rw [hq]; exact List.mem_cons_self)
      rw [if_neg (by rw [this]; exact Bool.false_ne_true)]

theorem subEc_zero (s : UState) : subEc s 0 = s := by
  unfold subEc
  rw [if_neg (Nat.not_lt_zero _)]
  rfl

/-- Settling the counters of a purge that removed nothing. -/
theorem settle_zero (s : UState) :
    ({ subEc s 0 with ws := (subEc s 0).ws - 0 } : UState) = s := by
  rw [subEc_zero]
  rfl

theorem evictExpired_noop {p : Params} {s : UState} (hs : Struct p s) (hne : NoneExpired p s) :
    evictExpired p s = s := by
  unfold evictExpired
  dsimp only
  have h1 : (if p.ttl.isSome = true then
      (match removeExpiredWo p EVICTION_BATCH_SIZE s 0 0 with
        | (s1, c, w) => ({ subEc s1 c with ws := (subEc s1 c).ws - w } : UState))
      else s) = s := by
    split
    · rw [removeExpiredWo_noop p _ s 0 0 (wo_fresh hs hne)]
      exact settle_zero s
    · rfl
  rw [h1]
  split
  · rw [removeExpiredAo_noop p _ s 0 0 (ao_fresh hs hne)]
    exact settle_zero s
  · rfl

/-- With nothing to evict for size, `evict_lru_entries` returns the state unchanged. -/
theorem evictLru_noop {p : Params} {s : UState} (h : weightsToEvict p s = 0) :
    evictLru p s = s := by
  unfold evictLru
  have : evictLruLoop EVICTION_BATCH_SIZE s 0 0 0 = (s, 0, 0) := by
    cases EVICTION_BATCH_SIZE with
    | zero => rfl
    | succ n =>
      unfold evictLruLoop
      rw [if_pos (Nat.le_refl 0)]
  rw [h, this]
  exact settle_zero s

theorem maintain_noop {p : Params} {s : UState} (hs : Struct p s) (hne : NoneExpired p s)
    (hfit : weightsToEvict p s = 0) : maintain p s = s := by
  unfold maintain evictExpiredIfNeeded
  split
  · rw [evictExpired_noop hs hne]; exact evictLru_noop hfit
  · exact evictLru_noop hfit

theorem containsKey_of_noop {p : Params} {s : UState} (hm : maintain p s = s)
    (hne : NoneExpired p s) (k : Nat) :
    containsKey p s k = (s, (AL.get? s.map k).isSome) := by
  unfold containsKey
  rw [hm]
  dsimp only
  cases hk : AL.get? s.map k with
  | none => rfl
  | some e =>
    dsimp only
    split
    · rw [hne k e hk]; rfl
    · rfl

end Unsync
end MiniMoka
