/-
  Every operation of the unsync model preserves the invariant `InvU`.
-/
import MiniMoka.Lemmas.UnsyncInv

namespace MiniMoka

/-- What the cache models need to know about the sketch: a predicate that holds
initially and after the (single) `ensureCapacity` of the initially empty sketch (for
capacities whose table stays below 2^28 slots), and under which `increment` neither faults
nor leaves the predicate; an empty sketch ignores increments.
Discharged for `Sketch.Good` in `Lemmas/Sketch.lean`. -/
structure SketchLaws (P : Sketch → Prop) : Prop where
  init : P {}
  ensure : ∀ cap, cap ≤ 2 ^ 27 → P (({} : Sketch).ensureCapacity cap)
  incr : ∀ s h, P s → ∃ s', s.increment false h = .ok s' ∧ P s'
  incrDefault : ∀ h, ({} : Sketch).increment false h = .ok {}

/-- Configurations for which the sketch table stays below 2^28 slots (beyond that the
`count: u32` of `reset` could overflow; documented limit). -/
structure SmallSketch (p : Params) : Prop where
  cap : ∀ c, p.cap = some c → Sketch.sketchCapacity c ≤ 2 ^ 27
  capF : ∀ a b c, Sketch.sketchCapacity (p.capF a b c) ≤ 2 ^ 27

namespace Unsync

theorem structP_congr {p : Params} {pend : Option Nat} {s s' : UState} (h : StructP p pend s)
    (hm : s'.map = s.map) (hp : s'.prob = s.prob) (hw : s'.wo = s.wo)
    (hn : s'.nextId = s.nextId) (hf : s'.fault = s.fault) : StructP p pend s' := by
  obtain ⟨a, b, c, d, e, f, g, i, j, k, l⟩ := h
  refine ⟨?_, ?_, ?_, ?_, ?_, ?_, ?_, ?_, ?_, ?_, ?_⟩ <;> simp only [hm, hp, hw, hn, hf] <;> assumption

theorem shrinks_congr {s s1 s' : UState} (h : Shrinks s s1)
    (hm : s'.map = s1.map) (hp : s'.prob = s1.prob) (hw : s'.wo = s1.wo) : Shrinks s s' := by
  refine ⟨fun k e hk => h.sub k e (hm ▸ hk), fun k e hk => ?_, fun k e hk => ?_⟩
  · have := h.la k e (hm ▸ hk)
    simpa [entryLa, hp] using this
  · have := h.lm k e (hm ▸ hk)
    simpa [entryLm, hw] using this

/-- Fields other than the counters that maintenance leaves alone. -/
structure SameAux (s s' : UState) : Prop where
  sk : s'.sk = s.sk
  skOn : s'.skOn = s.skOn
  now : s'.now = s.now
  nextId : s'.nextId = s.nextId

theorem SameAux.refl (s : UState) : SameAux s s := ⟨rfl, rfl, rfl, rfl⟩

theorem SameAux.trans {a b c : UState} (h1 : SameAux a b) (h2 : SameAux b c) : SameAux a c :=
  ⟨h2.sk.trans h1.sk, h2.skOn.trans h1.skOn, h2.now.trans h1.now, h2.nextId.trans h1.nextId⟩

/-- Settling the counters after an eviction loop. -/
theorem settle {p : Params} {s s1 : UState} {c w : Nat} (hi : InvU p s)
    (hl : LoopSpec p s 0 0 (s1, c, w)) :
    let s2 := subEc s1 c
    let s3 := { s2 with ws := s2.ws - w }
    InvU p s3 ∧ Shrinks s s3 ∧ SameAux s s3 ∧
      s3.map = s1.map ∧ s3.prob = s1.prob ∧ s3.wo = s1.wo := by
  have hc := hl.count
  have hw := hl.weight
  simp only at hc hw
  have hec : s1.ec = s1.map.length + c := by rw [hl.env.ec, hi.counted.ec]; omega
  have hnf : ¬ s1.ec < c := by omega
  simp only [subEc, hnf, if_false]
  refine ⟨⟨structP_congr hl.struct rfl rfl rfl rfl rfl, ?_⟩, shrinks_congr hl.shrinks rfl rfl rfl,
    ⟨hl.env.sk, hl.env.skOn, hl.env.now, hl.env.nextId⟩, by simp⟩
  refine ⟨?_, ?_, ?_⟩
  · simp only; omega
  · simp only; rw [hl.env.ws, hi.counted.ws]; omega
  · intro k e hk
    exact hi.counted.weights k e (hl.shrinks.sub k e hk)

theorem evictLru_spec {p : Params} {s : UState} (hi : InvU p s) :
    InvU p (evictLru p s) ∧ Shrinks s (evictLru p s) ∧ SameAux s (evictLru p s) := by
  have hl := evictLruLoop_spec (p := p) EVICTION_BATCH_SIZE s (weightsToEvict p s) 0 0 hi.struct
  unfold evictLru
  generalize hr : evictLruLoop EVICTION_BATCH_SIZE s (weightsToEvict p s) 0 0 = r at hl
  obtain ⟨s1, c, w⟩ := r
  have := settle hi hl
  exact ⟨this.1, this.2.1, this.2.2.1⟩

theorem evictExpired_spec {p : Params} (hq : NoQuirks p) {s : UState} (hi : InvU p s) :
    InvU p (evictExpired p s) ∧ Shrinks s (evictExpired p s) ∧ SameAux s (evictExpired p s) := by
  unfold evictExpired
  -- first phase (write order)
  have h1 : ∃ s1, (if p.ttl.isSome = true then
        (let (s1, c, w) := removeExpiredWo p EVICTION_BATCH_SIZE s 0 0
         let s2 := subEc s1 c
         { s2 with ws := s2.ws - w })
      else s) = s1 ∧ InvU p s1 ∧ Shrinks s s1 ∧ SameAux s s1 := by
    by_cases ht : p.ttl.isSome = true
    · simp only [ht, if_true]
      have hl := removeExpiredWo_spec hq EVICTION_BATCH_SIZE s 0 0 hi.struct
      generalize hr : removeExpiredWo p EVICTION_BATCH_SIZE s 0 0 = r at hl
      obtain ⟨s1, c, w⟩ := r
      have := settle hi hl
      exact ⟨_, rfl, this.1, this.2.1, this.2.2.1⟩
    · simp only [ht]
      exact ⟨s, rfl, hi, Shrinks.refl s, SameAux.refl s⟩
  obtain ⟨s1, he1, hi1, hsh1, ha1⟩ := h1
  simp only at he1
  rw [he1]
  by_cases ht : p.tti.isSome = true
  · simp only [ht, if_true]
    have hl := removeExpiredAo_spec (p := p) EVICTION_BATCH_SIZE s1 0 0 hi1.struct
    generalize hr : removeExpiredAo p EVICTION_BATCH_SIZE s1 0 0 = r at hl
    obtain ⟨s2, c, w⟩ := r
    have := settle hi1 hl
    exact ⟨this.1, hsh1.trans this.2.1, ha1.trans this.2.2.1⟩
  · simp only [ht]
    exact ⟨hi1, hsh1, ha1⟩

theorem maintain_spec {p : Params} (hq : NoQuirks p) {s : UState} (hi : InvU p s) :
    InvU p (maintain p s) ∧ Shrinks s (maintain p s) ∧ SameAux s (maintain p s) := by
  unfold maintain evictExpiredIfNeeded
  by_cases hx : p.hasExpiry = true
  · simp only [hx, if_true]
    obtain ⟨h1, h2, h3⟩ := evictExpired_spec hq hi
    obtain ⟨h4, h5, h6⟩ := evictLru_spec h1
    exact ⟨h4, h2.trans h5, h3.trans h6⟩
  · simp only [hx]
    exact evictLru_spec hi

end Unsync
end MiniMoka

namespace MiniMoka
namespace Unsync

/-! ### touching a node: optional re-timing, then move to the back -/

def touchAo (s : UState) (id : Nat) (ts : Option Nat) : UState :=
  { s with prob := moveToBackAo (match ts with
      | some t => setTsAo s.prob id t
      | none => s.prob) id }

def touchWo (s : UState) (id : Nat) (ts : Option Nat) : UState :=
  { s with wo := moveToBackWo (match ts with
      | some t => setTsWo s.wo id t
      | none => s.wo) id }

theorem findAo_touchAo {s : UState} (id : Nat) (ts : Option Nat) (id' : Nat)
    (hn : (s.prob.map (·.id)).Nodup) :
    findAo (touchAo s id ts).prob id' =
      match ts with
      | some t => if id' = id then (findAo s.prob id').map (fun n => { n with ts := some t })
                  else findAo s.prob id'
      | none => findAo s.prob id' := by
  cases ts with
  | none => simp [touchAo, findAo_moveToBackAo id id' hn]
  | some t =>
    simp only [touchAo]
    rw [findAo_moveToBackAo id id' (by rw [ids_setTsAo]; exact hn), findAo_setTsAo]

theorem findWo_touchWo {s : UState} (id : Nat) (ts : Option Nat) (id' : Nat)
    (hn : (s.wo.map (·.id)).Nodup) :
    findWo (touchWo s id ts).wo id' =
      match ts with
      | some t => if id' = id then (findWo s.wo id').map (fun n => { n with ts := some t })
                  else findWo s.wo id'
      | none => findWo s.wo id' := by
  cases ts with
  | none => simp [touchWo, findWo_moveToBackWo id id' hn]
  | some t =>
    simp only [touchWo]
    rw [findWo_moveToBackWo id id' (by rw [ids_setTsWo]; exact hn), findWo_setTsWo]

theorem nodup_touchAo {s : UState} (id : Nat) (ts : Option Nat) (hn : (s.prob.map (·.id)).Nodup) :
    ((touchAo s id ts).prob.map (·.id)).Nodup := by
  cases ts with
  | none => exact nodup_moveToBackAo id hn
  | some t => exact nodup_moveToBackAo id (by rw [ids_setTsAo]; exact hn)

theorem nodup_touchWo {s : UState} (id : Nat) (ts : Option Nat) (hn : (s.wo.map (·.id)).Nodup) :
    ((touchWo s id ts).wo.map (·.id)).Nodup := by
  cases ts with
  | none => exact nodup_moveToBackWo id hn
  | some t => exact nodup_moveToBackWo id (by rw [ids_setTsWo]; exact hn)

theorem touchAo_struct {p : Params} {pend : Option Nat} {s : UState} (hs : StructP p pend s)
    (id : Nat) (ts : Option Nat) : StructP p pend (touchAo s id ts) := by
  refine struct_reorder_ao hs rfl rfl rfl rfl (nodup_touchAo id ts hs.probIds) ?_ ?_
  · intro id' n' h
    rw [findAo_touchAo id ts id' hs.probIds] at h
    cases ts with
    | none => exact ⟨n', h, rfl⟩
    | some t =>
      simp only at h
      by_cases e : id' = id
      · simp only [e, if_true] at h
        cases h2 : findAo s.prob id with
        | none => simp [h2] at h
        | some n => simp [h2] at h; subst h; exact ⟨n, e ▸ h2, rfl⟩
      · simp only [e, if_false] at h
        exact ⟨n', h, rfl⟩
  · intro id' n h
    rw [findAo_touchAo id ts id' hs.probIds]
    cases ts with
    | none => exact ⟨n, h, rfl⟩
    | some t =>
      simp only
      by_cases e : id' = id
      · simp [e, e ▸ h]
      · simp only [e, if_false]; exact ⟨n, h, rfl⟩

theorem touchWo_struct {p : Params} {pend : Option Nat} {s : UState} (hs : StructP p pend s)
    (id : Nat) (ts : Option Nat) : StructP p pend (touchWo s id ts) := by
  refine struct_reorder_wo hs rfl rfl rfl rfl (nodup_touchWo id ts hs.woIds) ?_ ?_
  · intro id' n' h
    rw [findWo_touchWo id ts id' hs.woIds] at h
    cases ts with
    | none => exact ⟨n', h, rfl⟩
    | some t =>
      simp only at h
      by_cases e : id' = id
      · simp only [e, if_true] at h
        cases h2 : findWo s.wo id with
        | none => simp [h2] at h
        | some n => simp [h2] at h; subst h; exact ⟨n, e ▸ h2, rfl⟩
      · simp only [e, if_false] at h
        exact ⟨n', h, rfl⟩
  · intro id' n h
    rw [findWo_touchWo id ts id' hs.woIds]
    cases ts with
    | none => exact ⟨n, h, rfl⟩
    | some t =>
      simp only
      by_cases e : id' = id
      · simp [e, e ▸ h]
      · simp only [e, if_false]; exact ⟨n, h, rfl⟩

/-- `record_hit` on an entry whose node is in the list is `touchAo`. -/
theorem recordHit_eq {s : UState} {e : UEntry} {id : Nat} {n : AoNode} (ts : Option Nat)
    (hao : e.ao = some id) (hf : findAo s.prob id = some n) :
    recordHit s e ts = touchAo s id ts := by
  cases ts with
  | none => simp [recordHit, hao, moveToBackAoE, hf, touchAo]
  | some t =>
    have : findAo (setTsAo s.prob id t) id = some { n with ts := some t } := by
      rw [findAo_setTsAo]; simp [hf]
    simp [recordHit, hao, moveToBackAoE, this, touchAo]

end Unsync
end MiniMoka

namespace MiniMoka
namespace Unsync

theorem invU_of {p : Params} {s s' : UState} (hi : InvU p s) (hst : Struct p s')
    (hm : s'.map = s.map) (hec : s'.ec = s.ec) (hws : s'.ws = s.ws) : InvU p s' :=
  ⟨hst, ⟨by rw [hec, hm]; exact hi.counted.ec, by rw [hws, hm]; exact hi.counted.ws,
    by rw [hm]; exact hi.counted.weights⟩⟩

theorem sketchIncrement_spec {P : Sketch → Prop} (L : SketchLaws P) {p : Params} (hq : NoQuirks p)
    {s : UState} (hsk : P s.sk) (h : UInt64) :
    ∃ sk', sketchIncrement p s h = { s with sk := sk' } ∧ P sk' ∧ (s.sk = {} → sk' = {}) := by
  have hd5 : p.q.d5 = false := by rw [hq]
  obtain ⟨sk', h1, h2⟩ := L.incr s.sk h hsk
  refine ⟨sk', by simp [sketchIncrement, hd5, h1], h2, ?_⟩
  intro h0
  rw [h0, L.incrDefault h] at h1
  cases h1; rfl

/-- The invariant together with the sketch predicate; the sketch stays in its initial
(empty) state until it is enabled. -/
structure Inv (P : Sketch → Prop) (p : Params) (s : UState) : Prop where
  inv : InvU p s
  sk : P s.sk
  skOff : s.skOn = false → s.sk = {}

/-- Transport along a step that leaves the sketch and its flag alone. -/
theorem Inv.of_aux {P : Sketch → Prop} {p : Params} {s s' : UState} (hi : Inv P p s)
    (hinv : InvU p s') (hsk : s'.sk = s.sk) (hon : s'.skOn = s.skOn) : Inv P p s' :=
  ⟨hinv, by rw [hsk]; exact hi.sk, fun h => by rw [hsk]; exact hi.skOff (by rw [← hon]; exact h)⟩

theorem get_inv {P : Sketch → Prop} (L : SketchLaws P) {p : Params} (hq : NoQuirks p)
    {s : UState} (hi : Inv P p s) (k : Nat) : Inv P p (get p s k).1 := by
  obtain ⟨h1, _, h3⟩ := maintain_spec hq hi.inv
  have hsk1 : P (maintain p s).sk := by rw [h3.sk]; exact hi.sk
  obtain ⟨sk', h4, h5, h6⟩ := sketchIncrement_spec L hq hsk1 (p.hash k)
  have hi2 : InvU p { maintain p s with sk := sk' } :=
    invU_of h1 (structP_congr h1.struct rfl rfl rfl rfl rfl) rfl rfl rfl
  have hoff : ({ maintain p s with sk := sk' } : UState).skOn = false → sk' = {} := by
    intro h
    apply h6
    rw [h3.sk]
    exact hi.skOff (by rw [← h3.skOn]; exact h)
  have hI2 : Inv P p { maintain p s with sk := sk' } := ⟨hi2, h5, hoff⟩
  unfold get
  simp only [h4]
  cases hg : AL.get? (maintain p s).map k with
  | none => exact hI2
  | some e =>
    simp only
    obtain ⟨id, n, hao, hf, _⟩ := hi2.struct.aoLink k e hg (by simp)
    have hrec : ∀ ts, Inv P p (recordHit { maintain p s with sk := sk' } e ts) := by
      intro ts
      rw [recordHit_eq ts hao hf]
      exact hI2.of_aux (invU_of hi2 (touchAo_struct hi2.struct id ts) rfl rfl rfl) rfl rfl
    cases hts : opTs p (maintain p s) with
    | none => exact hrec none
    | some t =>
      simp only
      split
      · exact hI2
      · exact hrec _

theorem containsKey_inv {P : Sketch → Prop} {p : Params} (hq : NoQuirks p)
    {s : UState} (hi : Inv P p s) (k : Nat) : Inv P p (containsKey p s k).1 := by
  obtain ⟨h1, _, h3⟩ := maintain_spec hq hi.inv
  have hI1 : Inv P p (maintain p s) := hi.of_aux h1 h3.sk h3.skOn
  unfold containsKey
  dsimp only
  cases hg : AL.get? (maintain p s).map k with
  | none => exact hI1
  | some e =>
    simp only
    split <;> exact hI1

theorem invalidate_inv {P : Sketch → Prop} {p : Params} (hq : NoQuirks p)
    {s : UState} (hi : Inv P p s) (k : Nat) : Inv P p (invalidate p s k) := by
  have hd1 : p.q.d1 = false := by rw [hq]
  obtain ⟨h1, _, h3⟩ := maintain_spec hq hi.inv
  have hI1 : Inv P p (maintain p s) := hi.of_aux h1 h3.sk h3.skOn
  unfold invalidate
  dsimp only
  cases hg : AL.get? (maintain p s).map k with
  | none => exact hI1
  | some e =>
    simp only [hd1, Bool.false_eq_true, if_false]
    obtain ⟨hs', _, _⟩ := takeOut_spec h1.struct hg (by simp)
    have hl : LoopSpec p (maintain p s) 0 0 (takeOut (maintain p s) k e, 1, e.weight) := by
      have := LoopSpec.step (c := 0) (w := 0) h1.struct hg (LoopSpec.refl hs' 1 (0 + e.weight))
      simpa using this
    have := settle h1 hl
    exact hI1.of_aux this.1 this.2.2.1.sk this.2.2.1.skOn

theorem invalidateAll_inv {P : Sketch → Prop} {p : Params} (hq : NoQuirks p)
    {s : UState} (hi : Inv P p s) : Inv P p (invalidateAll p s) := by
  have hd2 : p.q.d2 = false := by rw [hq]
  unfold invalidateAll
  refine ⟨⟨⟨?_, ?_, ?_, ?_, ?_, ?_, ?_, ?_, ?_, ?_, ?_⟩, ⟨?_, ?_, ?_⟩⟩, hi.sk, hi.skOff⟩ <;>
    simp [hd2, totalW, hi.inv.struct.noFault]

theorem invalidateKeys_spec {p : Params} (hq : NoQuirks p) (keys : List Nat) :
    ∀ (s : UState) (c w : Nat), Struct p s →
      LoopSpec p s c w (invalidateKeys p keys s c w) := by
  have hd3 : p.q.d3 = false := by rw [hq]
  induction keys with
  | nil => intro s c w hs; simpa [invalidateKeys] using LoopSpec.refl hs c w
  | cons k rest ih =>
    intro s c w hs
    unfold invalidateKeys
    cases hg : AL.get? s.map k with
    | none => exact ih s c w hs
    | some e =>
      simp only [hd3]
      obtain ⟨hs', _, _⟩ := takeOut_spec hs hg (by simp)
      exact LoopSpec.step hs hg (ih _ _ _ hs')

theorem invalidateEntriesIf_inv {P : Sketch → Prop} {p : Params} (hq : NoQuirks p)
    {s : UState} (hi : Inv P p s) (pr : Pred) : Inv P p (invalidateEntriesIf p s pr) := by
  have hd3 : p.q.d3 = false := by rw [hq]
  unfold invalidateEntriesIf
  dsimp only
  have hl := invalidateKeys_spec hq
    ((s.map.filter (fun kv => pr.eval kv.1 kv.2.val)).map (·.1)) s 0 0 hi.inv.struct
  generalize invalidateKeys p _ s 0 0 = r at hl ⊢
  obtain ⟨s1, c, w⟩ := r
  simp only [hd3, Bool.false_eq_true, if_false]
  have := settle hi.inv hl
  exact hi.of_aux this.1 this.2.2.1.sk this.2.2.1.skOn

end Unsync
end MiniMoka
