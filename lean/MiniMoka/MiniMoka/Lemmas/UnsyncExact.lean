/-
  C03 part A on the unsync model: while nothing is evicted for size, the cache is exactly a
  map with expiry.  Two-way coupling between the model state and the reference `Spec.Ref`:
  soundness is the coupling `Coupled` of `UnsyncLookup.lean` (through the projection
  `toGhost`), completeness (`Complete`) says every entry the reference requires is resident.
-/
import MiniMoka.Lemmas.UnsyncCapacity

namespace MiniMoka
namespace Unsync

open Spec

/-! ### the reference side -/

def toGE (e : REntry) : GEntry := { val := e.val, tIns := e.tIns, tAcc := e.tAcc, alive := e.alive }

def toGhostEnts : List (Nat × REntry) → List (Nat × GEntry)
  | [] => []
  | (k, e) :: rest => (k, toGE e) :: toGhostEnts rest

/-- The bookkeeping of the lookup oracles is a projection of the reference of C03. -/
def toGhost (r : Ref) : Ghost := { now := r.now, ents := toGhostEnts r.ents }

theorem get?_toGhostEnts (l : List (Nat × REntry)) (k : Nat) :
    AL.get? (toGhostEnts l) k = (AL.get? l k).map toGE := by
  induction l with
  | nil => rfl
  | cons a l ih =>
    obtain ⟨k', e⟩ := a
    simp only [toGhostEnts, AL.get?_cons]
    by_cases h : k' = k
    · simp [h]
    · simp [h, ih]

theorem toGhostEnts_put (l : List (Nat × REntry)) (k : Nat) (e : REntry) :
    toGhostEnts (AL.put l k e) = AL.put (toGhostEnts l) k (toGE e) := by
  induction l with
  | nil => rfl
  | cons a l ih =>
    obtain ⟨k', e'⟩ := a
    simp only [toGhostEnts, AL.put_cons]
    by_cases h : k' = k
    · simp [h, toGhostEnts]
    · simp [h, toGhostEnts, ih]

theorem toGhostEnts_kill (f : Nat → REntry → Bool) (f' : Nat → GEntry → Bool)
    (hf : ∀ k e, f k e = f' k (toGE e)) (l : List (Nat × REntry)) :
    toGhostEnts (mapEnts (fun k e => if f k e then { e with alive := false } else e) l) =
      killIf f' (toGhostEnts l) := by
  induction l with
  | nil => rfl
  | cons a l ih =>
    obtain ⟨k, e⟩ := a
    simp only [mapEnts, toGhostEnts, killIf]
    rw [ih, hf k e]
    cases f' k (toGE e) <;> simp [toGE]

theorem toGhostEnts_same (f : Nat → REntry → REntry) (hf : ∀ k e, toGE (f k e) = toGE e)
    (l : List (Nat × REntry)) : toGhostEnts (mapEnts f l) = toGhostEnts l := by
  induction l with
  | nil => rfl
  | cons a l ih =>
    obtain ⟨k, e⟩ := a
    simp only [mapEnts, toGhostEnts, ih, hf]

/-- On the single-threaded cache the reference steps of C03 and of the lookup oracles agree. -/
theorem toGhost_refStep (r : Ref) (op : Op) (obs : Obs) :
    toGhost (refStep .unsync r op obs) = ghostStep .unsync (toGhost r) op obs := by
  cases op with
  | ins k v => simp [refStep, ghostStep, toGhost, toGhostEnts_put, toGE]
  | get k =>
    cases obs with
    | val res =>
      cases res with
      | none => rfl
      | some v =>
        simp only [refStep, ghostStep, toGhost, get?_toGhostEnts]
        cases AL.get? r.ents k with
        | none => rfl
        | some e => simp [toGhostEnts_put, toGE]
    | _ => rfl
  | has k => rfl
  | iter => rfl
  | inv k =>
    simp only [refStep, ghostStep, toGhost]
    rw [toGhostEnts_kill (fun k' _ => k' == k) (fun k' _ => k' == k) (fun _ _ => rfl)]
  | invAll =>
    simp only [refStep, ghostStep, toGhost]
    have := toGhostEnts_kill (fun _ _ => true) (fun _ _ => true) (fun _ _ => rfl) r.ents
    simpa using this
  | invIf pr =>
    simp only [refStep, ghostStep, toGhost]
    rw [toGhostEnts_kill (fun k e => pr.eval k e.val) (fun k ge => pr.eval k ge.val) (fun _ _ => rfl)]
  | sync =>
    simp only [refStep, ghostStep, toGhost]
    rw [toGhostEnts_same (fun _ e => { e with tSure := e.tAcc }) (fun _ _ => rfl)]
  | adv d => rfl
  | snap => rfl
  | freq k => rfl

theorem keys_mapEnts (f : Nat → REntry → REntry) (l : List (Nat × REntry)) :
    AL.keys (mapEnts f l) = AL.keys l := by
  induction l with
  | nil => rfl
  | cons a l ih => obtain ⟨k, e⟩ := a; simp [mapEnts, ih]

theorem get?_mapEnts (f : Nat → REntry → REntry) (l : List (Nat × REntry)) (k : Nat) :
    AL.get? (mapEnts f l) k = (AL.get? l k).map (f k) := by
  induction l with
  | nil => rfl
  | cons a l ih =>
    obtain ⟨k', e⟩ := a
    simp only [mapEnts, AL.get?_cons]
    by_cases h : k' = k
    · subst h; simp
    · simp [h, ih]

/-- Well-formedness of the reference on the single-threaded cache: one entry per key, and the
guaranteed access time is the access time. -/
structure RefOk (r : Ref) : Prop where
  nodup : (AL.keys r.ents).Nodup
  sure : ∀ k e, AL.get? r.ents k = some e → e.tSure = e.tAcc

theorem refOk_init : RefOk {} := ⟨by simp, fun k e h => by simp at h⟩

theorem refOk_mapEnts {r : Ref} (hr : RefOk r) (f : Nat → REntry → REntry)
    (hf : ∀ k e, e.tSure = e.tAcc → (f k e).tSure = (f k e).tAcc) :
    RefOk { r with ents := mapEnts f r.ents } := by
  refine ⟨by simp only [keys_mapEnts]; exact hr.nodup, ?_⟩
  intro k e h
  simp only [get?_mapEnts] at h
  cases h0 : AL.get? r.ents k with
  | none => simp [h0] at h
  | some e0 =>
    simp only [h0, Option.map_some, Option.some.injEq] at h
    rw [← h]; exact hf k e0 (hr.sure k e0 h0)

theorem refOk_put {r : Ref} (hr : RefOk r) (k : Nat) (e : REntry) (he : e.tSure = e.tAcc) :
    RefOk { r with ents := AL.put r.ents k e } := by
  refine ⟨AL.nodup_put k e hr.nodup, ?_⟩
  intro k' e' h
  simp only [AL.get?_put] at h
  by_cases hk : k = k'
  · simp only [hk, if_true, Option.some.injEq] at h; rw [← h]; exact he
  · simp only [hk, if_false] at h; exact hr.sure k' e' h

theorem refOk_step {r : Ref} (hr : RefOk r) (op : Op) (obs : Obs) :
    RefOk (refStep .unsync r op obs) := by
  cases op with
  | ins k v => exact refOk_put hr k _ rfl
  | get k =>
    cases obs with
    | val res =>
      cases res with
      | none => exact hr
      | some v =>
        simp only [refStep]
        cases AL.get? r.ents k with
        | none => exact hr
        | some e => exact refOk_put hr k _ (by simp)
    | _ => exact hr
  | has k => exact hr
  | iter => exact hr
  | inv k => exact refOk_mapEnts hr _ (fun k' e h => by split <;> exact h)
  | invAll => exact refOk_mapEnts hr _ (fun k' e h => h)
  | invIf pr => exact refOk_mapEnts hr _ (fun k' e h => by split <;> exact h)
  | sync => exact refOk_mapEnts hr _ (fun k' e h => rfl)
  | adv d => exact ⟨hr.nodup, hr.sure⟩
  | snap => exact hr
  | freq k => exact hr

theorem mustLive_now {ttl tti : Option Nat} {r r' : Ref} (h : r'.now = r.now) (e : REntry) :
    mustLive ttl tti r' e = mustLive ttl tti r e := by
  simp only [mustLive, h]

/-- Time only takes entries out of the set the reference requires. -/
theorem mustLive_mono {ttl tti : Option Nat} {r r' : Ref} (h : r.now ≤ r'.now) {e : REntry}
    (hl : mustLive ttl tti r' e = true) : mustLive ttl tti r e = true := by
  simp only [mustLive, Bool.and_eq_true] at hl ⊢
  obtain ⟨⟨h1, h2⟩, h3⟩ := hl
  refine ⟨⟨h1, ?_⟩, ?_⟩
  · cases ttl with
    | none => rfl
    | some d => simp only [decide_eq_true_eq] at h2 ⊢; omega
  · cases tti with
    | none => rfl
    | some d => simp only [decide_eq_true_eq] at h3 ⊢; omega

end Unsync
end MiniMoka

namespace MiniMoka
namespace Unsync

open Spec

/-! ### completeness: what the reference requires is resident -/

def Complete (p : Params) (s : UState) (r : Ref) : Prop :=
  ∀ k re, AL.get? r.ents k = some re → mustLive p.ttl p.tti r re = true →
    ∃ e, AL.get? s.map k = some e

theorem expiredAt_none_left (ts : Option Nat) (now : Nat) : expiredAt none ts now = false := by
  cases ts <;> rfl

/-- A resident entry that the reference requires carries the reference's value and is not
expired in the model (`now < t + d` against the model's `t + d ≤ now`). -/
theorem live_entry {p : Params} {s : UState} {r : Ref} (hc : Coupled p s (toGhost r))
    (hr : RefOk r) {k : Nat} {re : REntry} {e : UEntry} (hre : AL.get? r.ents k = some re)
    (hl : mustLive p.ttl p.tti r re = true) (he : AL.get? s.map k = some e) :
    e.val = re.val ∧ isExpiredEntry p s e s.now = false := by
  obtain ⟨ge, g1, _, g3, g4, g5⟩ := hc.ents k e he
  have hge : ge = toGE re := by
    simp only [toGhost, get?_toGhostEnts, hre, Option.map_some, Option.some.injEq] at g1
    exact g1.symm
  subst hge
  have hnow : r.now = s.now := hc.now
  have hsure := hr.sure k re hre
  simp only [mustLive, Bool.and_eq_true] at hl
  obtain ⟨⟨_, h2⟩, h3⟩ := hl
  refine ⟨g3.symm, ?_⟩
  simp only [isExpiredEntry, Bool.or_eq_false_iff]
  refine ⟨?_, ?_⟩
  · cases httl : p.ttl with
    | none => exact expiredAt_none_left _ _
    | some d =>
      rw [g4 (by simp [httl])]
      rw [httl] at h2
      simp only [decide_eq_true_eq] at h2
      simp only [expiredAt, toGE]
      exact decide_eq_false (by omega)
  · cases htti : p.tti with
    | none => exact expiredAt_none_left _ _
    | some d =>
      rw [g5 (by simp [Params.hasExpiry, htti])]
      rw [htti] at h3
      simp only [decide_eq_true_eq] at h3
      simp only [expiredAt, toGE]
      exact decide_eq_false (by omega)

/-- Below capacity the maintenance keeps every unexpired entry, timestamps included. -/
theorem kept_by_maintain {P : Sketch → Prop} {p : Params} (hq : NoQuirks p) {s : UState}
    (hi : Inv P p s) (hfit : ∀ c, p.cap = some c → s.ws ≤ c) {k : Nat} {e : UEntry}
    (he : AL.get? s.map k = some e) (hx : isExpiredEntry p s e s.now = false) :
    AL.get? (maintain p s).map k = some e ∧
      isExpiredEntry p (maintain p s) e (maintain p s).now = false := by
  obtain ⟨_, h2, h3⟩ := maintain_spec hq hi.inv
  have hk : AL.get? (maintain p s).map k = some e := by
    cases h : AL.get? (maintain p s).map k with
    | none =>
      have := maintain_only_expired hq hi hfit k e ⟨he, h⟩
      rw [hx] at this; cases this
    | some e' =>
      have := h2.sub k e' h
      rw [he] at this
      rw [Option.some.inj this]
  refine ⟨hk, ?_⟩
  simp only [isExpiredEntry, h2.la k e hk, h2.lm k e hk, h3.now]
  exact hx

/-- What the reference requires survives the maintenance. -/
theorem complete_maintain {P : Sketch → Prop} {p : Params} (hq : NoQuirks p) {s : UState}
    {r : Ref} (hi : Inv P p s) (hc : Coupled p s (toGhost r)) (hr : RefOk r)
    (hcomp : Complete p s r) (hfit : ∀ c, p.cap = some c → s.ws ≤ c) {k : Nat} {re : REntry}
    (hre : AL.get? r.ents k = some re) (hl : mustLive p.ttl p.tti r re = true) :
    ∃ e, AL.get? (maintain p s).map k = some e ∧ e.val = re.val ∧
      isExpiredEntry p (maintain p s) e (maintain p s).now = false := by
  obtain ⟨e, he⟩ := hcomp k re hre hl
  obtain ⟨hv, hx⟩ := live_entry hc hr hre hl he
  obtain ⟨h1, h2⟩ := kept_by_maintain hq hi hfit he hx
  exact ⟨e, h1, hv, h2⟩

/-! ### what the lookups return -/

theorem get_result {P : Sketch → Prop} (L : SketchLaws P) {p : Params} (hq : NoQuirks p)
    {s : UState} (hi : Inv P p s) {k : Nat} {e : UEntry}
    (he : AL.get? (maintain p s).map k = some e)
    (hx : isExpiredEntry p (maintain p s) e (maintain p s).now = false) :
    (get p s k).2 = some e.val := by
  obtain ⟨_, _, h3⟩ := maintain_spec hq hi.inv
  have hsk1 : P (maintain p s).sk := by rw [h3.sk]; exact hi.sk
  obtain ⟨sk', h4, _, _⟩ := sketchIncrement_spec L hq hsk1 (p.hash k)
  unfold get
  simp only [h4, he]
  cases hop : opTs p (maintain p s) with
  | none => rfl
  | some t =>
    obtain ⟨_, ht⟩ := opTs_some hop
    have : isExpiredEntry p { maintain p s with sk := sk' } e t = false := by
      rw [ht]; exact hx
    simp [this]

theorem get_some_resident (p : Params) (s : UState) (k : Nat) {v : Nat}
    (h : (get p s k).2 = some v) : ∃ e, AL.get? (maintain p s).map k = some e := by
  unfold get at h
  dsimp only at h
  rw [sketchIncrement_map] at h
  cases hg : AL.get? (maintain p s).map k with
  | none => simp [hg] at h
  | some e => exact ⟨e, rfl⟩

theorem containsKey_result {p : Params} {s : UState} {k : Nat} {e : UEntry}
    (he : AL.get? (maintain p s).map k = some e)
    (hx : isExpiredEntry p (maintain p s) e (maintain p s).now = false) :
    (containsKey p s k).2 = true := by
  unfold containsKey
  simp only [he]
  split
  · simp [hx]
  · rfl

theorem iter_mem {p : Params} {s : UState} {k : Nat} {e : UEntry}
    (he : AL.get? s.map k = some e) (hx : isExpiredEntry p s e s.now = false) :
    (k, e.val) ∈ sortBy (·.1) (iter p s) := by
  rw [mem_sortBy]
  simp only [iter, List.mem_map, List.mem_filter]
  exact ⟨(k, e), ⟨AL.mem_of_get? he, by simp [hx]⟩, rfl⟩

end Unsync
end MiniMoka

namespace MiniMoka
namespace Unsync

open Spec

/-! ### an insert with room loses nothing -/

theorem insert_keeps {P : Sketch → Prop} {p : Params} (hq : NoQuirks p) {s : UState}
    (hi : Inv P p s) (k v : Nat)
    (hfit : hasEnoughCapacity p (p.weigh k v) (maintain p s).ws = true) :
    (∃ e, AL.get? (insert p s k v).map k = some e) ∧
    (∀ k' e', AL.get? (maintain p s).map k' = some e' →
      ∃ e'', AL.get? (insert p s k v).map k' = some e'') := by
  cases hg : AL.get? (maintain p s).map k with
  | none =>
    obtain ⟨⟨e, h1, _⟩, h2⟩ := C03B_unsync_aux hq hi k v hg hfit
    refine ⟨⟨e, h1⟩, ?_⟩
    intro k' e' h
    obtain ⟨e'', h3, _⟩ := h2 k' e' h
    exact ⟨e'', h3⟩
  | some old =>
    rw [insert_map_of_resident hq hi.inv v hg]
    refine ⟨⟨_, AL.get?_put_self _ _ _⟩, ?_⟩
    intro k' e' h
    rw [AL.get?_put]
    by_cases hk : k = k'
    · exact ⟨_, by rw [if_pos hk]⟩
    · exact ⟨e', by rw [if_neg hk]; exact h⟩

/-- Weight an operation may add: the weight of the inserted entry. -/
def insW (p : Params) : Op → Nat
  | .ins k v => p.weigh k v
  | _ => 0

theorem insert_ws_le_add {p : Params} (hq : NoQuirks p) {s : UState} (hi : InvU p s) (k v : Nat) :
    (insert p s k v).ws ≤ s.ws + p.weigh k v := by
  obtain ⟨h1, _, _⟩ := maintain_spec hq hi
  have hle1 : (maintain p s).ws ≤ s.ws := maintain_ws_le hq hi
  unfold insert
  dsimp only
  cases hg : AL.get? (maintain p s).map k with
  | some old =>
    dsimp only
    obtain ⟨id, n, _, _, _, heq⟩ := handleUpdate_eq (entry := { val := v, weight := p.weigh k v })
      h1.struct hg (opTs p (maintain p s)) (p.weigh k v) (opTs_isSome p _)
    rw [heq]
    dsimp only
    cases old.wo with
    | none => simp only [touchAo]; omega
    | some wid =>
      dsimp only
      split
      · simp only [touchAo, touchWo]; omega
      · split <;> (simp only [touchAo]; omega)
  | none =>
    dsimp only
    rcases handleInsert_ws p
        { maintain p s with
          map := (AL.put (maintain p s).map k ({ val := v, weight := p.weigh k v } : UEntry)) }
        k (p.hash k) (p.weigh k v) (opTs p (maintain p s))
      with ⟨_, hws⟩ | ⟨_, hws⟩ | ⟨_, _, vw, _, hws⟩
    all_goals (rw [hws]; dsimp only; omega)

/-- `weighted_size` grows by at most the weight of what is inserted. -/
theorem step_ws_le_add {P : Sketch → Prop} (L : SketchLaws P) {p : Params} (hq : NoQuirks p)
    (hsm : SmallSketch p) {s : UState} (hi : Inv P p s) (op : Op) :
    (step p s op).1.ws ≤ s.ws + insW p op := by
  rw [step_state L hq hsm hi op]
  cases op with
  | ins k v => exact insert_ws_le_add hq hi.inv k v
  | get k => dsimp only [insW]; rw [get_ws]; exact maintain_ws_le hq hi.inv
  | has k => dsimp only [insW]; rw [containsKey_state]; exact maintain_ws_le hq hi.inv
  | iter => exact Nat.le_refl _
  | inv k => exact invalidate_ws_le hq hi k
  | invAll => simp [invalidateAll]
  | invIf pr => exact invalidateEntriesIf_ws_le hq hi pr
  | sync => exact Nat.le_refl _
  | adv d => exact Nat.le_refl _
  | snap => exact Nat.le_refl _
  | freq k => exact Nat.le_refl _

end Unsync
end MiniMoka

namespace MiniMoka
namespace Unsync

open Spec

/-! ### the two-way coupling and the step theorem -/

/-- Model state and reference agree: every resident is a live reference entry with the same
value and timestamps (`sound`), and every entry the reference requires is resident
(`complete`). -/
structure CoupledR (p : Params) (s : UState) (r : Ref) : Prop where
  sound : Coupled p s (toGhost r)
  ok : RefOk r
  complete : Complete p s r

theorem coupledR_init (p : Params) : CoupledR p {} {} :=
  ⟨init_coupled p, refOk_init, fun k re h => by simp at h⟩

/-- The per-observation check of `Spec.exactC03`. -/
def checkExact (ttl tti : Option Nat) (r : Ref) (op : Op) (obs : Obs) : Bool :=
  match op, obs with
  | .get k, .val res =>
    (match AL.get? r.ents k with
     | some e => !(mustLive ttl tti r e) || res == some e.val
     | none => true)
  | .has k, .bool b =>
    (match AL.get? r.ents k with
     | some e => !(mustLive ttl tti r e) || b
     | none => true)
  | .iter, .iter l =>
    r.ents.all fun ke => !(mustLive ttl tti r ke.2) || l.contains (ke.1, ke.2.val)
  | _, _ => true

theorem exactC03_cons (kind : Kind) (ttl tti : Option Nat) (r : Ref) (op : Op) (obs : Obs)
    (rest : Trace) :
    exactC03 kind ttl tti r ((op, obs) :: rest) =
      if stops obs then true
      else (checkExact ttl tti r op obs && exactC03 kind ttl tti (refStep kind r op obs) rest) := by
  conv => lhs; unfold exactC03
  rfl

theorem dead_not_mustLive {ttl tti : Option Nat} {r : Ref} {e : REntry} (h : e.alive = false) :
    mustLive ttl tti r e = false := by
  simp [mustLive, h]

/-- One step with room for what it inserts (`hroom`; vacuous without `max_capacity`): the
lookup returns everything the reference requires, and the coupling is re-established. -/
theorem step_exact {P : Sketch → Prop} (L : SketchLaws P) {p : Params} (hq : NoQuirks p)
    (hsm : SmallSketch p) {s : UState} {r : Ref} (hi : Inv P p s) (hcr : CoupledR p s r) (op : Op)
    (hroom : ∀ c, p.cap = some c → s.ws + insW p op ≤ c) :
    stops (step p s op).2 = true ∨
    (checkExact p.ttl p.tti r op (step p s op).2 = true ∧
      CoupledR p (step p s op).1 (refStep .unsync r op (step p s op).2)) := by
  have hfit : ∀ c, p.cap = some c → s.ws ≤ c := fun c hc => by have := hroom c hc; omega
  have hsound' : Coupled p (step p s op).1 (toGhost (refStep .unsync r op (step p s op).2)) := by
    rw [toGhost_refStep]; exact (step_coupled L hq hsm hi hcr.sound op).2
  have hok' := refOk_step hcr.ok op (step p s op).2
  suffices h : stops (step p s op).2 = true ∨
      (checkExact p.ttl p.tti r op (step p s op).2 = true ∧
        Complete p (step p s op).1 (refStep .unsync r op (step p s op).2)) by
    rcases h with h | ⟨h1, h2⟩
    · exact Or.inl h
    · exact Or.inr ⟨h1, ⟨hsound', hok', h2⟩⟩
  -- what the reference requires is still there after the maintenance
  have hkeep : ∀ k re, AL.get? r.ents k = some re → mustLive p.ttl p.tti r re = true →
      ∃ e, AL.get? (maintain p s).map k = some e ∧ e.val = re.val ∧
        isExpiredEntry p (maintain p s) e (maintain p s).now = false :=
    fun k re h1 h2 => complete_maintain hq hi hcr.sound hcr.ok hcr.complete hfit h1 h2
  rw [step_obs L hq hsm hi op, step_state L hq hsm hi op]
  cases op with
  | ins k v =>
    right
    refine ⟨rfl, ?_⟩
    dsimp only
    have hfitI : hasEnoughCapacity p (p.weigh k v) (maintain p s).ws = true := by
      unfold hasEnoughCapacity
      cases hc : p.cap with
      | none => rfl
      | some c =>
        have h1 := hroom c hc
        have h2 := maintain_ws_le hq hi.inv
        simp only [insW] at h1
        simp only [decide_eq_true_eq]
        omega
    obtain ⟨hk, hothers⟩ := insert_keeps hq hi k v hfitI
    intro k' re' hre' hl'
    simp only [refStep, AL.get?_put] at hre'
    by_cases hkk : k = k'
    · subst hkk; exact hk
    · rw [if_neg hkk] at hre'
      have hl : mustLive p.ttl p.tti r re' = true := hl'
      obtain ⟨e, he, _, _⟩ := hkeep k' re' hre' hl
      exact hothers k' e he
  | get k =>
    right
    dsimp only
    refine ⟨?_, ?_⟩
    · simp only [checkExact]
      cases hre : AL.get? r.ents k with
      | none => rfl
      | some re =>
        dsimp only
        by_cases hl : mustLive p.ttl p.tti r re = true
        · obtain ⟨e, he, hv, hx⟩ := hkeep k re hre hl
          rw [get_result L hq hi he hx, hv]
          simp
        · simp [hl]
    · intro k' re' hre' hl'
      rw [get_map]
      have hsame : ∀ (r' : Ref), r' = r → AL.get? r'.ents k' = some re' →
          mustLive p.ttl p.tti r' re' = true → ∃ e, AL.get? (maintain p s).map k' = some e := by
        intro r' hr' h1 h2
        subst hr'
        obtain ⟨e, he, _, _⟩ := hkeep k' re' h1 h2
        exact ⟨e, he⟩
      cases hres : (get p s k).2 with
      | none =>
        rw [hres] at hre' hl'
        exact hsame _ rfl hre' hl'
      | some v =>
        rw [hres] at hre' hl'
        simp only [refStep] at hre' hl'
        cases hre : AL.get? r.ents k with
        | none =>
          rw [hre] at hre' hl'
          exact hsame _ rfl hre' hl'
        | some re =>
          rw [hre] at hre' hl'
          dsimp only at hre' hl'
          by_cases hkk : k = k'
          · subst hkk; exact get_some_resident p s k hres
          · rw [AL.get?_put_ne _ hkk] at hre'
            have hl : mustLive p.ttl p.tti r re' = true := hl'
            exact hsame _ rfl hre' hl
  | has k =>
    right
    dsimp only
    refine ⟨?_, ?_⟩
    · simp only [checkExact]
      cases hre : AL.get? r.ents k with
      | none => rfl
      | some re =>
        dsimp only
        by_cases hl : mustLive p.ttl p.tti r re = true
        · obtain ⟨e, he, _, hx⟩ := hkeep k re hre hl
          rw [containsKey_result he hx]
          simp
        · simp [hl]
    · intro k' re' hre' hl'
      rw [containsKey_state]
      obtain ⟨e, he, _, _⟩ := hkeep k' re' hre' hl'
      exact ⟨e, he⟩
  | iter =>
    right
    dsimp only
    refine ⟨?_, hcr.complete⟩
    simp only [checkExact, List.all_eq_true]
    rintro ⟨k, re⟩ hmem
    have hre := AL.get?_of_mem hcr.ok.nodup hmem
    by_cases hl : mustLive p.ttl p.tti r re = true
    · obtain ⟨e, he⟩ := hcr.complete k re hre hl
      obtain ⟨hv, hx⟩ := live_entry hcr.sound hcr.ok hre hl he
      have := iter_mem he hx
      rw [hv] at this
      simp [this]
    · simp [hl]
  | inv k =>
    right
    refine ⟨rfl, ?_⟩
    dsimp only
    intro k' re' hre' hl'
    simp only [refStep, get?_mapEnts] at hre'
    cases hre : AL.get? r.ents k' with
    | none => rw [hre] at hre'; cases hre'
    | some re =>
      rw [hre] at hre'
      simp only [Option.map_some, Option.some.injEq] at hre'
      by_cases hkk : k' = k
      · have : re'.alive = false := by rw [← hre']; simp [hkk]
        rw [dead_not_mustLive this] at hl'; cases hl'
      · have hsame : re' = re := by rw [← hre']; simp [hkk]
        subst hsame
        have hl : mustLive p.ttl p.tti r re' = true := hl'
        obtain ⟨e, he, _, _⟩ := hkeep k' re' hre hl
        refine ⟨e, ?_⟩
        rw [invalidate_exact hq hi k k', if_neg (Ne.symm hkk)]
        exact he
  | invAll =>
    right
    refine ⟨rfl, ?_⟩
    dsimp only
    intro k' re' hre' hl'
    simp only [refStep, get?_mapEnts] at hre'
    cases hre : AL.get? r.ents k' with
    | none => rw [hre] at hre'; cases hre'
    | some re =>
      rw [hre] at hre'
      simp only [Option.map_some, Option.some.injEq] at hre'
      have : re'.alive = false := by rw [← hre']
      rw [dead_not_mustLive this] at hl'; cases hl'
  | invIf pr =>
    right
    refine ⟨rfl, ?_⟩
    dsimp only
    intro k' re' hre' hl'
    simp only [refStep, get?_mapEnts] at hre'
    cases hre : AL.get? r.ents k' with
    | none => rw [hre] at hre'; cases hre'
    | some re =>
      rw [hre] at hre'
      simp only [Option.map_some, Option.some.injEq] at hre'
      cases hpr : pr.eval k' re.val with
      | true =>
        have : re'.alive = false := by rw [← hre']; simp [hpr]
        rw [dead_not_mustLive this] at hl'; cases hl'
      | false =>
        have hsame : re' = re := by rw [← hre']; simp [hpr]
        subst hsame
        have hl : mustLive p.ttl p.tti r re' = true := hl'
        obtain ⟨e, he⟩ := hcr.complete k' re' hre hl
        obtain ⟨hv, _⟩ := live_entry hcr.sound hcr.ok hre hl he
        exact ⟨e, (invalidateEntriesIf_exact hq hi pr k' e).mpr ⟨he, by rw [hv]; exact hpr⟩⟩
  | sync => left; rfl
  | adv d =>
    right
    refine ⟨rfl, ?_⟩
    dsimp only
    intro k' re' hre' hl'
    have hl : mustLive p.ttl p.tti r re' = true :=
      mustLive_mono (r := r) (by simp [refStep]) hl'
    exact hcr.complete k' re' hre' hl
  | snap => right; exact ⟨rfl, hcr.complete⟩
  | freq k => right; exact ⟨rfl, hcr.complete⟩

end Unsync
end MiniMoka

namespace MiniMoka
namespace Unsync

open Spec

/-! ### lifting to traces -/

/-- Total weight inserted by a history. -/
def totalIns (p : Params) : List Op → Nat
  | [] => 0
  | op :: rest => insW p op + totalIns p rest

theorem totalInserted_run (p : Params) : ∀ (h : List Op) (s : UState),
    totalInserted p.weigh (run p s h) = totalIns p h := by
  intro h
  induction h with
  | nil => intro s; rfl
  | cons op rest ih =>
    intro s
    rw [run_cons]
    cases op <;> simp [totalInserted, totalIns, insW, ih]

/-- `exactC03` accepts every run of the model from coupled states, as long as the capacity (if
any) has room for everything the history still inserts. -/
theorem exactC03_run {P : Sketch → Prop} (L : SketchLaws P) {p : Params} (hq : NoQuirks p)
    (hsm : SmallSketch p) :
    ∀ (h : List Op) (s : UState) (r : Ref), Inv P p s → CoupledR p s r →
      (∀ c, p.cap = some c → s.ws + totalIns p h ≤ c) →
      exactC03 .unsync p.ttl p.tti r (run p s h) = true := by
  intro h
  induction h with
  | nil => intro s r _ _ _; rfl
  | cons op rest ih =>
    intro s r hi hcr hroom
    rw [run_cons, exactC03_cons]
    split
    · rfl
    · rename_i hns
      have hroom1 : ∀ c, p.cap = some c → s.ws + insW p op ≤ c := by
        intro c hc
        have := hroom c hc
        simp only [totalIns] at this
        omega
      rcases step_exact L hq hsm hi hcr op hroom1 with h | ⟨h1, h2⟩
      · exact absurd h hns
      · rw [Bool.and_eq_true]
        refine ⟨h1, ih _ _ (step_inv L hq hsm hi op) h2 ?_⟩
        intro c hc
        have h3 := hroom c hc
        have h4 := step_ws_le_add L hq hsm hi op
        simp only [totalIns] at h3
        omega

end Unsync
end MiniMoka
