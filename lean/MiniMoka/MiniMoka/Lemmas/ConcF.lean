/-
  Lemmas about `MiniMoka/ConcF.lean` (every map access of the application of an `Upsert` is
  its own step):
   * the steps of one operation executed back to back are `Sync.applyWrite`, hence every
     micro-step of `ConcM` is a path of `ConcF` and `ConcM ⊆ ConcF`;
   * the invariant of all reachable states (`FInv`).
-/
import MiniMoka.ConcF
import MiniMoka.Lemmas.ConcM

namespace MiniMoka
namespace ConcF

open Sync Sync.Nodes Sync.Counters ConcS ConcM

/-! ### one `Upsert`, step by step with nothing in between -/

inductive WPath (p : Params) (v : Variant) : SState × WPc → SState × Option WPc → Prop where
  | refl (s : SState) (pc : WPc) : WPath p v (s, pc) (s, some pc)
  | step {s s1 : SState} {pc pc1 : WPc} {r : SState × Option WPc} :
      wstep p v s pc = (s1, some pc1) → WPath p v (s1, pc1) r → WPath p v (s, pc) r
  | last {s s1 : SState} {pc : WPc} : wstep p v s pc = (s1, none) → WPath p v (s, pc) (s1, none)

theorem WPath.single {p : Params} {v : Variant} {s : SState} {pc : WPc}
    {r : SState × Option WPc} (h : wstep p v s pc = r) : WPath p v (s, pc) r := by
  obtain ⟨s1, o⟩ := r
  cases o with
  | none => exact WPath.last h
  | some pc1 => exact WPath.step h (WPath.refl _ _)

theorem WPath.trans {p : Params} {v : Variant} {a : SState × WPc} {b r : SState × Option WPc}
    (h1 : WPath p v a b) : ∀ {s1 : SState} {pc1 : WPc}, b = (s1, some pc1) →
      WPath p v (s1, pc1) r → WPath p v a r := by
  induction h1 with
  | refl s pc =>
    intro s1 pc1 e h2
    injection e with e1 e2
    injection e2 with e2
    subst e1; subst e2
    exact h2
  | step hm _ ih => intro s1 pc1 e h2; exact WPath.step hm (ih e h2)
  | last hm => intro s1 pc1 e _; injection e with _ e2; cases e2

/-- The admission scan, node by node, is `Sync.admitLoop`. -/
theorem wpath_scan (p : Params) (s : SState) (u : UOp) (nw cf : Nat) :
    ∀ (rest : List AoNode) (acc : Admission),
      WPath p .good (s, .scan u nw cf rest acc)
        (finishScan .good s u nw cf (admitLoop p s nw cf rest acc)) := by
  intro rest
  induction rest with
  | nil => intro acc; exact WPath.single rfl
  | cons n rest ih =>
    intro acc
    by_cases hc : acc.vw < nw ∧ ¬ cf < acc.vf
    · cases he : entryOfNode p s n.key n.info with
      | some ve =>
        have h1 : admitLoop p s nw cf (n :: rest) acc = admitLoop p s nw cf rest
            { acc with vw := acc.vw + (getInfo s ve.info).weight,
                       vf := acc.vf + s.sk.frequency n.hash,
                       victims := acc.victims ++ [n], retries := 0 } := by
          rw [admitLoop, if_pos hc, he]
        rw [h1]
        exact WPath.step (by simp only [wstep, if_pos hc, he]) (ih _)
      | none =>
        by_cases hr : acc.retries + 1 > Gen.MAX_CONSECUTIVE_RETRIES
        · have h1 : admitLoop p s nw cf (n :: rest) acc =
              { acc with skipped := acc.skipped ++ [n], retries := acc.retries + 1 } := by
            rw [admitLoop, if_pos hc, he]
            dsimp only
            rw [if_pos hr]
          rw [h1]
          exact WPath.single (by simp only [wstep, if_pos hc, he, if_pos hr])
        · have h1 : admitLoop p s nw cf (n :: rest) acc = admitLoop p s nw cf rest
              { acc with skipped := acc.skipped ++ [n], retries := acc.retries + 1 } := by
            rw [admitLoop, if_pos hc, he]
            dsimp only
            rw [if_neg hr]
          rw [h1]
          exact WPath.step (by simp only [wstep, if_pos hc, he, if_neg hr]) (ih _)
    · have h1 : admitLoop p s nw cf (n :: rest) acc = acc := by rw [admitLoop, if_neg hc]
      rw [h1]
      exact WPath.single (by simp only [wstep, if_neg hc])

/-- The eviction of the victims, one by one, then `handle_admit`, is the `Admitted` branch of
`handle_upsert`. -/
theorem wpath_victims (p : Params) (u : UOp) (nw : Nat) : ∀ (vs : List AoNode) (s : SState)
    (sk : List AoNode),
    WPath p .good (s, .victims u nw vs sk)
      (moveSkipped (removeVictims p vs s sk).2
        (handleAdmit p (removeVictims p vs s sk).1 u.key u.hash u.ve nw), none) := by
  intro vs
  induction vs with
  | nil => intro s sk; exact WPath.last rfl
  | cons n vs ih =>
    intro s sk
    cases hf : findAo s.prob n.id with
    | none =>
      have h1 : removeVictims p (n :: vs) s sk = removeVictims p vs (s.fail .useAfterFree) sk := by
        rw [removeVictims, hf]
      rw [h1]
      exact WPath.step (by simp only [wstep, hf]) (ih _ _)
    | some m =>
      cases he : entryOfNode p s n.key n.info with
      | some ve =>
        have h1 : removeVictims p (n :: vs) s sk =
            removeVictims p vs (handleRemove { s with map := AL.erase s.map n.key } ve) sk := by
          rw [removeVictims, hf]
          dsimp only
          rw [he]
        rw [h1]
        exact WPath.step (by simp only [wstep, hf, he]) (ih _ _)
      | none =>
        have h1 : removeVictims p (n :: vs) s sk = removeVictims p vs s (sk ++ [n]) := by
          rw [removeVictims, hf]
          dsimp only
          rw [he]
        rw [h1]
        exact WPath.step (by simp only [wstep, hf, he]) (ih _ _)

/-- The steps of one `Upsert`, executed back to back, are `Sync.handleUpsert`. -/
theorem wpath_upsert (p : Params) (s : SState) (u : UOp) :
    WPath p .good (s, .clearDirty u) (handleUpsert p s u.key u.hash u.ve u.oldW u.newW, none) := by
  unfold handleUpsert
  dsimp only
  have hcw : currentWeight p (withInfo s u.ve.info (fun i => { i with dirty := false })) u.key u.ve
      u.newW = currentWeight p s u.key u.ve u.newW := rfl
  refine WPath.step (pc1 := .readCurrent u) rfl (WPath.step (pc1 := .dispatch u _ _) rfl ?_)
  rw [hcw]
  generalize currentWeight p s u.key u.ve u.newW = nw
  generalize withInfo s u.ve.info (fun i => { i with dirty := false }) = s1
  by_cases c1 : (getInfo s1 u.ve.info).admitted = true
  · rw [if_pos c1]; exact WPath.last (by simp only [wstep, if_pos c1])
  · rw [if_neg c1]
    by_cases c2 : (!p.q.d7 && !isCurrentEntry s1 u.key u.ve) = true
    · rw [if_pos c2]; exact WPath.last (by simp only [wstep, if_neg c1, if_pos c2])
    · rw [if_neg c2]
      by_cases c3 : hasEnoughCapacity p nw s1 = true
      · rw [if_pos c3]; exact WPath.last (by simp only [wstep, if_neg c1, if_neg c2, if_pos c3])
      · rw [if_neg c3]
        by_cases c4 : tooBig p nw = true
        · rw [if_pos c4]
          exact WPath.last (by simp only [wstep, if_neg c1, if_neg c2, if_neg c3, if_pos c4])
        · rw [if_neg c4]
          refine WPath.step (s1 := s1) (pc1 := .scan u nw (s1.sk.frequency u.hash) s1.prob {})
            (by simp only [wstep, if_neg c1, if_neg c2, if_neg c3, if_neg c4]) ?_
          have hs := wpath_scan p s1 u nw (s1.sk.frequency u.hash) s1.prob {}
          unfold admitOrReject
          dsimp only
          generalize admitLoop p s1 nw (s1.sk.frequency u.hash) s1.prob {} = a at hs ⊢
          unfold finishScan at hs
          by_cases c5 : a.vw ≥ nw ∧ s1.sk.frequency u.hash > a.vf
          · rw [if_pos c5] at hs
            rw [if_pos c5]
            dsimp only at hs
            exact hs.trans rfl (wpath_victims p u nw a.victims s1 a.skipped)
          · rw [if_neg c5] at hs
            rw [if_neg c5]
            exact hs.trans rfl (WPath.last rfl)

/-! ### `ConcM` is contained in `ConcF` -/

/-- Micro-steps of one run of `ConcF` with nothing in between. -/
inductive FPath (p : Params) (v : Variant) (ex : Bool) :
    SState × Phase × Option WPc → SState × Option Phase × Option WPc → Prop where
  | refl (s : SState) (ph : Phase) (w : Option WPc) : FPath p v ex (s, ph, w) (s, some ph, w)
  | step {s s1 : SState} {ph ph1 : Phase} {w w1 : Option WPc}
      {r : SState × Option Phase × Option WPc} :
      fmicro p v ex s ph w = (s1, some ph1, w1) → FPath p v ex (s1, ph1, w1) r →
        FPath p v ex (s, ph, w) r
  | last {s s1 : SState} {ph : Phase} {w w1 : Option WPc} :
      fmicro p v ex s ph w = (s1, none, w1) → FPath p v ex (s, ph, w) (s1, none, w1)

theorem FPath.trans {p : Params} {v : Variant} {ex : Bool} {a : SState × Phase × Option WPc}
    {b r : SState × Option Phase × Option WPc} (h1 : FPath p v ex a b) :
    ∀ {s1 : SState} {ph1 : Phase} {w1 : Option WPc}, b = (s1, some ph1, w1) →
      FPath p v ex (s1, ph1, w1) r → FPath p v ex a r := by
  induction h1 with
  | refl s ph w =>
    intro s1 ph1 w1 e h2
    injection e with e1 e2
    injection e2 with e2 e3
    injection e2 with e2
    subst e1; subst e2; subst e3
    exact h2
  | step hm _ ih => intro s1 ph1 w1 e h2; exact FPath.step hm (ih e h2)
  | last hm => intro s1 ph1 w1 e _; injection e with _ e2; injection e2 with e2 _; cases e2

theorem fpath_of_wpath {p : Params} {v : Variant} {ex : Bool} {a : SState × WPc}
    {b : SState × Option WPc} (h : WPath p v a b) (ph : Phase) :
    FPath p v ex (a.1, ph, some a.2) (b.1, some ph, b.2) := by
  induction h with
  | refl s pc => exact FPath.refl _ _ _
  | step hm _ ih =>
    refine FPath.step ?_ ih
    simp only [fmicro, hm]
  | last hm =>
    refine FPath.step (ph1 := ph) (w1 := none) ?_ (FPath.refl _ _ _)
    simp only [fmicro, hm]

/-- Every micro-step of `ConcM` is a path of micro-steps of `ConcF`. -/
theorem fpath_of_micro (p : Params) (ex : Bool) (s : SState) (ph : Phase) :
    FPath p .good ex (s, ph, none) ((micro p ex s ph).1, (micro p ex s ph).2, none) := by
  have hsingle : fmicro p .good ex s ph none = ((micro p ex s ph).1, (micro p ex s ph).2, none) →
      FPath p .good ex (s, ph, none) ((micro p ex s ph).1, (micro p ex s ph).2, none) := by
    intro hm
    cases h2 : (micro p ex s ph).2 with
    | none => rw [h2] at hm; exact FPath.last hm
    | some ph1 => rw [h2] at hm; exact FPath.step hm (FPath.refl _ _ _)
  cases ph with
  | writes f n =>
    cases n with
    | zero => exact hsingle rfl
    | succ n =>
      cases hq : s.writeQ with
      | nil => exact hsingle (by simp only [fmicro, hq])
      | cons op rest =>
        cases op with
        | remove k ve => exact hsingle (by simp only [fmicro, hq])
        | upsert key hash ve oldW newW =>
          have hm : micro p ex s (.writes f (n + 1)) =
              (applyWrite p { s with writeQ := rest } (.upsert key hash ve oldW newW),
               some (.writes f n)) := by simp only [micro, hq]
          rw [hm]
          refine FPath.step (s1 := { s with writeQ := rest }) (ph1 := .writes f n)
            (w1 := some (.clearDirty ⟨key, hash, ve, oldW, newW⟩)) ?_ ?_
          · simp only [fmicro, hq, firstPc]
          · exact fpath_of_wpath (wpath_upsert p { s with writeQ := rest }
              ⟨key, hash, ve, oldW, newW⟩) (.writes f n)
  | reads f n => exact hsingle rfl
  | enable f => exact hsingle rfl
  | expireWo n => exact hsingle rfl
  | expireAo n => exact hsingle rfl
  | lru n wte ev => exact hsingle rfl
  | finish => exact hsingle rfl

theorem runEvs_append (p : Params) (v : Variant) (c : FState) (l1 l2 : List ConcM.Ev) :
    runEvs p v c (l1 ++ l2) = match runEvs p v c l1 with
      | some c' => runEvs p v c' l2
      | none => none := by
  induction l1 generalizing c with
  | nil => rfl
  | cons e l1 ih =>
    simp only [List.cons_append, runEvs]
    cases step p v c e with
    | none => rfl
    | some c' => exact ih c'

theorem runEvs_of_fpath {p : Params} {v : Variant} {ex : Bool} {a : SState × Phase × Option WPc}
    {b : SState × Option Phase × Option WPc} (h : FPath p v ex a b) (t : Tid)
    (pd : List (Tid × Pend)) :
    ∃ evs, runEvs p v ⟨a.1, pd, some ⟨t, ex, a.2.1, a.2.2⟩⟩ evs =
      some ⟨b.1, pd, b.2.1.map fun ph => ⟨t, ex, ph, b.2.2⟩⟩ := by
  induction h with
  | refl s ph w => exact ⟨[], rfl⟩
  | step hm _ ih =>
    obtain ⟨evs, he⟩ := ih
    refine ⟨.mStep t :: evs, ?_⟩
    simp only [runEvs, step, if_true, hm, Option.map_some]
    exact he
  | last hm =>
    refine ⟨[.mStep t], ?_⟩
    simp only [runEvs, step, if_true, hm, Option.map_none]

/-- The embedding of the states of `ConcM`: no `Upsert` half applied. -/
def embedM (c : MState) : FState :=
  ⟨c.s, c.pending, c.run.map fun r => ⟨r.tid, r.explicit, r.phase, none⟩⟩

/-- Every step of `ConcM` is a path of `ConcF`. -/
theorem path_of_concM_step (p : Params) {c c' : MState} (e : ConcM.Ev)
    (hs : ConcM.step p c e = some c') :
    ∃ evs, runEvs p .good (embedM c) evs = some (embedM c') := by
  cases e with
  | other e0 =>
    refine ⟨[.other e0], ?_⟩
    simp only [ConcM.step] at hs
    by_cases hpl : isPlain e0 = true
    · rw [if_pos hpl] at hs
      cases h0 : ConcS.step p ⟨c.s, c.pending⟩ e0 with
      | none => rw [h0] at hs; cases hs
      | some c1 =>
        rw [h0] at hs
        rw [← Option.some.inj hs]
        simp only [runEvs, step, if_pos hpl, embedM, h0, Option.map_some]
    · rw [if_neg hpl] at hs; cases hs
  | mBegin t ex =>
    refine ⟨[.mBegin t ex], ?_⟩
    simp only [ConcM.step] at hs
    cases hr : c.run with
    | some r =>
      rw [hr] at hs
      dsimp only at hs
      cases ex with
      | true => simp only [if_true] at hs; cases hs
      | false =>
        simp only [Bool.false_eq_true, if_false] at hs
        by_cases hrun : c.s.running = true
        · rw [if_pos hrun] at hs
          rw [← Option.some.inj hs]
          simp only [runEvs, step, embedM, hr, Option.map_some, Bool.false_eq_true, if_false,
            if_pos hrun]
        · rw [if_neg hrun] at hs; cases hs
    | none =>
      rw [hr] at hs
      dsimp only at hs
      rw [← Option.some.inj hs]
      simp only [runEvs, step, embedM, hr, Option.map_none, Option.map_some]
  | mStep t =>
    simp only [ConcM.step] at hs
    cases hr : c.run with
    | none => rw [hr] at hs; cases hs
    | some r =>
      rw [hr] at hs
      dsimp only at hs
      by_cases ht : r.tid = t
      · rw [if_pos ht] at hs
        rw [← Option.some.inj hs]
        obtain ⟨evs, he⟩ := runEvs_of_fpath (fpath_of_micro p r.explicit c.s r.phase) t c.pending
        refine ⟨evs, ?_⟩
        simp only [embedM, hr, Option.map_some, ht]
        rw [he]
        cases (micro p r.explicit c.s r.phase).2 <;> rfl
      · rw [if_neg ht] at hs; cases hs

theorem reach_of_runEvs {p : Params} : ∀ (evs : List ConcM.Ev) (c c' : FState), Reach p c →
    runEvs p .good c evs = some c' → Reach p c' := by
  intro evs
  induction evs with
  | nil => intro c c' hr h; simp only [runEvs] at h; rw [← Option.some.inj h]; exact hr
  | cons e rest ih =>
    intro c c' hr h
    simp only [runEvs] at h
    cases hs : step p .good c e with
    | none => rw [hs] at h; cases h
    | some c1 => rw [hs] at h; exact ih c1 c' (Reach.step e hr hs) h

/-- Every state reachable in `ConcM` is reachable in `ConcF`. -/
theorem reach_embedM {p : Params} {c : MState} (h : ConcM.Reach p c) : Reach p (embedM c) := by
  induction h with
  | init => exact Reach.init
  | step e _ hs ih =>
    obtain ⟨evs, he⟩ := path_of_concM_step p e hs
    exact reach_of_runEvs evs _ _ ih he

/-! ### the counters invariant when other threads act between the steps of one `Upsert`

The lemmas of `Lemmas/SyncCounters.lean` about `handle_upsert` take their side conditions (the
entry is the map's current one, the weight is the weigher applied to the current value) from
the *same* state.  With other threads acting between the lookup and the bookkeeping, the side
conditions are weaker: a newer value of the key has its own pending `Upsert`; an entry that
was invalidated meanwhile has a pending `Remove`. -/

/-- `CInv.step` with the three clauses that depend on the step given directly. -/
theorem _root_.MiniMoka.Sync.Counters.CInv.step' {p : Params} {s s' : SState} {Q : List WOp} (h : CInv p s Q)
    (hmap : ∀ k ve, AL.get? s'.map k = some ve → AL.get? s.map k = some ve)
    (hkey : ∀ j, (getInfo s' j).key = (getInfo s j).key)
    (hnext : s.nextId ≤ s'.nextId)
    (hprob : ∀ m, m ∈ s'.prob → m ∈ s.prob ∨ ((getInfo s m.info).key = m.key ∧
      ∀ k c, AL.get? s.map k = some c → c.info = m.info → m.kobj = c.slot))
    (hwo : ∀ m, m ∈ s'.wo → m ∈ s.wo ∨
      ∀ k c, AL.get? s.map k = some c → c.info = m.info → m.kobj = c.slot)
    (hnodeCur : ∀ n, n ∈ s'.prob →
      Cur s' n.info ∨ ∃ k ve, WOp.remove k ve ∈ Q ∧ ve.info = n.info)
    (hcur : ∀ k ve, AL.get? s'.map k = some ve → (∃ h o w, WOp.upsert k h ve o w ∈ Q) ∨
      ((getInfo s' ve.info).admitted = true ∧ (getInfo s' ve.info).weight = p.weigh k ve.val))
    (hdirty : ∀ k ve, AL.get? s'.map k = some ve → (getInfo s' ve.info).dirty = true →
      ∃ k' h v o w, WOp.upsert k' h v o w ∈ Q ∧ v.info = ve.info)
    (hws : s'.cws = wsumOf s') : CInv p s' Q where
  mapKey k ve hk := by rw [hkey]; exact h.mapKey k ve (hmap k ve hk)
  mapId k ve hk :=
    ⟨Nat.lt_of_lt_of_le (h.mapId k ve (hmap k ve hk)).1 hnext,
     Nat.lt_of_lt_of_le (h.mapId k ve (hmap k ve hk)).2 hnext⟩
  idInj k k' ve ve' hk hk' := h.idInj k k' ve ve' (hmap k ve hk) (hmap k' ve' hk')
  slotInj k k' ve ve' hk hk' := h.slotInj k k' ve ve' (hmap k ve hk) (hmap k' ve' hk')
  nodeKey n hn := by
    rw [hkey]
    rcases hprob n hn with h1 | h1
    · exact h.nodeKey n h1
    · exact h1.1
  nodeCur := hnodeCur
  cur := hcur
  remDead k ve hq := fun ⟨k', c, hc, hi⟩ => h.remDead k ve hq ⟨k', c, hmap k' c hc, hi⟩
  remBound k ve hq := Nat.lt_of_lt_of_le (h.remBound k ve hq) hnext
  upKey k hh ve o w hq := by
    rw [hkey]
    exact ⟨(h.upKey k hh ve o w hq).1, Nat.lt_of_lt_of_le (h.upKey k hh ve o w hq).2 hnext⟩
  upSlot k hh ve o w hq c hc := h.upSlot k hh ve o w hq c (hmap k c hc)
  probSlot n hn k c hc hi := by
    rcases hprob n hn with h1 | h1
    · exact h.probSlot n h1 k c (hmap k c hc) hi
    · exact h1.2 k c (hmap k c hc) hi
  woSlot n hn k c hc hi := by
    rcases hwo n hn with h1 | h1
    · exact h.woSlot n h1 k c (hmap k c hc) hi
    · exact h1 k c (hmap k c hc) hi
  dirtyQ := hdirty
  wsum := hws

/-- The update branch, when a newer value of the key may have been put meanwhile. -/
theorem applyUpdate_cinv' {p : Params} (hq : NoQuirks p) {s : SState} {Q : List WOp}
    (h : CInv p s Q) (hs : Safe s) (ve : VE) (oldW nw : Nat)
    (hadm : (getInfo s ve.info).admitted = true)
    (hw : ∀ k c, AL.get? s.map k = some c → c.info = ve.info →
      nw = p.weigh k c.val ∨ ∃ hh o w, WOp.upsert k hh c o w ∈ Q) :
    CInv p (applyUpdate p s ve oldW nw) Q ∧
      (applyUpdate p s ve oldW nw).map = s.map ∧
      (getInfo (applyUpdate p s ve oldW nw) ve.info).admitted = true ∧
      (getInfo (applyUpdate p s ve oldW nw) ve.info).weight = nw ∧
      (∀ j, (getInfo (applyUpdate p s ve oldW nw) j).dirty = true → (getInfo s j).dirty = true) := by
  have hd8 : p.q.d8 = false := by rw [hq]
  unfold applyUpdate
  simp only [hd8, Bool.false_eq_true, if_false]
  rw [subCounters_eq (Nat.zero_le _)]
  generalize hs3 : withInfo (addCounters
      ({ s with cec := s.cec - 0, cws := s.cws - (getInfo s ve.info).weight } : SState) 0 nw)
      ve.info (fun i => { i with weight := nw }) = s3
  have hg3 : ∀ j, getInfo s3 j =
      if ve.info = j then { getInfo s ve.info with weight := nw } else getInfo s j := by
    intro j
    rw [← hs3]
    simp only [getInfo_withInfo, getInfo_addCounters, getInfo_set_cec_cws]
  have hm3 : s3.map = s.map := by rw [← hs3]; rfl
  have hn3 : s3.nextId = s.nextId := by rw [← hs3]; rfl
  have hp3 : s3.prob = s.prob := by rw [← hs3]; rfl
  have hw3 : s3.wo = s.wo := by rw [← hs3]; rfl
  have hc3 : s3.cws = s.cws - (getInfo s ve.info).weight + nw := by rw [← hs3]; rfl
  have hO : ∀ j, j ≠ ve.info → getInfo s3 j = getInfo s j := by
    intro j hj; rw [hg3, if_neg (fun e => hj e.symm)]
  have hI : getInfo s3 ve.info = { getInfo s ve.info with weight := nw } := by
    rw [hg3, if_pos rfl]
  have hdir : ∀ j, (getInfo s3 j).dirty = (getInfo s j).dirty := by
    intro j
    by_cases e : j = ve.info
    · rw [e, hI]
    · rw [hO j e]
  have hc : CInv p s3 Q := by
    refine h.step' (fun k c hc => by rw [hm3] at hc; exact hc) ?_ (by rw [hn3]; exact Nat.le_refl _)
      (fun m hm => Or.inl (by rw [hp3] at hm; exact hm))
      (fun m hm => Or.inl (by rw [hw3] at hm; exact hm)) ?_ ?_ ?_ ?_
    · intro j
      by_cases e : j = ve.info
      · rw [e, hI]
      · rw [hO j e]
    · intro n hn
      rw [hp3] at hn
      rcases h.nodeCur n hn with h1 | h1
      · exact Or.inl (h1.same hm3)
      · exact Or.inr h1
    · intro k c hc
      rw [hm3] at hc
      rcases h.cur k c hc with h1 | h1
      · exact Or.inl h1
      · by_cases e : c.info = ve.info
        · rcases hw k c hc e with h2 | h2
          · refine Or.inr ?_
            rw [e, hI]
            rw [e] at h1
            exact ⟨h1.1, h2⟩
          · exact Or.inl h2
        · exact Or.inr (by rw [hO _ e]; exact h1)
    · intro k c hc hd
      rw [hm3] at hc
      rw [hdir] at hd
      exact h.dirtyQ k c hc hd
    · obtain ⟨id, hao⟩ := hs.adm_ao hadm
      obtain ⟨n, hn, _, hninfo⟩ := hs.aoNode _ _ hao
      rw [hc3, h.wsum]
      unfold wsumOf
      rw [hp3, sum_split hs.toNodesCore hn (fun j => (getInfo s3 j).weight),
        sum_split hs.toNodesCore hn (fun j => (getInfo s j).weight),
        sum_erase_congr hs.toNodesCore hn (fun j => (getInfo s j).weight)
          (fun j => (getInfo s3 j).weight) (fun j hj => by rw [hO j (by rw [← hninfo]; exact hj)]),
        hninfo, hI]
      simp only
      omega
  have hsame : Same s3 (moveToBackWoE (moveToBackAoE s3 ve.info) ve.info) :=
    (moveToBackAoE_same _ _).trans (moveToBackWoE_same _ _)
  refine ⟨hc.same hsame, hsame.map.trans hm3, ?_, ?_, ?_⟩
  · rw [hsame.adm, hI]; exact hadm
  · rw [hsame.weight, hI]
  · intro j hd
    have := hsame.dirty _ hd
    rw [hdir] at this; exact this

/-- `handle_admit` of an info that is the map's current one for `key`, or that has left the map
since it was looked up and awaits a `Remove`. -/
theorem handleAdmit_cinv' {p : Params} (hq : NoQuirks p) {s : SState} {Q : List WOp}
    (h : CInv p s Q) (hs : Safe s) (key : Nat) (hash : UInt64) (ve : VE) (w : Nat)
    (hkeyi : (getInfo s ve.info).key = key)
    (hna : (getInfo s ve.info).admitted = false)
    (hcur : (∃ c, AL.get? s.map key = some c ∧ c.info = ve.info ∧ c.slot = ve.slot) ∨
      ((∀ c, AL.get? s.map key = some c → c.info ≠ ve.info) ∧
        ∃ k' v, WOp.remove k' v ∈ Q ∧ v.info = ve.info)) :
    CInv p (handleAdmit p s key hash ve w) Q ∧
      (handleAdmit p s key hash ve w).map = s.map ∧
      (getInfo (handleAdmit p s key hash ve w) ve.info).admitted = true ∧
      (getInfo (handleAdmit p s key hash ve w) ve.info).weight = w ∧
      (∀ j, (getInfo (handleAdmit p s key hash ve w) j).dirty = (getInfo s j).dirty) := by
  have hd8 : p.q.d8 = false := by rw [hq]
  obtain ⟨r1, r2, r3, r4, r5, r6, r7, ⟨node, n1, n2, n3, n4⟩, r8, r9⟩ :=
    handleAdmit_spec hd8 s key hash ve w
  have hdir : ∀ j, (getInfo (handleAdmit p s key hash ve w) j).dirty = (getInfo s j).dirty := by
    intro j
    by_cases e : j = ve.info
    · rw [e, r7]
    · rw [r3 j e]
  refine ⟨?_, r1, r6, r5, hdir⟩
  have hatkey : ∀ k c', AL.get? s.map k = some c' → c'.info = ve.info → k = key := by
    intro k c' hc' hi
    rw [← h.mapKey k c' hc', hi, hkeyi]
  have hslot : ∀ k c', AL.get? s.map k = some c' → c'.info = ve.info → c'.slot = ve.slot := by
    intro k c' hc' hi
    have hk := hatkey k c' hc' hi
    subst hk
    rcases hcur with ⟨c, g1, g2, g3⟩ | ⟨g1, _⟩
    · rw [g1] at hc'
      rw [← Option.some.inj hc']; exact g3
    · exact absurd hi (g1 c' hc')
  have hne : ∀ m, m ∈ s.prob → m.info ≠ ve.info := by
    intro m hm e
    have := hs.probAdm hm
    rw [e, hna] at this; cases this
  refine h.step' (fun k c' hc' => by rw [r1] at hc'; exact hc') ?_ r2 ?_ ?_ ?_ ?_ ?_ ?_
  · intro j
    by_cases e : j = ve.info
    · rw [e, r4]
    · rw [r3 j e]
  · intro m hm
    rw [n4] at hm
    rcases List.mem_append.mp hm with h1 | h1
    · exact Or.inl h1
    · simp only [List.mem_singleton] at h1
      refine Or.inr ⟨by rw [h1, n2, n1]; exact hkeyi, ?_⟩
      intro k c' hc' hi
      rw [h1, n2] at hi
      rw [h1, n3, hslot k c' hc' hi]
  · intro m hm
    rcases r8 m hm with h1 | ⟨h1, h2⟩
    · exact Or.inl h1
    · refine Or.inr ?_
      intro k c' hc' hi
      rw [h1] at hi
      rw [h2, hslot k c' hc' hi]
  · intro n hn
    rw [n4] at hn
    rcases List.mem_append.mp hn with h1 | h1
    · rcases h.nodeCur n h1 with h2 | h2
      · exact Or.inl (h2.same r1)
      · exact Or.inr h2
    · simp only [List.mem_singleton] at h1
      rw [h1, n2]
      rcases hcur with ⟨c, g1, g2, _⟩ | ⟨_, g2⟩
      · exact Or.inl ⟨key, c, by rw [r1]; exact g1, g2⟩
      · exact Or.inr g2
  · intro k c' hc'
    rw [r1] at hc'
    rcases h.cur k c' hc' with h1 | h1
    · exact Or.inl h1
    · have : c'.info ≠ ve.info := by
        intro e
        rw [e, hna] at h1; cases h1.1
      exact Or.inr (by rw [r3 _ this]; exact h1)
  · intro k c' hc' hd
    rw [r1] at hc'
    rw [hdir] at hd
    exact h.dirtyQ k c' hc' hd
  · rw [r9, h.wsum]
    unfold wsumOf
    rw [n4, List.map_append, List.sum_append]
    simp only [List.map_cons, List.map_nil, List.sum_cons, List.sum_nil, Nat.add_zero]
    rw [n2, r5]
    have : s.prob.map (fun n => (getInfo (handleAdmit p s key hash ve w) n.info).weight) =
        s.prob.map (fun n => (getInfo s n.info).weight) :=
      List.map_congr_left (fun m hm => by rw [r3 _ (hne m hm)])
    rw [this]

/-- The queue loses the `Upsert` that has just been applied, when other threads may have acted
meanwhile: its own value entry, if still the map's, awaits another `Upsert` or is admitted with
the right weight; if the info is dirty (again), another `Upsert` of the info is pending. -/
theorem _root_.MiniMoka.Sync.Counters.CInv.dropUpsert' {p : Params} {s : SState} {Q : List WOp} {key : Nat} {hash : UInt64}
    {ve : VE} {oldW newW : Nat} (h : CInv p s (WOp.upsert key hash ve oldW newW :: Q))
    (hadm : AL.get? s.map key = some ve → (∃ hh o w, WOp.upsert key hh ve o w ∈ Q) ∨
      ((getInfo s ve.info).admitted = true ∧ (getInfo s ve.info).weight = p.weigh key ve.val))
    (hnd : (getInfo s ve.info).dirty = true →
      ∃ k' hh v o w, WOp.upsert k' hh v o w ∈ Q ∧ v.info = ve.info) :
    CInv p s Q where
  mapKey := h.mapKey
  mapId := h.mapId
  idInj := h.idInj
  slotInj := h.slotInj
  nodeKey := h.nodeKey
  nodeCur n hn := by
    rcases h.nodeCur n hn with h1 | ⟨k, v, hq, hi⟩
    · exact Or.inl h1
    · rcases List.mem_cons.mp hq with e | hq
      · cases e
      · exact Or.inr ⟨k, v, hq, hi⟩
  cur k c hk := by
    rcases h.cur k c hk with ⟨hh, o, w, hq⟩ | h1
    · rcases List.mem_cons.mp hq with e | hq
      · injection e with e1 _ e3
        subst e1; subst e3
        exact hadm hk
      · exact Or.inl ⟨hh, o, w, hq⟩
    · exact Or.inr h1
  remDead k v hq := h.remDead k v (List.mem_cons_of_mem _ hq)
  remBound k v hq := h.remBound k v (List.mem_cons_of_mem _ hq)
  upKey k hh v o w hq := h.upKey k hh v o w (List.mem_cons_of_mem _ hq)
  upSlot k hh v o w hq := h.upSlot k hh v o w (List.mem_cons_of_mem _ hq)
  probSlot := h.probSlot
  woSlot := h.woSlot
  dirtyQ k c hk hd := by
    obtain ⟨k', hh, v, o, w, hq, hi⟩ := h.dirtyQ k c hk hd
    rcases List.mem_cons.mp hq with e | hq
    · injection e with _ _ e3
      subst e3
      rw [← hi] at hd
      obtain ⟨k2, h2, v2, o2, w2, hq2, hi2⟩ := hnd hd
      exact ⟨k2, h2, v2, o2, w2, hq2, hi2.trans hi⟩
    · exact ⟨k', hh, v, o, w, hq, hi⟩
  wsum := h.wsum

end ConcF
end MiniMoka
